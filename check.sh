#!/bin/bash
# ./check.sh <Cxx> quick|thorough   |   ./check.sh <Cxx> --replay <file>
cd "$(dirname "$0")"
export PATH="$PATH:/opt/veriftools/lean/bin"
exec python3 check.py "$@" 2> >(grep -v 'conda.cli.condarc' >&2)
