#!/bin/bash
# one thorough pass over every claimed check on a private snapshot of the repository
export VERIF_REPO=${VP_RUN_REPO:-/repo}
./setup.sh >/dev/null 2>&1 || { echo "setup failed"; exit 2; }
ids=$(python3 -c "import json;print(' '.join(c['property_id'] for c in json.load(open('MANIFEST.json'))['checks']))")
for p in $ids; do
  t0=$(date +%s)
  out=$(./check.sh $p thorough 2>&1); rc=$?
  echo "$p rc=$rc $(( $(date +%s) - t0 ))s | $(echo "$out" | tail -1 | cut -c1-170)"
  if [ $rc -ne 0 ]; then echo "$out" | grep -v KNOWN | head -5; cat replays/$p-*.json 2>/dev/null | head -c 1200; echo; fi
done
