#!/usr/bin/env python3
"""Markdown table of the seeded changes under seeded/ and how the property's own quick check caught each one."""
import json, glob, os
rows = []
for d in sorted(glob.glob(os.path.join(os.path.dirname(os.path.dirname(os.path.abspath(__file__))), "seeded", "*"))):
    m = json.load(open(os.path.join(d, "meta.json")))
    r = m["result"]
    pid = m["breaks_property"]
    c = r["checks"].get(pid, {})
    how = "not caught"
    if r.get("caught_with_failing_input"):
        v = (c.get("replay") or {}).get("oracle_verdict", "") if isinstance(c.get("replay"), dict) else ""
        how = "VIOLATION with failing input (`%s`)" % v.split(" ")[0]
    elif r.get("caught_by_own_check"):
        nl = (c.get("replay") or {}).get("no_longer_checks", [""]) if isinstance(c.get("replay"), dict) else [""]
        how = "VIOLATION no-failing-input-found (%s)" % (nl[0][:60].replace("|", "/"))
    rows.append("| %s | %s | %s | %s | %s |" % (os.path.basename(d), pid, (m.get("summary") or "")[:150].replace("|", "/").replace("\n", " "),
                                          (m.get("needs_to_manifest") or "")[:110].replace("|", "/").replace("\n", " "), how))
print("| seed | property | change | needs to manifest | caught by the property's quick check |\n|---|---|---|---|---|")
print("\n".join(rows))
