#!/bin/bash
# which checks catch which seeded changes: every seeded/<id>/patch.diff x every claimed quick check,
# on a private snapshot of the repository (vp run --with-repo -- tools/matrix.sh)
export VERIF_REPO=${VP_RUN_REPO:?run under vp run --with-repo}
./setup.sh >/dev/null 2>&1 || { echo "setup failed"; exit 2; }
ids=$(python3 -c "import json;print(' '.join(c['property_id'] for c in json.load(open('MANIFEST.json'))['checks']))")
for d in seeded/*/; do
  s=$(basename $d)
  git -C $VERIF_REPO apply $d/patch.diff 2>/dev/null || { echo "$s: patch does not apply"; continue; }
  row="$s:"
  for p in $ids; do
    out=$(./check.sh $p quick 2>&1); rc=$?
    if [ $rc -eq 0 ]; then m="."; elif echo "$out" | grep -q "no-failing-input-found"; then m="o"; else m="X"; fi
    row="$row $p=$m"
  done
  echo "$row"
  git -C $VERIF_REPO checkout -- . ; git -C $VERIF_REPO clean -fdq
done
