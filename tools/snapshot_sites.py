#!/usr/bin/env python3
"""One-off: copies the currently generated site inventories (lean/Vflow/Gen/Sites.lean) into the committed
expectation lean/Vflow/Spec/Sites.lean. Run by hand after reviewing a legitimate change of the inventory
(never at check time)."""
import re, os
root = os.path.dirname(os.path.dirname(os.path.abspath(__file__)))
s = open(os.path.join(root, "lean/Vflow/Gen/Sites.lean")).read()
body = s[s.index("/-- every make"):s.index("end Vflow.Gen.Sites")]
open(os.path.join(root, "lean/Vflow/Spec/Sites.lean"), "w").write('''/-!
# Reviewed site inventories (committed by hand; see tools/snapshot_sites.py)

`allocSites`: every make / new / append / `&T{…}` composite literal (one fixed-size struct) of the decoder packages. Reviewed for C02: the only
allocations sized by a wire-derived value are `make([]byte, ipLen)` (4 or 16, validated),
`make([]byte, sh.HeaderLength+tmp)` (capped by the 1500-octet header limit), `make([]byte, l-8)`
(validated to 16 or 28 since the F5 repair) and `make([]byte, 3)`; every `append` adds one element
per parsed item, and parsing an item consumes at least one octet of the datagram.

`panicSites`: every index / slice / single-result type assertion of the files C01 is anchored in.
Each is covered in the model: reader slices are guarded by the length check (C19), cache shard
indexing `m[hash % 32]` by the usable-cache invariant (C11 `load_usable`), `(*b)[0]` and the
`binary.BigEndian` reads in `Interpret` by the `minLen` guard, the dissector's `p.data[i]` by the
guards proved in `Props/C01Sflow`, the `DataSets[i][j]` of the encoders by their `range` loops.

`guards*`: the control-flow skeleton of the hand-modelled decoders — every `if` / `for` / `range` / `switch case` /
`break` / `continue` of reader, ipfix, netflow v9, netflow v5, sflow and packet sources with its condition text, in
source order (plain `if err != nil` propagation is not a decision and is left out).  Each entry has its clause in
the model: the reader guards are `Rd.readN`'s length test (C19); `for d.reader.Len() > 4` is `outer`;
`setHeader.Length < 4` is `decodeSet`'s `badSetLen`; the set-id tests (`> 255`, `== 2 || == 3`, `>= 4 && <= 255`,
`== 0`; v9: `== 0 || == 1`) are `setBody`'s dispatch; the record-loop condition is `setLoop`'s `contCond`: since
the padding repair (F16) it compares the octets left in the set and in the datagram with `minLen`, the model's
`minLeft` — 5 (the former `> 4`) for template sets and ids up to 255, chosen by the second `SetID > 255` test, and
`TemplateRecord.minRecordLen` = `minRecLen` for data sets (its two `range` loops are the sum over scope ++ fields,
`f.Length == 65535` is `specMin`, `n < 1` the clamp to 1); `templateID == 0` /
`ReadCount() == recordStart` are the zero-template / zero-length-record stops of the F2 repair; `leftoverBytes > 0`
is `skipRest`; `ElementID > 0x8000` is `readSpec`'s enterprise test; the `i > 0; i--` loops are `readSpecs`;
`fieldSpecifierLen == 65535` (since the F23 repair without the former `(t == String || t == OctetArray) &&`: the marker
means variable length for an element of any type) / `len8 == 255` are `dataLen`; the two field loops and `!ok` are `decFields`;
`Version != …` / `Count < 1 || Count > 30` / `expectedLen > remainingLen` are the header validations; the sFlow
sample / record loops and format switches are `Sflow.samples` / `flowRecords` / `counterRecords`;
`HeaderLength > 1500`, `l != 16 && l != 28` are the F-series repairs' guards; of the F19 repairs, `len(sh.Header) > 0` is
`Sflow.readHdr`, (`d != nil` of the raw-header arm is gone with F33: the record is always stored) `rTypeLength != 16 && rTypeLength != 28`
with its `continue` the extended-router skip of `flowRecord` (the `buf[i]` of `FlowSample.unmarshal` index a fixed
3-octet buffer, the third `b[12]` of `decodeTCP` comes after the 20-octet test); the dissector length tests are the
guards proved sufficient in `Props/C01Sflow`; of these, `hlen < IPv4HLen` is the lower bound in `Packet.ihlOctets` and
`len(p.data) < hlen` the second test of `Packet.decodeIPv4` (F17 repair): it is the guard that covers the panic site
`slice p.data[hlen:]` (`from? d hlen`; `hlen` is 20 … 60), and the `index p.data[0]` that computes `hlen` comes after
the 20-octet test (`Packet.decodeIPv4_safe`).  A changed bound, a new branch or a reordered test changes the list
and breaks `guards_reviewed` in the property that owns the file (C19 reader, C03 ipfix, C06 v9, C08 v5, C07 sflow+packet).

`nonfatalIpfix` / `nonfatalV9` / `nonfatalV5` (F29 / F30): the declaration of `nonfatalError` in each of the three decoders
and every use of the identifier.  The declaration must be the struct wrapper `struct { error }`: as `type nonfatalError error`
(netflow/v9 until F4, netflow/v5 until F29) the type-switch case matches every error.  The constructions are the models' non-fatal
classes: IPFIX `unknownTpl`, `zeroRec`, `unknownElem` (scope / field loop) and, since the F30 repair, `emptyRec` ("failed to
decodeData") = `Ipfix.nonfatalErr`; NetFlow v9 `unknownElem` (twice), `unknownTpl`, `zeroRec` = `Err.nonfatal`; NetFlow v5 none —
`V5.decode` returns a message or an error, never both.  Obligations: `C09.nonfatal_reviewed`, `C08.v5_nonfatal_reviewed`.
-/
namespace Vflow.Spec.Sites

''' + body + "end Vflow.Spec.Sites\n")
print("snapshot written")
