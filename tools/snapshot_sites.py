#!/usr/bin/env python3
"""One-off: copies the currently generated site inventories (lean/Vflow/Gen/Sites.lean) into the committed
expectation lean/Vflow/Spec/Sites.lean. Run by hand after reviewing a legitimate change of the inventory
(never at check time)."""
import re, os
root = os.path.dirname(os.path.dirname(os.path.abspath(__file__)))
s = open(os.path.join(root, "lean/Vflow/Gen/Sites.lean")).read()
body = s[s.index("/-- every make"):s.index("end Vflow.Gen.Sites")]
open(os.path.join(root, "lean/Vflow/Spec/Sites.lean"), "w").write('''/-!
# Reviewed site inventories (committed by hand; see tools/snapshot_sites.py)

`allocSites`: every make / new / append of the decoder packages. Reviewed for C02: the only
allocations sized by a wire-derived value are `make([]byte, ipLen)` (4 or 16, validated),
`make([]byte, sh.HeaderLength+tmp)` (capped by the 1500-octet header limit), `make([]byte, l-8)`
(validated to 16 or 28 since the F5 repair) and `make([]byte, 3)`; every `append` adds one element
per parsed item, and parsing an item consumes at least one octet of the datagram.

`panicSites`: every index / slice / single-result type assertion of the files C01 is anchored in.
Each is covered in the model: reader slices are guarded by the length check (C19), cache shard
indexing `m[hash % 32]` by the usable-cache invariant (C11 `load_usable`), `(*b)[0]` and the
`binary.BigEndian` reads in `Interpret` by the `minLen` guard, the dissector's `p.data[i]` by the
guards proved in `Props/C01Sflow`, the `DataSets[i][j]` of the encoders by their `range` loops.
-/
namespace Vflow.Spec.Sites

''' + body + "end Vflow.Spec.Sites\n")
print("snapshot written")
