#!/usr/bin/env python3
"""resolve a merge conflict in known_findings.json: union of the entries of both sides (by id, ours first)"""
import json, subprocess, sys
def side(stage):
    return json.loads(subprocess.check_output(["git", "show", ":%d:known_findings.json" % stage], cwd="/verif"))
ours, theirs = side(2), side(3)
ids = [k["id"] for k in ours["findings"]]
for k in theirs["findings"]:
    if k["id"] not in ids:
        ours["findings"].append(k)
    else:
        i = ids.index(k["id"])
        base = side(1)["findings"]
        b = next((x for x in base if x["id"] == k["id"]), None)
        if b is not None and ours["findings"][i] == b and k != b:
            ours["findings"][i] = k       # changed only on their side
json.dump(ours, open("/verif/known_findings.json", "w"), indent=1)
print("merged:", [k["id"] for k in ours["findings"]])
