#!/usr/bin/env python3
"""Re-run the property's quick check against an already confirmed seeded change (seeded/<name>/patch.diff)
and update its meta.json.   tools/recheck_seed.py <name> [<name> …]"""
import json, os, shutil, subprocess, sys, time
ROOT = os.path.dirname(os.path.dirname(os.path.abspath(__file__)))


def sh(cmd, cwd, timeout=3600):
    p = subprocess.run(cmd, shell=True, cwd=cwd, capture_output=True, text=True, errors="replace", timeout=timeout)
    return p.returncode, p.stdout + p.stderr


for name in sys.argv[1:]:
    d = os.path.join(ROOT, "seeded", name)
    meta = json.load(open(os.path.join(d, "meta.json")))
    pid = meta["breaks_property"]
    rc, out = sh("git status --porcelain --untracked-files=no", "/repo")
    assert not out.strip(), "/repo has local modifications"
    try:
        rc, out = sh("git apply %s" % os.path.join(d, "patch.diff"), "/repo")
        assert rc == 0, out
        t0 = time.time()
        rc, out = sh("./check.sh %s quick" % pid, ROOT)
        vio = [l for l in out.split("\n") if l.startswith("VIOLATION")]
        res = {"exit": rc, "violation_line": vio[0] if vio else None, "summary": out.strip().split("\n")[-1][:300], "wall_s": round(time.time() - t0, 1)}
        if vio and "replay=" in vio[0]:
            try:
                r = json.load(open(vio[0].split("replay=")[1].split()[0]))
                res["replay"] = {"oracle_verdict": (r.get("oracle_verdict") or "")[:400], "kind": r.get("kind"),
                                 "session": [s[:300] for s in (r.get("session") or [])[-2:]],
                                 "no_longer_checks": [s[:300] for s in r.get("no_longer_checks", [])]}
            except Exception as e:
                res["replay"] = "unreadable: %r" % e
    finally:
        sh("git checkout -- . && git clean -fdq -- .", "/repo")
        shutil.rmtree(os.path.join(ROOT, "replays"), ignore_errors=True)
        sh("git checkout -- evidence", ROOT)
    meta["result"]["checks"][pid] = res
    meta["result"]["caught_by_own_check"] = rc == 1 and bool(vio)
    meta["result"]["caught_with_failing_input"] = meta["result"]["caught_by_own_check"] and "no-failing-input-found" not in (vio[0] if vio else "")
    json.dump(meta, open(os.path.join(d, "meta.json"), "w"), indent=1)
    print(name, pid, "exit", rc, vio[0] if vio else "", "|", res["summary"][:140])
