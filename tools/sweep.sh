#!/bin/bash
# seeds sweep of every claimed quick check on an unchanged snapshot of the repository (false-alarm hunt)
# usage (from a vp run --with-repo snapshot):  tools/sweep.sh "2 3 4 5"
export VERIF_REPO=${VP_RUN_REPO:-/repo}
./setup.sh >/dev/null 2>&1 || { echo "setup failed"; exit 2; }
ids=$(python3 -c "import json;print(' '.join(c['property_id'] for c in json.load(open('MANIFEST.json'))['checks']))")
for s in $1; do
  for p in $ids; do
    out=$(VERIF_SEED=$s ./check.sh $p quick 2>&1)
    rc=$?
    echo "seed=$s $p rc=$rc $(echo "$out" | grep -c '^VIOLATION') violations | $(echo "$out" | tail -1 | cut -c1-160)"
    if [ $rc -ne 0 ]; then echo "$out" | grep VIOLATION; cat replays/$p-$s-0.json 2>/dev/null | head -c 1500; echo; fi
  done
done
