#!/usr/bin/env python3
"""Evaluate a seeded change produced by an independent mutation author.

  tools/eval_seed.py <Cxx> <out-dir-of-the-author> [--name <seed-name>] [--all]

1. confirm, in a scratch worktree of /repo (outside /repo and /verif): the patch applies, the tree builds,
   the baseline test suite still passes, the author's demonstration FAILS with the patch and PASSES without;
2. apply the patch to /repo, run the property's quick check (with --all: every claimed check), undo the patch;
3. keep the change under /verif/seeded/<name>/ (patch.diff, demo, meta.json incl. what was run and what each check said).
Never commits anything to /repo.
"""
import json, os, shutil, subprocess, sys, time

ROOT = os.path.dirname(os.path.dirname(os.path.abspath(__file__)))
ENV = dict(os.environ, GOFLAGS="-mod=mod", GOPROXY="off", GOSUMDB="off", GOTOOLCHAIN="local")
BASELINE = "go test -vet=off -count=1 ./ipfix/ ./netflow/... ./sflow/ ./packet/ ./reader/ ./mirror/ ./producer/ ./stress/..."


def sh(cmd, cwd, timeout=1800):
    p = subprocess.run(cmd, shell=True, cwd=cwd, env=ENV, capture_output=True, text=True, errors="replace", timeout=timeout)
    return p.returncode, (p.stdout + p.stderr)


def main():
    pid, src = sys.argv[1], sys.argv[2]
    name = pid
    if "--name" in sys.argv:
        name = sys.argv[sys.argv.index("--name") + 1]
    run_all = "--all" in sys.argv
    patch = os.path.join(src, "patch.diff")
    meta = json.load(open(os.path.join(src, "meta.json")))
    # the file may hold several commands and comments: it fails as soon as one command fails
    demo_cmd = "set -e\n" + open(os.path.join(src, "demo_cmd.txt")).read().strip()
    report = {"property": pid, "author_meta": meta, "ran": []}

    # 1. scratch worktree
    wt = "/tmp/evalwt-%s-%d" % (name, os.getpid())
    sh("git -C /repo worktree add -q --detach %s HEAD" % wt, "/")
    try:
        rc, out = sh("git apply --check %s && git apply %s" % (patch, patch), wt)
        report["patch_applies"] = rc == 0
        if rc != 0:
            report["error"] = out[-400:]
            print(json.dumps(report, indent=1))
            return 2
        rc, out = sh("go build ./...", wt)
        report["builds"] = rc == 0
        rc, out = sh(BASELINE, wt)
        report["baseline_passes_with_patch"] = rc == 0
        if rc != 0:
            report["baseline_output"] = out[-600:]
        # the demonstration: every untracked file of the author's worktree (outside out/), same relative path
        author_wt = os.path.dirname(os.path.abspath(src))
        rc, untracked = sh("git ls-files --others --exclude-standard", author_wt)
        demo_files = [f for f in untracked.split("\n") if f and not f.startswith("out/")]
        for f in demo_files:
            os.makedirs(os.path.dirname(os.path.join(wt, f)) or wt, exist_ok=True)
            shutil.copy(os.path.join(author_wt, f), os.path.join(wt, f))
        report["demo_files"] = demo_files
        # helper scripts the demo command may refer to live in the author's out/ directory
        shutil.copytree(src, os.path.join(wt, "out"), dirs_exist_ok=True)
        rc1, out1 = sh(demo_cmd, wt)
        report["demo_fails_with_patch"] = rc1 != 0
        report["demo_with_patch_tail"] = out1[-300:]
        sh("git apply -R %s" % patch, wt)
        rc2, out2 = sh(demo_cmd, wt)
        report["demo_passes_without_patch"] = rc2 == 0
        report["demo_without_patch_tail"] = out2[-300:]
    finally:
        sh("git -C /repo worktree remove --force %s" % wt, "/")
    report["confirmed"] = bool(report.get("builds") and report.get("baseline_passes_with_patch") and
                               report.get("demo_fails_with_patch") and report.get("demo_passes_without_patch"))

    # 2. the checks against the patched /repo
    rc, out = sh("git status --porcelain --untracked-files=no", "/repo")
    if out.strip():
        print("refusing: /repo has local modifications:\n" + out)
        return 2
    checks = [pid]
    if run_all:
        man = json.load(open(os.path.join(ROOT, "MANIFEST.json")))
        checks = [c["property_id"] for c in man["checks"]]
        checks.remove(pid)
        checks.insert(0, pid)
    results = {}
    try:
        rc, out = sh("git apply %s" % patch, "/repo")
        assert rc == 0, out
        for c in checks:
            t0 = time.time()
            rc, out = sh("./check.sh %s quick" % c, ROOT, timeout=3600)
            vio = [l for l in out.split("\n") if l.startswith("VIOLATION")]
            results[c] = {"exit": rc, "violation_line": vio[0] if vio else None, "summary": out.strip().split("\n")[-1][:300], "wall_s": round(time.time() - t0, 1)}
            if vio and "replay=" in vio[0]:
                rp = vio[0].split("replay=")[1].split()[0]
                try:
                    d = json.load(open(rp))
                    results[c]["replay"] = {k: (v if not isinstance(v, list) else v[-2:]) for k, v in d.items() if k in ("oracle_verdict", "no_longer_checks", "session", "kind", "no_failing_input_found")}
                    for k in ("oracle_verdict",):
                        if k in results[c]["replay"]:
                            results[c]["replay"][k] = results[c]["replay"][k][:400]
                    if "session" in results[c]["replay"]:
                        results[c]["replay"]["session"] = [s[:300] for s in results[c]["replay"]["session"]]
                    if "no_longer_checks" in results[c]["replay"]:
                        results[c]["replay"]["no_longer_checks"] = [s[:300] for s in results[c]["replay"]["no_longer_checks"]]
                except Exception as e:
                    results[c]["replay"] = "unreadable: %r" % e
    finally:
        sh("git checkout -- . && git clean -fdq -- . ", "/repo")
        shutil.rmtree(os.path.join(ROOT, "replays"), ignore_errors=True)
        sh("git checkout -- evidence", ROOT)     # evidence written against a seeded tree is never kept
    report["checks"] = results
    report["caught_by_own_check"] = results[pid]["exit"] == 1 and results[pid]["violation_line"] is not None
    report["caught_with_failing_input"] = report["caught_by_own_check"] and "no-failing-input-found" not in (results[pid]["violation_line"] or "")

    # 3. keep it
    if report["confirmed"]:
        dst = os.path.join(ROOT, "seeded", name)
        os.makedirs(dst, exist_ok=True)
        shutil.copy(patch, os.path.join(dst, "patch.diff"))
        shutil.copy(os.path.join(src, "demo_cmd.txt"), os.path.join(dst, "demo_cmd.txt"))
        author_wt = os.path.dirname(os.path.abspath(src))
        for f in report.get("demo_files", []):
            os.makedirs(os.path.join(dst, "demo", os.path.dirname(f)), exist_ok=True)
            shutil.copy(os.path.join(author_wt, f), os.path.join(dst, "demo", f))
        json.dump({"breaks_property": pid, "summary": meta.get("summary"), "needs_to_manifest": meta.get("needs_to_manifest"),
                   "files_changed": meta.get("files_changed"), "author": "independent sub-agent given only the property text and a scratch worktree",
                   "confirmed_by": "tools/eval_seed.py: patch applies, go build ./..., baseline suite passes with the patch, demo fails with / passes without the patch (scratch worktree)",
                   "ran": {"baseline": BASELINE, "demo": demo_cmd, "checks": {c: "./check.sh %s quick" % c for c in checks}},
                   "result": report}, open(os.path.join(dst, "meta.json"), "w"), indent=1)
    print(json.dumps({k: report[k] for k in ("confirmed", "caught_by_own_check", "caught_with_failing_input")}, indent=None))
    for c, r in results.items():
        print(" ", c, "exit", r["exit"], r["violation_line"] or "", "|", r["summary"][:160])
    if results[pid].get("replay"):
        print("  replay:", json.dumps(results[pid]["replay"])[:900])
    return 0


if __name__ == "__main__":
    sys.exit(main())
