#!/usr/bin/env python3
"""resolve every conflict hunk of a text file by keeping both sides (ours, then theirs) — for files where both
sides only ADD rows / paragraphs at the same place (DESIGN.md tables).  usage: merge_both.py <file>"""
import re, sys
p = sys.argv[1]
s = open(p).read()
pat = re.compile(r"<<<<<<< [^\n]*\n(.*?)=======\n(.*?)>>>>>>> [^\n]*\n", re.S)
n = len(pat.findall(s))
s = pat.sub(lambda m: m.group(1) + m.group(2), s)
open(p, "w").write(s)
print("kept both sides of %d hunk(s) in %s" % (n, p))
