package main

// interp: ipfix.Interpret called directly — every FieldType x every field length around the type's size
// and around 8 octets x boundary contents. The decoders reach the signed / float32 arms only through the
// harness's enterprise elements; this kind ties the whole function (and, since the F24 repair, wideUint /
// wideInt with their sign extension) to Vflow.interpret, with expectVal — written from the data types'
// definitions — as the model-independent oracle.
//
//	case line: interp <FieldType index> <hex octets>	<expected canonical value>

import (
	"bufio"
	"fmt"
	"math/rand"
	"strconv"
	"strings"

	"github.com/EdgeCast/vflow/ipfix"
)

func init() { kinds["interp"] = &kind{gen: genInterp, run: runInterp} }

const interpTypes = 23 // 0 (Unknown) .. 20 (ipv6Address), and two indices beyond the iota block

func interpPattern(r *rand.Rand, n, k int) []byte {
	b := make([]byte, n)
	switch k {
	case 0: // all zero
	case 1:
		for i := range b {
			b[i] = 0xff
		}
	case 2: // most negative: 80 00 …
		if n > 0 {
			b[0] = 0x80
		}
	case 3: // most positive: 7f ff …
		for i := range b {
			b[i] = 0xff
		}
		if n > 0 {
			b[0] = 0x7f
		}
	case 4: // the value 1 … 7 in the LAST octet (what an over-long counter looks like)
		if n > 0 {
			b[n-1] = byte(1 + r.Intn(7))
		}
	case 5: // only the first octet set
		if n > 0 {
			b[0] = byte(1 + r.Intn(255))
		}
	default:
		return rndBytes(r, n)
	}
	return b
}

func genInterp(r *rand.Rand, n int, w *bufio.Writer) {
	emit := func(t int, b []byte) {
		fmt.Fprintf(w, "interp %d %s\t%s\n", t, hx(b), expectVal(b, ipfix.FieldType(t)))
	}
	emitted := 0
	// systematic part: every type x every length 0..18 x the six boundary patterns
	for t := 0; t < interpTypes && emitted < n; t++ {
		for l := 0; l <= 18 && emitted < n; l++ {
			for k := 0; k < 6 && emitted < n; k++ {
				emit(t, interpPattern(r, l, k))
				emitted++
			}
		}
	}
	for ; emitted < n; emitted++ {
		t := r.Intn(interpTypes)
		l := r.Intn(21)
		if r.Intn(3) == 0 {
			l = adts[ipfix.FieldType(t)].size + r.Intn(4) - 1
			if l < 0 {
				l = 0
			}
		}
		emit(t, interpPattern(r, l, r.Intn(9)))
	}
}

func runInterp(st *state, line, expect string) (string, string) {
	f := strings.Fields(line)
	t, _ := strconv.Atoi(f[1])
	b := unhx(f[2])
	in := append([]byte{}, b...)
	got := valText(ipfix.Interpret(&b, ipfix.FieldType(t)))
	switch {
	case string(in) != string(b):
		return got, "fail:interpret changed the field's octets"
	case expect != "" && got != expect:
		return got, "fail:value field of type " + f[1] + " with octets " + f[2] + ": want " + expect + " got " + got
	}
	return got, "ok"
}
