package main

// C08: NetFlow v5. Abstract packet (header values, flow values) -> octets by the harness's own
// encoder (Cisco layout); the real decoder must return exactly those values and the real JSON must
// parse back to them (addresses dotted). Malformed stream: other versions, counts 0 / 31.., short datagrams.

import (
	"bufio"
	"bytes"
	"encoding/json"
	"fmt"
	"math/rand"
	"net"
	"strconv"
	"strings"

	netflow5 "github.com/EdgeCast/vflow/netflow/v5"
)

func init() { kinds["nf5"] = &kind{gen: genNF5, run: runNF5} }

var v5HdrW = []int{2, 2, 4, 4, 4, 4, 1, 1, 2}
var v5RecW = []int{4, 4, 4, 2, 2, 4, 4, 4, 4, 2, 2, 1, 1, 1, 1, 2, 2, 1, 1, 2}
var v5HdrN = []string{"Version", "Count", "SysUpTimeMSecs", "UNIXSecs", "UNIXNSecs", "SeqNum", "EngType", "EngID", "SmpInt"}
var v5RecN = []string{"SrcAddr", "DstAddr", "NextHop", "Input", "Output", "PktCount", "L3Octets", "StartTime", "EndTime", "SrcPort", "DstPort",
	"Padding1", "TCPFlags", "ProtType", "Tos", "SrcAsNum", "DstAsNum", "SrcMask", "DstMask", "Padding2"}

func rndVal(r *rand.Rand, w int) uint64 {
	max := uint64(1)<<(8*uint(w)) - 1
	switch r.Intn(6) {
	case 0:
		return 0
	case 1:
		return max
	case 2:
		return uint64(r.Intn(256))
	}
	return r.Uint64() & max
}

func encVals(ws []int, vs []uint64) []byte {
	var b []byte
	for i, w := range ws {
		for k := w - 1; k >= 0; k-- {
			b = append(b, byte(vs[i]>>(8*uint(k))))
		}
	}
	return b
}

func joinU(vs []uint64) string {
	s := make([]string, len(vs))
	for i, v := range vs {
		s[i] = strconv.FormatUint(v, 10)
	}
	return strings.Join(s, " ")
}

func genNF5(r *rand.Rand, n int, w *bufio.Writer) {
	for i := 0; i < n; i++ {
		addr := exporterAddrs[r.Intn(len(exporterAddrs))]
		h := make([]uint64, len(v5HdrW))
		for j, wd := range v5HdrW {
			h[j] = rndVal(r, wd)
		}
		h[0] = 5
		cnt := 1 + r.Intn(30)
		switch r.Intn(12) {
		case 0:
			cnt = 0
		case 1:
			cnt = 31 + r.Intn(5)
		case 2:
			cnt = []int{1, 30, 29, 2}[r.Intn(4)]
		}
		h[1] = uint64(cnt)
		if r.Intn(25) == 0 {
			h[0] = uint64(r.Intn(12))
		}
		nrec := cnt
		wf := h[0] == 5 && cnt >= 1 && cnt <= 30
		short := false
		switch r.Intn(10) {
		case 0: // fewer records than announced
			if nrec > 0 {
				nrec = r.Intn(nrec)
				short = true
			}
		case 1: // more records than announced (trailing octets)
			nrec += 1 + r.Intn(3)
		}
		msg := encVals(v5HdrW, h)
		var flows [][]uint64
		for k := 0; k < nrec; k++ {
			f := make([]uint64, len(v5RecW))
			for j, wd := range v5RecW {
				f[j] = rndVal(r, wd)
			}
			flows = append(flows, f)
			msg = append(msg, encVals(v5RecW, f)...)
		}
		switch r.Intn(12) {
		case 0: // cut anywhere
			k := r.Intn(len(msg) + 1)
			if k < 24+48*cnt {
				short = true
			}
			msg = msg[:k]
		case 1: // trailing octets
			msg = append(msg, rndBytes(r, 1+r.Intn(60))...)
		case 2, 3: // the last announced record 1..47 octets short
			if k := 24 + 48*cnt - 1 - r.Intn(47); wf && k <= len(msg) {
				msg = msg[:k]
			}
		}
		exp := "noflows"
		_ = short
		if wf && len(msg) >= 24+48*cnt {
			// the announced number of 48-octet records is present: exactly those, big-endian, in wire order
			var sb strings.Builder
			sb.WriteString("msg " + joinU(h) + " err=- flows=")
			for k := 0; k < cnt; k++ {
				rec := msg[24+48*k : 24+48*(k+1)]
				f := make([]uint64, len(v5RecW))
				o := 0
				for j, wd := range v5RecW {
					f[j] = beU(rec[o : o+wd])
					o += wd
				}
				sb.WriteString("[" + joinU(f) + "]")
			}
			exp = sb.String()
		}
		fmt.Fprintf(w, "nf5 %s %s\t%s\n", hx(addr), hx(msg), exp)
	}
}

func runNF5(st *state, line, expect string) (string, string) {
	f := strings.Fields(line)
	addr, dg := unhx(f[1]), unhx(f[2])
	m, err := netflow5.NewDecoder(net.IP(addr), dg).Decode()
	if m == nil {
		cls := "other"
		switch e := err.Error(); {
		case strings.Contains(e, "can not read"):
			cls = "short"
		case strings.Contains(e, "invalid netflow version"):
			cls = "badver"
		case strings.Contains(e, "flow count out of bounds"):
			cls = "badcount"
		case strings.Contains(e, "remaining bytes encountered"):
			cls = "shortflows" // fewer octets than the header announces: rejected as a whole since the F29 repair
		}
		v := "ok"
		if expect != "noflows" && expect != "-" {
			v = "fail:roundtrip well-formed packet rejected: " + err.Error()
		}
		return "nil " + cls, v
	}
	h := m.Header
	hv := []uint64{uint64(h.Version), uint64(h.Count), uint64(h.SysUpTimeMSecs), uint64(h.UNIXSecs), uint64(h.UNIXNSecs), uint64(h.SeqNum), uint64(h.EngType), uint64(h.EngID), uint64(h.SmpInt)}
	var sb strings.Builder
	ec := "-"
	if err != nil {
		ec = "other"
		if strings.Contains(err.Error(), "remaining bytes encountered") {
			ec = "shortflows"
		} else if strings.Contains(err.Error(), "can not read") {
			ec = "short"
		}
	}
	sb.WriteString("msg " + joinU(hv) + " err=" + ec + " flows=")
	var fvs [][]uint64
	for _, r := range m.Flows {
		fv := []uint64{uint64(r.SrcAddr), uint64(r.DstAddr), uint64(r.NextHop), uint64(r.Input), uint64(r.Output), uint64(r.PktCount), uint64(r.L3Octets),
			uint64(r.StartTime), uint64(r.EndTime), uint64(r.SrcPort), uint64(r.DstPort), uint64(r.Padding1), uint64(r.TCPFlags), uint64(r.ProtType), uint64(r.Tos),
			uint64(r.SrcAsNum), uint64(r.DstAsNum), uint64(r.SrcMask), uint64(r.DstMask), uint64(r.Padding2)}
		fvs = append(fvs, fv)
		sb.WriteString("[" + joinU(fv) + "]")
	}
	dec := sb.String()
	jb, jerr := m.JSONMarshal(new(bytes.Buffer))
	out := dec
	if jerr != nil {
		out += " json=ERR"
	} else {
		out += " json=" + hx(jb)
	}
	verdict := "ok"
	switch {
	case err != nil:
		// v5 has no partially decodable packet: a packet is decoded or rejected. A message handed out together with an
		// error is counted by the worker as decoded (`decodedMsg != nil`) although the decode failed (C13, F29)
		verdict = "fail:decoded-and-failed Decode returned a message together with the error \"" + err.Error() + "\": the worker counts the datagram as decoded although Decode failed"
	case expect == "noflows" && len(m.Flows) > 0:
		verdict = fmt.Sprintf("fail:reject %d flows from a packet that must yield none", len(m.Flows))
	case expect != "noflows" && expect != "-" && dec != expect:
		verdict = "fail:roundtrip decoded packet differs from the abstract packet: want " + clip(expect, 300) + " got " + clip(dec, 300)
	case jerr != nil:
		verdict = "fail:json JSONMarshal error " + jerr.Error()
	default:
		if v := checkV5JSON(jb, net.IP(addr).String(), hv, fvs); v != "" {
			verdict = "fail:json " + v
		}
	}
	return out, verdict
}

// the JSON must be valid and parse back to the decoded values, addresses in dotted form
func checkV5JSON(jb []byte, agent string, hv []uint64, fvs [][]uint64) string {
	if !json.Valid(jb) {
		return "not valid JSON: " + clip(string(jb), 200)
	}
	if bytes.IndexByte(jb, '\n') >= 0 {
		return "the payload holds a raw line feed: the line-framed sink receives it as several lines"
	}
	var doc struct {
		AgentID string
		Header  map[string]json.Number
		Flows   []map[string]interface{}
	}
	d := json.NewDecoder(bytes.NewReader(jb))
	d.UseNumber()
	if err := d.Decode(&doc); err != nil {
		return "does not parse: " + err.Error()
	}
	if doc.AgentID != agent {
		return "AgentID " + doc.AgentID + " want " + agent
	}
	for i, n := range v5HdrN {
		if doc.Header[n].String() != strconv.FormatUint(hv[i], 10) {
			return "Header." + n + " = " + doc.Header[n].String() + " want " + strconv.FormatUint(hv[i], 10)
		}
	}
	if len(doc.Flows) != len(fvs) {
		return fmt.Sprintf("%d flows in JSON, %d decoded", len(doc.Flows), len(fvs))
	}
	for k, fl := range doc.Flows {
		for i, n := range v5RecN {
			want := strconv.FormatUint(fvs[k][i], 10)
			if i < 3 {
				v := fvs[k][i]
				want = fmt.Sprintf("%d.%d.%d.%d", v>>24, (v>>16)&255, (v>>8)&255, v&255)
			}
			got := fmt.Sprint(fl[n])
			if got != want {
				return fmt.Sprintf("Flows[%d].%s = %s want %s", k, n, got, want)
			}
		}
	}
	return ""
}
