package main

import (
	"bufio"
	"encoding/hex"
	"fmt"
	"math/rand"
	"os"
	"strconv"
	"strings"
)

// C16: cases for the real mirrorIPFIX / mirrorSFlow, run by the verif-tagged test
// TestVerifMirror in package vflow (propdefs/C16.py: runner); no in-process run here.
//
//	mirror <ipfix|sflow> <src-hex (4 or 16 octets)> <dst dotted quad> <port> <max> <payload-hex|->
//
// Payload lengths 0..max with the boundaries max-29..max, random contents, both source forms,
// max in {64, 1500, 9000}, targets anywhere in 127/8 (so the packet can be captured locally).
// VERIF_MIRROR_SWEEP=<max>/<parts>/<part> emits every length l in 0..max with l%parts == part instead.
//
// One line in twenty is a STREAM through one worker or through the real dispatcher, on a path that refuses
// part of it (hook: vflow/verif_mirrorseq_test.go, in a private network namespace):
//
//	mirrorseq <ipfix|sflow> <dst dotted quad | ::1> <port> <max> <mtu> <w|d<k>> <count>x<src-hex>:<len>:<seed>,...
//
// lengths around mtu-28 (the largest the path carries), around 65507 with max 65535, exporters of both
// families behind the dispatcher, floods of 999..2100 datagrams of the family no worker serves (the
// dispatcher's queues hold 1000), 0..5 mirror workers.
func init() {
	kinds["mirror"] = &kind{gen: genMirror}
}

func mirrorSrc(r *rand.Rand, form16 bool) string {
	var a [4]byte
	for {
		r.Read(a[:])
		// 0.0.0.0 is replaced by the kernel with the outgoing interface address (IP_HDRINCL)
		if a != [4]byte{} {
			break
		}
	}
	if r.Intn(8) == 0 {
		// corner addresses
		switch r.Intn(4) {
		case 0:
			a = [4]byte{255, 255, 255, 255}
		case 1:
			a = [4]byte{0, 0, 0, 1}
		case 2:
			a = [4]byte{224, 0, 0, 1}
		default:
			a = [4]byte{127, 0, 0, 1}
		}
	}
	if form16 {
		return "00000000000000000000ffff" + hex.EncodeToString(a[:])
	}
	return hex.EncodeToString(a[:])
}

func mirrorDst(r *rand.Rand) string {
	for {
		b, c, d := r.Intn(256), r.Intn(256), r.Intn(256)
		if (b == 0 && c == 0 && d == 0) || (b == 255 && c == 255 && d == 255) {
			continue
		}
		return fmt.Sprintf("127.%d.%d.%d", b, c, d)
	}
}

func mirrorLine(r *rand.Rand, w *bufio.Writer, max, l int) {
	proto := "ipfix"
	if r.Intn(2) == 0 {
		proto = "sflow"
	}
	p := make([]byte, l)
	r.Read(p)
	port := 1 + r.Intn(65535)
	if r.Intn(50) == 0 {
		port = []int{0, 1, 65535, 4172, 4171}[r.Intn(5)]
	}
	ph := "-"
	if l > 0 {
		ph = hex.EncodeToString(p)
	}
	fmt.Fprintf(w, "mirror %s %s %s %d %d %s\n", proto, mirrorSrc(r, r.Intn(2) == 0), mirrorDst(r), port, max, ph)
}

func mirrorSrc6(r *rand.Rand) string {
	a := make([]byte, 16)
	r.Read(a)
	a[0] = []byte{0x20, 0xfe, 0xfd, 0x26}[r.Intn(4)] // never ::/8 (IPv4-mapped, loopback)
	if r.Intn(3) == 0 {
		a = []byte{0x20, 0x01, 0x0d, 0xb8, 0, 0, 0, 0, 0, 0, 0, 0, 0, 0, 0, byte(1 + r.Intn(200))}
	}
	return hex.EncodeToString(a)
}

func mirrorSeqLine(r *rand.Rand, w *bufio.Writer) {
	proto := "ipfix"
	if r.Intn(2) == 0 {
		proto = "sflow"
	}
	max := []int{64, 1500, 1500, 1500, 1500, 1500, 9000, 9000, 1500, 64}[r.Intn(10)]
	mtu := []int{68, 576, 1280, 1500, 1500, 1500, 9000, 65536}[r.Intn(8)]
	if r.Intn(40) == 0 {
		max, mtu = 65535, 65536 // 28+len > 65535: no IPv4 datagram can hold it
	}
	mode := "w"
	workers := 1
	switch k := r.Intn(20); {
	case k < 8:
	case k < 13:
		mode = "d1"
	case k < 19:
		workers = 2 + r.Intn(4)
		mode = fmt.Sprintf("d%d", workers)
	default:
		workers = 0
		mode = "d0"
	}
	disp := mode != "w"
	dst := mirrorDst(r)
	v6target := disp && workers > 0 && r.Intn(12) == 0
	if v6target {
		dst = "::1"
	}
	port := 1 + r.Intn(65535)
	// the largest payload the path carries
	fit := mtu - 28
	if fit > 65507 {
		fit = 65507
	}
	length := func() int {
		var l int
		switch k := r.Intn(10); {
		case k < 4:
			l = fit - 2 + r.Intn(5) // fit-2 .. fit+2
		case k < 5:
			l = r.Intn(4)
		case k < 7:
			l = fit + 1 + r.Intn(60)
		default:
			l = r.Intn(max + 1)
			if max > 2000 && r.Intn(3) != 0 {
				l = r.Intn(2000)
			}
		}
		if l > max {
			l = max
		}
		if l < 0 {
			l = 0
		}
		return l
	}
	small := func() int {
		m := fit
		if m > max {
			m = max
		}
		if m > 40 {
			m = 40
		}
		return r.Intn(m + 1)
	}
	var items []string
	n := 2 + r.Intn(9)
	if workers == 0 {
		n = 1 + r.Intn(3)
	}
	for i := 0; i < n; i++ {
		cnt := 1
		if r.Intn(6) == 0 {
			cnt = 2 + r.Intn(3)
		}
		src := mirrorSrc(r, r.Intn(2) == 0)
		if disp && !v6target && r.Intn(4) == 0 {
			src = mirrorSrc6(r)
		}
		items = append(items, fmt.Sprintf("%dx%s:%d:%d", cnt, src, length(), r.Intn(256)))
	}
	if disp && workers > 0 && (v6target || r.Intn(3) == 0) {
		// a flood from the family no worker serves, somewhere before the end
		cnt := []int{999, 1000, 1001, 1002, 1500, 2100}[r.Intn(6)]
		src := mirrorSrc6(r)
		if v6target {
			src = mirrorSrc(r, true)
			cnt = []int{1001, 1500, 2100}[r.Intn(3)]
		}
		at := r.Intn(len(items))
		fl := fmt.Sprintf("%dx%s:%d:%d", cnt, src, small(), r.Intn(256))
		items = append(items[:at], append([]string{fl}, items[at:]...)...)
	}
	if r.Intn(5) != 0 {
		// the stream ends with a datagram the path does carry
		items = append(items, fmt.Sprintf("1x%s:%d:%d", mirrorSrc(r, r.Intn(2) == 0), small(), r.Intn(256)))
	}
	fmt.Fprintf(w, "mirrorseq %s %s %d %d %d %s %s\n", proto, dst, port, max, mtu, mode, strings.Join(items, ","))
}

func genMirror(r *rand.Rand, n int, w *bufio.Writer) {
	if s := os.Getenv("VERIF_MIRROR_SWEEP"); s != "" {
		f := strings.Split(s, "/")
		max, _ := strconv.Atoi(f[0])
		parts, _ := strconv.Atoi(f[1])
		part, _ := strconv.Atoi(f[2])
		for l := 0; l <= max; l++ {
			if l%parts == part {
				mirrorLine(r, w, max, l)
			}
		}
		return
	}
	for i := 0; i < n; i++ {
		if r.Intn(20) == 0 {
			mirrorSeqLine(r, w)
			continue
		}
		max := 64
		switch k := r.Intn(10); {
		case k < 4:
			max = 64
		case k < 8:
			max = 1500
		default:
			max = 9000
		}
		var l int
		switch k := r.Intn(10); {
		case k < 4:
			l = max - r.Intn(30) // max-29 .. max
		case k < 5:
			l = r.Intn(4)
		default:
			l = r.Intn(max + 1)
		}
		mirrorLine(r, w, max, l)
	}
}
