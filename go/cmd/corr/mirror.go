package main

import (
	"bufio"
	"encoding/hex"
	"fmt"
	"math/rand"
	"os"
	"strconv"
	"strings"
)

// C16: cases for the real mirrorIPFIX / mirrorSFlow, run by the verif-tagged test
// TestVerifMirror in package vflow (propdefs/C16.py: runner); no in-process run here.
//
//	mirror <ipfix|sflow> <src-hex (4 or 16 octets)> <dst dotted quad> <port> <max> <payload-hex|->
//
// Payload lengths 0..max with the boundaries max-29..max, random contents, both source forms,
// max in {64, 1500, 9000}, targets anywhere in 127/8 (so the packet can be captured locally).
// VERIF_MIRROR_SWEEP=<max>/<parts>/<part> emits every length l in 0..max with l%parts == part instead.
func init() {
	kinds["mirror"] = &kind{gen: genMirror}
}

func mirrorSrc(r *rand.Rand, form16 bool) string {
	var a [4]byte
	for {
		r.Read(a[:])
		// 0.0.0.0 is replaced by the kernel with the outgoing interface address (IP_HDRINCL)
		if a != [4]byte{} {
			break
		}
	}
	if r.Intn(8) == 0 {
		// corner addresses
		switch r.Intn(4) {
		case 0:
			a = [4]byte{255, 255, 255, 255}
		case 1:
			a = [4]byte{0, 0, 0, 1}
		case 2:
			a = [4]byte{224, 0, 0, 1}
		default:
			a = [4]byte{127, 0, 0, 1}
		}
	}
	if form16 {
		return "00000000000000000000ffff" + hex.EncodeToString(a[:])
	}
	return hex.EncodeToString(a[:])
}

func mirrorDst(r *rand.Rand) string {
	for {
		b, c, d := r.Intn(256), r.Intn(256), r.Intn(256)
		if (b == 0 && c == 0 && d == 0) || (b == 255 && c == 255 && d == 255) {
			continue
		}
		return fmt.Sprintf("127.%d.%d.%d", b, c, d)
	}
}

func mirrorLine(r *rand.Rand, w *bufio.Writer, max, l int) {
	proto := "ipfix"
	if r.Intn(2) == 0 {
		proto = "sflow"
	}
	p := make([]byte, l)
	r.Read(p)
	port := 1 + r.Intn(65535)
	if r.Intn(50) == 0 {
		port = []int{0, 1, 65535, 4172, 4171}[r.Intn(5)]
	}
	ph := "-"
	if l > 0 {
		ph = hex.EncodeToString(p)
	}
	fmt.Fprintf(w, "mirror %s %s %s %d %d %s\n", proto, mirrorSrc(r, r.Intn(2) == 0), mirrorDst(r), port, max, ph)
}

func genMirror(r *rand.Rand, n int, w *bufio.Writer) {
	if s := os.Getenv("VERIF_MIRROR_SWEEP"); s != "" {
		f := strings.Split(s, "/")
		max, _ := strconv.Atoi(f[0])
		parts, _ := strconv.Atoi(f[1])
		part, _ := strconv.Atoi(f[2])
		for l := 0; l <= max; l++ {
			if l%parts == part {
				mirrorLine(r, w, max, l)
			}
		}
		return
	}
	for i := 0; i < n; i++ {
		max := 64
		switch k := r.Intn(10); {
		case k < 4:
			max = 64
		case k < 8:
			max = 1500
		default:
			max = 9000
		}
		var l int
		switch k := r.Intn(10); {
		case k < 4:
			l = max - r.Intn(30) // max-29 .. max
		case k < 5:
			l = r.Intn(4)
		default:
			l = r.Intn(max + 1)
		}
		mirrorLine(r, w, max, l)
	}
}
