package main

import (
	"bufio"
	"encoding/hex"
	"fmt"
	"math/rand"
	"strconv"
	"strings"
)

// C17: cases for the real NewOptions + flagSet, run by the verif-tagged test TestVerifOptions in
// package vflow (propdefs/C17.py: runner); no in-process run here.
//
//	options <env> <file> <args>\t<expectation>
//
//	env   "-" or NAME=<hex value>,…          environment variables to set
//	file  "-" (no file) or "F:" + key:i:<decimal> | key:b:true|false | key:s:<hex>, comma separated (a YAML file)
//	args  "-" or comma separated hex tokens of os.Args[1:]; "@" stands for the path of the file, "<hex>@" for
//	      the text followed by the path of the file (-config=<path>), "." for an empty token
//
// The expectation (hidden from the model) is the documented precedence applied here to the structured
// choices the case was built from: "ok Field=<val>;…" for the touched fields (all others must keep their
// built-in default), "exit <code>" or "panic".
//
// F31: docs/config.md writes the command line as `-key value`, for every key. A boolean written that way
// (`-ipfix-enabled false`), a stray word, words behind "--" or a lone "-" are positional arguments for package
// flag, and the first of them ends its parsing. For such command lines the expectation is the property's, not the
// parser's: "refused-or ok Field=<val>;…" — the process refuses to start (exit 2, like every other command line
// it cannot interpret) or every setting has the value of the documented precedence, where every `-key value` on
// the command line counts, wherever it stands. "child" = no expectation, but the case may end the process.
//
// The key table is the documented one (docs/config.md) with the flag spellings of `vflow -h`.
func init() {
	kinds["options"] = &kind{gen: genOptions}
}

type optKey struct {
	field, kind, yaml, flag string
}

var optKeys = []optKey{
	{"Verbose", "b", "verbose", "verbose"},
	{"LogFile", "s", "log-file", "log-file"},
	{"PIDFile", "s", "pid-file", "pid-file"},
	{"CPUCap", "s", "cpu-cap", "cpu-cap"},
	{"DynWorkers", "b", "dynamic-workers", "dynamic-workers"},
	{"StatsEnabled", "b", "stats-enabled", "stats-enabled"},
	{"StatsFormat", "s", "stats-format", "stats-format"},
	{"StatsHTTPAddr", "s", "stats-http-addr", "stats-http-addr"},
	{"StatsHTTPPort", "s", "stats-http-port", "stats-http-port"},
	{"SFlowEnabled", "b", "sflow-enabled", "sflow-enabled"},
	{"SFlowPort", "i", "sflow-port", "sflow-port"},
	{"SFlowAddr", "s", "sflow-addr", "sflow-addr"},
	{"SFlowUDPSize", "i", "sflow-udp-size", "sflow-max-udp-size"},
	{"SFlowWorkers", "i", "sflow-workers", "sflow-workers"},
	{"SFlowTopic", "s", "sflow-topic", "sflow-topic"},
	{"SFlowMirrorAddr", "s", "sflow-mirror-addr", "sflow-mirror-addr"},
	{"SFlowMirrorPort", "i", "sflow-mirror-port", "sflow-mirror-port"},
	{"SFlowMirrorWorkers", "i", "sflow-mirror-workers", "sflow-mirror-workers"},
	{"IPFIXEnabled", "b", "ipfix-enabled", "ipfix-enabled"},
	{"IPFIXRPCEnabled", "b", "ipfix-rpc-enabled", "ipfix-rpc-enabled"},
	{"IPFIXPort", "i", "ipfix-port", "ipfix-port"},
	{"IPFIXAddr", "s", "ipfix-addr", "ipfix-addr"},
	{"IPFIXUDPSize", "i", "ipfix-udp-size", "ipfix-max-udp-size"},
	{"IPFIXWorkers", "i", "ipfix-workers", "ipfix-workers"},
	{"IPFIXTopic", "s", "ipfix-topic", "ipfix-topic"},
	{"IPFIXMirrorAddr", "s", "ipfix-mirror-addr", "ipfix-mirror-addr"},
	{"IPFIXMirrorPort", "i", "ipfix-mirror-port", "ipfix-mirror-port"},
	{"IPFIXMirrorWorkers", "i", "ipfix-mirror-workers", "ipfix-mirror-workers"},
	{"IPFIXTplCacheFile", "s", "ipfix-tpl-cache-file", "ipfix-tpl-cache-file"},
	{"NetflowV5Enabled", "b", "netflow5-enabled", "netflow5-enabled"},
	{"NetflowV5Port", "i", "netflow5-port", "netflow5-port"},
	{"NetflowV5Addr", "s", "netflow5-addr", "netflow5-addr"},
	{"NetflowV5UDPSize", "i", "netflow5-udp-size", "netflow5-max-udp-size"},
	{"NetflowV5Workers", "i", "netflow5-workers", "netflow5-workers"},
	{"NetflowV5Topic", "s", "netflow5-topic", "netflow5-topic"},
	{"NetflowV9Enabled", "b", "netflow9-enabled", "netflow9-enabled"},
	{"NetflowV9Port", "i", "netflow9-port", "netflow9-port"},
	{"NetflowV9Addr", "s", "netflow9-addr", "netflow9-addr"},
	{"NetflowV9UDPSize", "i", "netflow9-udp-size", "netflow9-max-udp-size"},
	{"NetflowV9Workers", "i", "netflow9-workers", "netflow9-workers"},
	{"NetflowV9Topic", "s", "netflow9-topic", "netflow9-topic"},
	{"NetflowV9TplCacheFile", "s", "netflow9-tpl-cache-file", "netflow9-tpl-cache-file"},
	{"ProducerEnabled", "b", "producer-enabled", "producer-enabled"},
	{"MQName", "s", "mq-name", "mqueue"},
	{"MQConfigFile", "s", "mq-config-file", "mqueue-conf"},
}

// a typed value: kind + text (ints decimal, bools true/false, strings raw)
type optVal struct{ kind, text string }

func (v optVal) canon() string {
	if v.kind == "s" {
		return "s:" + hex.EncodeToString([]byte(v.text))
	}
	return v.kind + ":" + v.text
}

func optRandVal(r *rand.Rand, kind string) optVal {
	switch kind {
	case "i":
		switch r.Intn(6) {
		case 0:
			return optVal{"i", strconv.Itoa(r.Intn(3))}
		case 1:
			return optVal{"i", strconv.Itoa(-r.Intn(70000))}
		case 2:
			return optVal{"i", strconv.FormatInt(r.Int63(), 10)}
		default:
			return optVal{"i", strconv.Itoa(1 + r.Intn(65535))}
		}
	case "b":
		if r.Intn(2) == 0 {
			return optVal{"b", "true"}
		}
		return optVal{"b", "false"}
	}
	const cs = "abcdefghijklmnopqrstuvwxyzABCDEFGHIJKLMNOPQRSTUVWXYZ0123456789_./:%-= ,#'\"\\{}[]"
	switch r.Intn(8) {
	case 0:
		return optVal{"s", []string{"true", "false", "0", "123", "-5", "null", "~", "yes", "0x10"}[r.Intn(9)]}
	case 1:
		return optVal{"s", "x"} // never empty here: an empty value means different things per source
	}
	n := 1 + r.Intn(12)
	b := make([]byte, n)
	for i := range b {
		b[i] = cs[r.Intn(len(cs))]
	}
	if b[0] == '-' {
		b[0] = 'v' // a value token that looks like a flag is a different story (os.Args scan for -config)
	}
	return optVal{"s", string(b)}
}

func hexTok(s string) string { return hex.EncodeToString([]byte(s)) }

func optEnvName(yaml string) string {
	return "VFLOW_" + strings.ReplaceAll(strings.ToUpper(yaml), "-", "_")
}

// the text a flag/env source carries for a value
func optText(r *rand.Rand, v optVal, fancy bool) string {
	if v.kind == "b" && fancy {
		if v.text == "true" {
			return []string{"true", "1", "t", "T", "TRUE", "True"}[r.Intn(6)]
		}
		return []string{"false", "0", "f", "F", "FALSE", "False"}[r.Intn(6)]
	}
	if v.kind == "i" && fancy && r.Intn(6) == 0 && !strings.HasPrefix(v.text, "-") {
		return "+" + v.text
	}
	return v.text
}

func genOptions(r *rand.Rand, n int, w *bufio.Writer) {
	for i := 0; i < n; i++ {
		genOptionsCase(r, w)
	}
}

func genOptionsCase(r *rand.Rand, w *bufio.Writer) {
	var env, file []string
	var args [][]string // groups of tokens kept together
	type choice struct {
		k               optKey
		env, file, flag *optVal
	}
	var choices []*choice
	special := ""                 // overrides the expectation: "exit N" | "panic"
	stray := false                // some word of the command line is neither a flag nor the value of one (F31)
	bareBool := map[string]bool{} // first tokens of the one-word groups that are a bare boolean flag
	useCfg := true                // pass -config <file>
	haveFile := false             // write a file at all

	nk := 1 + r.Intn(4)
	if r.Intn(10) == 0 {
		nk = 0
	}
	perm := r.Perm(len(optKeys))
	for _, ki := range perm[:nk] {
		k := optKeys[ki]
		c := &choice{k: k}
		choices = append(choices, c)
		mask := r.Intn(8) // bit0 env, bit1 file, bit2 flag: every subset of the sources
		if mask&1 != 0 {
			v := optRandVal(r, k.kind)
			env = append(env, optEnvName(k.yaml)+"="+hexTok(optText(r, v, true)))
			c.env = &v
		}
		if mask&2 != 0 {
			vk := k.kind
			if r.Intn(10) == 0 {
				vk = []string{"i", "s", "b"}[r.Intn(3)] // a scalar of another type in the file
			}
			v := optRandVal(r, vk)
			haveFile = true
			file = append(file, k.yaml+":"+v.canon())
			switch {
			case vk == k.kind:
				c.file = &v
			case k.kind == "s":
				c.file = &optVal{"s", v.text} // yaml keeps the scalar's text for a string field
			}
		}
		if mask&4 != 0 {
			v := optRandVal(r, k.kind)
			dash := "-"
			if r.Intn(5) == 0 {
				dash = "--"
			}
			txt := optText(r, v, true)
			switch {
			case k.kind == "b" && r.Intn(6) == 0:
				// the documented form `-key value` for a boolean (true/false/1/0/t/f/…): package flag sets the key to
				// true and takes the word for the first positional argument
				args = append(args, []string{dash + k.flag, txt})
				stray = true
			case k.kind == "b" && v.text == "true" && r.Intn(2) == 0:
				args = append(args, []string{dash + k.flag})
				bareBool[dash+k.flag] = true
			case k.kind == "b" || r.Intn(3) == 0:
				args = append(args, []string{dash + k.flag + "=" + txt})
			default:
				args = append(args, []string{dash + k.flag, txt})
			}
			c.flag = &v
			if r.Intn(12) == 0 {
				// the same flag twice: the last one wins ("\x00after" groups stay behind the shuffled ones)
				v2 := optRandVal(r, k.kind)
				args = append(args, []string{"\x00after", dash + k.flag + "=" + optText(r, v2, false)})
				c.flag = &v2
			}
		}
	}
	touched := func(field string) bool {
		for _, c := range choices {
			if c.k.field == field {
				return true
			}
		}
		return false
	}

	// sources that must have no effect
	if r.Intn(8) == 0 {
		k := optKeys[r.Intn(len(optKeys))]
		if !touched(k.field) {
			v := optRandVal(r, k.kind)
			switch r.Intn(3) {
			case 0: // empty value
				env = append(env, optEnvName(k.yaml)+"=")
			case 1: // lower-case name
				env = append(env, strings.ToLower(optEnvName(k.yaml))+"="+hexTok(v.text))
			default: // the key without the VFLOW_ prefix
				env = append(env, strings.TrimPrefix(optEnvName(k.yaml), "VFLOW_")+"="+hexTok(v.text))
			}
		}
	}
	if r.Intn(10) == 0 && haveFile {
		useCfg = false // a file nobody points at: its values must not be used
	}
	if r.Intn(10) == 0 && !haveFile {
		haveFile = true // an empty file
	}

	// behaviour at the edges of the documentation
	switch r.Intn(40) {
	case 0:
		k := optKeys[r.Intn(len(optKeys))]
		if k.kind == "i" || k.kind == "b" {
			env = append(env, optEnvName(k.yaml)+"="+hexTok([]string{"abc", "12x", "yes", " 1", "1.5", "0x10"}[r.Intn(6)]))
			special = "exit 1"
		}
	case 1:
		args = append(args, []string{"-no-such-flag"})
		special = "exit 2"
	case 2:
		k := optKeys[r.Intn(len(optKeys))]
		if k.kind == "i" {
			args = append(args, []string{"-" + k.flag, []string{"abc", "12x", "1.5", ""}[r.Intn(4)]})
			special = "exit 2"
		}
	case 3:
		k := optKeys[r.Intn(len(optKeys))]
		if k.kind != "b" {
			args = append(args, []string{"\x00last", "-" + k.flag})
			special = "exit 2"
		}
	case 4:
		// the documented spelling `-key value` for a key whose flag is spelled differently
		for _, ki := range r.Perm(len(optKeys)) {
			k := optKeys[ki]
			if k.yaml != k.flag {
				args = append(args, []string{"-" + k.yaml, optRandVal(r, k.kind).text})
				special = "exit 2"
				break
			}
		}
	case 5:
		if !stray { // behind a positional word -h is not read: the command line is refused (2) before or instead of helped (0)
			args = append(args, []string{[]string{"-h", "-help", "--help"}[r.Intn(3)]})
			special = "exit 0"
		}
	case 6:
		// `-key word` for a boolean key with a word that is no boolean: like `-key=word`, nothing to start with
		for _, ki := range r.Perm(len(optKeys)) {
			if k := optKeys[ki]; k.kind == "b" {
				args = append(args, []string{"-" + k.flag, []string{"maybe", "yes", "no", "2", "on", "x"}[r.Intn(6)]})
				special = "exit 2"
				break
			}
		}
	}

	// assemble the command line: shuffle the groups, "\x00after"/"\x00last" groups go to the end
	var front, back [][]string
	for _, g := range args {
		if strings.HasPrefix(g[0], "\x00") {
			back = append(back, g[1:])
		} else {
			front = append(front, g)
		}
	}
	r.Shuffle(len(front), func(i, j int) { front[i], front[j] = front[j], front[i] })
	noOracle := false
	cfgGiven := false // some word of the command line is the config flag
	if haveFile && useCfg {
		// the four spellings package flag accepts for a string flag: -config F, --config F, -config=F, --config=F
		// ("\x01text" = text immediately followed by the path of the file)
		cfg := optCfgSpelling(r, "@")
		cfgGiven = true
		p := r.Intn(len(front) + 1)
		front = append(front[:p], append([][]string{cfg}, front[p:]...)...)
	} else if r.Intn(40) == 0 {
		// an empty path (-config= / -config ""): no file is read, every other source applies
		cfgGiven = true
		cfg := [][]string{{"-config="}, {"--config="}, {"-config", ""}, {"--config", ""}}[r.Intn(4)]
		p := r.Intn(len(front) + 1)
		front = append(front[:p], append([][]string{cfg}, front[p:]...)...)
	}
	nearMiss := false
	if haveFile && !useCfg && special == "" && r.Intn(3) == 0 {
		// near misses at the very end: words that are not the config flag (no dash: ends the flags) must not locate the file
		back = append(back, []string{"\x01" + []string{"config=", "=", "x-config="}[r.Intn(3)]})
		nearMiss = true
		stray = true
	}
	if r.Intn(60) == 0 && special == "" {
		// the config flag without a value as the very last word
		back = append(back, []string{[]string{"-config", "--config"}[r.Intn(2)]})
		switch {
		case !cfgGiven:
			special = "panic" // loadCfg (before flag.Parse) indexes past the end of os.Args
		case !nearMiss:
			special = "exit 2" // an earlier config flag names the file; flag.Parse then misses the value
		default:
			// an earlier config flag names the file and the near-miss word ended the flags before this one: no effect
		}
	}
	if r.Intn(50) == 0 && special == "" && haveFile {
		// Command lines on which the os.Args scan of loadCfg and package flag see the config flag differently.
		// The documentation does not say which file is meant: no expectation, model against code only.
		noOracle = true
		switch r.Intn(4) {
		case 0: // given twice: loadCfg takes the first, package flag keeps the last
			back = append(back, optCfgSpelling(r, "/nonexistent/vflow.conf"))
		case 1:
			front = append([][]string{optCfgSpelling(r, "/nonexistent/vflow.conf")}, front...)
		case 2: // behind the terminator: not a flag for package flag
			back = append(back, []string{"--"}, optCfgSpelling(r, "@"))
		default: // as the value of another flag (the path itself then ends flag parsing as the first non-flag word)
			back = append(back, []string{"-log-file"}, []string{[]string{"-config", "--config"}[r.Intn(2)], "@"})
		}
	}
	if special == "" && !noOracle && r.Intn(20) == 0 {
		// a word that is neither a flag nor the value of one, anywhere among the flags (the flags behind it stay
		// on the command line: F31); never directly behind a bare boolean flag, whose `-key value` form it would be
		var g [][]string
		switch r.Intn(4) {
		case 0:
			g = [][]string{{"--"}, {[]string{"stray", "false", "0", "-sflow-port=1"}[r.Intn(4)]}}
			if r.Intn(3) == 0 {
				g = g[:1] // "--" alone: when it is the last word nothing follows it, and nothing is positional
			}
		case 1:
			g = [][]string{{"-"}}
		default:
			g = [][]string{{[]string{"stray", "x", "7000", "true", "false", "0", "config", "vflow.conf", "="}[r.Intn(9)]}}
		}
		p := 0
		for try := 0; try < 4; try++ {
			q := r.Intn(len(front) + 1)
			if q == 0 || !(len(front[q-1]) == 1 && bareBool[front[q-1][0]]) || g[0][0] == "--" {
				p = q
				break
			}
		}
		front = append(front[:p:p], append(g, front[p:]...)...)
		stray = true
	}
	var toks []string
	for _, g := range append(front, back...) {
		for _, t := range g {
			if t == "@" {
				toks = append(toks, "@")
			} else if strings.HasPrefix(t, "\x01") {
				toks = append(toks, hexTok(t[1:])+"@")
			} else if t == "" {
				toks = append(toks, ".")
			} else {
				toks = append(toks, hexTok(t))
			}
		}
	}

	envS, fileS, argS := "-", "-", "-"
	if len(env) > 0 {
		envS = strings.Join(env, ",")
	}
	if haveFile {
		fileS = "F:" + strings.Join(file, ",")
	}
	if len(toks) > 0 {
		argS = strings.Join(toks, ",")
	}
	exp := special
	if special == "" {
		// the documented rule: command line, else configuration file, else environment (else the default)
		parts := []string{}
		for _, c := range choices {
			var eff *optVal
			switch {
			case c.flag != nil:
				eff = c.flag
			case c.file != nil && useCfg:
				eff = c.file
			case c.env != nil:
				eff = c.env
			}
			if eff != nil {
				parts = append(parts, c.k.field+"="+eff.canon())
			}
		}
		exp = "ok " + strings.Join(parts, ";")
		if stray {
			exp = "refused-or " + exp
		}
	}
	if noOracle {
		// (behind "--", behind the value of -log-file, behind a near-miss word the config flag's words are positional)
		fmt.Fprintf(w, "options %s %s %s\tchild\n", envS, fileS, argS)
		return
	}
	fmt.Fprintf(w, "options %s %s %s\t%s\n", envS, fileS, argS, exp)
}

// one of the four spellings of the config flag for the given path ("@" = the path of the case's file)
func optCfgSpelling(r *rand.Rand, path string) []string {
	dash := []string{"-", "--"}[r.Intn(2)]
	if r.Intn(2) == 0 {
		return []string{dash + "config", path}
	}
	if path == "@" {
		return []string{"\x01" + dash + "config="}
	}
	return []string{dash + "config=" + path}
}
