package main

import (
	"bufio"
	"fmt"
	"math/rand"
)

// C10: stress cases for the template caches. The cases are run inside packages ipfix and netflow9
// by the verif-tagged tests TestVerifCache (runner with -race, see propdefs/C10.py), which call the
// real insert / retrieve / IRPC.Get / Dump concurrently and check every observation.
//
//	cachestress  <seed> <goroutines 16..63> <overlap %> <ops per goroutine> <max ms>     (ipfix)
//	cachestress9 <seed> <goroutines 16..63> <overlap %> <ops per goroutine> <max ms>     (netflow v9)
func init() {
	kinds["cachestress"] = &kind{gen: func(r *rand.Rand, n int, w *bufio.Writer) { genCacheStress("cachestress", r, n, w) }, run: nil}
	kinds["cachestress9"] = &kind{gen: func(r *rand.Rand, n int, w *bufio.Writer) { genCacheStress("cachestress9", r, n, w) }, run: nil}
}

func genCacheStress(word string, r *rand.Rand, n int, w *bufio.Writer) {
	overlaps := []int{0, 10, 50, 90, 100}
	for i := 0; i < n; i++ {
		g := 16 + r.Intn(48)
		ms := 400 + r.Intn(400)
		ops := 3000 + r.Intn(6000)
		if n > 8 { // thorough tier: longer runs
			ms = 1500 + r.Intn(2500)
			ops = 20000 + r.Intn(80000)
		}
		fmt.Fprintf(w, "%s %d %d %d %d %d\n", word, r.Int63n(1<<40), g, overlaps[(i+r.Intn(2))%len(overlaps)], ops, ms)
	}
}
