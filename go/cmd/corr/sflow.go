package main

// C07 / C18 (+ the sFlow share of C01 / C02): sFlow v5 datagrams built from an ABSTRACT datagram
// by the harness's own XDR wire encoder (sFlow v5 specification, RFC 791/8200/793/768/792, IEEE 802.1Q
// field positions).  The oracle never looks at the model:
//
//   well-formed case (expectation "W <json>"): json.Marshal of what the real SFDecode returned must
//     equal json.Marshal of the expected structures built field by field from the abstract datagram
//     (C07), with the samples of the filtered types removed (C18); and, when a filter is given,
//     the filtered decode must equal the unfiltered decode of the same octets minus those types (C18);
//   every case: no panic (recovered by the run loop), no hang (watchdog), and the TotalAlloc delta of
//     the single decode call is at most allocA*len(datagram)+allocB (C01 / C02 share).
//
// kinds: "sflow" (C07: mostly no filter), "sflowf" (C18: always a filter, filtered samples in front
// of unfiltered ones), "dissect" (packet.Decoder alone on sampled headers, incl. every truncation).

import (
	"bufio"
	"bytes"
	"encoding/binary"
	"encoding/json"
	"fmt"
	"math/rand"
	"net"
	"os"
	"reflect"
	"regexp"
	"runtime"
	"strconv"
	"strings"

	"github.com/EdgeCast/vflow/packet"
	"github.com/EdgeCast/vflow/sflow"
)

func init() {
	kinds["sflow"] = &kind{gen: func(r *rand.Rand, n int, w *bufio.Writer) { genSflow(r, n, w, false) }, run: runSflow}
	kinds["sflowf"] = &kind{gen: func(r *rand.Rand, n int, w *bufio.Writer) { genSflow(r, n, w, true) }, run: runSflow}
	kinds["dissect"] = &kind{gen: genDissect, run: runDissect}
}

// linear allocation bound of one SFDecode call in octets (C02 share): the sampled-header cap (1500+3)
// and the per-record / per-read bookkeeping of encoding/binary, fmt and the maps give the slope
var allocA, allocB = envInt("VERIF_ALLOC_A", 64), envInt("VERIF_ALLOC_B", 8192)

func envInt(k string, d int) int {
	if v, err := strconv.Atoi(os.Getenv(k)); err == nil {
		return v
	}
	return d
}

// ---------------------------------------------------------------- abstract datagram

type aPkt struct {
	HdrProto uint32 // 1 Ethernet, 11 IPv4, 12 IPv6; any other sFlow header protocol (token ring, PPP, MPLS, ...) is not dissected
	Dst, Src [6]byte
	HasVlan  bool
	TCI      uint16
	// EtherType, when not 0, replaces the ether type of the network layer (ARP 0x0806, LACP 0x8809, a second
	// 802.1Q / 802.1ad tag 0x8100 / 0x88a8, ...): frames the packet structs cannot represent
	EtherType uint16
	// Trunc: the sampled header is only the first Keep octets of the encoded frame (a sampler cuts after a fixed
	// number of octets wherever that falls: inside the Ethernet, IP or transport header; Keep 0 = header length 0)
	Trunc bool
	Keep  int
	V6       bool
	Ver      byte // version nibble of the network header (4 / 6 as a rule; the dissector reports whatever is there)
	// IPv4; the header length nibble (IHL) is 5 + len(Opts)/4: 0..40 option octets in multiples of 4 (RFC 791)
	Opts           []byte
	TOS            byte
	TotalLen, ID   uint16
	Flags          byte   // 3 bits
	FragOff        uint16 // 13 bits
	TTL            byte
	Csum           uint16
	Src4, Dst4     [4]byte
	// IPv6
	TC         byte
	FlowLabel  uint32 // 20 bits
	PayLen     uint16
	Hop        byte
	Src6, Dst6 [16]byte
	// L4
	L4           int // 6 TCP, 17 UDP, 1 ICMP, 58 ICMPv6; any other IP protocol / IPv6 next header (extension headers, GRE, ESP, ...) is not dissected
	SPort, DPort uint16
	Seq, Ack     uint32
	DataOff      byte   // 4 bits
	TCPRes       byte   // 3 reserved bits between the data offset and the flag bits (RFC 793 / 3540)
	TCPFlags     uint16 // 9 bits (NS CWR ECE URG ACK PSH RST SYN FIN)
	Win, L4Csum  uint16
	Urg, ULen    uint16
	IType, ICode byte
	Rest         []byte // ICMP: rest of header + payload (>= 4 octets); TCP/UDP: payload
}

type aRecord struct {
	Fmt uint32
	// raw header (1)
	FrameLen, Stripped uint32
	Pkt                *aPkt
	// extended switch (1001)
	SW [4]uint32
	// extended router (1002): next hop of 4 or 16 octets (address type 1 / 2), or none (address type 0 = unknown:
	// record length 12); RtrBody, when not nil, is the body of a record of any other length (an address type this
	// decoder does not know): both are skipped by their declared length
	Hop              []byte
	SrcMask, DstMask uint32
	RtrBody          []byte
	// counter records: values in specification order
	Vals []uint64
	// unknown format
	Opaque []byte
}

type aSample struct {
	Type    uint32 // enterprise<<12 | format
	Seq     uint32
	SrcType byte
	SrcIdx  uint32 // 24 bits
	Rate, Pool, Drops, In, Out uint32
	Recs    []aRecord
	Opaque  []byte // body of unknown / expanded / enterprise samples
}

type aDatagram struct {
	Agent               []byte // 4 or 16 octets
	SubID, Seq, UpTime  uint32
	Samples             []aSample
}

type fieldSpec struct {
	Name string
	W    int
}

// sFlow v5 counter record layouts (if_counters, ethernet_counters, tokenring_counters, vg_counters,
// vlan_counters, processor); names are those of the Go structs
var counterSpecs = map[uint32]struct {
	Key    string
	Fields []fieldSpec
}{
	1: {"GenInt", []fieldSpec{{"Index", 4}, {"Type", 4}, {"Speed", 8}, {"Direction", 4}, {"Status", 4}, {"InOctets", 8},
		{"InUnicastPackets", 4}, {"InMulticastPackets", 4}, {"InBroadcastPackets", 4}, {"InDiscards", 4}, {"InErrors", 4},
		{"InUnknownProtocols", 4}, {"OutOctets", 8}, {"OutUnicastPackets", 4}, {"OutMulticastPackets", 4},
		{"OutBroadcastPackets", 4}, {"OutDiscards", 4}, {"OutErrors", 4}, {"PromiscuousMode", 4}}},
	2: {"EthInt", []fieldSpec{{"AlignmentErrors", 4}, {"FCSErrors", 4}, {"SingleCollisionFrames", 4},
		{"MultipleCollisionFrames", 4}, {"SQETestErrors", 4}, {"DeferredTransmissions", 4}, {"LateCollisions", 4},
		{"ExcessiveCollisions", 4}, {"InternalMACTransmitErrors", 4}, {"CarrierSenseErrors", 4}, {"FrameTooLongs", 4},
		{"InternalMACReceiveErrors", 4}, {"SymbolErrors", 4}}},
	3: {"TRInt", []fieldSpec{{"LineErrors", 4}, {"BurstErrors", 4}, {"ACErrors", 4}, {"AbortTransErrors", 4},
		{"InternalErrors", 4}, {"LostFrameErrors", 4}, {"ReceiveCongestions", 4}, {"FrameCopiedErrors", 4},
		{"TokenErrors", 4}, {"SoftErrors", 4}, {"HardErrors", 4}, {"SignalLoss", 4}, {"TransmitBeacons", 4},
		{"Recoverys", 4}, {"LobeWires", 4}, {"Removes", 4}, {"Singles", 4}, {"FreqErrors", 4}}},
	4: {"VGInt", []fieldSpec{{"InHighPriorityFrames", 4}, {"InHighPriorityOctets", 8}, {"InNormPriorityFrames", 4},
		{"InNormPriorityOctets", 8}, {"InIPMErrors", 4}, {"InOversizeFrameErrors", 4}, {"InDataErrors", 4},
		{"InNullAddressedFrames", 4}, {"OutHighPriorityFrames", 4}, {"OutHighPriorityOctets", 8},
		{"TransitionIntoTrainings", 4}, {"HCInHighPriorityOctets", 8}, {"HCInNormPriorityOctets", 8},
		{"HCOutHighPriorityOctets", 8}}},
	5: {"Vlan", []fieldSpec{{"ID", 4}, {"Octets", 8}, {"UnicastPackets", 4}, {"MulticastPackets", 4},
		{"BroadcastPackets", 4}, {"Discards", 4}}},
	1001: {"Proc", []fieldSpec{{"CPU5s", 4}, {"CPU1m", 4}, {"CPU5m", 4}, {"TotalMemory", 8}, {"FreeMemory", 8}}},
}

// ---------------------------------------------------------------- wire encoder (specification side)

func sfBe16(v uint16) []byte { b := make([]byte, 2); binary.BigEndian.PutUint16(b, v); return b }
func sfBe32(v uint32) []byte { b := make([]byte, 4); binary.BigEndian.PutUint32(b, v); return b }
func be64(v uint64) []byte { b := make([]byte, 8); binary.BigEndian.PutUint64(b, v); return b }
func sfCat(bs ...[]byte) []byte {
	var o []byte
	for _, b := range bs {
		o = append(o, b...)
	}
	return o
}

// sampled packet header, octet positions as in IEEE 802.3/802.1Q, RFC 791, RFC 8200, RFC 793, 768, 792
func (p *aPkt) encode() []byte {
	o := p.encodeFrame()
	if p.Trunc && p.Keep < len(o) {
		o = o[:p.Keep]
	}
	return o
}

// octets of the transport header the packet structs are filled from: the fixed TCP header, the UDP header, and for
// ICMP type, code, checksum and at least one octet of what follows (RestHeader is everything after the checksum)
func l4Need(l4 int) int {
	switch l4 {
	case 6:
		return 20
	case 17:
		return 8
	}
	return 5
}

// specification side: can the sampled header be broken down into Ethernet / IP / TCP-UDP-ICMP fields at all?
// (known header protocol, an IP ether type, a transport protocol the structs have a type for, and the octets of
// all three headers present)
func (p *aPkt) dissectable() bool {
	if p.HdrProto != 1 && p.HdrProto != 11 && p.HdrProto != 12 {
		return false
	}
	if p.HdrProto == 1 && p.EtherType != 0 {
		return false
	}
	if p.L4 != 6 && p.L4 != 17 && p.L4 != 1 && p.L4 != 58 {
		return false
	}
	if p.Trunc {
		hdrs := len((&aPkt{HdrProto: p.HdrProto, HasVlan: p.HasVlan, V6: p.V6, L4: 17, Opts: p.Opts}).encodeFrame()) - 8
		return p.Keep >= hdrs+l4Need(p.L4)
	}
	return true
}

func (p *aPkt) encodeFrame() []byte {
	var o []byte
	if p.HdrProto == 1 {
		et := uint16(0x0800)
		if p.V6 {
			et = 0x86DD
		}
		if p.EtherType != 0 {
			et = p.EtherType
		}
		o = sfCat(p.Dst[:], p.Src[:])
		if p.HasVlan {
			o = sfCat(o, sfBe16(0x8100), sfBe16(p.TCI))
		}
		o = sfCat(o, sfBe16(et))
	}
	if !p.V6 {
		// RFC 791: version, IHL (in 32-bit words, options included) …; the options follow the destination address
		o = sfCat(o, []byte{p.Ver<<4 | byte(5+len(p.Opts)/4), p.TOS}, sfBe16(p.TotalLen), sfBe16(p.ID), sfBe16(uint16(p.Flags)<<13|p.FragOff),
			[]byte{p.TTL, byte(p.L4)}, sfBe16(p.Csum), p.Src4[:], p.Dst4[:], p.Opts)
	} else {
		o = sfCat(o, sfBe32(uint32(p.Ver)<<28|uint32(p.TC)<<20|p.FlowLabel), sfBe16(p.PayLen), []byte{byte(p.L4), p.Hop}, p.Src6[:], p.Dst6[:])
	}
	switch p.L4 {
	case 6:
		o = sfCat(o, sfBe16(p.SPort), sfBe16(p.DPort), sfBe32(p.Seq), sfBe32(p.Ack), sfBe16(uint16(p.DataOff)<<12|uint16(p.TCPRes)<<9|p.TCPFlags),
			sfBe16(p.Win), sfBe16(p.L4Csum), sfBe16(p.Urg), p.Rest)
	case 17:
		o = sfCat(o, sfBe16(p.SPort), sfBe16(p.DPort), sfBe16(p.ULen), sfBe16(p.L4Csum), p.Rest)
	default:
		o = sfCat(o, []byte{p.IType, p.ICode}, sfBe16(p.L4Csum), p.Rest)
	}
	return o
}

func xdrPad(n int) []byte { return make([]byte, (4-n%4)%4) }

func (rc *aRecord) encodeBody(counter bool) []byte {
	if counter {
		if cs, ok := counterSpecs[rc.Fmt]; ok {
			var o []byte
			for i, f := range cs.Fields {
				if f.W == 8 {
					o = append(o, be64(rc.Vals[i])...)
				} else {
					o = append(o, sfBe32(uint32(rc.Vals[i]))...)
				}
			}
			return o
		}
		return rc.Opaque
	}
	switch rc.Fmt {
	case 1:
		h := rc.Pkt.encode()
		return sfCat(sfBe32(rc.Pkt.HdrProto), sfBe32(rc.FrameLen), sfBe32(rc.Stripped), sfBe32(uint32(len(h))), h, xdrPad(len(h)))
	case 1001:
		return sfCat(sfBe32(rc.SW[0]), sfBe32(rc.SW[1]), sfBe32(rc.SW[2]), sfBe32(rc.SW[3]))
	case 1002:
		if rc.RtrBody != nil {
			return rc.RtrBody
		}
		t := uint32(0)
		switch len(rc.Hop) {
		case 4:
			t = 1
		case 16:
			t = 2
		}
		return sfCat(sfBe32(t), rc.Hop, sfBe32(rc.SrcMask), sfBe32(rc.DstMask))
	}
	return rc.Opaque
}

func (s *aSample) encode() []byte {
	var body []byte
	switch s.Type {
	case 1:
		body = sfCat(sfBe32(s.Seq), sfBe32(uint32(s.SrcType)<<24|s.SrcIdx), sfBe32(s.Rate), sfBe32(s.Pool), sfBe32(s.Drops),
			sfBe32(s.In), sfBe32(s.Out), sfBe32(uint32(len(s.Recs))))
		for i := range s.Recs {
			b := s.Recs[i].encodeBody(false)
			body = sfCat(body, sfBe32(s.Recs[i].Fmt), sfBe32(uint32(len(b))), b)
		}
	case 2:
		body = sfCat(sfBe32(s.Seq), sfBe32(uint32(s.SrcType)<<24|s.SrcIdx), sfBe32(uint32(len(s.Recs))))
		for i := range s.Recs {
			b := s.Recs[i].encodeBody(true)
			body = sfCat(body, sfBe32(s.Recs[i].Fmt), sfBe32(uint32(len(b))), b)
		}
	default:
		body = s.Opaque
	}
	return sfCat(sfBe32(s.Type), sfBe32(uint32(len(body))), body)
}

func (d *aDatagram) encode() []byte {
	ipv := uint32(1)
	if len(d.Agent) == 16 {
		ipv = 2
	}
	o := sfCat(sfBe32(5), sfBe32(ipv), d.Agent, sfBe32(d.SubID), sfBe32(d.Seq), sfBe32(d.UpTime), sfBe32(uint32(len(d.Samples))))
	for i := range d.Samples {
		o = append(o, d.Samples[i].encode()...)
	}
	return o
}

// ---------------------------------------------------------------- expected decode (specification side)

func macStr(m [6]byte) string {
	return fmt.Sprintf("%02x:%02x:%02x:%02x:%02x:%02x", m[0], m[1], m[2], m[3], m[4], m[5])
}

// the decoded packet the abstract packet stands for; nil when the sampled header cannot be broken down (dissectable):
// such a raw-header record is reported with its four numbers alone, and everything else in the datagram is decoded as usual
func (p *aPkt) expected() *packet.Packet {
	if !p.dissectable() {
		return nil
	}
	e := &packet.Packet{}
	if p.HdrProto == 1 {
		et := uint16(0x0800)
		if p.V6 {
			et = 0x86DD
		}
		e.L2 = packet.Datalink{SrcMAC: macStr(p.Src), DstMAC: macStr(p.Dst), EtherType: et}
		if p.HasVlan {
			e.L2.Vlan = int(p.TCI & 0x0fff) // the VLAN identifier is the low 12 bits of the tag control information
		}
	}
	if !p.V6 {
		// the struct has no IHL / options field: the options only move the transport header (p.Opts is not looked at below)
		e.L3 = packet.IPv4Header{Version: int(p.Ver), TOS: int(p.TOS), TotalLen: int(p.TotalLen), ID: int(p.ID), Flags: int(p.Flags),
			FragOff: int(p.FragOff), TTL: int(p.TTL), Protocol: p.L4, Checksum: int(p.Csum),
			Src: net.IP(p.Src4[:]).String(), Dst: net.IP(p.Dst4[:]).String()}
	} else {
		e.L3 = packet.IPv6Header{Version: int(p.Ver), TrafficClass: int(p.TC), FlowLabel: int(p.FlowLabel), PayloadLen: int(p.PayLen),
			NextHeader: p.L4, HopLimit: int(p.Hop), Src: net.IP(p.Src6[:]).String(), Dst: net.IP(p.Dst6[:]).String()}
	}
	switch p.L4 {
	case 6:
		e.L4 = packet.TCPHeader{SrcPort: int(p.SPort), DstPort: int(p.DPort), DataOffset: int(p.DataOff), Reserved: int(p.TCPRes), Flags: int(p.TCPFlags)}
	case 17:
		e.L4 = packet.UDPHeader{SrcPort: int(p.SPort), DstPort: int(p.DPort)}
	default:
		// RestHeader: everything after the checksum up to the end of the sampled header
		rest := p.Rest
		if h := p.encode(); p.Trunc {
			rest = rest[:len(rest)-(len(p.encodeFrame())-len(h))]
		}
		e.L4 = packet.ICMP{Type: int(p.IType), Code: int(p.ICode), RestHeader: rest}
	}
	return e
}

// the flow sample of the specification: sFlow v5 source_id is one word, type in the top 8 bits and index in the low
// 24; both are reported (as in the counter sample).  Declared here, not taken from the package under test, so that the
// expectation does not depend on which fields that struct happens to have.
type xFlowSample struct {
	SequenceNo   uint32
	SourceID     byte
	SourceIDIdx  uint32
	SamplingRate uint32
	SamplePool   uint32
	Drops        uint32
	Input        uint32
	Output       uint32
	RecordsNo    uint32
	Records      map[string]sflow.Record
}

// the raw packet header record of the specification (sFlow v5 `sampled_header`): header_protocol, frame_length (the
// original length of the sampled frame: what a consumer scales by the sampling rate to get octets, and for a frame
// that is not IP the only thing that says how large it was), stripped, the number of sampled octets, and — where the
// octets can be broken down — the abstract packet's layers next to them (embedded: L2 / L3 / L4 are members of the
// record itself; for a header without a breakdown they are absent and the four numbers are still there: they are on
// the wire and well-formed whatever the sampled octets are).  Declared here for the same reason as xFlowSample.
type xRawHeader struct {
	Protocol     uint32
	FrameLength  uint32
	Stripped     uint32
	HeaderLength uint32
	*packet.Packet
}

func setFields(ptr interface{}, fields []fieldSpec, vals []uint64) {
	v := reflect.ValueOf(ptr).Elem()
	for i, f := range fields {
		v.FieldByName(f.Name).SetUint(vals[i])
	}
}

func (d *aDatagram) expected(filter []uint32) *sflow.SFDatagram {
	ipv := uint32(1)
	if len(d.Agent) == 16 {
		ipv = 2
	}
	e := &sflow.SFDatagram{Version: 5, IPVersion: ipv, AgentSubID: d.SubID, SequenceNo: d.Seq, SysUpTime: d.UpTime,
		SamplesNo: uint32(len(d.Samples)), Samples: []sflow.Sample{}, Counters: []sflow.Counter{}, IPAddress: d.Agent}
	filtered := func(t uint32) bool {
		for _, f := range filter {
			if f == t {
				return true
			}
		}
		return false
	}
	for i := range d.Samples {
		s := &d.Samples[i]
		if filtered(s.Type) {
			continue
		}
		switch s.Type {
		case 1:
			fs := &xFlowSample{SequenceNo: s.Seq, SourceID: s.SrcType, SourceIDIdx: s.SrcIdx, SamplingRate: s.Rate, SamplePool: s.Pool,
				Drops: s.Drops, Input: s.In, Output: s.Out, RecordsNo: uint32(len(s.Recs)), Records: map[string]sflow.Record{}}
			for j := range s.Recs {
				rc := &s.Recs[j]
				switch rc.Fmt {
				case 1:
					// every raw-header record is reported with its own four fields (F33); the layers only when the sampled
					// octets can be broken down (expected() is nil otherwise: the embedded members are left out)
					fs.Records["RawHeader"] = &xRawHeader{Protocol: rc.Pkt.HdrProto, FrameLength: rc.FrameLen, Stripped: rc.Stripped,
						HeaderLength: uint32(len(rc.Pkt.encode())), Packet: rc.Pkt.expected()}
				case 1001:
					fs.Records["ExtSwitch"] = &sflow.ExtSwitchData{SrcVlan: rc.SW[0], SrcPriority: rc.SW[1], DstVlan: rc.SW[2], DstPriority: rc.SW[3]}
				case 1002:
					// only the two address types this decoder knows (IPv4 / IPv6 next hop: record length 16 / 28);
					// any other extended-router record is skipped by its declared length
					if rc.RtrBody == nil && (len(rc.Hop) == 4 || len(rc.Hop) == 16) {
						fs.Records["ExtRouter"] = &sflow.ExtRouterData{NextHop: rc.Hop, SrcMask: rc.SrcMask, DstMask: rc.DstMask}
					}
				}
			}
			e.Samples = append(e.Samples, fs)
		case 2:
			cs := &sflow.CounterSample{SequenceNo: s.Seq, SourceIDType: s.SrcType, SourceIDIdx: s.SrcIdx,
				RecordsNo: uint32(len(s.Recs)), Records: map[string]sflow.Record{}}
			for j := range s.Recs {
				rc := &s.Recs[j]
				spec, ok := counterSpecs[rc.Fmt]
				if !ok {
					continue
				}
				var x interface{}
				switch rc.Fmt {
				case 1:
					x = &sflow.GenericInterfaceCounters{}
				case 2:
					x = &sflow.EthernetInterfaceCounters{}
				case 3:
					x = &sflow.TokenRingCounters{}
				case 4:
					x = &sflow.VGCounters{}
				case 5:
					x = &sflow.VlanCounters{}
				case 1001:
					x = &sflow.ProcessorCounters{}
				}
				setFields(x, spec.Fields, rc.Vals)
				cs.Records[spec.Key] = x
			}
			e.Counters = append(e.Counters, cs)
		}
	}
	return e
}

// ---------------------------------------------------------------- generator

func rbytes(r *rand.Rand, n int) []byte {
	b := make([]byte, n)
	for i := range b {
		if r.Intn(3) > 0 {
			b[i] = byte(r.Intn(256))
		}
	}
	return b
}

func ru32(r *rand.Rand) uint32 {
	switch r.Intn(5) {
	case 0:
		return 0
	case 1:
		return 0xffffffff
	case 2:
		return uint32(r.Intn(70000))
	}
	return r.Uint32()
}

func ru64(r *rand.Rand) uint64 {
	switch r.Intn(4) {
	case 0:
		return uint64(r.Intn(1000))
	case 1:
		return 0xffffffffffffffff
	}
	return r.Uint64()
}

func ru16(r *rand.Rand) uint16 {
	switch r.Intn(4) {
	case 0:
		return 0
	case 1:
		return 0xffff
	}
	return uint16(r.Intn(65536))
}

func ipv6Addr(r *rand.Rand) (a [16]byte) {
	copy(a[:], rbytes(r, 16))
	switch r.Intn(6) {
	case 0: // ::1 and friends: zero runs for RFC 5952
		a = [16]byte{}
		a[15] = byte(1 + r.Intn(255))
	case 1: // IPv4-mapped
		a = [16]byte{}
		a[10], a[11] = 0xff, 0xff
		copy(a[12:], rbytes(r, 4))
	case 2: // two zero runs
		for i := 2; i < 6; i++ {
			a[i] = 0
		}
		for i := 10; i < 14+2*r.Intn(2); i++ {
			a[i] = 0
		}
	}
	return
}

func genPkt(r *rand.Rand) *aPkt {
	p := &aPkt{HdrProto: 1}
	switch r.Intn(6) {
	case 0:
		p.HdrProto = 11
	case 1:
		p.HdrProto = 12
		p.V6 = true
	default:
		p.V6 = r.Intn(2) == 0
	}
	p.Ver = 4
	if p.V6 {
		p.Ver = 6
	}
	if r.Intn(8) == 0 {
		p.Ver = byte(r.Intn(16))
	}
	copy(p.Dst[:], rbytes(r, 6))
	copy(p.Src[:], rbytes(r, 6))
	if p.HdrProto == 1 && r.Intn(3) == 0 {
		p.HasVlan = true
		p.TCI = ru16(r)
		if r.Intn(2) == 0 {
			p.TCI &= 0x0fff
		}
	}
	p.TOS, p.TotalLen, p.ID, p.TTL, p.Csum = byte(r.Intn(256)), ru16(r), ru16(r), byte(r.Intn(256)), ru16(r)
	if r.Intn(2) == 0 {
		p.Flags, p.FragOff = byte(r.Intn(8)), ru16(r)&0x1fff
	} else if r.Intn(2) == 0 {
		p.Flags = 2 // don't fragment
	}
	copy(p.Src4[:], rbytes(r, 4))
	copy(p.Dst4[:], rbytes(r, 4))
	if !p.V6 && r.Intn(4) == 0 {
		p.Opts = genIPv4Opts(r)
	}
	p.TC, p.FlowLabel, p.PayLen, p.Hop = byte(r.Intn(256)), r.Uint32()&0xfffff, ru16(r), byte(r.Intn(256))
	p.Src6, p.Dst6 = ipv6Addr(r), ipv6Addr(r)
	p.L4 = []int{6, 6, 17, 17, 1, 58}[r.Intn(6)]
	p.SPort, p.DPort, p.Seq, p.Ack = ru16(r), ru16(r), r.Uint32(), r.Uint32()
	p.DataOff, p.TCPFlags, p.Win, p.L4Csum, p.Urg, p.ULen = byte(r.Intn(16)), uint16(r.Intn(512)), ru16(r), ru16(r), ru16(r), ru16(r)
	p.IType, p.ICode = byte(r.Intn(256)), byte(r.Intn(256))
	// payload after the L4 header: the sampled header is 0..1500 octets in all
	base := len((&aPkt{HdrProto: p.HdrProto, HasVlan: p.HasVlan, V6: p.V6, L4: p.L4, Opts: p.Opts}).encode())
	var n int
	switch r.Intn(8) {
	case 0:
		n = 0
	case 1:
		n = 1500 - base - r.Intn(4)
	case 2:
		n = r.Intn(1500 - base + 1)
	default:
		n = r.Intn(70)
	}
	if p.L4 == 1 || p.L4 == 58 {
		if n < 4 {
			n = 4
		}
	}
	p.Rest = rbytes(r, n)
	if r.Intn(2) == 0 {
		p.TCPRes = byte(r.Intn(8))
	}
	if r.Intn(5) == 0 {
		spoilPkt(r, p)
	}
	return p
}

// sampled headers the dissector cannot break down: cut short at or inside any layer (a sampler keeps a fixed number
// of octets), frames that are not IP, IP protocols without a struct, other sFlow header protocols.  (A cut that
// leaves the three headers whole only shortens the payload: still dissectable.)
func spoilPkt(r *rand.Rand, p *aPkt) {
	full := len(p.encodeFrame())
	hdrs := len((&aPkt{HdrProto: p.HdrProto, HasVlan: p.HasVlan, V6: p.V6, L4: 17, Opts: p.Opts}).encodeFrame()) - 8
	eth := 0
	if p.HdrProto == 1 {
		eth = 14
		if p.HasVlan {
			eth = 18
		}
	}
	need := hdrs + l4Need(p.L4)
	switch k := r.Intn(8); {
	case k < 4:
		p.Trunc = true
		marks := []int{0, 1, 13, 14, 15, 17, 18, eth - 1, eth, eth + 1, eth + 19, eth + 20, eth + 39, eth + 40, hdrs - 1, hdrs, hdrs + 1,
			hdrs + 3, hdrs + 4, hdrs + 5, hdrs + 7, hdrs + 8, hdrs + 19, hdrs + 20, need - 1, need, full - 1, full}
		switch r.Intn(3) {
		case 0:
			p.Keep = marks[r.Intn(len(marks))]
		case 1:
			p.Keep = r.Intn(need)
		default:
			p.Keep = r.Intn(full + 1)
		}
		if p.Keep < 0 {
			p.Keep = 0
		}
		if p.Keep > full {
			p.Keep = full
		}
	case k == 4 && p.HdrProto == 1:
		ets := []uint16{0x0806, 0x8809, 0x88a8, 0x88cc, 0x8847, 0x8863, 0x0801, 0x86dc, 0x0000, 0xffff}
		if p.HasVlan {
			ets = append(ets, 0x8100, 0x8100) // a second tag (QinQ): the inner frame is not looked at
		}
		p.EtherType = ets[r.Intn(len(ets))]
		if r.Intn(3) == 0 {
			if et := uint16(r.Intn(65536)); et != 0 && et != 0x0800 && et != 0x86DD && et != 0x8100 {
				p.EtherType = et
			}
		}
	case k <= 6:
		// IPv6 extension headers (hop-by-hop 0, routing 43, fragment 44, destination options 60, no next header 59),
		// IP-in-IP, GRE, ESP, AH, IGMP, OSPF, SCTP, ...
		ps := []int{0, 43, 44, 60, 59, 2, 4, 41, 47, 50, 51, 89, 132, 255}
		p.L4 = ps[r.Intn(len(ps))]
		if r.Intn(3) == 0 {
			if x := r.Intn(256); x != 6 && x != 17 && x != 1 && x != 58 {
				p.L4 = x
			}
		}
	default:
		hp := []uint32{0, 2, 3, 4, 5, 6, 7, 8, 9, 10, 13, 14, 15, 16, 17, 0xffffffff}
		p.HdrProto = hp[r.Intn(len(hp))]
	}
}

// IPv4 options: IHL 6..15, i.e. 4..40 octets in multiples of 4.  Content: random octets, real option
// encodings (NOP / record route / timestamp / router alert, padded with end-of-list), or octet patterns
// that read as a plausible transport header (well-known ports, a TCP data offset of 5 with SYN|ACK, an
// ICMP echo) -- what a dissector that skips a fixed 20 octets would report instead of the wire values
func genIPv4Opts(r *rand.Rand) []byte {
	n := 4 * (1 + r.Intn(10))
	o := rbytes(r, n)
	switch r.Intn(4) {
	case 0: // real options
		o = o[:0]
		for len(o) < n {
			switch k := n - len(o); {
			case k >= 4 && r.Intn(3) == 0:
				o = append(o, 0x94, 4, 0, 0) // router alert
			case k >= 8 && r.Intn(2) == 0:
				l := 3 + 4*(1+r.Intn((k-3)/4))
				o = append(o, 7, byte(l), 4) // record route, pointer at the first slot
				o = append(o, rbytes(r, l-3)...)
			case r.Intn(2) == 0:
				o = append(o, 1) // no-operation
			default:
				o = append(o, make([]byte, k)...) // end of option list + padding
			}
		}
	case 1: // looks like a transport header
		ports := []uint16{53, 80, 123, 443, 179, 22, 8080, 51000, 65535}
		fake := sfCat(sfBe16(ports[r.Intn(len(ports))]), sfBe16(ports[r.Intn(len(ports))]), sfBe32(r.Uint32()), sfBe32(r.Uint32()),
			sfBe16(5<<12|uint16(r.Intn(512))), sfBe16(ru16(r)), sfBe16(ru16(r)), sfBe16(0))
		if r.Intn(3) == 0 {
			fake = sfCat([]byte{8, 0}, sfBe16(ru16(r)), sfBe16(ru16(r)), sfBe16(ru16(r)), fake)
		}
		copy(o, fake)
	}
	return o
}

func genCounterRec(r *rand.Rand) aRecord {
	f := []uint32{1, 2, 3, 4, 5, 1001, 7, 2000, 1 | 5<<12}[r.Intn(9)]
	rc := aRecord{Fmt: f}
	if cs, ok := counterSpecs[f]; ok {
		for _, fl := range cs.Fields {
			if fl.W == 8 {
				rc.Vals = append(rc.Vals, ru64(r))
			} else {
				rc.Vals = append(rc.Vals, uint64(ru32(r)))
			}
		}
	} else {
		rc.Opaque = rbytes(r, 4*r.Intn(10))
	}
	return rc
}

func genFlowRec(r *rand.Rand) aRecord {
	switch r.Intn(8) {
	case 0, 1, 2, 3:
		return aRecord{Fmt: 1, FrameLen: ru32(r), Stripped: ru32(r), Pkt: genPkt(r)}
	case 4:
		return aRecord{Fmt: 1001, SW: [4]uint32{ru32(r), ru32(r), ru32(r), ru32(r)}}
	case 5:
		switch r.Intn(6) {
		case 0, 1:
			return aRecord{Fmt: 1002, Hop: rbytes(r, 4), SrcMask: ru32(r), DstMask: ru32(r)}
		case 2: // address type 0 (unknown): no next-hop octets, record length 12
			return aRecord{Fmt: 1002, SrcMask: ru32(r), DstMask: ru32(r)}
		case 3: // any other length (XDR: a multiple of four) -- an address type this decoder does not know
			n := []int{0, 4, 8, 12, 20, 24, 32, 36, 40, 64}[r.Intn(10)]
			return aRecord{Fmt: 1002, RtrBody: append([]byte{}, rbytes(r, n)...)}
		}
		a := ipv6Addr(r)
		return aRecord{Fmt: 1002, Hop: a[:], SrcMask: ru32(r), DstMask: ru32(r)}
	}
	// formats this decoder does not know (extended gateway 1003, user 1004, url 1005, …; enterprise-specific)
	f := uint32(1003 + r.Intn(8))
	switch r.Intn(4) {
	case 0:
		f = uint32(2 + r.Intn(5))
	case 1:
		f |= uint32(1+r.Intn(5000)) << 12
	}
	return aRecord{Fmt: f, Opaque: rbytes(r, 4*r.Intn(12))}
}

func genSample(r *rand.Rand, k int) aSample {
	s := aSample{Seq: ru32(r), SrcType: byte(r.Intn(256)), SrcIdx: r.Uint32() & 0xffffff, Rate: ru32(r), Pool: ru32(r),
		Drops: ru32(r), In: ru32(r), Out: ru32(r)}
	if r.Intn(3) == 0 {
		s.SrcType, s.SrcIdx = 0, uint32(r.Intn(600))
	}
	switch k {
	case 0: // flow sample
		s.Type = 1
		for n := r.Intn(5); n > 0; n-- {
			s.Recs = append(s.Recs, genFlowRec(r))
		}
	case 1: // counter sample
		s.Type = 2
		for n := r.Intn(5); n > 0; n-- {
			s.Recs = append(s.Recs, genCounterRec(r))
		}
	case 2: // expanded flow / counter sample (types 3, 4): a realistic body, opaque to this decoder
		s.Type = uint32(3 + r.Intn(2))
		inner := aSample{Type: s.Type - 2, Seq: s.Seq}
		for n := r.Intn(3); n > 0; n-- {
			if s.Type == 3 {
				inner.Recs = append(inner.Recs, genFlowRec(r))
			} else {
				inner.Recs = append(inner.Recs, genCounterRec(r))
			}
		}
		b := inner.encode()[8:]
		// expanded source id / interfaces: 4 more octets each
		s.Opaque = sfCat(b[:4], sfBe32(uint32(s.SrcType)), sfBe32(s.SrcIdx), b[8:])
	case 3: // unknown standard type
		s.Type = uint32(5 + r.Intn(4000))
		s.Opaque = rbytes(r, 4*r.Intn(16))
	default: // enterprise-specific sample
		s.Type = uint32(1+r.Intn(1<<19))<<12 | uint32(r.Intn(4))
		s.Opaque = rbytes(r, 4*r.Intn(16))
	}
	return s
}

func genDatagram(r *rand.Rand, forFilter bool) *aDatagram {
	d := &aDatagram{SubID: ru32(r), Seq: ru32(r), UpTime: ru32(r)}
	if r.Intn(3) == 0 {
		a := ipv6Addr(r)
		d.Agent = a[:]
	} else {
		d.Agent = rbytes(r, 4)
	}
	ns := r.Intn(6)
	if forFilter {
		ns = 1 + r.Intn(6)
	}
	for j := 0; j < ns; j++ {
		var k int
		switch x := r.Intn(16); {
		case x < 7:
			k = 0
		case x < 11:
			k = 1
		case x < 13:
			k = 2
		case x < 15:
			k = 3
		default:
			k = 4
		}
		d.Samples = append(d.Samples, genSample(r, k))
	}
	return d
}

func genFilter(r *rand.Rand, d *aDatagram, always bool) []uint32 {
	if !always && r.Intn(6) != 0 {
		return nil
	}
	var f []uint32
	switch r.Intn(8) {
	case 0:
		f = []uint32{1}
	case 1:
		f = []uint32{2}
	case 2:
		f = []uint32{1, 2}
	case 3:
		f = []uint32{2, 3, 4}
	case 4:
		f = []uint32{uint32(5 + r.Intn(4000))}
	case 5:
		f = []uint32{4096 + 1, 1 << 20} // never match a 12-bit format
	default: // the type of the first sample, so that a filtered sample precedes the others
		if len(d.Samples) > 0 {
			f = []uint32{d.Samples[0].Type & 0xfff}
		} else {
			f = []uint32{1}
		}
		if r.Intn(2) == 0 {
			f = append(f, uint32(r.Intn(6)))
		}
	}
	return f
}

// field-aware corruption of a well-formed datagram
func mutate(r *rand.Rand, d []byte) []byte {
	if len(d) == 0 {
		return d
	}
	switch r.Intn(8) {
	case 7: // a sample length that wraps 32-bit offset arithmetic back onto (or near) its own header, with a large announced sample count
		so := 28 // first sample header: after version, address type, 4-octet agent address, sub-agent, sequence, uptime, count
		if len(d) > 8 && d[7] == 2 {
			so = 40
		}
		if so+8 <= len(d) {
			copy(d[so-4:], sfBe32([]uint32{1000, 50000, 300000}[r.Intn(3)]))
			copy(d[so+4:], sfBe32(uint32(0x100000000-8-4*int64(r.Intn(4)))))
			if r.Intn(2) == 0 { // an unknown / enterprise sample type: the length is all the decoder has
				copy(d[so:], sfBe32([]uint32{5, 0x1000 | 1, 0xfffff001}[r.Intn(3)]))
			}
		}
	case 0:
		return d[:r.Intn(len(d)+1)]
	case 1:
		d[r.Intn(len(d))] ^= byte(1 << uint(r.Intn(8)))
	case 2, 3: // a length / count / format word replaced by a boundary value
		if len(d) > 32 {
			o := 24 + 4*r.Intn((len(d)-24)/4)
			v := []uint32{0, 1, 2, 3, 4, 5, 7, 8, 9, 10, 11, 12, 13, 14, 15, 16, 17, 18, 20, 28, 1001, 1002, 1500, 1501, 0x7fffffff, 0x80000000, 0xfffffff8, 0xffffffff}
			copy(d[o:], sfBe32(v[r.Intn(len(v))]))
		}
	case 4: // the length word of an extended-router record
		if i := bytes.Index(d, []byte{0, 0, 3, 0xea}); i >= 0 && i+8 <= len(d) {
			copy(d[i+4:], sfBe32(uint32(r.Intn(32))))
			if r.Intn(4) == 0 {
				copy(d[i+4:], sfBe32(ru32(r)))
			}
		}
	case 5: // a sampled header cut short (header length and padding kept consistent elsewhere) or over-long
		if i := bytes.Index(d, []byte{0x81, 0}); i >= 28 {
			return d[:min(len(d), i+2+r.Intn(5))] // the 81 00 octets may be the datagram's last
		}
		return d[:r.Intn(len(d)+1)]
	case 6: // random octets after a valid start
		k := 8 + r.Intn(24)
		if k < len(d) {
			copy(d[k:], rbytes(r, len(d)-k))
		}
	}
	return d
}

// offsets of the HeaderLength word of every raw-header record of the encoded datagram (flow samples only)
func hdrLenOffsets(d *aDatagram, wire []byte) []int {
	var offs []int
	o := 8 + len(d.Agent) + 16
	for i := range d.Samples {
		s := &d.Samples[i]
		if s.Type == 1 {
			ro := o + 8 + 32
			for j := range s.Recs {
				if s.Recs[j].Fmt == 1 {
					if at := ro + 8 + 12; int(binary.BigEndian.Uint32(wire[at:])) != len(s.Recs[j].Pkt.encode()) {
						panic("hdrLenOffsets: not the HeaderLength word")
					}
					offs = append(offs, ro+8+12)
				}
				ro += 8 + len(s.Recs[j].encodeBody(false))
			}
		}
		o += len(s.encode())
	}
	return offs
}

// the raw-header HeaderLength word hit on purpose: the cap (1500 is the last accepted value), the uint32 padding
// arithmetic `(4 - HeaderLength) % 4` at its wrap-around, and every way the octets behind the word can run out
// (none left for a length of 1 / 4: Reader.Read reports EOF; one octet short; the XDR padding missing).  at = offset
// of the word in wire; nothing after the cut is described by the abstract datagram any more.
func hitHdrLen(r *rand.Rand, wire []byte, at int) []byte {
	if at+4 > len(wire) {
		return wire
	}
	w := append([]byte{}, wire...)
	old := int(binary.BigEndian.Uint32(w[at:]))
	vals := []uint32{1500, 1501, 1502, 1503, 1504, 0x7fffffff, 0x80000000, 0xfffffffc, 0xfffffffd, 0xfffffffe, 0xffffffff,
		0, 1, 2, 3, 4, 5, 1496, 1497, 1498, 1499}
	set := func(v uint32) { copy(w[at:], sfBe32(v)) }
	// the octets behind the word replaced by exactly n fresh ones (the datagram ends there)
	tail := func(n int) { w = append(w[:at+4], rbytes(r, n)...) }
	switch r.Intn(10) {
	case 0: // any boundary value, the octets that follow left alone
		set(vals[r.Intn(len(vals))])
	case 1: // any boundary value, nothing / a few / plenty of octets behind it
		set(vals[r.Intn(len(vals))])
		tail([]int{0, 1, 3, 4, 1499, 1500, 1501, 1504, 1600}[r.Intn(9)])
	case 2: // header length 1 or 4 with no octets left
		set([]uint32{1, 4}[r.Intn(2)])
		tail(0)
	case 3: // 1500 announced, 1499 there
		set(1500)
		tail(1499)
	case 4: // 1497 octets, the three padding octets (or some of them) missing
		set(1497)
		tail(1497 + r.Intn(3))
	case 5: // the cap from both sides with the octets there: 1500 is decoded, 1501.. is errMaxOutEthernetLength
		v := uint32(1497 + r.Intn(8))
		set(v)
		tail(int(v) + r.Intn(5))
	case 6: // the record's own header cut off after the word, one octet short of its announced length, or its padding short
		pad := (4 - old%4) % 4
		cut := []int{at + 4, at + 4 + old - 1, at + 4 + old, at + 4 + old + pad - 1}[r.Intn(4)]
		if cut >= at+4 && cut <= len(w) {
			w = w[:cut]
		}
	case 7: // one more / one less than what is there (the following record is read from shifted octets)
		if old > 0 && r.Intn(2) == 0 {
			set(uint32(old - 1))
		} else {
			set(uint32(old + 1))
		}
	case 8: // the other three words of the record at their boundary values (they are reported as they are)
		if at >= 12 {
			copy(w[at-12+4*r.Intn(3):], sfBe32([]uint32{0, 1, 0x7fffffff, 0x80000000, 0xffffffff}[r.Intn(5)]))
		}
	default: // wrap-around values with a datagram that goes on
		set([]uint32{0x7fffffff, 0x80000000, 0xfffffffc, 0xfffffffd, 0xfffffffe, 0xffffffff}[r.Intn(6)])
	}
	return w
}

func filterStr(f []uint32) string {
	if len(f) == 0 {
		return "-"
	}
	s := make([]string, len(f))
	for i, v := range f {
		s[i] = strconv.FormatUint(uint64(v), 10)
	}
	return strings.Join(s, ",")
}

func genSflow(r *rand.Rand, n int, w *bufio.Writer, forFilter bool) {
	for i := 0; i < n; i++ {
		d := genDatagram(r, forFilter)
		f := genFilter(r, d, forFilter)
		wire := d.encode()
		if r.Intn(100) < 12 {
			// malformed stream: the abstract datagram no longer describes the octets
			if offs := hdrLenOffsets(d, wire); len(offs) > 0 && r.Intn(4) == 0 {
				wire = hitHdrLen(r, wire, offs[r.Intn(len(offs))])
			} else if r.Intn(6) == 0 {
				wire = truncHeaderCase(r)
			} else {
				wire = mutate(r, wire)
			}
			fmt.Fprintf(w, "sflow %s %s\tM\n", filterStr(f), hx(wire))
			continue
		}
		exp, err := json.Marshal(d.expected(f))
		if err != nil {
			panic(err)
		}
		fmt.Fprintf(w, "sflow %s %s\tW %s\n", filterStr(f), hx(wire), exp)
	}
}

// one flow sample whose sampled header is a truncated frame (all lengths consistent): the dissector's guards
func truncHeaderCase(r *rand.Rand) []byte {
	p := genPkt(r)
	p.Rest = p.Rest[:min(len(p.Rest), 8)]
	h := p.encode()
	h = h[:r.Intn(len(h)+1)]
	body := sfCat(sfBe32(p.HdrProto), sfBe32(ru32(r)), sfBe32(0), sfBe32(uint32(len(h))), h, xdrPad(len(h)))
	rec := sfCat(sfBe32(1), sfBe32(uint32(len(body))), body)
	s := sfCat(sfBe32(ru32(r)), sfBe32(7), sfBe32(1), sfBe32(2), sfBe32(0), sfBe32(3), sfBe32(4), sfBe32(1), rec)
	return sfCat(sfBe32(5), sfBe32(1), []byte{10, 0, 0, 1}, sfBe32(0), sfBe32(1), sfBe32(2), sfBe32(1), sfBe32(1), sfBe32(uint32(len(s))), s)
}

// ---------------------------------------------------------------- run

var colRe = regexp.MustCompile(`"ColTime":\d+`)

var sfErrClasses = map[string]string{
	"EOF": "eof", "unexpected EOF": "eof",
	"the sflow version doesn't support":          "version",
	"the sflow data length is unknown":           "nolen",
	"the enterprise is not standard sflow data":  "enterprise",
	"the ethernet length is greater than 1500":   "hdrlen",
	"the ethernet header is too small":           "ethshort",
	"short ethernet header length":               "ieeeshort",
	"short ipv4 header length":                   "ip4short",
	"short ipv6 header length":                   "ip6short",
	"short TCP header length":                    "tcpshort",
	"short UDP header length":                    "udpshort",
	"ICMP header length is too short":            "icmpshort",
	"unknown transport layer":                    "l4unknown",
	"unknown ether type":                         "ethertype",
	"unknown header protocol":                    "hdrproto",
	"unknown network layer protocol":             "l3unknown",
	"the extended router data length is invalid": "rtrlen",
}

func sfErrClass(err error) string {
	if c, ok := sfErrClasses[err.Error()]; ok {
		return "err " + c
	}
	return "err other:" + strings.ReplaceAll(err.Error(), " ", "_")
}

func parseFilter(s string) []uint32 {
	var filter []uint32
	if s != "-" {
		for _, x := range strings.Split(s, ",") {
			v, _ := strconv.ParseUint(x, 10, 32)
			filter = append(filter, uint32(v))
		}
	}
	return filter
}

// decode + marshal once, measuring the allocation of the decode call
func sfDecodeJSON(dg []byte, filter []uint32) (out string, dgm *sflow.SFDatagram, alloc uint64) {
	var m0, m1 runtime.MemStats
	rd := bytes.NewReader(dg)
	runtime.ReadMemStats(&m0)
	d := sflow.NewSFDecoder(rd, filter)
	dgm, err := d.SFDecode()
	runtime.ReadMemStats(&m1)
	alloc = m1.TotalAlloc - m0.TotalAlloc
	if err != nil {
		return sfErrClass(err), nil, alloc
	}
	b, err := json.Marshal(dgm)
	if err != nil {
		return "jsonerr", dgm, alloc
	}
	return colRe.ReplaceAllString(string(b), `"ColTime":0`), dgm, alloc
}

func runSflow(st *state, line, expect string) (string, string) {
	f := strings.Fields(line)
	if len(f) != 3 {
		return "bad-op", ""
	}
	filter := parseFilter(f[1])
	dg := unhx(f[2])
	out, dgm, alloc := sfDecodeJSON(append([]byte{}, dg...), filter)
	verdict := "ok"
	if alloc > uint64(allocA*len(dg)+allocB) {
		// first-use costs of the process (sync.Pool of fmt / encoding/binary, reflection caches) or a
		// concurrent runtime allocation can land in the window: only a repeatable excess counts
		for i := 0; i < 2 && alloc > uint64(allocA*len(dg)+allocB); i++ {
			_, _, alloc = sfDecodeJSON(append([]byte{}, dg...), filter)
		}
	}
	if alloc > uint64(allocA*len(dg)+allocB) {
		verdict = fmt.Sprintf("fail:alloc TotalAlloc delta %d > %d*%d+%d", alloc, allocA, len(dg), allocB)
	}
	if dgm != nil && len(dgm.Samples)+len(dgm.Counters) > len(dg)/8 {
		verdict = fmt.Sprintf("fail:count %d samples+counters from %d octets", len(dgm.Samples)+len(dgm.Counters), len(dg))
	}
	if strings.HasPrefix(expect, "W ") {
		want := expect[2:]
		if out != want {
			verdict = "fail:C07 decoded datagram differs from the abstract datagram: " + firstDiff(out, want)
		} else if len(filter) > 0 {
			// C18: the same octets without the filter, minus the listed types
			_, full, _ := sfDecodeJSON(append([]byte{}, dg...), nil)
			if full == nil {
				verdict = "fail:C18 unfiltered decode failed"
			} else {
				for _, t := range filter {
					if t == 1 {
						full.Samples = []sflow.Sample{}
					}
					if t == 2 {
						full.Counters = []sflow.Counter{}
					}
				}
				b, _ := json.Marshal(full)
				if s := colRe.ReplaceAllString(string(b), `"ColTime":0`); s != out {
					verdict = "fail:C18 filtered decode differs from unfiltered decode minus the listed types: " + firstDiff(out, s)
				}
			}
		}
	}
	return out, verdict
}

func firstDiff(got, want string) string {
	i := 0
	for i < len(got) && i < len(want) && got[i] == want[i] {
		i++
	}
	lo := i - 60
	if lo < 0 {
		lo = 0
	}
	cut := func(s string) string {
		hi := i + 40
		if hi > len(s) {
			hi = len(s)
		}
		if lo > len(s) {
			return ""
		}
		return s[lo:hi]
	}
	return fmt.Sprintf("at %d got …%s… want …%s…", i, cut(got), cut(want))
}

// ---------------------------------------------------------------- dissector alone

func genDissect(r *rand.Rand, n int, w *bufio.Writer) {
	for i := 0; i < n; i++ {
		p := genPkt(r)
		if r.Intn(3) > 0 {
			p.Rest = p.Rest[:min(len(p.Rest), 12)]
		}
		if p.L4 == 1 || p.L4 == 58 {
			for len(p.Rest) < 4 {
				p.Rest = append(p.Rest, 0)
			}
		}
		h := p.encode()
		proto := p.HdrProto
		if !p.dissectable() {
			// specification side: such a header has no breakdown -- the dissector must say so (an error, never a packet)
			fmt.Fprintf(w, "dissect %d %s\tE\n", proto, hx(h))
			continue
		}
		if r.Intn(100) < 70 {
			exp, _ := json.Marshal(p.expected())
			fmt.Fprintf(w, "dissect %d %s\tW %s\n", proto, hx(h), exp)
			continue
		}
		if p.Trunc { // the perturbations below start from the whole frame
			p.Trunc = false
			h = p.encode()
		}
		switch r.Intn(6) {
		case 5: // the IPv4 header-length nibble no longer matches the octets: any IHL 0..15 (below 5 is malformed), header cut anywhere around it
			if !p.V6 {
				off := len(h) - len((&aPkt{HdrProto: 11, L4: p.L4, Opts: p.Opts, Rest: p.Rest}).encode())
				h[off] = h[off]&0xf0 | byte(r.Intn(16))
				if r.Intn(2) == 0 {
					h = h[:min(len(h), off+r.Intn(70))]
				}
			} else {
				h = h[:r.Intn(len(h)+1)]
			}
		case 0, 1:
			h = h[:r.Intn(len(h)+1)]
		case 2:
			if len(h) > 0 {
				h[r.Intn(min(len(h), 60))] ^= byte(1 << uint(r.Intn(8)))
			}
		case 3:
			proto = uint32(r.Intn(14))
		case 4: // double tag / odd ethertypes
			if p.HdrProto == 1 && len(h) > 14 {
				copy(h[12:], sfBe16([]uint16{0x8100, 0x0806, 0x8809, 0x88a8}[r.Intn(4)]))
				if r.Intn(2) == 0 {
					h = h[:14+r.Intn(6)]
				}
			}
		}
		fmt.Fprintf(w, "dissect %d %s\tM\n", proto, hx(h))
	}
}

func runDissect(st *state, line, expect string) (string, string) {
	f := strings.Fields(line)
	if len(f) != 3 {
		return "bad-op", ""
	}
	proto, _ := strconv.ParseUint(f[1], 10, 32)
	h := unhx(f[2])
	p := packet.NewPacket()
	d, err := p.Decoder(append([]byte{}, h...), uint32(proto))
	var out string
	if err != nil {
		out = sfErrClass(err)
	} else {
		b, _ := json.Marshal(d)
		out = string(b)
	}
	verdict := "ok"
	if strings.HasPrefix(expect, "W ") && out != expect[2:] {
		verdict = "fail:C07 dissected header differs from the abstract packet: " + firstDiff(out, expect[2:])
	}
	if expect == "E" && !strings.HasPrefix(out, "err ") {
		verdict = "fail:C07 a sampled header that cannot be broken down was dissected: " + out
	}
	return out, verdict
}

