package main

import (
	"bufio"
	"fmt"
	"math/rand"
	"strings"
)

// C14: fault scripts for the raw-socket producer. The cases are run inside package producer by
// the verif-tagged test TestVerifRawSocket (runner, see propdefs/C14.py), which drives the real
// RawSocket.setup/inputMsg against real loopback sinks; message contents derive from the seed there.
//
//	producer <proto> <retry-max> <seed> <n> <events|->
//
// events (applied just before message k is handed over): c<k> sink closes the connection,
// r<k> sink resets it (tcp), d<k> sink closes it and stops listening, u<k> sink listens again,
// s<k> (unix, tcp) message k is larger than the socket buffers, the sink stalls until the producer is
// blocked in the middle of writing it and then closes / resets the connection,
// z<k> (unix, tcp) message k is larger than the socket buffers, the sink stays connected but does not read for
// 3.5 s (VERIF_PRODUCER_STALL_MS) while it is being written, then reads everything: no fault, everything must arrive.
//
// Stall cases cost seconds each, so there are few of them, at fixed places counted from the END of the run: the
// last line and every 1250th before it. A quick run (200 lines) gets exactly one, a thorough run (50000 lines
// over up to 16 shards) 40 to 48. The hook runs the lines that carry a z event in a lane of their own, started at
// once, next to the other lines: coming last, the stall case is over before the rest of the shard is.
const producerStallEvery = 1250

func init() {
	kinds["producer"] = &kind{gen: genProducer, run: nil}
}

func genProducer(r *rand.Rand, n int, w *bufio.Writer) {
	retries := []int{0, 0, 1, 1, 2, 2, 3, 5}
	for i := 0; i < n; i++ {
		if (n-1-i)%producerStallEvery == 0 && n >= 100 {
			genProducerStall(r, w, n <= producerStallEvery)
			continue
		}
		proto := "unix"
		switch p := r.Intn(100); {
		case p >= 85:
			proto = "udp"
		case p >= 55:
			proto = "tcp"
		}
		rm := retries[r.Intn(len(retries))]
		nm := 8 + r.Intn(33)
		if r.Intn(20) == 0 {
			nm = 100 + r.Intn(300)
		}
		var evs []string
		if r.Intn(10) >= 3 {
			up := true
			k := 1 + r.Intn(4)
			for e, ne := 0, 1+r.Intn(4); e < ne && k < nm-1; e++ {
				var c byte
				switch {
				case !up:
					c = 'u'
				case proto == "udp":
					c = 'd'
				default:
					c = "ccdrs"[r.Intn(5)]
					if c == 'r' && proto != "tcp" {
						c = 'c'
					}
					if c == 's' && nm > 60 {
						c = 'c'
					}
				}
				if c == 'd' {
					up = false
				} else if c == 'u' {
					up = true
				}
				evs = append(evs, fmt.Sprintf("%c%d", c, k))
				k += r.Intn(6)
				if r.Intn(8) == 0 {
					k += r.Intn(nm)
				}
			}
			// usually bring the sink back and leave room to observe the resumption
			if !up && r.Intn(5) != 0 && k < nm-1 {
				evs = append(evs, fmt.Sprintf("u%d", k))
			}
		}
		ev := "-"
		if len(evs) > 0 {
			ev = strings.Join(evs, ",")
		}
		fmt.Fprintf(w, "producer %s %d %d %d %s\n", proto, rm, r.Int63n(1<<40), nm, ev)
	}
}

// genProducerStall prints one case with a silent-but-connected sink: tcp or unix, few messages. `single`
// (the one case of a quick run): exactly one stall and nothing else; otherwise one or two stalls, and in
// every second case ordinary faults (close, reset, down / up, kill in mid-write) before, at or after them.
func genProducerStall(r *rand.Rand, w *bufio.Writer, single bool) {
	proto := "tcp"
	if r.Intn(2) == 0 {
		proto = "unix"
	}
	retries := []int{0, 1, 2, 2, 3, 5}
	rm := retries[r.Intn(len(retries))]
	nm := 8 + r.Intn(17)
	type ev struct {
		c byte
		k int
	}
	evs := []ev{{'z', 1 + r.Intn(nm-2)}}
	if !single {
		if r.Intn(2) == 0 {
			// a second stall: the very next message, or a later one
			k := evs[0].k + 1 + r.Intn(2)*r.Intn(nm)
			if k < nm {
				evs = append(evs, ev{'z', k})
			}
		}
		if r.Intn(2) == 0 {
			up := true
			k := 1 + r.Intn(nm-2) // never 0: the sink may not have accepted the first connection yet
			for e, ne := 0, 1+r.Intn(3); e < ne && k < nm-1; e++ {
				c := byte('u')
				if up {
					c = "ccdrs"[r.Intn(5)]
					if c == 'r' && proto != "tcp" {
						c = 'c'
					}
				}
				up = c != 'd'
				evs = append(evs, ev{c, k})
				k += r.Intn(5)
			}
			if !up && k < nm-1 {
				evs = append(evs, ev{'u', k})
			}
		}
	}
	// by message index, the faults of an index before its stall (stable: the order of generation otherwise)
	for i := 1; i < len(evs); i++ {
		for j := i; j > 0 && (evs[j].k < evs[j-1].k || (evs[j].k == evs[j-1].k && evs[j-1].c == 'z' && evs[j].c != 'z')); j-- {
			evs[j], evs[j-1] = evs[j-1], evs[j]
		}
	}
	var parts []string
	for _, e := range evs {
		parts = append(parts, fmt.Sprintf("%c%d", e.c, e.k))
	}
	fmt.Fprintf(w, "producer %s %d %d %d %s\n", proto, rm, r.Int63n(1<<40), nm, strings.Join(parts, ","))
}
