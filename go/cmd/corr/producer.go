package main

import (
	"bufio"
	"fmt"
	"math/rand"
	"strings"
)

// C14: fault scripts for the raw-socket producer. The cases are run inside package producer by
// the verif-tagged test TestVerifRawSocket (runner, see propdefs/C14.py), which drives the real
// RawSocket.setup/inputMsg against real loopback sinks; message contents derive from the seed there.
//
//	producer <proto> <retry-max> <seed> <n> <events|->
//
// events (applied just before message k is handed over): c<k> sink closes the connection,
// r<k> sink resets it (tcp), d<k> sink closes it and stops listening, u<k> sink listens again,
// s<k> (unix, tcp) message k is larger than the socket buffers, the sink stalls until the producer is
// blocked in the middle of writing it and then closes / resets the connection.
func init() {
	kinds["producer"] = &kind{gen: genProducer, run: nil}
}

func genProducer(r *rand.Rand, n int, w *bufio.Writer) {
	retries := []int{0, 0, 1, 1, 2, 2, 3, 5}
	for i := 0; i < n; i++ {
		proto := "unix"
		switch p := r.Intn(100); {
		case p >= 85:
			proto = "udp"
		case p >= 55:
			proto = "tcp"
		}
		rm := retries[r.Intn(len(retries))]
		nm := 8 + r.Intn(33)
		if r.Intn(20) == 0 {
			nm = 100 + r.Intn(300)
		}
		var evs []string
		if r.Intn(10) >= 3 {
			up := true
			k := 1 + r.Intn(4)
			for e, ne := 0, 1+r.Intn(4); e < ne && k < nm-1; e++ {
				var c byte
				switch {
				case !up:
					c = 'u'
				case proto == "udp":
					c = 'd'
				default:
					c = "ccdrs"[r.Intn(5)]
					if c == 'r' && proto != "tcp" {
						c = 'c'
					}
					if c == 's' && nm > 60 {
						c = 'c'
					}
				}
				if c == 'd' {
					up = false
				} else if c == 'u' {
					up = true
				}
				evs = append(evs, fmt.Sprintf("%c%d", c, k))
				k += r.Intn(6)
				if r.Intn(8) == 0 {
					k += r.Intn(nm)
				}
			}
			// usually bring the sink back and leave room to observe the resumption
			if !up && r.Intn(5) != 0 && k < nm-1 {
				evs = append(evs, fmt.Sprintf("u%d", k))
			}
		}
		ev := "-"
		if len(evs) > 0 {
			ev = strings.Join(evs, ",")
		}
		fmt.Fprintf(w, "producer %s %d %d %d %s\n", proto, rm, r.Int63n(1<<40), nm, ev)
	}
}
