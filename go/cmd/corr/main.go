// corr: the correspondence harness. It generates cases from one PRNG, runs the
// real vflow packages in-process on them, prints one canonical line per case
// (what the Lean model driver must print too) and, after a TAB, the verdict of
// the model-independent property oracle.
//
//	corr gen <kind> <seed> <n>      case lines on stdout (TAB-separated expectation, hidden from the model)
//	corr run <kind> [skip]          reads case lines, prints "<impl line>\t<oracle verdict>"
package main

import (
	"bufio"
	"encoding/hex"
	"fmt"
	"math/rand"
	"os"
	"strconv"
	"strings"
	"time"
)

type kind struct {
	gen func(r *rand.Rand, n int, w *bufio.Writer)
	// run handles one case line (already split at TAB) and returns the impl line and the oracle verdict
	run func(st *state, line, expect string) (string, string)
}

// state carried across the lines of one session (template caches etc.)
type state struct {
	v map[string]interface{}
}

var kinds = map[string]*kind{}

// tools: `corr <tool> args…` — helpers of the end-to-end checks that need the real packages (not case kinds)
var tools = map[string]func(args []string) int{}

func hx(b []byte) string {
	if len(b) == 0 {
		return "-"
	}
	return hex.EncodeToString(b)
}

func unhx(s string) []byte {
	if s == "-" {
		return []byte{}
	}
	b, err := hex.DecodeString(s)
	if err != nil {
		panic("bad hex in case line: " + s)
	}
	return b
}

// watchdog per case (ms); a hang exits with status 3 after printing what was done
var watchdogMs = 1000

func main() {
	if len(os.Args) >= 2 && tools[os.Args[1]] != nil {
		os.Exit(tools[os.Args[1]](os.Args[2:]))
	}
	if len(os.Args) < 3 {
		fmt.Fprintln(os.Stderr, "usage: corr gen|run <kind> ...")
		os.Exit(2)
	}
	k := kinds[os.Args[2]]
	if k == nil {
		fmt.Fprintln(os.Stderr, "unknown kind", os.Args[2])
		os.Exit(2)
	}
	if s := os.Getenv("VERIF_WATCHDOG_MS"); s != "" {
		watchdogMs, _ = strconv.Atoi(s)
	}
	switch os.Args[1] {
	case "gen":
		seed, _ := strconv.ParseInt(os.Args[3], 10, 64)
		n, _ := strconv.Atoi(os.Args[4])
		w := bufio.NewWriterSize(os.Stdout, 1<<20)
		k.gen(rand.New(rand.NewSource(seed)), n, w)
		w.Flush()
	case "run":
		runLoop(k)
	}
}

func runLoop(k *kind) {
	sc := bufio.NewScanner(os.Stdin)
	sc.Buffer(make([]byte, 1<<20), 1<<26)
	w := bufio.NewWriterSize(os.Stdout, 1<<16)
	defer w.Flush()
	st := &state{v: map[string]interface{}{}}
	lineNo := 0
	for sc.Scan() {
		lineNo++
		line, expect := sc.Text(), ""
		if i := strings.IndexByte(line, '\t'); i >= 0 {
			line, expect = line[:i], line[i+1:]
		}
		if line == "new" {
			st = &state{v: map[string]interface{}{}}
			fmt.Fprintln(w, "new\t")
			continue
		}
		type res struct{ out, verdict string }
		ch := make(chan res, 1)
		go func() {
			defer func() {
				if p := recover(); p != nil {
					ch <- res{"panic", "fail:panic " + strings.ReplaceAll(fmt.Sprint(p), "\n", " ")}
				}
			}()
			o, v := k.run(st, line, expect)
			ch <- res{o, v}
		}()
		select {
		case x := <-ch:
			fmt.Fprintf(w, "%s\t%s\n", x.out, x.verdict)
		case <-time.After(time.Duration(watchdogMs) * time.Millisecond):
			fmt.Fprintf(w, "fuel\tfail:hang no result within %dms\n", watchdogMs)
			w.Flush()
			fmt.Fprintf(os.Stderr, "HANG at line %d\n", lineNo)
			os.Exit(3)
		}
	}
}
