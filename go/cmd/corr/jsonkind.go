package main

// C05: messages built directly from typed values (every Interpret result kind x content class),
// encoded by the real Message.JSONMarshal of ipfix / netflow9.
// Oracle: json.Valid, and the document parsed back (UseNumber) equals the value tree the message
// was built from: agent, header fields, per field id / enterprise number (when non-zero) / value.

import (
	"bufio"
	"bytes"
	"encoding/hex"
	"encoding/json"
	"fmt"
	"math"
	"math/rand"
	"net"
	"strconv"
	"strings"
	"unicode/utf8"

	"github.com/EdgeCast/vflow/ipfix"
	netflow9 "github.com/EdgeCast/vflow/netflow/v9"
)

func init() { kinds["json"] = &kind{gen: genJSON, run: runJSON} }

var strClasses = []func(r *rand.Rand) []byte{
	func(r *rand.Rand) []byte { return []byte("plain text 123") },
	func(r *rand.Rand) []byte { return []byte(`quote " backslash \ slash / done`) },
	func(r *rand.Rand) []byte { return []byte("ctl \x00\x01\x08\x09\x0a\x0c\x0d\x1f\x7f end") },
	func(r *rand.Rand) []byte { return []byte("html <b>&amp;</b>") },
	func(r *rand.Rand) []byte { return []byte("utf8 é ü 日本     � 😀") },
	func(r *rand.Rand) []byte { return []byte{0x80, 0xff, 0xc0, 0xaf, 0xe2, 0x80, 0xed, 0xa0, 0x80, 0xf4, 0x90, 0x80, 0x80, 0xc2} },
	func(r *rand.Rand) []byte { return []byte("%d %s %!v %%") },
	func(r *rand.Rand) []byte { return nil },
	func(r *rand.Rand) []byte { return rndBytes(r, r.Intn(24)) },
	func(r *rand.Rand) []byte { b := make([]byte, r.Intn(12)); r.Read(b); return b },
}

func genVal(r *rand.Rand) string {
	edge := func(bits uint) uint64 {
		switch r.Intn(5) {
		case 0:
			return 0
		case 1:
			return 1<<bits - 1
		case 2:
			return 1 << (bits - 1)
		case 3:
			return 1<<(bits-1) - 1
		}
		return r.Uint64() & (1<<bits - 1)
	}
	if r.Intn(5) == 0 {
		_ = edge
	}
	switch r.Intn(15) {
	case 0:
		return "bool:" + strconv.FormatBool(r.Intn(2) == 0)
	case 1:
		return "u8:" + strconv.FormatUint(edge(8), 10)
	case 2:
		return "u16:" + strconv.FormatUint(edge(16), 10)
	case 3:
		return "u32:" + strconv.FormatUint(edge(32), 10)
	case 4:
		v := edge(63)
		if r.Intn(3) == 0 {
			v = math.MaxUint64 - uint64(r.Intn(2))
		}
		return "u64:" + strconv.FormatUint(v, 10)
	case 5:
		return "i8:" + strconv.FormatInt(int64(int8(edge(8))), 10)
	case 6:
		return "i16:" + strconv.FormatInt(int64(int16(edge(16))), 10)
	case 7:
		return "i32:" + strconv.FormatInt(int64(int32(edge(32))), 10)
	case 8:
		v := int64(r.Uint64())
		switch r.Intn(4) {
		case 0:
			v = math.MinInt64
		case 1:
			v = math.MaxInt64
		case 2:
			v = int64(r.Intn(5)) - 2
		}
		return "i64:" + strconv.FormatInt(v, 10)
	case 9:
		bits := r.Uint32()
		switch r.Intn(6) {
		case 0:
			bits = 0x7fc00000 // NaN
		case 1:
			bits = 0x7f800000 // +Inf
		case 2:
			bits = 0xff800000 // -Inf
		case 3:
			bits = math.Float32bits([]float32{0, 1, -1.5, 3.4e38, 1e-45, 0.1}[r.Intn(6)])
		case 4:
			bits = 0x80000000 // -0
		}
		txt := strconv.FormatFloat(float64(math.Float32frombits(bits)), 'E', -1, 32)
		return fmt.Sprintf("f32:%d:%s", bits, hex.EncodeToString([]byte(txt)))
	case 10:
		bits := r.Uint64()
		switch r.Intn(6) {
		case 0:
			bits = 0x7ff8000000000001
		case 1:
			bits = 0x7ff0000000000000
		case 2:
			bits = 0xfff0000000000000
		case 3:
			bits = math.Float64bits([]float64{0, 1, -2.5e-300, 1.7976931348623157e308, 5e-324, 0.1}[r.Intn(6)])
		case 4:
			bits = 0x8000000000000000
		}
		txt := strconv.FormatFloat(math.Float64frombits(bits), 'E', -1, 64)
		return fmt.Sprintf("f64:%d:%s", bits, hex.EncodeToString([]byte(txt)))
	case 11:
		return "mac:" + hx0(rndBytes(r, []int{6, 6, 6, 8, 0, 20}[r.Intn(6)]))
	case 12:
		return "str:" + hx0(strClasses[r.Intn(len(strClasses))](r))
	case 13:
		var b []byte
		switch r.Intn(8) {
		case 0:
			b = []byte{10, 1, 2, 3}
		case 1:
			b = net.ParseIP("10.1.2.3") // IPv4-mapped
		case 2:
			b = net.ParseIP("2001:db8::1")
		case 3:
			b = net.ParseIP("::")
		case 4:
			b = net.ParseIP("1:0:0:2:0:0:0:3")
		case 5:
			b = rndBytes(r, 16)
		case 6:
			b = rndBytes(r, 4)
		default:
			b = rndBytes(r, []int{0, 5, 7, 17}[r.Intn(4)]) // not an address length: "?hex" / "<nil>"
		}
		return "ip:" + hx0(b)
	default:
		return "raw:" + hx0(rndBytes(r, r.Intn(12)))
	}
}

func hx0(b []byte) string { return hex.EncodeToString(b) }

func genJSON(r *rand.Rand, n int, w *bufio.Writer) {
	for i := 0; i < n; i++ {
		proto := []string{"ipfix", "nf9"}[r.Intn(2)]
		addr := exporterAddrs[r.Intn(len(exporterAddrs))]
		nh := 5
		if proto == "nf9" {
			nh = 6
		}
		hs := make([]string, nh)
		for j := range hs {
			bits := uint(32)
			if j < 2 {
				bits = 16
			}
			hs[j] = strconv.FormatUint(r.Uint64()&(1<<bits-1), 10)
		}
		nrec := r.Intn(4)
		if r.Intn(6) == 0 {
			nrec = 0
		}
		var recs []string
		for k := 0; k < nrec; k++ {
			nf := 1 + r.Intn(5)
			var fs []string
			for j := 0; j < nf; j++ {
				ent := 0
				if proto == "ipfix" && r.Intn(4) == 0 {
					ent = 1 + r.Intn(70000)
				}
				fs = append(fs, fmt.Sprintf("%d/%d=%s", r.Intn(65536), ent, genVal(r)))
			}
			recs = append(recs, strings.Join(fs, "|"))
		}
		rs := strings.Join(recs, ";")
		if rs == "" {
			rs = "-"
		}
		fmt.Fprintf(w, "json %s %s %s %s\n", proto, hx(addr), strings.Join(hs, ","), rs)
	}
}

type jfield struct {
	id, ent uint64
	val     interface{}
	kind    string
	payload string
}

func parseJVal(kind, payload string) interface{} {
	u := func(bits int) uint64 { v, _ := strconv.ParseUint(payload, 10, bits); return v }
	s := func(bits int) int64 { v, _ := strconv.ParseInt(payload, 10, bits); return v }
	switch kind {
	case "bool":
		return payload == "true"
	case "u8":
		return uint8(u(8))
	case "u16":
		return uint16(u(16))
	case "u32":
		return uint32(u(32))
	case "u64":
		return u(64)
	case "i8":
		return int8(s(8))
	case "i16":
		return int16(s(16))
	case "i32":
		return int32(s(32))
	case "i64":
		return s(64)
	case "f32":
		return math.Float32frombits(uint32(u(32)))
	case "f64":
		return math.Float64frombits(u(64))
	case "mac":
		b, _ := hex.DecodeString(payload)
		return net.HardwareAddr(b)
	case "str":
		b, _ := hex.DecodeString(payload)
		return string(b)
	case "ip":
		b, _ := hex.DecodeString(payload)
		return net.IP(b)
	}
	b, _ := hex.DecodeString(payload)
	return b
}

func runJSON(st *state, line, expect string) (string, string) {
	f := strings.Fields(line)
	proto, addr := f[1], unhx(f[2])
	var hv []uint64
	for _, h := range strings.Split(f[3], ",") {
		v, _ := strconv.ParseUint(h, 10, 64)
		hv = append(hv, v)
	}
	var recs [][]jfield
	if f[4] != "-" {
		for _, rs := range strings.Split(f[4], ";") {
			var rec []jfield
			for _, fs := range strings.Split(rs, "|") {
				eq := strings.IndexByte(fs, '=')
				var id, ent uint64
				fmt.Sscanf(fs[:eq], "%d/%d", &id, &ent)
				parts := strings.SplitN(fs[eq+1:], ":", 3)
				rec = append(rec, jfield{id, ent, parseJVal(parts[0], parts[1]), parts[0], parts[1]})
			}
			recs = append(recs, rec)
		}
	}
	agent := net.IP(addr).String()
	var jb []byte
	var jerr error
	var hdrNames []string
	if proto == "ipfix" {
		m := &ipfix.Message{AgentID: agent}
		m.Header = ipfix.MessageHeader{Version: uint16(hv[0]), Length: uint16(hv[1]), ExportTime: uint32(hv[2]), SequenceNo: uint32(hv[3]), DomainID: uint32(hv[4])}
		hdrNames = []string{"Version", "Length", "ExportTime", "SequenceNo", "DomainID"}
		for _, rec := range recs {
			var ds []ipfix.DecodedField
			for _, fl := range rec {
				ds = append(ds, ipfix.DecodedField{ID: uint16(fl.id), Value: fl.val, EnterpriseNo: uint32(fl.ent)})
			}
			m.DataSets = append(m.DataSets, ds)
		}
		jb, jerr = m.JSONMarshal(new(bytes.Buffer))
	} else {
		m := &netflow9.Message{AgentID: agent}
		m.Header = netflow9.PacketHeader{Version: uint16(hv[0]), Count: uint16(hv[1]), SysUpTime: uint32(hv[2]), UNIXSecs: uint32(hv[3]), SeqNum: uint32(hv[4]), SrcID: uint32(hv[5])}
		hdrNames = []string{"Version", "Count", "SysUpTime", "UNIXSecs", "SeqNum", "SrcID"}
		for _, rec := range recs {
			var ds []netflow9.DecodedField
			for _, fl := range rec {
				ds = append(ds, netflow9.DecodedField{ID: uint16(fl.id), Value: fl.val})
			}
			m.DataSets = append(m.DataSets, ds)
		}
		jb, jerr = m.JSONMarshal(new(bytes.Buffer))
	}
	if jerr != nil {
		return "ERR", "fail:marshal JSONMarshal returned an error for a decodable value: " + jerr.Error()
	}
	out := hx(jb)
	if !json.Valid(jb) {
		return out, "fail:invalid not a valid JSON document: " + clip(string(jb), 300)
	}
	// "lines received by the message-queue sink": the raw-socket producer frames one payload per line, so a payload
	// holding a raw line feed — legal JSON white space — reaches the sink as two lines, neither a document (seed C05-h)
	if i := bytes.IndexByte(jb, '\n'); i >= 0 {
		return out, fmt.Sprintf("fail:linefeed the payload holds a raw line feed at octet %d: the line-framed sink receives it as %d lines, none of them a JSON document", i, bytes.Count(jb, []byte{'\n'})+1)
	}
	var doc struct {
		AgentID  string
		Header   map[string]json.Number
		DataSets [][]map[string]interface{}
	}
	d := json.NewDecoder(bytes.NewReader(jb))
	d.UseNumber()
	if err := d.Decode(&doc); err != nil {
		return out, "fail:parse " + err.Error()
	}
	if doc.AgentID != agent {
		return out, "fail:faithful AgentID " + doc.AgentID + " want " + agent
	}
	for i, n := range hdrNames {
		if doc.Header[n].String() != strconv.FormatUint(hv[i], 10) {
			return out, "fail:faithful Header." + n + "=" + doc.Header[n].String() + " want " + strconv.FormatUint(hv[i], 10)
		}
	}
	if len(doc.DataSets) != len(recs) {
		return out, fmt.Sprintf("fail:faithful %d data sets in JSON, %d in the message", len(doc.DataSets), len(recs))
	}
	for i, rec := range recs {
		if len(doc.DataSets[i]) != len(rec) {
			return out, fmt.Sprintf("fail:faithful record %d has %d fields in JSON, %d in the message", i, len(doc.DataSets[i]), len(rec))
		}
		for j, fl := range rec {
			o := doc.DataSets[i][j]
			if fmt.Sprint(o["I"]) != strconv.FormatUint(fl.id, 10) {
				return out, fmt.Sprintf("fail:faithful field %d/%d I=%v want %d", i, j, o["I"], fl.id)
			}
			if _, has := o["E"]; (proto == "ipfix" && fl.ent != 0) != has || (has && fmt.Sprint(o["E"]) != strconv.FormatUint(fl.ent, 10)) {
				return out, fmt.Sprintf("fail:faithful field %d/%d E=%v want %d", i, j, o["E"], fl.ent)
			}
			if msg := checkJVal(o["V"], fl); msg != "" {
				return out, fmt.Sprintf("fail:faithful field %d/%d (%s:%s): %s", i, j, fl.kind, clip(fl.payload, 60), msg)
			}
		}
	}
	return out, "ok"
}

// sanitize: what a JSON string can carry of an arbitrary octet string: each invalid UTF-8 octet becomes U+FFFD
func sanitize(s string) string {
	var sb strings.Builder
	for _, r := range s {
		sb.WriteRune(r)
	}
	return sb.String()
}

func checkJVal(v interface{}, fl jfield) string {
	switch x := fl.val.(type) {
	case bool:
		if b, ok := v.(bool); !ok || b != x {
			return fmt.Sprintf("got %v want %v", v, x)
		}
	case uint8, uint16, uint32, uint64, int8, int16, int32, int64:
		n, ok := v.(json.Number)
		if !ok || n.String() != fl.payload {
			return fmt.Sprintf("got %v want exactly %s", v, fl.payload)
		}
	case float32:
		return checkFloat(v, float64(x), 32)
	case float64:
		return checkFloat(v, x, 64)
	case string:
		s, ok := v.(string)
		if !ok || s != sanitize(x) {
			return fmt.Sprintf("got %q want %q", v, sanitize(x))
		}
		if !utf8.ValidString(s) {
			return "parsed string is not valid UTF-8"
		}
	case net.IP:
		s, ok := v.(string)
		if !ok || s != x.String() {
			return fmt.Sprintf("got %v want %s", v, x.String())
		}
		if len(x) == 4 {
			if want := fmt.Sprintf("%d.%d.%d.%d", x[0], x[1], x[2], x[3]); s != want {
				return "IPv4 not in dotted form: " + s
			}
		}
	case net.HardwareAddr:
		var parts []string
		for _, b := range x {
			parts = append(parts, fmt.Sprintf("%02x", b))
		}
		if s, ok := v.(string); !ok || s != strings.Join(parts, ":") {
			return fmt.Sprintf("got %v want %s", v, strings.Join(parts, ":"))
		}
	case []byte:
		if s, ok := v.(string); !ok || s != "0x"+hex.EncodeToString(x) {
			return fmt.Sprintf("got %v want 0x%s", v, hex.EncodeToString(x))
		}
	}
	return ""
}

func checkFloat(v interface{}, f float64, bits int) string {
	if math.IsNaN(f) || math.IsInf(f, 0) {
		want := strconv.FormatFloat(f, 'E', -1, bits)
		if s, ok := v.(string); !ok || s != want {
			return fmt.Sprintf("non-finite float: got %v want the string %q", v, want)
		}
		return ""
	}
	n, ok := v.(json.Number)
	if !ok {
		return fmt.Sprintf("got %v want a number", v)
	}
	g, err := strconv.ParseFloat(n.String(), bits)
	if err != nil || math.Float64bits(g) != math.Float64bits(f) && !(g == 0 && f == 0 && math.Signbit(g) == math.Signbit(f)) {
		return fmt.Sprintf("got %s want %v", n.String(), f)
	}
	return ""
}
