package main

// C20: the real ipfix.InfoModel before and after the real LoadExtElements on the shipped
// scripts/ipfix.elements, entry by entry (finite, exhaustive), plus keys that exist in neither.

import (
	"bufio"
	"fmt"
	"io/ioutil"
	"math/rand"
	"os"
	"path/filepath"
	"sort"
	"strings"

	"github.com/EdgeCast/vflow/ipfix"
)

func init() { kinds["infomodel"] = &kind{gen: genInfoModel, run: runInfoModel} }

func repoDir() string {
	if d := os.Getenv("VERIF_REPO"); d != "" {
		return d
	}
	return "/repo"
}

func genInfoModel(r *rand.Rand, n int, w *bufio.Writer) {
	// every key of the built-in table, every id 0..500 (covers every key of the shipped file), and random keys
	seen := map[[2]int]bool{}
	var keys [][2]int
	add := func(p, i int) {
		if !seen[[2]int{p, i}] {
			seen[[2]int{p, i}] = true
			keys = append(keys, [2]int{p, i})
		}
	}
	for k := range ipfix.InfoModel {
		add(int(k.EnterpriseNo), int(k.ElementID))
	}
	for i := 0; i <= 500; i++ {
		add(0, i)
	}
	for i := 0; i < 100; i++ {
		add(r.Intn(3), r.Intn(65536))
	}
	sort.Slice(keys, func(i, j int) bool { return keys[i][0] < keys[j][0] || (keys[i][0] == keys[j][0] && keys[i][1] < keys[j][1]) })
	for _, k := range keys {
		fmt.Fprintf(w, "elem %d %d\n", k[0], k[1])
	}
}

func entryText(m ipfix.IANAInfoModel, pen, id int) string {
	e, ok := m[ipfix.ElementKey{EnterpriseNo: uint32(pen), ElementID: uint16(id)}]
	if !ok {
		return "none"
	}
	return fmt.Sprintf("%d %s %d", e.FieldID, e.Name, int(e.Type))
}

func runInfoModel(st *state, line, expect string) (string, string) {
	if st.v["before"] == nil {
		before := ipfix.IANAInfoModel{}
		for k, v := range ipfix.InfoModel {
			before[k] = v
		}
		st.v["before"] = before
		// absent file: LoadExtElements must leave the model alone
		empty, _ := ioutil.TempDir("", "verif-c20")
		defer os.RemoveAll(empty)
		if err := ipfix.LoadExtElements(empty); err != nil || len(ipfix.InfoModel) != len(before) {
			st.v["absentFail"] = fmt.Sprintf("LoadExtElements on a directory without the file: err=%v, %d entries (was %d)", err, len(ipfix.InfoModel), len(before))
		}
		dir, _ := ioutil.TempDir("", "verif-c20")
		defer os.RemoveAll(dir)
		b, err := ioutil.ReadFile(filepath.Join(repoDir(), "scripts", "ipfix.elements"))
		if err == nil {
			err = ioutil.WriteFile(filepath.Join(dir, "ipfix.elements"), b, 0o644)
		}
		if err == nil {
			err = ipfix.LoadExtElements(dir)
		}
		if err != nil {
			st.v["loadErr"] = err.Error()
		}
		after := ipfix.IANAInfoModel{}
		for k, v := range ipfix.InfoModel {
			after[k] = v
		}
		st.v["after"] = after
		if len(after) != len(before) {
			st.v["absentFail"] = fmt.Sprintf("%d entries built in, %d after loading the shipped file", len(before), len(after))
		}
	}
	var pen, id int
	fmt.Sscanf(strings.TrimPrefix(line, "elem "), "%d %d", &pen, &id)
	before, after := st.v["before"].(ipfix.IANAInfoModel), st.v["after"].(ipfix.IANAInfoModel)
	b, a := entryText(before, pen, id), entryText(after, pen, id)
	verdict := "ok"
	switch {
	case st.v["loadErr"] != nil:
		verdict = "fail:load LoadExtElements on the shipped file failed: " + st.v["loadErr"].(string)
	case st.v["absentFail"] != nil:
		verdict = "fail:size " + st.v["absentFail"].(string)
	case b != a:
		verdict = fmt.Sprintf("fail:differs element %d/%d: built-in [%s], after loading the shipped file [%s]", pen, id, b, a)
	case b != "none" && !strings.HasPrefix(b, fmt.Sprintf("%d ", id)):
		verdict = fmt.Sprintf("fail:key element %d/%d is keyed under a different FieldID: [%s]", pen, id, b)
	}
	return b, verdict
}
