package main

// C09: for each sampled well-formed message M (templates announced beforehand by the same exporter,
// M itself only re-announces identical definitions, so decoding M or any part of it leaves the cache
// content unchanged): the full message, M with an undecodable set (unknown template id, reserved set id, data for a
// template that names an element missing from the model, data for a template without fields) inserted at every set boundary,
// and M cut at EVERY octet offset 0..len(M).
// Oracle (on the real decoder's own output): records(inserted) == records(full);
// records(truncated) is a prefix of records(full).

import (
	"bufio"
	"fmt"
	"math/rand"
	"strings"
)

func (p *flowProto) genTrunc(r *rand.Rand, n int, w *bufio.Writer) {
	initElems()
	cfg := genCfg{wfOnly: true, maxDgrams: 1}
	for emitted := 0; emitted < n; {
		fmt.Fprintln(w, "new")
		addr := exporterAddrs[r.Intn(len(exporterAddrs))]
		ver := 10
		if !p.isIPFIX {
			ver = 9
		}
		// announcement datagram: 2..4 good templates and one whose element is not in the model
		var tpls []tpl
		hdr, _ := p.header(r, ver)
		ann := hdr
		nt := 2 + r.Intn(3)
		for i := 0; i < nt; i++ {
			t := p.genTpl(r, 256+i, r.Intn(3) == 0, true)
			tpls = append(tpls, t)
			sid := p.tplSet
			if t.opts {
				sid = p.optSet
			}
			ann = append(ann, cat(be16(sid), be16(4+len(p.encTplRec(t))), p.encTplRec(t))...)
		}
		badT := tpl{id: 400, fields: []fspec{{id: 8, ln: 4}, {id: 9000 + r.Intn(5), ln: 4}, {id: 12, ln: 4}}}
		if p.isIPFIX && r.Intn(2) == 0 {
			// … or one that differs from an EARLIER, decodable definition of the same id only in an enterprise number: same
			// element ids, same lengths, but (4242, 12) is in no information model. The earlier definition is announced in a
			// datagram of its own; the re-announcement must replace it (a refresh taken for "unchanged" because ids and lengths
			// agree leaves the old layout in force, and the set that must be skipped is decoded: seed C09-h)
			hdrE, _ := p.header(r, ver)
			early := tpl{id: 400, fields: []fspec{{id: 8, ln: 4}, {id: 12, ln: 4}, {id: 7, ln: 2}}}
			fmt.Fprintf(w, "%s %s %s\tannounce\n", p.name, hx(addr), hx(cat(hdrE, be16(p.tplSet), be16(4+len(p.encTplRec(early))), p.encTplRec(early))))
			emitted++
			badT = tpl{id: 400, fields: []fspec{{id: 8, ln: 4}, {id: 12, ln: 4, ent: 4242}, {id: 7, ln: 2}}}
		}
		// … and, in the same set and in front of it (a 4-octet record at the very end of a set is taken for padding), a
		// template record with field count 0 — the template withdrawal format of RFC 7011 section 8.1, which both decoders
		// install as a template without fields: a data set for it cannot be decoded
		zeroT := tpl{id: 401}
		ann = append(ann, cat(be16(p.tplSet), be16(4+len(p.encTplRec(zeroT))+len(p.encTplRec(badT))), p.encTplRec(zeroT), p.encTplRec(badT))...)
		fmt.Fprintf(w, "%s %s %s\tannounce\n", p.name, hx(addr), hx(ann))
		emitted++
		// a neighbouring exporter (address differing in the low bits of its last octet) announces templates under ids that
		// differ from ours in the same bits: templates this exporter never announced, but which a cache keyed by anything
		// weaker than (address, id) would hand to it
		var nbIDs []int
		{
			bit := 1 + r.Intn(3)
			nb := append([]byte{}, addr...)
			nb[len(nb)-1] ^= byte(bit)
			hdrN, _ := p.header(r, ver)
			annN := hdrN
			for i := 0; i < nt; i++ {
				t := p.genTpl(r, (256+i)^bit, false, true)
				if t.id < 256 {
					continue
				}
				nbIDs = append(nbIDs, t.id)
				annN = append(annN, cat(be16(p.tplSet), be16(4+len(p.encTplRec(t))), p.encTplRec(t))...)
			}
			// plus ids just above ours
			for _, id := range []int{256 + nt, 257 + nt} {
				t := p.genTpl(r, id, false, true)
				nbIDs = append(nbIDs, id)
				annN = append(annN, cat(be16(p.tplSet), be16(4+len(p.encTplRec(t))), p.encTplRec(t))...)
			}
			fmt.Fprintf(w, "%s %s %s\tannounce\n", p.name, hx(nb), hx(annN))
			emitted++
		}
		// the neighbour's ids that are unknown to THIS exporter
		var foreign []int
		for _, id := range nbIDs {
			own := false
			for _, t := range tpls {
				if t.id == id {
					own = true
				}
			}
			if !own && id != 400 && id != 401 {
				foreign = append(foreign, id)
			}
		}

		// the message M as a list of sets
		hdr, _ = p.header(r, ver)
		var sets [][]byte
		ns := 1 + r.Intn(4)
		for i := 0; i < ns; i++ {
			t := tpls[r.Intn(len(tpls))]
			if r.Intn(5) == 0 { // identical re-announcement
				sid := p.tplSet
				if t.opts {
					sid = p.optSet
				}
				body := append(p.encTplRec(t), make([]byte, r.Intn(4))...)
				sets = append(sets, cat(be16(sid), be16(4+len(body)), body))
				continue
			}
			var body []byte
			for j, nr := 0, 1+r.Intn(4); j < nr; j++ {
				rb, _ := p.genRecord(r, t) // any positive length (wf templates have no zero-length field)
				body = append(body, rb...)
			}
			// set padding: shorter than the shortest record of the template (up to 7 octets)
			body = append(body, make([]byte, r.Intn(min(minRecLen(p, t), 8)))...)
			sets = append(sets, cat(be16(t.id), be16(4+len(body)), body))
		}
		_ = cfg
		full := append([]byte{}, hdr...)
		for _, s := range sets {
			full = append(full, s...)
		}
		fmt.Fprintf(w, "%s %s %s\tfull\n", p.name, hx(addr), hx(full))
		emitted++
		// insertions of an undecodable set at every boundary
		for pos := 0; pos <= len(sets); pos++ {
			var u []byte
			body := rndBytes(r, r.Intn(30))
			switch r.Intn(4) {
			case 3: // data for the template without fields (any body): no record can be decoded from it
				u = cat(be16(401), be16(4+len(body)), body)
			case 0: // template id this exporter never announced
				id := 9000 + r.Intn(1000)
				if len(foreign) > 0 && r.Intn(2) == 0 {
					id = foreign[r.Intn(len(foreign))] // … but its neighbour did
				}
				u = cat(be16(id), be16(4+len(body)), body)
			case 1: // reserved set id
				id := p.reserved[r.Intn(len(p.reserved))]
				if p.isIPFIX && r.Intn(6) == 0 {
					// IPFIX set id 1 ("not used", RFC 7011 section 3.3.2) is decoded as data with the zero template: the same
					// path as a template without fields, skipped by its length since the F30 repair (id 0 stays fatal)
					id = 1
				}
				u = cat(be16(id), be16(4+len(body)), body)
			default: // data for the template that names an element missing from the model
				rl := 0
				for _, f := range badT.fields {
					rl += f.ln
				}
				body = rndBytes(r, rl*(1+r.Intn(3)))
				u = cat(be16(400), be16(4+len(body)), body)
			}
			if r.Intn(3) == 0 && len(sets) > 0 {
				// the nasty body: octets that are themselves a well-formed set of this message (a data set of a
				// known template or a re-announcement), wrapped in an undecodable set header
				inner := sets[r.Intn(len(sets))]
				id := 9000 + r.Intn(1000)
				if r.Intn(2) == 0 {
					id = p.reserved[r.Intn(len(p.reserved))]
				}
				tail := make([]byte, r.Intn(4)) // 0..3 octets after the inner set, still inside the wrapper
				u = cat(be16(id), be16(4+len(inner)+len(tail)), inner, tail)
			}
			m := append([]byte{}, hdr...)
			uStart := 0
			for i, s := range sets {
				if i == pos {
					uStart = len(m)
					m = append(m, u...)
				}
				m = append(m, s...)
			}
			if pos == len(sets) {
				uStart = len(m)
				m = append(m, u...)
			}
			fmt.Fprintf(w, "%s %s %s\tins\n", p.name, hx(addr), hx(m))
			emitted++
			// the perturbed message cut at every offset inside (and just after) the inserted set
			for k := uStart; k <= uStart+len(u)+6 && k <= len(m); k++ {
				fmt.Fprintf(w, "%s %s %s\ttrunc\n", p.name, hx(addr), hx(m[:k]))
				emitted++
			}
		}
		// every truncation offset
		for k := 0; k <= len(full); k++ {
			fmt.Fprintf(w, "%s %s %s\ttrunc\n", p.name, hx(addr), hx(full[:k]))
			emitted++
		}
		// a self-contained message: M2 announces a template of its own (an id no exporter has used) between data sets of
		// known templates and uses it afterwards. A data set carrying THAT id in front of the announcing set is a set with an
		// unknown template id at the point where it is met: it must be skipped by its length and the sets after the
		// announcement decoded as if it were absent (a lookup result remembered across the sets of one message shows here;
		// seed C09-f). Decoding M2 changes the cache, so every variant comes from an exporter of its own, which first
		// announces the known templates.
		{
			t2 := p.genTpl(r, 500+r.Intn(200), r.Intn(3) == 0, true)
			dataSet := func(t tpl) []byte {
				var body []byte
				for j, nr := 0, 1+r.Intn(3); j < nr; j++ {
					rb, _ := p.genRecord(r, t)
					body = append(body, rb...)
				}
				body = append(body, make([]byte, r.Intn(min(minRecLen(p, t), 8)))...)
				return cat(be16(t.id), be16(4+len(body)), body)
			}
			var sets2 [][]byte
			for i, k := 0, r.Intn(3); i < k; i++ {
				sets2 = append(sets2, dataSet(tpls[r.Intn(len(tpls))]))
			}
			annAt := len(sets2)
			sid := p.tplSet
			if t2.opts {
				sid = p.optSet
			}
			sets2 = append(sets2, cat(be16(sid), be16(4+len(p.encTplRec(t2))), p.encTplRec(t2)))
			for i, k := 0, 1+r.Intn(3); i < k; i++ {
				if r.Intn(4) == 0 {
					sets2 = append(sets2, dataSet(tpls[r.Intn(len(tpls))]))
				}
				sets2 = append(sets2, dataSet(t2))
			}
			hdr2, _ := p.header(r, ver)
			freshN := 0
			fresh := func() []byte {
				freshN++
				return []byte{10, 77, byte(freshN >> 8), byte(freshN)}
			}
			emit := func(a []byte, skip int, u []byte, tag string) {
				m := append([]byte{}, hdr2...)
				for i, s2 := range sets2 {
					if i == skip {
						m = append(m, u...)
					}
					m = append(m, s2...)
				}
				fmt.Fprintf(w, "%s %s %s\tannounce\n", p.name, hx(a), hx(ann))
				fmt.Fprintf(w, "%s %s %s\t%s\n", p.name, hx(a), hx(m), tag)
				emitted += 2
			}
			emit(fresh(), -1, nil, "full")
			for pos := 0; pos <= annAt; pos++ {
				body := rndBytes(r, r.Intn(30))
				if r.Intn(2) == 0 {
					// … or octets that are a record of the template announced later
					body, _ = p.genRecord(r, t2)
				}
				emit(fresh(), pos, cat(be16(t2.id), be16(4+len(body)), body), "ins")
			}
		}
	}
}

func (p *flowProto) runTrunc(st *state, line, expect string) (string, string) {
	initElems()
	f := strings.Fields(line)
	out := p.decodeReal(st, unhx(f[1]), unhx(f[2]), false)
	ln := out.line()
	switch expect {
	case "announce":
		return ln, ""
	case "full":
		st.v["fullrecs"] = out.recs
		if out.nilMsg || len(out.errs) > 0 {
			return ln, "fail:wellformed the well-formed message was not decoded cleanly: " + clip(ln, 200)
		}
		return ln, "ok"
	case "ins":
		full, _ := st.v["fullrecs"].([]string)
		if strings.Join(out.recs, "") != strings.Join(full, "") {
			return ln, fmt.Sprintf("fail:skip an inserted undecodable set changed the records of its neighbours: %d records instead of %d", len(out.recs), len(full))
		}
		return ln, "ok"
	case "trunc":
		full, _ := st.v["fullrecs"].([]string)
		if len(out.recs) > len(full) {
			return ln, fmt.Sprintf("fail:truncation emitted %d records, the complete datagram yields %d", len(out.recs), len(full))
		}
		for i, rc := range out.recs {
			if rc != full[i] {
				return ln, fmt.Sprintf("fail:truncation record %d of the truncated datagram is not record %d of the complete one: %s", i, i, clip(rc, 200))
			}
		}
		return ln, "ok"
	}
	return ln, ""
}

func init() {
	kinds["ipfix-trunc"] = &kind{gen: protoIPFIX.genTrunc, run: protoIPFIX.runTrunc}
	kinds["nf9-trunc"] = &kind{gen: protoNF9.genTrunc, run: protoNF9.runTrunc}
}
