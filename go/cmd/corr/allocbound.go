package main

import (
	"encoding/hex"
	"fmt"
	"os"

	"github.com/EdgeCast/vflow/ipfix"
	netflow9 "github.com/EdgeCast/vflow/netflow/v9"
)

// C02, allocation of one IPFIX / NetFlow v9 Decode call (runtime.MemStats.TotalAlloc delta, GC off).
//
// Linear bound: every decoded field that consumes at least one octet of the datagram costs one DecodedField
// (32 octets, amortised append growth <= 3x) plus the boxed value (<= 40 octets): well under allocPerOctet per
// octet received (the largest ratio observed over 400 k generated datagrams is 15).
//
// A field specifier of length 0 is decoded — an entry with an empty value — without consuming an octet, so a
// record of a template with z such fields costs z entries that no octet of the datagram pays for: records x z.
// That product is finding K4 (recorded, not repaired: see known_findings.json); it is named only when the harness
// has itself found z > 0 zero-length specifiers in a template THIS datagram uses (a template of its exporter whose id
// is the id of one of the datagram's sets — looked up in the real cache after the decode, so a template the datagram
// announces itself counts) and the excess stays within allocPerOctet * octets * z. Anything above the linear bound
// that the zero-length fields of the templates in use do not explain is an ordinary violation (`fail:alloc`) — also
// when some OTHER template in the cache has such fields.
const (
	allocBase         = 16384
	allocPerOctet     = 200
	mapGrowthPerEntry = 256 // octets per cached template when a shard map grows (key string + Data + bucket overhead, doubled)
)

func allocVerdict(alloc uint64, addr, dg []byte, isIPFIX bool, zBefore int, cache interface{}) string {
	dgLen := len(dg)
	lin := uint64(allocBase) + allocPerOctet*uint64(dgLen+24)
	if alloc <= lin {
		return ""
	}
	// a datagram that ANNOUNCES templates inserts into the shard maps; an insert into a map that already holds thousands of
	// entries may double its bucket array — an allocation in proportion to what earlier datagrams made the cache hold,
	// amortised over them (Go maps). Only such a datagram gets that allowance; one that announces nothing does not.
	if announces(dg, isIPFIX) {
		lin += mapGrowthPerEntry * uint64(cacheEntries(cache))
		if alloc <= lin {
			return ""
		}
	}
	// the templates in use: in the cache before the decode (zBefore), in the cache after it, or announced — and
	// possibly replaced again — inside the datagram itself
	z := zeroLenFields(cache, usedKeys(addr, dg, flowHdrLen(isIPFIX)))
	if zBefore > z {
		z = zBefore
	}
	if zi := zeroLenAnnounced(dg, isIPFIX); zi > z {
		z = zi
	}
	if z > 0 && alloc <= lin+allocPerOctet*uint64(dgLen+24)*uint64(z) {
		if os.Getenv("VERIF_PROP") != "C02" {
			// K4 is a recorded finding of C02: it is named in that property's run only (the same streams also serve
			// C01 / C03 / C06, whose properties say nothing about allocation)
			return ""
		}
		return fmt.Sprintf("fail:amplification %d bytes allocated for a %d-octet datagram (linear bound %d): a template it uses has %d zero-length fields, each decoded record pays for them without consuming an octet", alloc, dgLen, lin, z)
	}
	return fmt.Sprintf("fail:alloc %d bytes allocated for a %d-octet datagram (linear bound %d, zero-length fields in the templates it uses: %d)", alloc, dgLen, lin, z)
}

// announces: the datagram holds a template / options template set (walked by the declared set lengths)
func announces(dg []byte, isIPFIX bool) bool {
	for off := flowHdrLen(isIPFIX); off+4 <= len(dg); {
		id := int(dg[off])<<8 | int(dg[off+1])
		ln := int(dg[off+2])<<8 | int(dg[off+3])
		if (isIPFIX && (id == 2 || id == 3)) || (!isIPFIX && (id == 0 || id == 1)) {
			return true
		}
		if ln < 4 {
			break
		}
		off += ln
	}
	return false
}

// cacheEntries: templates in the real cache
func cacheEntries(c interface{}) int {
	n := 0
	switch m := c.(type) {
	case ipfix.MemCache:
		for _, sh := range m {
			if sh != nil {
				n += len(sh.Templates)
			}
		}
	case netflow9.MemCache:
		for _, sh := range m {
			if sh != nil {
				n += len(sh.Templates)
			}
		}
	}
	return n
}

func flowHdrLen(isIPFIX bool) int {
	if isIPFIX {
		return 16
	}
	return 20
}

// zeroLenAnnounced: the largest number of zero-length specifiers in a template record the datagram itself carries
// (template / options template sets walked by their declared lengths; a record that does not fit ends the set)
func zeroLenAnnounced(dg []byte, isIPFIX bool) int {
	z := 0
	u16 := func(b []byte) int { return int(b[0])<<8 | int(b[1]) }
	for off := flowHdrLen(isIPFIX); off+4 <= len(dg); {
		id, ln := u16(dg[off:]), u16(dg[off+2:])
		if ln < 4 {
			break
		}
		end := off + ln
		if end > len(dg) {
			end = len(dg)
		}
		body := dg[off+4 : end]
		tplSet, optSet := 2, 3
		if !isIPFIX {
			tplSet, optSet = 0, 1
		}
		for (id == tplSet || id == optSet) && len(body) >= 4 {
			n := 0 // specifiers of this record
			switch {
			case id == tplSet:
				n, body = u16(body[2:]), body[4:]
			case isIPFIX:
				if len(body) < 6 {
					body = nil
					continue
				}
				n, body = u16(body[2:]), body[6:]
			default:
				if len(body) < 6 {
					body = nil
					continue
				}
				n, body = (u16(body[2:])+u16(body[4:]))/4, body[6:]
			}
			zr := 0
			for i := 0; i < n && len(body) >= 4; i++ {
				if u16(body[2:]) == 0 {
					zr++
				}
				step := 4
				if isIPFIX && body[0]&0x80 != 0 {
					step = 8
				}
				if len(body) < step {
					body = nil
					break
				}
				body = body[step:]
			}
			if zr > z {
				z = zr
			}
		}
		off += ln
	}
	return z
}

// usedKeys: the cache keys (hex text of the exporter's address octets followed by the template id, as getShard builds
// them) of the set ids > 255 of the datagram, walking the sets by their declared lengths as the decoders do
func usedKeys(addr, dg []byte, hdrLen int) map[string]bool {
	keys := map[string]bool{}
	for off := hdrLen; off+4 <= len(dg); {
		id := int(dg[off])<<8 | int(dg[off+1])
		ln := int(dg[off+2])<<8 | int(dg[off+3])
		if id > 255 {
			keys[hex.EncodeToString(append(append([]byte{}, addr...), dg[off], dg[off+1]))] = true
		}
		if ln < 4 {
			break
		}
		off += ln
	}
	return keys
}

// zeroLenFields: the largest number of zero-length field specifiers in any of the named templates of the real cache
// (keys == nil: in any template)
func zeroLenFields(c interface{}, keys map[string]bool) int {
	z := 0
	count := func(scope, fields int) {
		if scope+fields > z {
			z = scope + fields
		}
	}
	switch m := c.(type) {
	case ipfix.MemCache:
		for _, sh := range m {
			if sh == nil {
				continue
			}
			for k, d := range sh.Templates {
				if keys != nil && !keys[k] {
					continue
				}
				a, b := 0, 0
				for _, f := range d.Template.ScopeFieldSpecifiers {
					if f.Length == 0 {
						a++
					}
				}
				for _, f := range d.Template.FieldSpecifiers {
					if f.Length == 0 {
						b++
					}
				}
				count(a, b)
			}
		}
	case netflow9.MemCache:
		for _, sh := range m {
			if sh == nil {
				continue
			}
			for k, d := range sh.Templates {
				if keys != nil && !keys[k] {
					continue
				}
				a, b := 0, 0
				for _, f := range d.Template.ScopeFieldSpecifiers {
					if f.Length == 0 {
						a++
					}
				}
				for _, f := range d.Template.FieldSpecifiers {
					if f.Length == 0 {
						b++
					}
				}
				count(a, b)
			}
		}
	}
	return z
}
