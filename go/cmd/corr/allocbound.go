package main

import (
	"fmt"
	"os"

	"github.com/EdgeCast/vflow/ipfix"
	netflow9 "github.com/EdgeCast/vflow/netflow/v9"
)

// C02, allocation of one IPFIX / NetFlow v9 Decode call (runtime.MemStats.TotalAlloc delta, GC off).
//
// Linear bound: every decoded field that consumes at least one octet of the datagram costs one DecodedField
// (32 octets, amortised append growth <= 3x) plus the boxed value (<= 40 octets): well under allocPerOctet per
// octet received (the largest ratio observed over 400 k generated datagrams is 15).
//
// A field specifier of length 0 is decoded — an entry with an empty value — without consuming an octet, so a
// record of a template with z such fields costs z entries that no octet of the datagram pays for: records x z.
// That product is finding K4 (recorded, not repaired: see known_findings.json); it is named only when the harness
// has itself found z > 0 in the real cache and the excess stays within allocPerOctet * octets * z. Anything above
// the linear bound that zero-length fields do not explain is an ordinary violation (`fail:alloc`).
const (
	allocBase     = 16384
	allocPerOctet = 200
)

func allocVerdict(alloc uint64, dgLen int, cache interface{}) string {
	lin := uint64(allocBase) + allocPerOctet*uint64(dgLen+24)
	if alloc <= lin {
		return ""
	}
	z := zeroLenFields(cache)
	if z > 0 && alloc <= lin+allocPerOctet*uint64(dgLen+24)*uint64(z) {
		if os.Getenv("VERIF_PROP") != "C02" {
			// K4 is a recorded finding of C02: it is named in that property's run only (the same streams also serve
			// C01 / C03 / C06, whose properties say nothing about allocation)
			return ""
		}
		return fmt.Sprintf("fail:amplification %d bytes allocated for a %d-octet datagram (linear bound %d): a cached template has %d zero-length fields, each decoded record pays for them without consuming an octet", alloc, dgLen, lin, z)
	}
	return fmt.Sprintf("fail:alloc %d bytes allocated for a %d-octet datagram (linear bound %d, zero-length fields in the cache: %d)", alloc, dgLen, lin, z)
}

// zeroLenFields: the largest number of zero-length field specifiers in any template of the real cache
func zeroLenFields(c interface{}) int {
	z := 0
	count := func(scope, fields int) {
		if scope+fields > z {
			z = scope + fields
		}
	}
	switch m := c.(type) {
	case ipfix.MemCache:
		for _, sh := range m {
			if sh == nil {
				continue
			}
			for _, d := range sh.Templates {
				a, b := 0, 0
				for _, f := range d.Template.ScopeFieldSpecifiers {
					if f.Length == 0 {
						a++
					}
				}
				for _, f := range d.Template.FieldSpecifiers {
					if f.Length == 0 {
						b++
					}
				}
				count(a, b)
			}
		}
	case netflow9.MemCache:
		for _, sh := range m {
			if sh == nil {
				continue
			}
			for _, d := range sh.Templates {
				a, b := 0, 0
				for _, f := range d.Template.ScopeFieldSpecifiers {
					if f.Length == 0 {
						a++
					}
				}
				for _, f := range d.Template.FieldSpecifiers {
					if f.Length == 0 {
						b++
					}
				}
				count(a, b)
			}
		}
	}
	return z
}
