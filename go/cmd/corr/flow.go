package main

// Abstract IPFIX / NetFlow v9 messages, their wire encoder (the Go twin of the Lean Spec), the
// expected decode (model-independent oracle) and the runners that call the real decoders.

import (
	"bufio"
	"bytes"
	"encoding/binary"
	"encoding/hex"
	"fmt"
	"io/ioutil"
	"math"
	"math/big"
	"math/rand"
	"net"
	"os"
	"path/filepath"
	"runtime"
	"sort"
	"strconv"
	"strings"

	"github.com/EdgeCast/vflow/ipfix"
	netflow9 "github.com/EdgeCast/vflow/netflow/v9"
)

func be16(v int) []byte { b := make([]byte, 2); binary.BigEndian.PutUint16(b, uint16(v)); return b }
func be32(v int) []byte { b := make([]byte, 4); binary.BigEndian.PutUint32(b, uint32(v)); return b }
func cat(bs ...[]byte) []byte {
	var o []byte
	for _, b := range bs {
		o = append(o, b...)
	}
	return o
}

type fspec struct{ id, ln, ent int }
type tpl struct {
	id     int
	opts   bool
	scope  []fspec
	fields []fspec
}

func (t tpl) all() []fspec { return append(append([]fspec{}, t.scope...), t.fields...) }

// natural encoded size per abstract data type (for string/octetArray/unknown: a typical size)
var natural = map[ipfix.FieldType]int{
	ipfix.Uint8: 1, ipfix.Int8: 1, ipfix.Boolean: 1, ipfix.Uint16: 2, ipfix.Int16: 2, ipfix.Uint32: 4, ipfix.Int32: 4, ipfix.Float32: 4,
	ipfix.DateTimeSeconds: 4, ipfix.Uint64: 8, ipfix.Int64: 8, ipfix.Float64: 8, ipfix.DateTimeMilliseconds: 8, ipfix.DateTimeMicroseconds: 8,
	ipfix.DateTimeNanoseconds: 8, ipfix.MacAddress: 6, ipfix.Ipv4Address: 4, ipfix.Ipv6Address: 16, ipfix.String: 12, ipfix.OctetArray: 7, ipfix.Unknown: 5,
}

// the enterprise elements the model knows as `extElems` (Vflow/Model/Flow.lean); injected into
// ipfix.InfoModel for the run, as LoadExtElements would for an installed ipfix.elements file
var extElems = []struct {
	pen, id int
	typ     ipfix.FieldType
}{
	{9999, 1, ipfix.Uint32}, {9999, 2, ipfix.String}, {9999, 3, ipfix.Ipv6Address}, {9999, 4, ipfix.OctetArray},
	{9999, 5, ipfix.Boolean}, {9999, 6, ipfix.Int64}, {9999, 7, ipfix.MacAddress}, {31337, 100, ipfix.Uint8},
	// no IANA element of the built-in table is signed8 / signed16 / signed32 / float32
	{9999, 8, ipfix.Int8}, {9999, 9, ipfix.Int16}, {9999, 10, ipfix.Int32}, {9999, 11, ipfix.Float32},
	// IANA-space elements only an installed ipfix.elements defines (the way an extension reaches the NetFlow v9 decoder)
	{0, 500, ipfix.Uint32}, {0, 501, ipfix.String}, {0, 502, ipfix.Int8},
}

var (
	elemIDs   []int // IANA element ids of the built-in model, sorted
	elemByTyp = map[ipfix.FieldType][]int{}
)

func initElems() {
	if elemIDs != nil {
		return
	}
	for _, e := range extElems {
		ipfix.InfoModel[ipfix.ElementKey{EnterpriseNo: uint32(e.pen), ElementID: uint16(e.id)}] =
			ipfix.InfoElementEntry{FieldID: uint16(e.id), Name: fmt.Sprintf("verifExt%d_%d", e.pen, e.id), Type: e.typ}
	}
	for k := range ipfix.InfoModel {
		if k.EnterpriseNo == 0 {
			elemIDs = append(elemIDs, int(k.ElementID))
		}
	}
	sort.Ints(elemIDs)
	for _, id := range elemIDs {
		t := ipfix.InfoModel[ipfix.ElementKey{ElementID: uint16(id)}].Type
		elemByTyp[t] = append(elemByTyp[t], id)
	}
}

func elemType(s fspec) (ipfix.FieldType, bool) {
	e, ok := ipfix.InfoModel[ipfix.ElementKey{EnterpriseNo: uint32(s.ent), ElementID: uint16(s.id)}]
	return e.Type, ok
}

func rndBytes(r *rand.Rand, n int) []byte {
	b := make([]byte, n)
	for i := range b {
		switch r.Intn(8) {
		case 0:
			b[i] = 0
		case 1:
			b[i] = 0xff
		case 2:
			b[i] = []byte{'"', '\\', '\n', '%', '<', 0x7f, 0x80, 0xe2}[r.Intn(8)]
		default:
			b[i] = byte(r.Intn(256))
		}
	}
	return b
}

type flowProto struct {
	name     string // "ipfix" | "nf9"
	isIPFIX  bool
	tplSet   int
	optSet   int
	reserved []int
}

var protoIPFIX = &flowProto{"ipfix", true, 2, 3, []int{4, 5, 100, 255}}
var protoNF9 = &flowProto{"nf9", false, 0, 1, []int{2, 3, 4, 5, 100, 255}}

// genSpec draws one field specifier. wfOnly: only known elements, lengths the round trip covers.
func (p *flowProto) genSpec(r *rand.Rand, wfOnly bool) fspec {
	s := fspec{}
	k := r.Intn(50)
	switch {
	case k == 0 && !wfOnly:
		s.id = 9000 + r.Intn(5) // unknown element
	case k == 1 && !wfOnly && p.isIPFIX:
		s.id = elemIDs[r.Intn(len(elemIDs))]
		s.ent = 1 + r.Intn(3) // enterprise number with no such element
	case k < 8 && p.isIPFIX:
		e := extElems[r.Intn(len(extElems))]
		s.id, s.ent = e.id, e.pen
	case k < 30:
		// every abstract data type equally likely
		ts := make([]int, 0, len(elemByTyp))
		for t := range elemByTyp {
			ts = append(ts, int(t))
		}
		sort.Ints(ts)
		ids := elemByTyp[ipfix.FieldType(ts[r.Intn(len(ts))])]
		s.id = ids[r.Intn(len(ids))]
	default:
		s.id = elemIDs[r.Intn(len(elemIDs))]
	}
	t, _ := elemType(s)
	a := adts[t]
	isInt := a.class == "unsigned" || a.class == "signed"
	s.ln = natural[t]
	switch k := r.Intn(26); {
	case k < 12:
	case k < 15: // reduced / over-long encodings of any type
		s.ln = 1 + r.Intn(20)
	case k < 18: // an integer in more octets than its type has, still within 64 bits (usual in NetFlow v9 exports)
		if isInt && a.size < 8 {
			s.ln = a.size + 1 + r.Intn(8-a.size)
		}
	case k < 19: // longer than any integer
		if isInt {
			s.ln = 9 + r.Intn(4)
		}
	case k < 21: // variable length where exporters use it: strings, octet arrays, RFC 6313 structured data (291..293)
		if p.isIPFIX && (t == ipfix.String || t == ipfix.OctetArray || (s.ent == 0 && s.id >= 291 && s.id <= 293)) {
			s.ln = 65535
		}
	case k < 22: // RFC 7011 section 7: the variable-length marker on an element of any type
		if p.isIPFIX {
			s.ln = 65535
		}
	case k < 24:
		if !wfOnly {
			s.ln = []int{0, 0, 1, 2, 3, 4, 255, 256, 65535}[r.Intn(9)]
		}
	}
	return s
}

func (p *flowProto) encSpec(s fspec) []byte {
	if p.isIPFIX && s.ent != 0 {
		return cat(be16(s.id|0x8000), be16(s.ln), be32(s.ent))
	}
	return cat(be16(s.id), be16(s.ln))
}

func (p *flowProto) genTpl(r *rand.Rand, id int, opts, wfOnly bool) tpl {
	t := tpl{id: id, opts: opts}
	n := 1 + r.Intn(6)
	if !wfOnly && r.Intn(12) == 0 {
		n = 0
	}
	if r.Intn(30) == 0 {
		n = 20 + r.Intn(30)
	}
	for i := 0; i < n; i++ {
		t.fields = append(t.fields, p.genSpec(r, wfOnly))
	}
	if opts {
		m := r.Intn(3)
		if wfOnly && n == 0 {
			m = 1 + r.Intn(2)
		}
		for i := 0; i < m; i++ {
			t.scope = append(t.scope, p.genSpec(r, wfOnly))
		}
	}
	return t
}

// redefine: a new definition under the same id that differs from the old one only subtly —
// same elements with other lengths, the same option fields with another scope part, the same fields
// in another order, or one field dropped / duplicated
func (p *flowProto) redefine(r *rand.Rand, t tpl) tpl {
	n := tpl{id: t.id, opts: t.opts, scope: append([]fspec{}, t.scope...), fields: append([]fspec{}, t.fields...)}
	relen := func(l []fspec) {
		for i := range l {
			if r.Intn(2) == 0 {
				ty, _ := elemType(l[i])
				if l[i].ln == natural[ty] {
					l[i].ln = 1 + r.Intn(16)
				} else {
					l[i].ln = natural[ty]
				}
			}
		}
	}
	switch k := r.Intn(5); {
	case k == 0:
		relen(n.fields)
	case k == 1 && t.opts:
		// other scope part, identical option fields
		n.scope = nil
		for i, m := 0, 1+r.Intn(2); i < m; i++ {
			n.scope = append(n.scope, p.genSpec(r, true))
		}
	case k == 1:
		relen(n.fields)
	case k == 2 && len(n.fields) > 1:
		r.Shuffle(len(n.fields), func(i, j int) { n.fields[i], n.fields[j] = n.fields[j], n.fields[i] })
	case k == 3 && len(n.fields) > 1:
		n.fields = n.fields[:len(n.fields)-1]
	default:
		if len(n.fields) > 0 {
			n.fields = append(n.fields, n.fields[r.Intn(len(n.fields))])
		}
		relen(n.scope)
	}
	return n
}

func (p *flowProto) encTplRec(t tpl) []byte {
	var b []byte
	switch {
	case t.opts && p.isIPFIX:
		b = cat(be16(t.id), be16(len(t.scope)+len(t.fields)), be16(len(t.scope)))
	case t.opts:
		b = cat(be16(t.id), be16(4*len(t.scope)), be16(4*len(t.fields)))
	default:
		b = cat(be16(t.id), be16(len(t.fields)))
	}
	for _, s := range t.scope {
		b = append(b, p.encSpec(s)...)
	}
	for _, s := range t.fields {
		b = append(b, p.encSpec(s)...)
	}
	return b
}

// genRecord returns the record octets and, per field, the value octets (what Interpret sees)
func (p *flowProto) genRecord(r *rand.Rand, t tpl) ([]byte, [][]byte) {
	var b []byte
	var vals [][]byte
	for _, s := range t.all() {
		ty, _ := elemType(s)
		if p.isIPFIX && s.ln == 65535 {
			// RFC 7011 section 7: variable length, whatever the element's type
			n := r.Intn(40)
			if r.Intn(8) == 0 {
				n = 250 + r.Intn(20)
			}
			if ty != ipfix.String && ty != ipfix.OctetArray && ty != ipfix.Unknown {
				switch r.Intn(4) {
				case 0, 1:
					n = natural[ty]
				case 2:
					n = r.Intn(13)
				}
			}
			if n >= 255 || r.Intn(5) == 0 {
				b = append(b, 255)
				b = append(b, be16(n)...)
			} else {
				b = append(b, byte(n))
			}
			v := rndBytes(r, n)
			b = append(b, v...)
			vals = append(vals, v)
		} else {
			n := s.ln
			if n == 65535 {
				n = r.Intn(8) // not a valid use of the marker: whatever follows
			}
			v := rndBytes(r, n)
			b = append(b, v...)
			vals = append(vals, v)
		}
	}
	return b, vals
}

// ---- expected decode (independent of the decoder under test and of the Lean model) ----

func beU(b []byte) uint64 {
	var v uint64
	for _, x := range b {
		v = v<<8 | uint64(x)
	}
	return v
}

// The abstract data types of RFC 7012 section 3.1 and the size in octets of their full-size encoding
// (RFC 7011 section 6.1; 0 = any length). Written from the RFCs, keyed by the NAME of the collector's
// type constant only.
type adt struct {
	class string
	size  int
}

var adts = map[ipfix.FieldType]adt{
	ipfix.Uint8: {"unsigned", 1}, ipfix.Uint16: {"unsigned", 2}, ipfix.Uint32: {"unsigned", 4}, ipfix.Uint64: {"unsigned", 8},
	ipfix.Int8: {"signed", 1}, ipfix.Int16: {"signed", 2}, ipfix.Int32: {"signed", 4}, ipfix.Int64: {"signed", 8},
	ipfix.Float32: {"float", 4}, ipfix.Float64: {"float", 8}, ipfix.Boolean: {"boolean", 1}, ipfix.MacAddress: {"mac", 6},
	ipfix.OctetArray: {"octets", 0}, ipfix.String: {"string", 0}, ipfix.DateTimeSeconds: {"seconds", 4},
	ipfix.DateTimeMilliseconds: {"epoch64", 8}, ipfix.DateTimeMicroseconds: {"epoch64", 8}, ipfix.DateTimeNanoseconds: {"epoch64", 8},
	ipfix.Ipv4Address: {"ip", 4}, ipfix.Ipv6Address: {"ip", 16}, ipfix.Unknown: {"octets", 0},
}

// bigBE: the integer whose big-endian (network byte order) representation the octets are: sum b[i]*256^(n-1-i)
func bigBE(b []byte) *big.Int {
	v := new(big.Int)
	for _, x := range b {
		v.Mul(v, big.NewInt(256))
		v.Add(v, big.NewInt(int64(x)))
	}
	return v
}

// bigTwos: the octets as a two's-complement integer of 8*len(b) bits
func bigTwos(b []byte) *big.Int {
	v := bigBE(b)
	if len(b) > 0 && b[0] >= 0x80 {
		v.Sub(v, new(big.Int).Lsh(big.NewInt(1), uint(8*len(b))))
	}
	return v
}

// expectVal: the canonical text of the value the property demands for value octets b of abstract type t.
//
// Integers (RFC 7011 section 6.1.1 / 6.1.2): "encoded ... in network byte order", so the value of an
// integer field is the big-endian (for the signed types: two's-complement) integer of the field's octets —
// of ALL of them, however many the template announced. A field of exactly the type's size is reported in
// the Go type of that size; a longer one (NetFlow v9 exporters send unsigned8 / unsigned32 elements in 2, 4
// or 8 octets) in 64 bits as long as it has at most 8 octets; anything longer cannot be an integer of the
// information model and is reported as its octets, like a field shorter than the type (the property text).
// Every other type is reported as the collector documents it: the IEEE bits / the epoch count / the truth
// value of the leading octets of the type's size, addresses and strings with all their octets.
func expectVal(b []byte, t ipfix.FieldType) string {
	a := adts[t]
	if len(b) < a.size {
		return "raw:" + hex.EncodeToString(b) // encoded shorter than the type's size: raw octets
	}
	switch a.class {
	case "unsigned":
		switch {
		case len(b) == a.size:
			return fmt.Sprintf("u%d:%s", 8*a.size, bigBE(b).String())
		case len(b) <= 8:
			return "u64:" + bigBE(b).String()
		}
	case "signed":
		switch {
		case len(b) == a.size:
			return fmt.Sprintf("i%d:%s", 8*a.size, bigTwos(b).String())
		case len(b) <= 8:
			return "i64:" + bigTwos(b).String()
		}
	case "float":
		return fmt.Sprintf("f%d:%s", 8*a.size, bigBE(b[:a.size]).String())
	case "boolean":
		return "bool:" + strconv.FormatBool(b[0] == 1)
	case "seconds":
		return "u32:" + bigBE(b[:4]).String()
	case "epoch64":
		return "u64:" + bigBE(b[:8]).String()
	case "mac":
		return "mac:" + hex.EncodeToString(b)
	case "string":
		return "str:" + hex.EncodeToString(b)
	case "ip":
		return "ip:" + hex.EncodeToString(b)
	}
	return "raw:" + hex.EncodeToString(b)
}

func expectRec(t tpl, vals [][]byte) string {
	var sb strings.Builder
	sb.WriteString("[")
	for i, s := range t.all() {
		if i > 0 {
			sb.WriteString(",")
		}
		ty, _ := elemType(s)
		fmt.Fprintf(&sb, "%d/%d=%s", s.id, s.ent, expectVal(vals[i], ty))
	}
	sb.WriteString("]")
	return sb.String()
}

// canonical text of the Go dynamic value produced by the real Interpret
func valText(v interface{}) string {
	switch x := v.(type) {
	case bool:
		return "bool:" + strconv.FormatBool(x)
	case uint8:
		return "u8:" + strconv.Itoa(int(x))
	case uint16:
		return "u16:" + strconv.Itoa(int(x))
	case uint32:
		return "u32:" + strconv.FormatUint(uint64(x), 10)
	case uint64:
		return "u64:" + strconv.FormatUint(x, 10)
	case int8:
		return "i8:" + strconv.Itoa(int(x))
	case int16:
		return "i16:" + strconv.Itoa(int(x))
	case int32:
		return "i32:" + strconv.Itoa(int(x))
	case int64:
		return "i64:" + strconv.FormatInt(x, 10)
	case float32:
		return "f32:" + strconv.FormatUint(uint64(math.Float32bits(x)), 10)
	case float64:
		return "f64:" + strconv.FormatUint(math.Float64bits(x), 10)
	case net.HardwareAddr:
		return "mac:" + hex.EncodeToString(x)
	case string:
		return "str:" + hex.EncodeToString([]byte(x))
	case net.IP:
		return "ip:" + hex.EncodeToString(x)
	case []byte:
		return "raw:" + hex.EncodeToString(x)
	}
	return fmt.Sprintf("?%T", v)
}

// ---- message generation ----

type genCfg struct {
	wfOnly    bool // only well-formed messages (round-trip stream)
	mutate    int  // 1/mutate of the datagrams get a field-aware corruption (0 = never)
	maxDgrams int
}

var exporterAddrs = [][]byte{{10, 0, 0, 1}, net.ParseIP("10.0.0.1"), net.ParseIP("2001:db8::1"), {10, 0, 0, 2}, {192, 168, 200, 77}, net.ParseIP("fe80::1:2")}

type refKey struct {
	addr string
	id   int
}

// one datagram with its expectation
type dgram struct {
	addr   []byte
	bytes  []byte
	wf     bool
	expect string // "msg <hdr…> errs= recs=…" when wf
}

// session state of the generator: the reference template map keyed by (exporter, id)
type genSession struct {
	p       *flowProto
	known   map[refKey]tpl
	order   map[string][]int // ids announced per exporter, for picking
	tainted map[string]bool  // exporters whose cache content is no longer known exactly (after a malformed datagram)
}

func (p *flowProto) header(r *rand.Rand, ver int) ([]byte, string) {
	if p.isIPFIX {
		l, et, sq, dom := r.Intn(2000), r.Uint32(), r.Uint32(), r.Uint32()
		return cat(be16(ver), be16(l), be32(int(et)), be32(int(sq)), be32(int(dom))), fmt.Sprintf("%d %d %d %d %d", ver, l, et, sq, dom)
	}
	c, up, secs, sq, src := r.Intn(40), r.Uint32(), r.Uint32(), r.Uint32(), r.Uint32()
	return cat(be16(ver), be16(c), be32(int(up)), be32(int(secs)), be32(int(sq)), be32(int(src))), fmt.Sprintf("%d %d %d %d %d %d", ver, c, up, secs, sq, src)
}

func recLen(p *flowProto, t tpl) int { // -1 = variable
	n := 0
	for _, s := range t.all() {
		if p.isIPFIX && s.ln == 65535 {
			return -1
		}
		n += s.ln
	}
	return n
}

// minRecLen: the shortest record the template can describe (a variable-length field takes at least its
// one-octet length prefix)
func minRecLen(p *flowProto, t tpl) int {
	n := 0
	for _, s := range t.all() {
		if p.isIPFIX && s.ln == 65535 {
			n++
			continue
		}
		n += s.ln
	}
	return n
}

// allKnown: every element is in the information model and the 65535 marker is used only where it
// means "variable length": in IPFIX, on an element of any type (RFC 7011 section 7). In NetFlow v9 it is
// a length like any other, and 65535 octets do not fit a datagram.
func allKnown(p *flowProto, t tpl) bool {
	for _, s := range t.all() {
		if _, ok := elemType(s); !ok {
			return false
		}
		if s.ln == 65535 && !p.isIPFIX {
			return false
		}
	}
	return true
}

func (g *genSession) genDatagram(r *rand.Rand, cfg genCfg, first bool) dgram {
	p := g.p
	addr := exporterAddrs[r.Intn(len(exporterAddrs))]
	ak := string(addr)
	ver := 10
	if !p.isIPFIX {
		ver = 9
	}
	wf := !g.tainted[ak]
	defer func() {
		if !wf {
			g.tainted[ak] = true
		}
	}()
	if !cfg.wfOnly && r.Intn(40) == 0 {
		ver = r.Intn(12)
		wf = wf && ((p.isIPFIX && ver == 10) || (!p.isIPFIX && ver == 9))
	}
	hdr, hdrTxt := p.header(r, ver)
	msg := hdr
	var recs []string
	longPad := 0      // longest set padding of more than 4 octets in this datagram (names a regression of F16: tag K3)
	shortRec := 0     // length of the last data record of at most 4 octets in this datagram (names a regression of K2)
	noFields := false // the datagram holds a data set for a template without fields (expectation tag F30: any error list)
	ns := 1 + r.Intn(4)
	// one datagram in 300 is a large one: its data sets hold hundreds to thousands of records, up to the largest UDP
	// payload (65 507 octets) — the properties quantify over everything "that fits in a datagram", and 16-bit set
	// lengths, record counts and offsets only matter up there
	big := r.Intn(300) == 0
	// templates announced in this datagram take effect for later sets of the same datagram
	for i := 0; i < ns; i++ {
		if len(msg) > 60000 {
			break
		}
		kk := r.Intn(20)
		if first && i == 0 {
			kk = 0
		}
		if cfg.wfOnly && kk >= 17 {
			kk = 10
		}
		switch {
		case kk < 5 || (kk < 8 && false): // template set
			var body []byte
			if !cfg.wfOnly && r.Intn(5) == 0 {
				// a template record with field count 0 (the withdrawal format of RFC 7011 section 8.1) in front of the other
				// records of the set — other octets follow it, so it is parsed, and both decoders install it as a template
				// without fields: data sets for this id cannot be decoded from now on
				t0 := tpl{id: 256 + r.Intn(8)}
				body = append(body, p.encTplRec(t0)...)
				g.known[refKey{ak, t0.id}] = t0
				g.order[ak] = append(g.order[ak], t0.id)
			}
			for j := 0; j < 1+r.Intn(2); j++ {
				t := p.genTpl(r, 256+r.Intn(8), false, cfg.wfOnly)
				if ids := g.order[ak]; len(ids) > 0 && r.Intn(3) == 0 {
					// subtle redefinition of an id this exporter already announced (plain templates only here)
					if k := g.known[refKey{ak, ids[r.Intn(len(ids))]}]; !k.opts && len(k.fields) > 0 {
						t = p.redefine(r, k)
					}
				}
				body = append(body, p.encTplRec(t)...)
				if len(t.fields) == 0 {
					// a 4-octet template record at the end of a set is not parsed (the `> 4` rule): not well-formed for the oracle
					wf = false
				}
				g.known[refKey{ak, t.id}] = t
				g.order[ak] = append(g.order[ak], t.id)
			}
			body = append(body, make([]byte, r.Intn(4))...)
			msg = append(msg, p.set(r, cfg, p.tplSet, body, &wf)...)
		case kk < 8: // options template set
			t := p.genTpl(r, 256+r.Intn(8), true, cfg.wfOnly)
			if ids := g.order[ak]; len(ids) > 0 && r.Intn(3) == 0 {
				if k := g.known[refKey{ak, ids[r.Intn(len(ids))]}]; k.opts && len(k.fields)+len(k.scope) > 0 {
					t = p.redefine(r, k)
				}
			}
			if len(t.fields)+len(t.scope) == 0 {
				wf = false
			}
			g.known[refKey{ak, t.id}] = t
			g.order[ak] = append(g.order[ak], t.id)
			body := p.encTplRec(t)
			body = append(body, make([]byte, r.Intn(4))...)
			msg = append(msg, p.set(r, cfg, p.optSet, body, &wf)...)
		case kk < 17: // data set
			var t tpl
			ids := g.order[ak]
			if len(ids) > 0 && (cfg.wfOnly || r.Intn(8) > 0) {
				id := ids[len(ids)-1-r.Intn(min(3, len(ids)))]
				t = g.known[refKey{ak, id}]
			} else if cfg.wfOnly {
				// nothing announced yet by this exporter: announce one first
				t = p.genTpl(r, 256+r.Intn(8), r.Intn(3) == 0, true)
				g.known[refKey{ak, t.id}] = t
				g.order[ak] = append(g.order[ak], t.id)
				sid := p.tplSet
				if t.opts {
					sid = p.optSet
				}
				msg = append(msg, p.set(r, cfg, sid, p.encTplRec(t), &wf)...)
			} else {
				// data for a template this exporter never announced
				t = p.genTpl(r, 300+r.Intn(8), r.Intn(2) == 0, false)
				if _, ok := g.known[refKey{ak, t.id}]; !ok {
					wf = false // unknown template: separately covered (C04/C09 streams)
				} else {
					t = g.known[refKey{ak, t.id}]
				}
			}
			if len(t.all()) == 0 && !cfg.wfOnly {
				// data for a template without fields: no record can be decoded from this set, whatever its body; like every
				// other undecodable set it is to be skipped by its declared length — the message is returned and the records
				// of its other sets are all there (C09; which error is reported is not prescribed: expectation tag F30)
				noFields = true
				msg = append(msg, p.set(r, cfg, t.id, rndBytes(r, r.Intn(20)), &wf)...)
				continue
			}
			var body []byte
			nr := 1 + r.Intn(5)
			if big {
				nr = 100 + r.Intn(3000)
			}
			okSet := allKnown(p, t) && len(t.all()) > 0
			for j := 0; j < nr; j++ {
				rb, vals := p.genRecord(r, t)
				if big && len(msg)+4+len(body)+len(rb)+12 > 65507 {
					break // the set length is 16 bits and the datagram at most 65 507 octets
				}
				body = append(body, rb...)
				if len(rb) == 0 {
					okSet = false // a record of no octets (all field lengths 0) is reported as an error (F2)
				}
				if okSet {
					recs = append(recs, expectRec(t, vals))
					if len(rb) <= 4 {
						shortRec = len(rb)
					}
				}
			}
			if !okSet {
				wf = false
			}
			// RFC 7011 §3.3.1 (and the 4-octet alignment of RFC 3954): set padding is shorter than the shortest
			// record the template can describe; 8-octet alignment gives up to 7 octets
			maxPad := min(minRecLen(p, t)-1, 7)
			if maxPad < 0 {
				maxPad = 0
			}
			pad := r.Intn(min(maxPad, 3) + 1)
			if r.Intn(3) == 0 {
				pad = r.Intn(maxPad + 1)
			}
			if !cfg.wfOnly && r.Intn(10) == 0 {
				pad = r.Intn(12)
				if pad > maxPad {
					wf = false // as long as a record: not padding
				}
			}
			if pad > 4 && pad > longPad {
				longPad = pad
			}
			body = append(body, make([]byte, pad)...)
			msg = append(msg, p.set(r, cfg, t.id, body, &wf)...)
		default: // reserved / odd ids
			id := p.reserved[r.Intn(len(p.reserved))]
			if r.Intn(4) == 0 {
				id = []int{0, 1, 2, 3}[r.Intn(4)]
			}
			wf = false
			msg = append(msg, p.set(r, cfg, id, rndBytes(r, r.Intn(24)), &wf)...)
		}
	}
	if cfg.mutate > 0 && r.Intn(cfg.mutate) == 0 {
		wf = false
		switch r.Intn(4) {
		case 0:
			msg = msg[:r.Intn(len(msg)+1)]
		case 1:
			if len(msg) > 0 {
				msg[r.Intn(len(msg))] ^= byte(1 << uint(r.Intn(8)))
			}
		case 2:
			if len(msg) > 24 {
				o := 16 + 2*r.Intn((len(msg)-17)/2)
				copy(msg[o:], be16([]int{0, 1, 3, 4, 5, 2, 0xffff, 0x8000}[r.Intn(8)]))
			}
		case 3:
			msg = append(msg, rndBytes(r, 1+r.Intn(12))...)
		}
	}
	d := dgram{addr: addr, bytes: msg, wf: wf}
	if wf {
		d.expect = "msg " + hdrTxt + " errs= recs=" + strings.Join(recs, "")
		// "K3 <n> <expected line>" / "K2 <n> <expected line>": the full expected decode is checked as for every
		// other case; the tag only lets runDecode NAME a failure (long padding read as a record / short records
		// dropped as padding: both repaired by the padding fix, known_findings F16 / K2)
		if noFields {
			d.expect = "F30 msg " + hdrTxt + " errs=* recs=" + strings.Join(recs, "")
		} else if longPad > 0 {
			d.expect = fmt.Sprintf("K3 %d %s", longPad, d.expect)
		} else if shortRec > 0 {
			d.expect = fmt.Sprintf("K2 %d %s", shortRec, d.expect)
		}
	}
	return d
}

func (p *flowProto) set(r *rand.Rand, cfg genCfg, id int, body []byte, wf *bool) []byte {
	l := 4 + len(body)
	if !cfg.wfOnly && r.Intn(60) == 0 {
		l = []int{0, 3, 4, l - 1, l + 1, l + 7, 65535}[r.Intn(7)]
		*wf = false
	}
	return cat(be16(id), be16(l), body)
}

func (p *flowProto) genStream(cfg genCfg) func(r *rand.Rand, n int, w *bufio.Writer) {
	return func(r *rand.Rand, n int, w *bufio.Writer) {
		initElems()
		for emitted := 0; emitted < n; {
			fmt.Fprintln(w, "new")
			g := &genSession{p: p, known: map[refKey]tpl{}, order: map[string][]int{}, tainted: map[string]bool{}}
			nd := 1 + r.Intn(cfg.maxDgrams)
			for d := 0; d < nd; d++ {
				if d > 0 && r.Intn(8) == 0 {
					// the collector is restarted between two datagrams: the cache is saved with Dump and loaded back
					// with GetCache (C11 proves the loaded cache answers every lookup as the saved one: the model's
					// cache is unchanged) — anything a template carries that the file does not shows from here on
					fmt.Fprintf(w, "restart %s\t-\n", p.name)
					emitted++
				}
				if !cfg.wfOnly && r.Intn(40) == 0 {
					// one datagram with 65..300 data sets of distinct template ids this exporter never announced
					// (every one is reported unknown and skipped; nothing may wait on anything)
					hdr, _ := p.header(r, map[bool]int{true: 10, false: 9}[p.isIPFIX])
					addr := exporterAddrs[r.Intn(len(exporterAddrs))]
					if r.Intn(10) == 0 {
						// … from an exporter that has announced many hundreds of templates (one ordinary datagram of 8-octet
						// template records): the cost of an unknown set must not grow with what the cache holds (an error
						// text listing the known ids, a scan of the shards per set: seed C02-h)
						hdrA, _ := p.header(r, map[bool]int{true: 10, false: 9}[p.isIPFIX])
						var body []byte
						for i, nt := 0, 500+r.Intn(1000); i < nt; i++ {
							body = append(body, p.encTplRec(tpl{id: 1000 + i, fields: []fspec{{id: 8, ln: 4}}})...)
						}
						fmt.Fprintf(w, "%s %s %s\t-\n", p.name, hx(addr), hx(cat(hdrA, be16(p.tplSet), be16(4+len(body)), body)))
						emitted++
					}
					m := append([]byte{}, hdr...)
					for i, ns := 0, 65+r.Intn(236); i < ns; i++ {
						body := rndBytes(r, 1+r.Intn(8))
						m = append(m, cat(be16(20000+i), be16(4+len(body)), body)...)
					}
					fmt.Fprintf(w, "%s %s %s\t-\n", p.name, hx(addr), hx(m))
					emitted++
					continue
				}
				dg := g.genDatagram(r, cfg, d == 0)
				exp := "-"
				if dg.wf {
					exp = dg.expect
				}
				fmt.Fprintf(w, "%s %s %s\t%s\n", p.name, hx(dg.addr), hx(dg.bytes), exp)
				emitted++
			}
		}
	}
}

// ---- runners: the real decoders ----

func errClass(p *flowProto, e string) string {
	switch {
	case strings.Contains(e, "can not read the data"):
		return "short"
	case strings.Contains(e, "invalid ipfix version"), strings.Contains(e, "invalid netflow version"):
		return "badver"
	case strings.Contains(e, "unexpected EOF"):
		return "badsetlen"
	case strings.Contains(e, "invalid setID"):
		return "invalidset"
	case strings.Contains(e, "failed to decodeData"):
		return "emptyrec"
	case strings.Contains(e, "unknown ipfix template id#"), strings.Contains(e, "unknown netflow template id#"):
		return "unknowntpl"
	case strings.Contains(e, "element key"):
		return "unknownelem"
	case strings.Contains(e, "zero-length"):
		return "zerorec"
	}
	return "other(" + strings.ReplaceAll(e, " ", "_") + ")"
}

func errClasses(p *flowProto, err error) []string {
	if err == nil {
		return nil
	}
	s := err.Error()
	if strings.HasPrefix(s, "Multiple errors:") {
		var out []string
		for _, l := range strings.Split(s, "\n")[1:] {
			out = append(out, errClass(p, strings.TrimPrefix(l, "- ")))
		}
		return out
	}
	return []string{errClass(p, s)}
}

type decoded struct {
	nilMsg bool
	hdr    string
	errs   []string
	recs   []string
	json   []byte
	jerr   error
	nrec   int
}

func (d decoded) line() string {
	if d.nilMsg {
		return "nil " + strings.Join(d.errs, ",")
	}
	return "msg " + d.hdr + " errs=" + strings.Join(d.errs, ",") + " recs=" + strings.Join(d.recs, "")
}

func (p *flowProto) cache(st *state) interface{} {
	if c, ok := st.v[p.name]; ok {
		return c
	}
	var c interface{}
	if p.isIPFIX {
		c = ipfix.GetCache("")
	} else {
		c = netflow9.GetCache("")
	}
	st.v[p.name] = c
	return c
}

func (p *flowProto) decodeReal(st *state, addr, dg []byte, withJSON bool) decoded {
	var out decoded
	if p.isIPFIX {
		if measureAlloc {
			runtime.ReadMemStats(&lastMS0)
		}
		m, err := ipfix.NewDecoder(net.IP(addr), dg).Decode(p.cache(st).(ipfix.MemCache))
		if measureAlloc {
			runtime.ReadMemStats(&lastMS1)
		}
		out.errs = errClasses(p, err)
		if m == nil {
			out.nilMsg = true
			return out
		}
		out.hdr = fmt.Sprintf("%d %d %d %d %d", m.Header.Version, m.Header.Length, m.Header.ExportTime, m.Header.SequenceNo, m.Header.DomainID)
		out.nrec = len(m.DataSets)
		for _, rec := range m.DataSets {
			var sb strings.Builder
			sb.WriteString("[")
			for i, f := range rec {
				if i > 0 {
					sb.WriteString(",")
				}
				fmt.Fprintf(&sb, "%d/%d=%s", f.ID, f.EnterpriseNo, valText(f.Value))
			}
			sb.WriteString("]")
			out.recs = append(out.recs, sb.String())
		}
		if withJSON {
			jb, jerr := m.JSONMarshal(new(bytes.Buffer))
			out.json, out.jerr = append([]byte{}, jb...), jerr
		}
		return out
	}
	if measureAlloc {
		runtime.ReadMemStats(&lastMS0)
	}
	m, err := netflow9.NewDecoder(net.IP(addr), dg).Decode(p.cache(st).(netflow9.MemCache))
	if measureAlloc {
		runtime.ReadMemStats(&lastMS1)
	}
	out.errs = errClasses(p, err)
	if m == nil {
		out.nilMsg = true
		return out
	}
	out.hdr = fmt.Sprintf("%d %d %d %d %d %d", m.Header.Version, m.Header.Count, m.Header.SysUpTime, m.Header.UNIXSecs, m.Header.SeqNum, m.Header.SrcID)
	out.nrec = len(m.DataSets)
	for _, rec := range m.DataSets {
		var sb strings.Builder
		sb.WriteString("[")
		for i, f := range rec {
			if i > 0 {
				sb.WriteString(",")
			}
			fmt.Fprintf(&sb, "%d/0=%s", f.ID, valText(f.Value))
		}
		sb.WriteString("]")
		out.recs = append(out.recs, sb.String())
	}
	if withJSON {
		jb, jerr := m.JSONMarshal(new(bytes.Buffer))
		out.json, out.jerr = append([]byte{}, jb...), jerr
	}
	return out
}

// allocation measurement around the Decode call inside decodeReal
var (
	measureAlloc     bool
	lastMS0, lastMS1 runtime.MemStats
)

func (p *flowProto) runDecode(st *state, line, expect string) (string, string) {
	initElems()
	f := strings.Fields(line)
	if f[0] == "restart" {
		dir, err := ioutil.TempDir("", "verif-restart")
		if err != nil {
			return "ERR", "fail:restart " + err.Error()
		}
		defer os.RemoveAll(dir)
		path := filepath.Join(dir, "cache.json")
		if err := p.dumpReal(p.cache(st), path); err != nil {
			return "ERR", "fail:restart Dump: " + err.Error()
		}
		st.v[p.name] = p.loadReal(path)
		return "restarted", "ok"
	}
	addr, dg := unhx(f[1]), unhx(f[2])
	maxPrev, _ := st.v["maxlen"].(int)
	if len(dg) > maxPrev {
		maxPrev = len(dg)
	}
	st.v["maxlen"] = maxPrev
	// one decode (allocation measured around Decode alone), then — as the worker does — JSONMarshal of the
	// decoded message; a panic in either is caught by the run loop (C01)
	zBefore := zeroLenFields(p.cache(st), usedKeys(addr, dg, flowHdrLen(p.isIPFIX)))
	measureAlloc = true
	out := p.decodeReal(st, addr, dg, true)
	measureAlloc = false
	ms0, ms1 := lastMS0, lastMS1
	ln := out.line()
	verdict := "ok"
	switch {
	case out.nrec > len(dg):
		verdict = fmt.Sprintf("fail:records %d records from %d octets", out.nrec, len(dg))
	case allocVerdict(ms1.TotalAlloc-ms0.TotalAlloc, addr, dg, p.isIPFIX, zBefore, p.cache(st)) != "":
		verdict = allocVerdict(ms1.TotalAlloc-ms0.TotalAlloc, addr, dg, p.isIPFIX, zBefore, p.cache(st))
	case (strings.HasPrefix(expect, "K2 ") || strings.HasPrefix(expect, "K3 ")) && len(expect) > 5 && ln != expect[5:]:
		// Regression names (both defects are repaired; a tagged case is an ordinary case whose expected line is
		// checked in full, and a mismatch is an ordinary fail: verdict that no known finding matches).
		// "K2 <n> <expected line>": the datagram has data records of n <= 4 octets; "K3 <n> <expected line>": it has
		// n = 5..7 octets of set padding (shorter than the shortest record). The class is used only when the harness has
		// itself checked that the difference is of that kind: K2 = what is missing is exactly a tail of records;
		// K3 = the whole message was lost with a short read. Anything else is fail:roundtrip.
		exp := expect[5:]
		n := int(expect[3] - '0')
		switch {
		case expect[1] == '2' && n >= 1 && n <= 4 && strings.HasPrefix(exp, ln) && (len(ln) < len(exp) && strings.HasPrefix(exp[len(ln):], "[") || strings.HasSuffix(ln, "recs=")):
			verdict = fmt.Sprintf("fail:short-record data records of %d octets at the end of a set were taken for padding and dropped: want %s got %s", n, clip(exp, 200), clip(ln, 200))
		case expect[1] == '3' && n >= 5 && n <= 9 && ln == "nil short":
			verdict = fmt.Sprintf("fail:long-padding %d octets of set padding (shorter than the shortest record of the template) were read as a data record and the whole message was lost: want %s got %s", n, clip(exp, 300), clip(ln, 200))
		default:
			verdict = "fail:roundtrip decoded message differs from the abstract message: want " + clip(exp, 400) + " got " + clip(ln, 400)
		}
	case strings.HasPrefix(expect, "K2 ") || strings.HasPrefix(expect, "K3 "):
	case strings.HasPrefix(expect, "F30 "):
		// the datagram holds a data set for a template without fields: the message must be returned with exactly the
		// records of its other sets; the error list is not compared
		got := ln
		if !out.nilMsg {
			got = "msg " + out.hdr + " errs=* recs=" + strings.Join(out.recs, "")
		}
		if got != expect[4:] {
			verdict = "fail:roundtrip a data set for a template without fields (template record with field count 0) disturbed its neighbours: want " + clip(expect[4:], 400) + " got " + clip(ln, 400)
		}
	case expect != "" && expect != "-" && ln != expect:
		verdict = "fail:roundtrip decoded message differs from the abstract message: want " + clip(expect, 400) + " got " + clip(ln, 400)
	}
	return ln, verdict
}

func clip(s string, n int) string {
	if len(s) > n {
		return s[:n] + "…"
	}
	return s
}

func init() {
	mixed := genCfg{wfOnly: false, mutate: 8, maxDgrams: 8}
	wf := genCfg{wfOnly: true, mutate: 0, maxDgrams: 6}
	kinds["ipfix"] = &kind{gen: protoIPFIX.genStream(mixed), run: protoIPFIX.runDecode}
	kinds["nf9"] = &kind{gen: protoNF9.genStream(mixed), run: protoNF9.runDecode}
	kinds["ipfix-wf"] = &kind{gen: protoIPFIX.genStream(wf), run: protoIPFIX.runDecode}
	kinds["nf9-wf"] = &kind{gen: protoNF9.genStream(wf), run: protoNF9.runDecode}
}

func min(a, b int) int {
	if a < b {
		return a
	}
	return b
}
