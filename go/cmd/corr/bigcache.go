package main

// bigcache: a tool for the "early stop" cycles of the end-to-end check of C15 (e2e.early_stop_cycle), not a
// correspondence kind. It builds a LARGE template cache file with the real code and lists what a file holds:
//
//	corr bigcache gen    <ipfix|nf9> <file> <exporters> <templates> <fields>
//	    announces exporters x templates templates of <fields> fields each to the real decoder (template
//	    messages from that many exporter addresses) and saves the cache with the real Dump
//	    then loads the file back; prints announced=<n> octets=<file size> and the digest line of the file
//	corr bigcache digest <ipfix|nf9> <file>
//	    loads <file> with the real GetCache and prints one line
//	        templates=<n> sha256=<hash of the sorted template records> load_ms=<time GetCache took>
//
// Every announced template differs from every other one in its content (the exporter's number is spread over
// the lengths of the first three fields, the template's over its id), so the multiset of stored template
// RECORDS identifies the set of (exporter, id) entries whatever the cache keys look like: the digest never
// looks at a key (the cache file's key format is an implementation detail that may change).

import (
	"crypto/sha256"
	"encoding/binary"
	"encoding/json"
	"fmt"
	"net"
	"os"
	"sort"
	"strconv"
	"time"

	"github.com/EdgeCast/vflow/ipfix"
	netflow9 "github.com/EdgeCast/vflow/netflow/v9"
)

func init() { tools["bigcache"] = bigcache }

func bcU16(v ...int) []byte {
	b := make([]byte, 2*len(v))
	for i, x := range v {
		binary.BigEndian.PutUint16(b[2*i:], uint16(x))
	}
	return b
}

func bcU32(v ...int) []byte {
	b := make([]byte, 4*len(v))
	for i, x := range v {
		binary.BigEndian.PutUint32(b[4*i:], uint32(x))
	}
	return b
}

// one template message of exporter e: templates 256 .. 256+nt-1, nf fields each
func bigTemplateMsg(proto string, e, nt, nf int) []byte {
	var recs []byte
	for t := 0; t < nt; t++ {
		rec := bcU16(256+t, nf)
		for j := 0; j < nf; j++ {
			l := 4
			switch j {
			case 0:
				l = 1 + e%250
			case 1:
				l = 1 + (e/250)%250
			case 2:
				l = 1 + e/62500
			}
			rec = append(rec, bcU16(1+j%300, l)...)
		}
		recs = append(recs, rec...)
	}
	if proto == "ipfix" {
		set := append(bcU16(2, 4+len(recs)), recs...)
		return append(append(bcU16(10, 16+len(set)), bcU32(1600000000, e, 7)...), set...)
	}
	set := append(bcU16(0, 4+len(recs)), recs...)
	return append(append(bcU16(9, nt), bcU32(1000, 1600000000, e, 7)...), set...)
}

func bigcache(args []string) int {
	if len(args) < 3 || (args[1] != "ipfix" && args[1] != "nf9") {
		fmt.Fprintln(os.Stderr, "usage: corr bigcache gen|digest ipfix|nf9 <file> [exporters templates fields]")
		return 2
	}
	proto, file := args[1], args[2]
	switch args[0] {
	case "gen":
		if len(args) != 6 {
			return 2
		}
		ne, _ := strconv.Atoi(args[3])
		nt, _ := strconv.Atoi(args[4])
		nf, _ := strconv.Atoi(args[5])
		if ne < 1 || nt < 1 || nf < 3 || ne > 250*250*250 || nt*(4+4*nf) > 60000 {
			fmt.Fprintln(os.Stderr, "bigcache gen: counts out of range")
			return 2
		}
		os.Remove(file) // GetCache of a missing file: a fresh cache
		var dump func(string) error
		var decode func(net.IP, []byte) error
		if proto == "ipfix" {
			c := ipfix.GetCache(file)
			dump = c.Dump
			decode = func(ip net.IP, b []byte) error { _, err := ipfix.NewDecoder(ip, b).Decode(c); return err }
		} else {
			c := netflow9.GetCache(file)
			dump = c.Dump
			decode = func(ip net.IP, b []byte) error { _, err := netflow9.NewDecoder(ip, b).Decode(c); return err }
		}
		for e := 0; e < ne; e++ {
			ip := net.IPv4(10, byte(e>>16), byte(e>>8), byte(e)) // 16 octets, IPv4-mapped, as the dual-stack listener reports it
			if err := decode(ip, bigTemplateMsg(proto, e, nt, nf)); err != nil {
				fmt.Fprintln(os.Stderr, "bigcache gen: the decoder rejected a template message:", err)
				return 1
			}
		}
		if err := dump(file); err != nil {
			fmt.Fprintln(os.Stderr, "bigcache gen: Dump:", err)
			return 1
		}
		fi, err := os.Stat(file)
		if err != nil {
			return 1
		}
		// what the file just written gives back when it is loaded (and how long loading it takes)
		fmt.Printf("announced=%d octets=%d %s\n", ne*nt, fi.Size(), bigDigest(proto, file))
		return 0
	case "digest":
		fmt.Println(bigDigest(proto, file))
		return 0
	}
	return 2
}

// bigDigest loads the file with the real GetCache and describes the templates it then holds; the cache keys are
// never looked at (ranging over the shard maps compiles whatever their key type is)
func bigDigest(proto, file string) string {
	var all []string
	add := func(t interface{}) {
		b, err := json.Marshal(t)
		if err != nil {
			b = []byte("unmarshalable: " + err.Error())
		}
		all = append(all, string(b))
	}
	t0 := time.Now()
	var ms int64
	if proto == "ipfix" {
		c := ipfix.GetCache(file)
		ms = time.Since(t0).Milliseconds()
		for _, sh := range c {
			if sh != nil {
				for _, d := range sh.Templates {
					add(d.Template)
				}
			}
		}
	} else {
		c := netflow9.GetCache(file)
		ms = time.Since(t0).Milliseconds()
		for _, sh := range c {
			if sh != nil {
				for _, d := range sh.Templates {
					add(d.Template)
				}
			}
		}
	}
	sort.Strings(all)
	h := sha256.New()
	for _, t := range all {
		h.Write([]byte(t))
		h.Write([]byte{'\n'})
	}
	return fmt.Sprintf("templates=%d sha256=%x load_ms=%d", len(all), h.Sum(nil), ms)
}
