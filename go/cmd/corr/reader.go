package main

import (
	"bufio"
	"fmt"
	"math/rand"
	"strconv"
	"strings"

	"github.com/EdgeCast/vflow/reader"
)

// C19: random buffers x random operation sequences on the real reader.Reader.
// Oracle (model-independent): positions recomputed on the original buffer.
func init() {
	kinds["reader"] = &kind{gen: genReader, run: runReader}
}

func genReader(r *rand.Rand, n int, w *bufio.Writer) {
	for i := 0; i < n; i++ {
		bl := r.Intn(65)
		if r.Intn(10) == 0 {
			bl = r.Intn(4)
		}
		// one buffer in a thousand is longer than 65535 octets and is read across the 65535 / 65536 position
		// (the property is about every buffer; offsets kept in 16 bits wrap there)
		big := r.Intn(1000) == 0
		if big {
			bl = 65500 + r.Intn(6000)
		}
		buf := make([]byte, bl)
		r.Read(buf)
		nops := r.Intn(41)
		if big {
			nops = 8 + r.Intn(12)
		}
		ops := make([]string, nops)
		pos := 0
		for j := range ops {
			switch k := r.Intn(12); {
			case big && j == 0:
				v := 65490 + r.Intn(60)
				ops[j] = "r:" + strconv.Itoa(v)
				pos += v
			case k == 0:
				ops[j] = "u8"
			case k == 1:
				ops[j] = "u16"
			case k == 2:
				ops[j] = "u32"
			case k == 3:
				ops[j] = "u64"
			case k == 4:
				ops[j] = "pk16"
			case k == 5:
				ops[j] = "len"
			case k == 6:
				ops[j] = "cnt"
			default:
				// lengths around the interesting points: -3..3, remaining-3..remaining+3, anything
				rem := bl - pos
				var v int
				switch r.Intn(4) {
				case 0:
					v = r.Intn(7) - 3
				case 1:
					v = rem + r.Intn(7) - 3
				case 2:
					v = r.Intn(bl+4) - 1
				default:
					v = r.Intn(6)
				}
				if k < 10 {
					ops[j] = "r:" + strconv.Itoa(v)
					if v >= 0 && v <= rem {
						pos += v
					}
				} else {
					ops[j] = "p:" + strconv.Itoa(v)
				}
			}
			switch ops[j] {
			case "u8":
				if bl-pos >= 1 {
					pos++
				}
			case "u16":
				if bl-pos >= 2 {
					pos += 2
				}
			case "u32":
				if bl-pos >= 4 {
					pos += 4
				}
			case "u64":
				if bl-pos >= 8 {
					pos += 8
				}
			}
		}
		fmt.Fprintf(w, "reader %s %s\n", hx(buf), strings.Join(ops, ";"))
	}
}

func beN(b []byte) uint64 {
	var v uint64
	for _, x := range b {
		v = v<<8 | uint64(x)
	}
	return v
}

func runReader(st *state, line, expect string) (string, string) {
	f := strings.Fields(line)
	buf := unhx(f[1])
	// the decoders read from the first n octets of a pooled receive buffer: two cases in three give the reader a
	// slice with spare capacity (1..16 octets, or a 1500-octet buffer) whose tail holds the octets of an earlier datagram
	switch spare := len(line) % 3; spare {
	case 1, 2:
		extra := 1 + len(line)%16
		if spare == 2 && len(buf) < 1500 {
			extra = 1500 - len(buf)
		}
		back := make([]byte, len(buf)+extra)
		copy(back, buf)
		for i := len(buf); i < len(back); i++ {
			back[i] = 0xA5
		}
		buf = back[:len(buf)]
	}
	orig := append([]byte{}, buf...)
	var ops []string
	if len(f) > 2 {
		ops = strings.Split(f[2], ";")
	}
	rd := reader.NewReader(buf)
	pos := 0 // oracle position
	var outs []string
	verdict := "ok"
	bad := func(i int, msg string) {
		if verdict == "ok" {
			verdict = fmt.Sprintf("fail:op %d (%s): %s", i, ops[i], msg)
		}
	}
	for i, op := range ops {
		var out string
		var want string
		fixed := func(k int) {
			if len(orig)-pos >= k {
				want = "N" + strconv.FormatUint(beN(orig[pos:pos+k]), 10)
				pos += k
			} else {
				want = "F"
			}
		}
		switch {
		case op == "u8":
			v, err := rd.Uint8()
			out = num(uint64(v), err)
			fixed(1)
		case op == "u16":
			v, err := rd.Uint16()
			out = num(uint64(v), err)
			fixed(2)
		case op == "u32":
			v, err := rd.Uint32()
			out = num(uint64(v), err)
			fixed(4)
		case op == "u64":
			v, err := rd.Uint64()
			out = num(v, err)
			fixed(8)
		case op == "pk16":
			v, err := rd.PeekUint16()
			out = num(uint64(v), err)
			if len(orig)-pos >= 2 {
				want = "N" + strconv.FormatUint(beN(orig[pos:pos+2]), 10)
			} else {
				want = "F"
			}
		case op == "len":
			out = "N" + strconv.Itoa(rd.Len())
			want = "N" + strconv.Itoa(len(orig)-pos)
		case op == "cnt":
			out = "N" + strconv.Itoa(rd.ReadCount())
			want = "N" + strconv.Itoa(pos)
		case strings.HasPrefix(op, "r:") || strings.HasPrefix(op, "p:"):
			n, _ := strconv.Atoi(op[2:])
			var b []byte
			var err error
			func() {
				defer func() {
					if p := recover(); p != nil {
						out = "PANIC"
						bad(i, "panic: "+fmt.Sprint(p))
					}
				}()
				if op[0] == 'r' {
					b, err = rd.Read(n)
				} else {
					b, err = rd.Peek(n)
				}
				if err != nil {
					out = "F"
				} else {
					out = "B" + hexOrEmpty(b)
				}
			}()
			if n >= 0 && n <= len(orig)-pos {
				want = "B" + hexOrEmpty(orig[pos:pos+n])
				if op[0] == 'r' {
					pos += n
				}
			} else {
				want = "F"
			}
		default:
			return "bad-op", "ok"
		}
		if out != want && out != "PANIC" {
			bad(i, "got "+out+" want "+want)
		}
		// accounting after every operation
		if out != "PANIC" && (rd.ReadCount()+rd.Len() != len(orig) || rd.ReadCount() != pos) {
			bad(i, fmt.Sprintf("accounting: ReadCount=%d Len=%d buffer=%d expected position %d", rd.ReadCount(), rd.Len(), len(orig), pos))
		}
		outs = append(outs, out)
		if out == "PANIC" {
			// the model has no panic outcome: report and stop this case
			return strings.Join(outs, ";"), verdict
		}
	}
	return strings.Join(outs, ";"), verdict
}

func hexOrEmpty(b []byte) string {
	if len(b) == 0 {
		return ""
	}
	return hx(b)
}

func num(v uint64, err error) string {
	if err != nil {
		return "F"
	}
	return "N" + strconv.FormatUint(v, 10)
}
