package main

// C04: histories of announcements, re-announcements with a changed definition and data sets from
// several exporters (4-octet, IPv4-mapped and IPv6 addresses), including exporter/id pairs searched
// to collide under the 32-bit FNV-1 hash that picks the cache shard (and that, before the K1 repair,
// was the whole key: the two pairs shared one entry). Oracle: a reference map keyed by (address, id)
// kept by the generator — every data set must decode with exactly the template that map holds, and
// data for a template its exporter never announced must be reported unknown and yield no records —
// for the colliding pairs like for any other: a failure on one of them is an ordinary failure
// (`fail:hash-collision …`, matched by no known finding).

import (
	"bufio"
	"encoding/binary"
	"fmt"
	"hash/fnv"
	"math/rand"
	"strings"
)

func fnvKey(addr []byte, id int) uint32 {
	b := make([]byte, 2)
	binary.BigEndian.PutUint16(b, uint16(id))
	h := fnv.New32()
	h.Write(append(append([]byte{}, addr...), b...))
	return h.Sum32()
}

type keyPair struct {
	a1   []byte
	id1  int
	a2   []byte
	id2  int
	hash uint32
}

// birthday search for two distinct (addr, id) keys with equal FNV-1 (different exporters); the addresses are 4-octet
// IPv4, IPv4-mapped 16-octet or IPv6 ones, the two of a pair not necessarily of the same form
func findCollision(r *rand.Rand) keyPair {
	type cand struct {
		a  string
		id int
	}
	seen := map[uint32]cand{}
	for {
		x, y, z := byte(r.Intn(256)), byte(r.Intn(256)), byte(r.Intn(256))
		var a []byte
		switch r.Intn(4) {
		case 0:
			a = []byte{0, 0, 0, 0, 0, 0, 0, 0, 0, 0, 0xff, 0xff, 10, x, y, z}
		case 1:
			a = []byte{0x20, 0x01, 0x0d, 0xb8, 0, 0, 0, 0, 0, 0, 0, 0, 0, x, y, z}
		default:
			a = []byte{10, x, y, z}
		}
		id := 256 + r.Intn(4000)
		h := fnvKey(a, id)
		if p, ok := seen[h]; ok && p.a != string(a) {
			return keyPair{[]byte(p.a), p.id, a, id, h}
		}
		seen[h] = cand{string(a), id}
	}
}

func (p *flowProto) tplSetBytes(t tpl) []byte {
	sid := p.tplSet
	if t.opts {
		sid = p.optSet
	}
	rec := p.encTplRec(t)
	return cat(be16(sid), be16(4+len(rec)), rec)
}

func (p *flowProto) dataSetBytes(r *rand.Rand, t tpl, n int) ([]byte, string) {
	var body []byte
	var recs []string
	for j := 0; j < n; j++ {
		rb, vals := p.genRecord(r, t)
		body = append(body, rb...)
		recs = append(recs, expectRec(t, vals))
	}
	return cat(be16(t.id), be16(4+len(body)), body), strings.Join(recs, "")
}

// a template whose records have a positive length and are fully known
func (p *flowProto) histTpl(r *rand.Rand, id int) tpl {
	for {
		t := p.genTpl(r, id, r.Intn(4) == 0, true)
		if n := minRecLen(p, t); n > 0 && allKnown(p, t) {
			return t
		}
	}
}

// relength: the same elements in the same order, with at least one field length changed
// (reduced-size / over-long encodings; records keep a positive length)
func (p *flowProto) relength(r *rand.Rand, t tpl) tpl {
	for tries := 0; tries < 50; tries++ {
		n := tpl{id: t.id, opts: t.opts}
		changed := false
		ch := func(s fspec) fspec {
			if r.Intn(2) == 0 {
				old := s.ln
				if old == 65535 {
					s.ln = 1 + r.Intn(12)
				} else {
					s.ln = 1 + r.Intn(16)
				}
				changed = changed || s.ln != old
			}
			return s
		}
		for _, s := range t.scope {
			n.scope = append(n.scope, ch(s))
		}
		for _, s := range t.fields {
			n.fields = append(n.fields, ch(s))
		}
		if changed && minRecLen(p, n) > 0 && allKnown(p, n) {
			return n
		}
	}
	return p.histTpl(r, t.id)
}

func (p *flowProto) genHist(r *rand.Rand, n int, w *bufio.Writer) {
	initElems()
	ver := 10
	if !p.isIPFIX {
		ver = 9
	}
	for emitted := 0; emitted < n; {
		fmt.Fprintln(w, "new")
		collide := r.Intn(3) == 0
		// exporters of this history
		var exps [][]byte
		ne := 2 + r.Intn(4)
		for i := 0; i < ne; i++ {
			exps = append(exps, exporterAddrs[r.Intn(len(exporterAddrs))])
		}
		ids := []int{256, 257, 300, 1024, 65535}
		var kp keyPair
		if collide {
			kp = findCollision(r)
		}
		ref := map[refKey]tpl{}
		steps := 4 + r.Intn(10)
		for s := 0; s < steps; s++ {
			var addr []byte
			var id int
			tag := ""
			if collide && r.Intn(2) == 0 {
				// the two colliding keys take turns
				if s%2 == 0 {
					addr, id = kp.a1, kp.id1
				} else {
					addr, id = kp.a2, kp.id2
				}
				tag = fmt.Sprintf("K1 %s/%d %s/%d ", hx(kp.a1), kp.id1, hx(kp.a2), kp.id2)
			} else {
				addr, id = exps[r.Intn(len(exps))], ids[r.Intn(len(ids))]
			}
			hdr, hdrTxt := p.header(r, ver)
			msg := hdr
			exp := ""
			known, have := ref[refKey{string(addr), id}]
			if have && len(known.all()) == 0 && r.Intn(3) > 0 {
				// the latest announcement of this id has no fields: data for it cannot be decoded, whatever it carries
				hdr, hdrTxt := p.header(r, ver)
				body := rndBytes(r, 8+r.Intn(16))
				fmt.Fprintf(w, "%s %s %s\t%smsg %s errs=emptyrec recs=\n", p.name, hx(addr), hx(cat(hdr, be16(id), be16(4+len(body)), body)), tag, hdrTxt)
				emitted++
				continue
			}
			kk := r.Intn(10)
			if have && len(known.all()) == 0 {
				have, kk = false, 0 // re-announce it with fields below
			}
			switch k := kk; {
			case k < 4 || !have && k < 6: // (re-)announce, possibly with a different definition, then maybe data in the same message
				t := p.histTpl(r, id)
				if have && r.Intn(2) == 0 {
					// the subtle kind of redefinition: same elements in the same order, only the encoded lengths differ
					t = p.relength(r, known)
				}
				ref[refKey{string(addr), id}] = t
				msg = append(msg, p.tplSetBytes(t)...)
				recs := ""
				if r.Intn(2) == 0 {
					ds, rs := p.dataSetBytes(r, t, 1+r.Intn(3))
					msg = append(msg, ds...)
					recs = rs
				}
				exp = "msg " + hdrTxt + " errs= recs=" + recs
			case have && k < 7: // one message: data for the current definition, a redefinition, data for the new definition
				ds1, rs1 := p.dataSetBytes(r, known, 1+r.Intn(2))
				t := p.histTpl(r, id)
				if r.Intn(2) == 0 {
					t = p.relength(r, known)
				}
				ref[refKey{string(addr), id}] = t
				ds2, rs2 := p.dataSetBytes(r, t, 1+r.Intn(2))
				msg = append(msg, ds1...)
				msg = append(msg, p.tplSetBytes(t)...)
				msg = append(msg, ds2...)
				exp = "msg " + hdrTxt + " errs= recs=" + rs1 + rs2
			case have && k == 7 && p.isIPFIX: // the id is re-announced WITHOUT fields (the withdrawal format) next to another record, then data for it
				other := p.histTpl(r, 60000+r.Intn(50)) // an id no other step uses
				for other.opts { // both records go into one plain template set
					other = p.histTpl(r, other.id)
				}
				empty := tpl{id: id}
				ref[refKey{string(addr), other.id}] = other
				ref[refKey{string(addr), id}] = empty
				recE, recO := p.encTplRec(empty), p.encTplRec(other)
				msg = append(msg, cat(be16(p.tplSet), be16(4+len(recE)+len(recO)), recE, recO)...)
				body := rndBytes(r, 8+r.Intn(16))
				msg = append(msg, cat(be16(id), be16(4+len(body)), body)...)
				// the latest announcement has no fields: the data set cannot be decoded (non-fatal since F30), no records
				exp = "msg " + hdrTxt + " errs=emptyrec recs="
			case have: // data for the latest announced definition
				ds, rs := p.dataSetBytes(r, known, 1+r.Intn(3))
				msg = append(msg, ds...)
				exp = "msg " + hdrTxt + " errs= recs=" + rs
			default: // data for a template this exporter never announced: unknown, no records
				body := rndBytes(r, 8+r.Intn(16))
				msg = append(msg, cat(be16(id), be16(4+len(body)), body)...)
				exp = "msg " + hdrTxt + " errs=unknowntpl recs="
			}
			fmt.Fprintf(w, "%s %s %s\t%s%s\n", p.name, hx(addr), hx(msg), tag, exp)
			emitted++
		}
	}
}

func (p *flowProto) runHist(st *state, line, expect string) (string, string) {
	initElems()
	f := strings.Fields(line)
	addr, dg := unhx(f[1]), unhx(f[2])
	out := p.decodeReal(st, addr, dg, false)
	ln := out.line()
	k1 := ""
	if strings.HasPrefix(expect, "K1 ") {
		parts := strings.SplitN(expect, " ", 4)
		k1, expect = parts[1]+" "+parts[2], parts[3]
	}
	if ln == expect {
		return ln, "ok"
	}
	if k1 != "" {
		// the generator says the two keys collide: verify it independently, then say so in the verdict (since the K1
		// repair no known finding matches it: a violation like any other)
		var a1, a2 string
		var i1, i2 int
		kk := strings.Fields(k1)
		fmt.Sscanf(strings.Replace(kk[0], "/", " ", 1), "%s %d", &a1, &i1)
		fmt.Sscanf(strings.Replace(kk[1], "/", " ", 1), "%s %d", &a2, &i2)
		if fnvKey(unhx(a1), i1) == fnvKey(unhx(a2), i2) && (a1 != a2) {
			return ln, fmt.Sprintf("fail:hash-collision exporters %s (template %d) and %s (template %d) share the cache key %d: decoded with the other exporter's template: want %s got %s",
				a1, i1, a2, i2, fnvKey(unhx(a1), i1), clip(expect, 160), clip(ln, 160))
		}
	}
	return ln, "fail:template data not decoded with the same exporter's latest template: want " + clip(expect, 300) + " got " + clip(ln, 300)
}

func init() {
	kinds["ipfix-hist"] = &kind{gen: protoIPFIX.genHist, run: protoIPFIX.runHist}
	kinds["nf9-hist"] = &kind{gen: protoNF9.genHist, run: protoNF9.runHist}
}
