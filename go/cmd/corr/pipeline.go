package main

// C12 / C13: generator for the "pipeline" kind.
//
// A case is a sequence of datagrams that the hook vflow/verif_pipeline_test.go
// (TestVerifPipeline, build tag verif) feeds through the REAL collector
// pipeline (read loop -> UDP channel -> N workers -> MQ channel):
//
//	pipeline <proto> <workers> <setup> <data>
//
//	<proto>    ipfix | v9 | v5 | sflow
//	<workers>  1..64
//	<setup>    "-" or ';'-separated tokens (template datagrams, class T)
//	<data>     ';'-separated tokens (at least one)
//	token      <class>,<srcaddr-hex>,<datagram-hex>
//
// class (abstract outcome of the solo decode, computed here with the real
// decoder packages against a private template cache that has seen exactly the
// setup datagrams of the case):
//
//	x  no message      (ipfix / v9: Decode returned nil; v5: Decode returned an error; SFDecode returned an error)
//	t  message, no data (ipfix len(DataSets)==0, v9 DataSets==nil, v5 Flows==nil,
//	                     sflow no counter and no sample)
//	m  data, marshal fails
//	d  data, marshals   (this one is published)
//
// Guarantees the hook relies on:
//   - a data-phase datagram never installs or changes a template (no IPFIX set
//     ids 2/3, no v9 flowset ids 0..255 in the data phase; mutations are limited
//     to truncation, version change, unknown template ids, reserved IPFIX set ids
//     4..255 and short junk; all v9 field lengths are <= 4 so that a truncated
//     v9 datagram cannot be re-synchronised on record bytes). The generator
//     verifies this: the fingerprint of the private cache must be the same
//     before and after the data phase.
//   - every data set refers to a template announced in the setup of the same
//     case FROM THE SAME source address, or to template id 999, which no case
//     ever announces (the collector's cache survives across cases).
//   - no template with zero-length fields, no variable-length fields, no v9
//     flowset ids 1..255, no sFlow extended switch/router records, no 802.1Q.
//
// The run function is nil: cases are executed by the hook, not in-process.

import (
	"bufio"
	"bytes"
	"encoding/binary"
	"encoding/hex"
	"encoding/json"
	"fmt"
	"hash/fnv"
	"io/ioutil"
	"math/rand"
	"net"
	"os"
	"path/filepath"
	"strconv"
	"strings"

	"github.com/EdgeCast/vflow/ipfix"
	netflow5 "github.com/EdgeCast/vflow/netflow/v5"
	netflow9 "github.com/EdgeCast/vflow/netflow/v9"
	"github.com/EdgeCast/vflow/sflow"
)

func init() {
	kinds["pipeline"] = &kind{gen: genPipeline, run: nil}
}

// ---- small big-endian encoder ----

type pbuf struct{ b []byte }

func (p *pbuf) u8(v int)        { p.b = append(p.b, byte(v)) }
func (p *pbuf) u16(v int)       { p.b = append(p.b, byte(v>>8), byte(v)) }
func (p *pbuf) u32(v uint32)    { p.b = append(p.b, byte(v>>24), byte(v>>16), byte(v>>8), byte(v)) }
func (p *pbuf) raw(x []byte)    { p.b = append(p.b, x...) }
func (p *pbuf) put16(at, v int) { p.b[at], p.b[at+1] = byte(v>>8), byte(v) }
func (p *pbuf) rnd(r *rand.Rand, n int) {
	x := make([]byte, n)
	r.Read(x)
	p.b = append(p.b, x...)
}

type pipeField struct{ id, length int }

// IANA elements with their natural lengths (no boolean/float/string here)
var pipeIPFIXFields = []pipeField{{1, 8}, {2, 8}, {4, 1}, {7, 2}, {8, 4}, {12, 4}, {11, 2}, {22, 4}, {56, 6}}

// NetFlow v9 field types; every length <= 4 (see the header comment)
var pipeV9Fields = []pipeField{{1, 4}, {2, 4}, {4, 1}, {7, 2}, {8, 4}, {11, 2}, {12, 4}}

// dataRecordsReliability (boolean): bool values are not handled by
// JSONMarshal.writeValue, so a message whose LAST field is this one fails to marshal.
var pipeBoolField = pipeField{276, 1}

const (
	pipeUnknownTpl = 999 // never announced by any case
	pipeMaxDgram   = 1400
	pipeMTpl       = 260 // the id used for the "marshal fails" template
)

type pipeTpl struct {
	id     int
	fields []pipeField
}

func (t pipeTpl) recLen() int {
	n := 0
	for _, f := range t.fields {
		n += f.length
	}
	return n
}

type pipeToken struct {
	class byte
	src   int // last octet of 127.0.0.x
	body  []byte
}

func (t pipeToken) String() string {
	return fmt.Sprintf("%c,7f0000%02x,%s", t.class, t.src, hex.EncodeToString(t.body))
}

// the form of raddr.IP the collector sees: the hook binds the collector to
// 127.0.0.1, i.e. an AF_INET socket, for which ReadFromUDP yields a 4-byte IP
// (the template cache key is built from these raw bytes)
func pipeSrcIP(x int) net.IP { return net.IP{127, 0, 0, byte(x)} }

// ---- solo decode = class ----

// genPanic: the real decoder panicked while the generator was classifying a datagram. That is a finding in its own
// right (C01) and must not take the generator down: the datagram is reported on stderr as a replayable case of the
// single-datagram kind of its protocol, and classified 'x' so that the pipeline case still runs.
func genPanic(kind, line string, p interface{}) {
	fmt.Fprintf(os.Stderr, "GENPANIC\t%s\t%s\t%s\n", kind, line, strings.Replace(fmt.Sprint(p), "\n", " ", -1))
}

func pipeClassIPFIX(src int, body []byte, cache ipfix.MemCache) (cls byte) {
	defer func() {
		if p := recover(); p != nil {
			genPanic("ipfix", "ipfix "+hex.EncodeToString(pipeSrcIP(src).To4())+" "+hex.EncodeToString(body), p)
			cls = 'x'
		}
	}()
	msg, _ := ipfix.NewDecoder(pipeSrcIP(src), append([]byte{}, body...)).Decode(cache)
	if msg == nil {
		return 'x'
	}
	if len(msg.DataSets) == 0 {
		return 't'
	}
	if _, err := msg.JSONMarshal(new(bytes.Buffer)); err != nil {
		return 'm'
	}
	return 'd'
}

func pipeClassV9(src int, body []byte, cache netflow9.MemCache) (cls byte) {
	defer func() {
		if p := recover(); p != nil {
			genPanic("nf9", "nf9 "+hex.EncodeToString(pipeSrcIP(src).To4())+" "+hex.EncodeToString(body), p)
			cls = 'x'
		}
	}()
	msg, _ := netflow9.NewDecoder(pipeSrcIP(src), append([]byte{}, body...)).Decode(cache)
	if msg == nil {
		return 'x'
	}
	if msg.DataSets == nil {
		return 't'
	}
	if _, err := msg.JSONMarshal(new(bytes.Buffer)); err != nil {
		return 'm'
	}
	return 'd'
}

func pipeClassV5(src int, body []byte) (cls byte) {
	defer func() {
		if p := recover(); p != nil {
			genPanic("nf5", "nf5 "+hex.EncodeToString(pipeSrcIP(src).To4())+" "+hex.EncodeToString(body), p)
			cls = 'x'
		}
	}()
	// NetFlow v5 has no partially decodable datagram (no templates, no sets to skip): "decodes successfully" (C13)
	// is "Decode reports no error". Until F29 this read `msg == nil`, copied from the worker's own test, and a
	// datagram shorter than its header announces (a message AND an error) was classed 't' = counted as decoded.
	msg, err := netflow5.NewDecoder(pipeSrcIP(src), append([]byte{}, body...)).Decode()
	if msg == nil || err != nil {
		return 'x'
	}
	if msg.Flows == nil {
		return 't'
	}
	if _, err := msg.JSONMarshal(new(bytes.Buffer)); err != nil {
		return 'm'
	}
	return 'd'
}

func pipeClassSFlow(body []byte) (cls byte) {
	defer func() {
		if p := recover(); p != nil {
			genPanic("sflow", "sflow - "+hex.EncodeToString(body), p)
			cls = 'x'
		}
	}()
	d := sflow.NewSFDecoder(bytes.NewReader(append([]byte{}, body...)), []uint32{})
	dg, err := d.SFDecode()
	if err != nil {
		return 'x'
	}
	if len(dg.Counters) < 1 && len(dg.Samples) < 1 {
		return 't'
	}
	if _, err := json.Marshal(dg); err != nil {
		return 'm'
	}
	return 'd'
}

// fingerprint of a template cache without the timestamps (both cache types
// marshal to {"Templates":{key:{"Template":…,"Timestamp":…}}} per shard)
func pipeFingerprint(cache interface{}) string {
	b, err := json.Marshal(cache)
	if err != nil {
		panic("pipeline gen: cache marshal: " + err.Error())
	}
	var shards []struct {
		Templates map[string]struct {
			Template json.RawMessage
		}
	}
	if err := json.Unmarshal(b, &shards); err != nil {
		panic("pipeline gen: cache unmarshal: " + err.Error())
	}
	out, _ := json.Marshal(shards)
	return string(out)
}

// the caches are keyed by the 32-bit FNV hash of (address bytes ++ template id)
// only: make sure no two keys the generator can ever use collide, otherwise
// the collector's long-lived cache and the per-case solo cache could differ.
func pipeCheckKeys() {
	seen := map[uint32]string{}
	ids := []int{256, 257, 258, 259, 260, pipeUnknownTpl}
	for x := 1; x <= 8; x++ {
		for _, id := range ids {
			key := append([]byte{127, 0, 0, byte(x)}, byte(id>>8), byte(id))
			h := fnv.New32()
			h.Write(key)
			s := fmt.Sprintf("127.0.0.%d/%d", x, id)
			if o, ok := seen[h.Sum32()]; ok {
				panic("pipeline gen: template cache key collision " + o + " " + s)
			}
			seen[h.Sum32()] = s
		}
	}
}

// ---- builders ----

func pipeIPFIXHeader(r *rand.Rand, p *pbuf) {
	p.u16(10)
	p.u16(0) // length, patched
	p.u32(r.Uint32())
	p.u32(r.Uint32())
	p.u32(r.Uint32())
}

func pipeV9Header(r *rand.Rand, p *pbuf, count int) {
	p.u16(9)
	p.u16(count)
	p.u32(r.Uint32())
	p.u32(r.Uint32())
	p.u32(r.Uint32())
	p.u32(r.Uint32())
}

// template datagram announcing tpls (ipfix: one set id 2 per group; v9: flowset id 0)
func pipeTemplateDgram(r *rand.Rand, v9 bool, tpls []pipeTpl) []byte {
	p := &pbuf{}
	if v9 {
		pipeV9Header(r, p, len(tpls))
	} else {
		pipeIPFIXHeader(r, p)
	}
	// one set holding all records, or one set per record
	perSet := r.Intn(2) == 0
	i := 0
	for i < len(tpls) {
		n := len(tpls) - i
		if perSet {
			n = 1
		}
		at := len(p.b)
		if v9 {
			p.u16(0)
		} else {
			p.u16(2)
		}
		p.u16(0)
		for _, t := range tpls[i : i+n] {
			p.u16(t.id)
			p.u16(len(t.fields))
			for _, f := range t.fields {
				p.u16(f.id)
				p.u16(f.length)
			}
		}
		p.put16(at+2, len(p.b)-at)
		i += n
	}
	if !v9 {
		p.put16(2, len(p.b))
	}
	return p.b
}

type pipeSetSpec struct {
	id     int // set id on the wire
	recLen int // 0: no records (body of junk bytes)
	junk   int
}

// data datagram: header + sets; records are random bytes. big: fill towards a target size.
func pipeDataDgram(r *rand.Rand, v9 bool, specs []pipeSetSpec, big bool) []byte {
	p := &pbuf{}
	if v9 {
		pipeV9Header(r, p, 0)
	} else {
		pipeIPFIXHeader(r, p)
	}
	target := pipeMaxDgram
	if big {
		target = 300 + r.Intn(pipeMaxDgram-300+1)
	}
	total := 0
	for _, s := range specs {
		if s.recLen == 0 {
			if len(p.b)+4+s.junk > pipeMaxDgram {
				continue
			}
			p.u16(s.id)
			p.u16(4 + s.junk)
			p.rnd(r, s.junk)
			continue
		}
		fit := (target - len(p.b) - 4) / s.recLen
		if fit < 1 {
			continue
		}
		n := 1 + r.Intn(20)
		if big {
			n = 1 + fit/2 + r.Intn(fit-fit/2)
		}
		if n > fit {
			n = fit
		}
		p.u16(s.id)
		p.u16(4 + n*s.recLen)
		p.rnd(r, n*s.recLen)
		total += n
	}
	if v9 {
		p.put16(2, total)
	} else {
		p.put16(2, len(p.b))
	}
	return p.b
}

func pipeV5Dgram(r *rand.Rand, count, version int) []byte {
	p := &pbuf{}
	p.u16(version)
	p.u16(count)
	p.rnd(r, 20)
	n := count
	if n > 30 {
		n = 30
	}
	p.rnd(r, 48*n)
	return p.b
}

func pipeSFlowCounterSample(r *rand.Rand) []byte {
	p := &pbuf{}
	p.u32(r.Uint32()) // sequence
	p.u32(r.Uint32()) // source id type (1) + index (3)
	nrec := 1 + r.Intn(3)
	p.u32(uint32(nrec))
	for i := 0; i < nrec; i++ {
		switch r.Intn(5) {
		case 0, 1: // generic interface counters
			p.u32(1)
			p.u32(88)
			p.rnd(r, 88)
		case 2: // ethernet interface counters
			p.u32(2)
			p.u32(52)
			p.rnd(r, 52)
		case 3: // processor
			p.u32(1001)
			p.u32(28)
			p.rnd(r, 28)
		default: // a record format the decoder skips
			n := 4 * r.Intn(6)
			p.u32(uint32(2000 + r.Intn(10)))
			p.u32(uint32(n))
			p.rnd(r, n)
		}
	}
	return p.b
}

func pipeSFlowFlowSample(r *rand.Rand) []byte {
	p := &pbuf{}
	p.u32(r.Uint32()) // sequence
	p.u32(r.Uint32()) // source id
	p.u32(r.Uint32()) // sampling rate
	p.u32(r.Uint32()) // pool
	p.u32(r.Uint32()) // drops
	p.u32(r.Uint32()) // input
	p.u32(r.Uint32()) // output
	nrec := 1 + r.Intn(2)
	p.u32(uint32(nrec))
	for i := 0; i < nrec; i++ {
		if i == 1 && r.Intn(2) == 0 { // a record format the decoder skips
			n := 4 * r.Intn(6)
			p.u32(uint32(2000 + r.Intn(10)))
			p.u32(uint32(n))
			p.rnd(r, n)
			continue
		}
		// raw packet header: Ethernet (never 802.1Q) + IPv4 + UDP/TCP/ICMP + payload
		h := &pbuf{}
		h.rnd(r, 12)
		h.u16(0x0800)
		ip := make([]byte, 20)
		r.Read(ip)
		ip[0] = 0x45
		l4 := 8
		switch r.Intn(3) {
		case 0:
			ip[9] = 17
		case 1:
			ip[9], l4 = 6, 20
		default:
			ip[9] = 1
		}
		h.raw(ip)
		h.rnd(r, l4+r.Intn(40))
		if r.Intn(6) == 0 { // a sampler cuts wherever it cuts: an undissectable header leaves its record out, the datagram is still published (F19a)
			h.b = h.b[:r.Intn(len(h.b)+1)]
		}
		hl := len(h.b)
		for len(h.b)%4 != 0 {
			h.u8(0)
		}
		p.u32(1)
		p.u32(uint32(16 + len(h.b)))
		p.u32(1) // header protocol: ethernet
		p.u32(uint32(hl + r.Intn(1000)))
		p.u32(uint32(r.Intn(8)))
		p.u32(uint32(hl))
		p.raw(h.b)
	}
	return p.b
}

// sFlow v5 datagram; kinds: sample formats (1 flow, 2 counter, other: skipped by the decoder)
func pipeSFlowDgram(r *rand.Rand, formats []int) []byte {
	p := &pbuf{}
	p.u32(5)
	p.u32(1)
	p.rnd(r, 4) // agent address
	p.u32(uint32(r.Intn(4)))
	p.u32(r.Uint32())
	p.u32(r.Uint32())
	p.u32(uint32(len(formats)))
	for _, f := range formats {
		var body []byte
		switch f {
		case 1:
			body = pipeSFlowFlowSample(r)
		case 2:
			body = pipeSFlowCounterSample(r)
		default:
			body = make([]byte, 4*r.Intn(12))
			r.Read(body)
		}
		p.u32(uint32(f))
		p.u32(uint32(len(body)))
		p.raw(body)
	}
	return p.b
}

func pipeTruncate(r *rand.Rand, b []byte) []byte {
	if len(b) < 2 {
		return b
	}
	return b[:1+r.Intn(len(b)-1)]
}

func pipeJunk(r *rand.Rand, max int) []byte {
	b := make([]byte, 1+r.Intn(max))
	r.Read(b)
	return b
}

// ---- the generator ----

func pipeWorkDir() string {
	if exe, err := os.Executable(); err == nil {
		d := filepath.Dir(filepath.Dir(exe)) // …/.work/bin/corr -> …/.work
		if filepath.Base(d) == ".work" {
			return d
		}
	}
	if d := os.Getenv("VERIF_WORK"); d != "" {
		return d
	}
	return os.TempDir()
}

func genPipeline(r *rand.Rand, n int, w *bufio.Writer) {
	pipeCheckKeys()
	maxDg := 0
	if s := os.Getenv("VERIF_PIPE_MAXDG"); s != "" {
		maxDg, _ = strconv.Atoi(s)
	}
	tmp, err := ioutil.TempDir(pipeWorkDir(), "pipegen-")
	if err != nil {
		panic("pipeline gen: " + err.Error())
	}
	defer os.RemoveAll(tmp)
	stats := map[string]int{}
	for c := 0; c < n; c++ {
		proto := []string{"ipfix", "v9", "v5", "sflow"}[r.Intn(4)]
		if only := os.Getenv("VERIF_PIPE_PROTO"); only != "" {
			// a property about one protocol spends its pipeline budget on that protocol (the draw above is kept so that
			// the rest of the case is the one the unrestricted stream would have produced)
			proto = only
		}
		workers := []int{1, 2, 3, 4, 8, 16, 32, 64}[r.Intn(8)]
		if r.Intn(4) == 0 {
			workers = 1 + r.Intn(64)
		}
		nData := 20 + r.Intn(581)
		if r.Intn(20) == 0 {
			nData = 600 + r.Intn(1401)
		}
		if maxDg > 0 && nData > maxDg {
			nData = maxDg
		}
		// 1..4 distinct source addresses 127.0.0.1..8
		srcs := r.Perm(8)[:1+r.Intn(4)]
		for i := range srcs {
			srcs[i]++
		}
		var setup, data []pipeToken
		switch proto {
		case "ipfix", "v9":
			setup, data = genPipeTemplated(r, proto == "v9", srcs, nData, filepath.Join(tmp, fmt.Sprintf("solo-%d", c)))
		case "v5":
			data = genPipeV5(r, srcs, nData)
		default:
			data = genPipeSFlow(r, srcs, nData)
		}
		ss := "-"
		if len(setup) > 0 {
			parts := make([]string, len(setup))
			for i, t := range setup {
				parts[i] = t.String()
			}
			ss = strings.Join(parts, ";")
		}
		fmt.Fprintf(w, "pipeline %s %d %s ", proto, workers, ss)
		for i, t := range data {
			if i > 0 {
				w.WriteByte(';')
			}
			w.WriteString(t.String())
			stats[string(t.class)]++
			stats[proto+"/"+string(t.class)]++
		}
		w.WriteByte('\n')
	}
	if os.Getenv("VERIF_PIPE_STATS") != "" {
		for _, pr := range []string{"", "ipfix/", "v9/", "v5/", "sflow/"} {
			tot := 0
			for _, k := range []string{"d", "t", "x", "m"} {
				tot += stats[pr+k]
			}
			if tot == 0 {
				continue
			}
			fmt.Fprintf(os.Stderr, "%-7s", pr)
			for _, k := range []string{"d", "t", "x", "m"} {
				fmt.Fprintf(os.Stderr, " %s=%d (%.1f%%)", k, stats[pr+k], 100*float64(stats[pr+k])/float64(tot))
			}
			fmt.Fprintln(os.Stderr)
		}
	}
}

func genPipeTemplated(r *rand.Rand, v9 bool, srcs []int, nData int, cachePath string) (setup, data []pipeToken) {
	table := pipeIPFIXFields
	if v9 {
		table = pipeV9Fields
	}
	mkTpl := func(id int) pipeTpl {
		k := 2 + r.Intn(5)
		if k > len(table) {
			k = len(table)
		}
		perm := r.Perm(len(table))[:k]
		t := pipeTpl{id: id}
		for _, j := range perm {
			t.fields = append(t.fields, table[j])
		}
		return t
	}
	// template ids of the case: 1..4 of 256..259, optionally 260 = the marshal-failure template
	ids := r.Perm(4)[:1+r.Intn(4)]
	for i := range ids {
		ids[i] += 256
	}
	withM := r.Intn(2) == 0
	sameForAll := r.Intn(2) == 0
	perSrc := map[int][]pipeTpl{}
	var shared []pipeTpl
	for _, id := range ids {
		shared = append(shared, mkTpl(id))
	}
	for _, s := range srcs {
		var tp []pipeTpl
		if sameForAll {
			tp = append(tp, shared...)
		} else {
			for _, id := range ids {
				tp = append(tp, mkTpl(id))
			}
		}
		if withM {
			m := mkTpl(pipeMTpl)
			m.fields = append(m.fields, pipeBoolField)
			tp = append(tp, m)
		}
		perSrc[s] = tp
	}

	var cacheI ipfix.MemCache
	var cache9 netflow9.MemCache
	if v9 {
		cache9 = netflow9.GetCache(cachePath)
	} else {
		cacheI = ipfix.GetCache(cachePath)
	}
	classOf := func(src int, body []byte) byte {
		if v9 {
			return pipeClassV9(src, body, cache9)
		}
		return pipeClassIPFIX(src, body, cacheI)
	}
	fingerprint := func() string {
		if v9 {
			return pipeFingerprint(cache9)
		}
		return pipeFingerprint(cacheI)
	}

	// setup: one or two template datagrams per source address
	for _, s := range srcs {
		tp := perSrc[s]
		var groups [][]pipeTpl
		if r.Intn(2) == 0 || len(tp) < 2 {
			groups = append(groups, tp)
			if r.Intn(3) == 0 { // re-announce one of them (same definition)
				groups = append(groups, []pipeTpl{tp[r.Intn(len(tp))]})
			}
		} else {
			k := 1 + r.Intn(len(tp)-1)
			groups = append(groups, tp[:k], tp[k:])
		}
		for _, g := range groups {
			body := pipeTemplateDgram(r, v9, g)
			if c := classOf(s, body); c != 't' {
				panic(fmt.Sprintf("pipeline gen: template datagram decodes to class %c", c))
			}
			setup = append(setup, pipeToken{'T', s, body})
		}
	}
	r.Shuffle(len(setup), func(i, j int) { setup[i], setup[j] = setup[j], setup[i] })
	// (the shuffle keeps the class 't' of each datagram: template datagrams are independent)
	before := fingerprint()

	hdrLen := 16
	if v9 {
		hdrLen = 20
	}
	for i := 0; i < nData; i++ {
		s := srcs[r.Intn(len(srcs))]
		tp := perSrc[s]
		normalTpls := tp
		if withM {
			normalTpls = tp[:len(tp)-1]
		}
		normalSpecs := func() []pipeSetSpec {
			k := 1 + r.Intn(3)
			sp := make([]pipeSetSpec, k)
			for j := range sp {
				t := normalTpls[r.Intn(len(normalTpls))]
				sp[j] = pipeSetSpec{id: t.id, recLen: t.recLen()}
			}
			return sp
		}
		big := r.Intn(4) == 0
		var body []byte
		switch k := r.Intn(100); {
		case k < 7: // periodic template refresh: the exporter re-sends a definition unchanged (as real exporters do)
			body = pipeTemplateDgram(r, v9, []pipeTpl{tp[r.Intn(len(tp))]})
		case k < 62:
			body = pipeDataDgram(r, v9, normalSpecs(), big)
		case k < 66: // header only
			body = pipeDataDgram(r, v9, nil, false)
		case k < 72: // only sets with a never-announced template id
			sp := []pipeSetSpec{{id: pipeUnknownTpl, junk: 4 * r.Intn(30)}}
			if r.Intn(3) == 0 {
				sp = append(sp, pipeSetSpec{id: pipeUnknownTpl, junk: 4 * r.Intn(30)})
			}
			body = pipeDataDgram(r, v9, sp, false)
		case k < 76: // known sets around an unknown one
			sp := normalSpecs()
			at := r.Intn(len(sp) + 1)
			sp = append(sp[:at], append([]pipeSetSpec{{id: pipeUnknownTpl, junk: 4 * r.Intn(20)}}, sp[at:]...)...)
			body = pipeDataDgram(r, v9, sp, false)
		case k < 84: // truncation at a random offset
			body = pipeTruncate(r, pipeDataDgram(r, v9, normalSpecs(), big))
		case k < 87: // bad version
			body = pipeDataDgram(r, v9, normalSpecs(), big)
			body[0], body[1] = byte(r.Intn(256)), byte(r.Intn(256))
			if (v9 && body[0] == 0 && body[1] == 9) || (!v9 && body[0] == 0 && body[1] == 10) {
				body[1] = 1
			}
		case k < 90:
			if v9 { // too short for a header
				body = pipeJunk(r, hdrLen-1)
			} else { // reserved set id 4..255 on the first set, possibly followed by normal sets
				sp := normalSpecs()
				sp[0] = pipeSetSpec{id: 4 + r.Intn(252), junk: 4 * r.Intn(20)}
				body = pipeDataDgram(r, v9, sp, false)
			}
		case k < 92: // too short for a header
			body = pipeJunk(r, hdrLen-1)
		default:
			if withM { // last data set uses the template that ends in a boolean
				m := tp[len(tp)-1]
				sp := []pipeSetSpec{{id: m.id, recLen: m.recLen()}}
				if r.Intn(2) == 0 {
					sp = append(normalSpecs()[:1], sp...)
				}
				body = pipeDataDgram(r, v9, sp, false)
			} else {
				body = pipeDataDgram(r, v9, normalSpecs(), big)
			}
		}
		data = append(data, pipeToken{classOf(s, body), s, body})
	}
	if fingerprint() != before {
		panic("pipeline gen: a data-phase datagram changed the template cache")
	}
	return
}

func genPipeV5(r *rand.Rand, srcs []int, nData int) (data []pipeToken) {
	for i := 0; i < nData; i++ {
		s := srcs[r.Intn(len(srcs))]
		var body []byte
		switch k := r.Intn(100); {
		case k < 64:
			body = pipeV5Dgram(r, 1+r.Intn(30), 5)
			if r.Intn(8) == 0 { // trailing octets are ignored
				body = append(body, pipeJunk(r, 40)...)
			}
		case k < 70: // good header, body cut short anywhere
			body = pipeV5Dgram(r, 1+r.Intn(30), 5)
			body = body[:24+r.Intn(len(body)-24)]
		case k < 76: // good header, the last record 1..47 octets short (a datagram cut in transit / a wrong count)
			body = pipeV5Dgram(r, 1+r.Intn(30), 5)
			body = body[:len(body)-1-r.Intn(47)]
		case k < 83: // count out of bounds
			c := 0
			if r.Intn(2) == 0 {
				c = 31 + r.Intn(1000)
			}
			body = pipeV5Dgram(r, c, 5)
		case k < 88: // wrong version
			v := r.Intn(65536)
			if v == 5 {
				v = 9
			}
			body = pipeV5Dgram(r, 1+r.Intn(30), v)
		case k < 92: // header cut short
			body = pipeV5Dgram(r, 1+r.Intn(30), 5)[:1+r.Intn(23)]
		case k < 96: // junk
			body = pipeJunk(r, 200)
		default: // byte flips in a good datagram (fixed-size format: harmless)
			body = pipeV5Dgram(r, 1+r.Intn(30), 5)
			for j := 1 + r.Intn(3); j > 0; j-- {
				body[r.Intn(len(body))] ^= byte(1 + r.Intn(255))
			}
		}
		data = append(data, pipeToken{pipeClassV5(s, body), s, body})
	}
	return
}

func genPipeSFlow(r *rand.Rand, srcs []int, nData int) (data []pipeToken) {
	good := func() []int {
		f := make([]int, 1+r.Intn(4))
		for j := range f {
			f[j] = 1 + r.Intn(2)
		}
		if r.Intn(5) == 0 { // plus a sample format the decoder skips (expanded samples)
			f[r.Intn(len(f))] = 3 + r.Intn(2)
			f = append(f, 1+r.Intn(2))
		}
		return f
	}
	for i := 0; i < nData; i++ {
		s := srcs[r.Intn(len(srcs))]
		var body []byte
		switch k := r.Intn(100); {
		case k < 66:
			body = pipeSFlowDgram(r, good())
		case k < 72: // no samples
			body = pipeSFlowDgram(r, nil)
		case k < 78: // only sample formats the decoder skips
			f := make([]int, 1+r.Intn(3))
			for j := range f {
				f[j] = 3 + r.Intn(2)
			}
			body = pipeSFlowDgram(r, f)
		case k < 88: // truncation
			body = pipeTruncate(r, pipeSFlowDgram(r, good()))
		case k < 93: // wrong version
			body = pipeSFlowDgram(r, good())
			v := r.Uint32()
			if v == 5 {
				v = 4
			}
			binary.BigEndian.PutUint32(body, v)
		default: // sample count changed
			f := good()
			body = pipeSFlowDgram(r, f)
			n := []int{0, len(f) - 1, len(f) + 1, len(f) + 1 + r.Intn(5)}[r.Intn(4)]
			binary.BigEndian.PutUint32(body[24:], uint32(n))
		}
		data = append(data, pipeToken{pipeClassSFlow(body), s, body})
	}
	return
}
