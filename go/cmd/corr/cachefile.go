package main

// C11: the template cache file. A session builds a cache by decoding announcement datagrams,
// dumps it with the real Dump, loads the file back with the real GetCache, then loads EVERY proper
// prefix of the file (crash points of the non-atomic write), byte- and structure-level corruptions,
// and probes each loaded cache with data datagrams.
// Oracle: no panic in GetCache or in the decodes that follow; save -> load gives the same cache;
// every proper prefix loads as a fresh cache; whatever is loaded contains only templates of the file, each in the
// shard and under the key text the file has it; a file of the format before the K1 repair (decimal hash keys) loads
// into a usable cache whose entries are never looked up, and the templates are learnt again.

import (
	"bufio"
	"encoding/json"
	"fmt"
	"io/ioutil"
	"math/rand"
	"os"
	"path/filepath"
	"regexp"
	"sort"
	"strings"

	"github.com/EdgeCast/vflow/ipfix"
	netflow9 "github.com/EdgeCast/vflow/netflow/v9"
)

// structurally identical mirror of memCacheDisk, bound by encoding/json itself
type specMirror struct {
	ElementID    uint16
	Length       uint16
	EnterpriseNo uint32
}
type tplMirror struct {
	TemplateID           uint16
	FieldCount           uint16
	FieldSpecifiers      []specMirror
	ScopeFieldCount      uint16
	ScopeFieldSpecifiers []specMirror
}
type dataMirror struct {
	Template  tplMirror
	Timestamp int64
}
type shardMirror struct {
	Templates map[string]dataMirror
}
type diskMirror struct {
	Cache   []*shardMirror
	ShardNo int
}

func specsTxt(l []specMirror) string {
	if len(l) == 0 {
		return "-"
	}
	p := make([]string, len(l))
	for i, s := range l {
		p[i] = fmt.Sprintf("%d:%d:%d", s.ElementID, s.Length, s.EnterpriseNo)
	}
	return strings.Join(p, "/")
}

func tplTxt(t tplMirror) string {
	return fmt.Sprintf("%d.%d.%d.%s.%s", t.TemplateID, t.FieldCount, t.ScopeFieldCount, specsTxt(t.FieldSpecifiers), specsTxt(t.ScopeFieldSpecifiers))
}

// keyTxt: a key text of a shard map as the line protocol carries it (hex of its octets; "-" for the empty text)
func keyTxt(k string) string {
	if k == "" {
		return "-"
	}
	return hx([]byte(k))
}

// shardTxt: the entries of one shard map, by key text (octet order): hexkey=tpl|hexkey=tpl
func shardTxt(m map[string]dataMirror) []string {
	keys := make([]string, 0, len(m))
	for k := range m {
		keys = append(keys, k)
	}
	sort.Strings(keys)
	var es []string
	for _, k := range keys {
		es = append(es, fmt.Sprintf("%s=%s", keyTxt(k), tplTxt(m[k].Template)))
	}
	return es
}

// docText: canonical text of what json.Unmarshal makes of the file ("invalid" when it reports an error)
func docText(b []byte) string {
	var d diskMirror
	if err := json.Unmarshal(b, &d); err != nil {
		return "invalid"
	}
	var shards []string
	for _, s := range d.Cache {
		switch {
		case s == nil:
			shards = append(shards, "N")
		case s.Templates == nil:
			shards = append(shards, "M")
		case len(s.Templates) == 0:
			shards = append(shards, "E")
		default:
			shards = append(shards, strings.Join(shardTxt(s.Templates), "|"))
		}
	}
	return fmt.Sprintf("sn=%d;%s", d.ShardNo, strings.Join(shards, ","))
}

var reTimestamp = regexp.MustCompile(`"Timestamp":-?\d+`)

// listing of a real cache: shard:hexkey=template, by shard index and key text
func listReal(c interface{}) (string, error) {
	// both MemCache types marshal to the same shape; go through JSON to reach the exported fields uniformly
	b, err := json.Marshal(c)
	if err != nil {
		return "", err
	}
	var shards []*shardMirror
	if err := json.Unmarshal(b, &shards); err != nil {
		return "", err
	}
	var all []string
	for i, s := range shards {
		if s == nil {
			continue
		}
		for _, e := range shardTxt(s.Templates) {
			all = append(all, fmt.Sprintf("%d:%s", i, e))
		}
	}
	if len(all) == 0 {
		return "-", nil
	}
	return strings.Join(all, "|"), nil
}

// oldFormatFile: the cache file the code before the K1 repair would have written for the same templates: every key
// text hex(addr||id) replaced by the decimal 32-bit FNV-1 of addr||id (same shard: the hash picks it)
func oldFormatFile(file []byte) []byte {
	var d struct {
		Cache []struct {
			Templates map[string]json.RawMessage
		}
		ShardNo int
	}
	if json.Unmarshal(file, &d) != nil {
		return file
	}
	for i := range d.Cache {
		m := map[string]json.RawMessage{}
		for k, v := range d.Cache[i].Templates {
			raw := unhx(k)
			if len(raw) < 2 {
				m[k] = v
				continue
			}
			m[fmt.Sprint(fnvKey(raw[:len(raw)-2], int(raw[len(raw)-2])<<8|int(raw[len(raw)-1])))] = v
		}
		d.Cache[i].Templates = m
	}
	out, _ := json.Marshal(d)
	return out
}

func (p *flowProto) genCacheFile(r *rand.Rand, n int, w *bufio.Writer) {
	initElems()
	ver := 10
	if !p.isIPFIX {
		ver = 9
	}
	for emitted := 0; emitted < n; {
		fmt.Fprintln(w, "new")
		// 1. build a cache: a few exporters announce templates (plain / options / enterprise)
		type ann struct {
			addr []byte
			t    tpl
		}
		var anns []ann
		na := 1 + r.Intn(6)
		if r.Intn(8) == 0 {
			na = 0
		}
		if r.Intn(10) == 0 {
			na = 40 + r.Intn(100)
		}
		for i := 0; i < na; i++ {
			addr := exporterAddrs[r.Intn(len(exporterAddrs))]
			t := p.histTpl(r, 256+r.Intn(2000))
			anns = append(anns, ann{addr, t})
			hdr, _ := p.header(r, ver)
			fmt.Fprintf(w, "%s %s %s\t\n", p.name, hx(addr), hx(append(hdr, p.tplSetBytes(t)...)))
			emitted++
		}
		probesTagged := func(tag string, n int) {
			// data for announced templates, decoded against whatever cache is in force; half of the sets carry
			// 1..11 octets after the last record (padding, or the beginning of a record that is not there)
			for i := 0; i < n && i < 3*len(anns); i++ {
				a := anns[r.Intn(len(anns))]
				hdr, _ := p.header(r, ver)
				ds, _ := p.dataSetBytes(r, a.t, 1+r.Intn(2))
				if r.Intn(2) == 0 {
					pad := make([]byte, 1+r.Intn(11))
					if r.Intn(3) == 0 {
						pad = rndBytes(r, len(pad))
					}
					ds = append(ds, pad...)
					copy(ds[2:4], be16(len(ds)))
				}
				fmt.Fprintf(w, "%s %s %s\t%s\n", p.name, hx(a.addr), hx(append(hdr, ds...)), tag)
				emitted++
			}
		}
		probes := func() { probesTagged("probe", 3) }
		// 2. dump, reload, compare. The file itself is an input: it is produced here, at generation
		//    time, by the real decoder + Dump on a private cache fed with the same announcements.
		fmt.Fprintf(w, "cf-list %s\tremember\n", p.name)
		fmt.Fprintf(w, "cf-dump %s\t\n", p.name)
		emitted += 2
		gst := &state{v: map[string]interface{}{}}
		for _, a := range anns {
			hdr, _ := p.header(rand.New(rand.NewSource(1)), ver)
			p.decodeReal(gst, a.addr, append(hdr, p.tplSetBytes(a.t)...), false)
		}
		dir, _ := ioutil.TempDir("", "verif-c11gen")
		path := filepath.Join(dir, "cache.json")
		p.dumpReal(p.cache(gst), path)
		file, _ := ioutil.ReadFile(path)
		os.RemoveAll(dir)
		fmt.Fprintf(w, "cf-load %s %s\tsame %s file\n", p.name, docText(file), hx(file))
		emitted++
		// the restarted collector must decode data exactly as the one that saved the file would have
		probesTagged("probe-same", 8)
		// 3. crash points: every proper prefix of the file (all offsets up to 4000 octets; beyond
		//    that the first and last 1000 and 2000 sampled ones)
		var offs []int
		if len(file) <= 4000 {
			for k := 0; k < len(file); k++ {
				offs = append(offs, k)
			}
		} else {
			for k := 0; k < 1000; k++ {
				offs = append(offs, k, len(file)-1-k)
			}
			for k := 0; k < 2000; k++ {
				offs = append(offs, 1000+r.Intn(len(file)-2000))
			}
		}
		for _, k := range offs {
			fmt.Fprintf(w, "cf-load %s %s\tfresh @%d file\n", p.name, docText(file[:k]), k)
			emitted++
		}
		probes()
		// 4. corruptions; what was loaded (key texts the decoders never write, entries in a shard their key does not
		//    hash to) is sometimes dumped again: the file must hold it as it is, escaped as encoding/json escapes
		for k := 0; k < 8; k++ {
			cb := corruptFile(r, file)
			fmt.Fprintf(w, "cf-load %s %s\tsubset %s file\n", p.name, docText(cb), hx(cb))
			emitted++
			probes()
			if r.Intn(2) == 0 {
				fmt.Fprintf(w, "cf-list %s\t\n", p.name)
				fmt.Fprintf(w, "cf-dump %s\tkeep\n", p.name)
				emitted += 2
			}
		}
		// 4b. upgrade: the file the code before the K1 repair wrote for the same templates (decimal hash keys). It loads
		//     (every entry is in the cache), no data finds its template, and after the exporters have announced again
		//     data decodes as it did before the restart
		if len(anns) > 0 {
			ob := oldFormatFile(file)
			fmt.Fprintf(w, "cf-load %s %s\toldformat %s file\n", p.name, docText(ob), hx(ob))
			emitted++
			probesTagged("probe-old", 6)
			for _, a := range anns {
				hdr, _ := p.header(r, ver)
				fmt.Fprintf(w, "%s %s %s\t\n", p.name, hx(a.addr), hx(append(hdr, p.tplSetBytes(a.t)...)))
				emitted++
			}
			probesTagged("probe-same", 6)
		}
		// 5. absent / empty / directory
		fmt.Fprintf(w, "cf-load %s invalid\tfresh - absent\n", p.name)
		fmt.Fprintf(w, "cf-load %s invalid\tfresh - empty\n", p.name)
		fmt.Fprintf(w, "cf-load %s invalid\tfresh - dir\n", p.name)
		emitted += 3
		probes()
	}
}

// structure- and byte-level corruptions of a valid dump
func corruptFile(r *rand.Rand, b []byte) []byte {
	var generic map[string]interface{}
	json.Unmarshal(b, &generic)
	cache, _ := generic["Cache"].([]interface{})
	switch r.Intn(17) {
	case 0:
		generic["Cache"] = []interface{}{}
	case 1:
		if len(cache) > 0 {
			cache[r.Intn(len(cache))] = nil
		}
	case 2:
		if len(cache) > 0 {
			cache[r.Intn(len(cache))] = map[string]interface{}{"Templates": nil}
		}
	case 3:
		if len(cache) > 0 {
			cache[r.Intn(len(cache))] = map[string]interface{}{}
		}
	case 4:
		generic["ShardNo"] = []interface{}{31, 33, 0, -1, 32.5, "32"}[r.Intn(6)]
	case 5:
		if len(cache) > 1 {
			generic["Cache"] = cache[:r.Intn(len(cache))]
		}
	case 6:
		generic["Cache"] = append(cache, cache...)
	case 7:
		generic["Cache"] = nil
	case 8: // flip one byte
		c := append([]byte{}, b...)
		if len(c) > 0 {
			c[r.Intn(len(c))] ^= byte(1 << uint(r.Intn(8)))
		}
		return c
	case 9: // delete a chunk
		c := append([]byte{}, b...)
		if len(c) > 2 {
			i := r.Intn(len(c) - 1)
			j := i + 1 + r.Intn(min(40, len(c)-i-1))
			c = append(c[:i], c[j:]...)
		}
		return c
	case 10: // a wrongly typed template field, or a key text the decoders never write
		s := string(b)
		if i := strings.Index(s, `"TemplateID":`); i >= 0 && r.Intn(2) == 0 {
			return []byte(s[:i] + []string{`"TemplateID":70000,"x":`, `"TemplateID":"7","x":`, `"TemplateID":-1,"x":`}[r.Intn(3)] + s[i+len(`"TemplateID":`):])
		}
		keys := []string{`"notanumber"`, `""`, `"2885243512"`, `"<a&b>"`, `"q\"\\\/"`, `"\u2028\u00e9\ud800x"`, "\"\xff\xe2\x80\"", `"\t\u0000\u007f"`, `"0A76CB63040F"`}
		return []byte(strings.Replace(s, `"Templates":{`, `"Templates":{`+keys[r.Intn(len(keys))]+`:{},`, 1))
	case 12, 13: // entries moved to other shards, keys renamed, duplicated under a second key
		for tries := 0; tries < 4 && len(cache) > 1; tries++ {
			from, _ := cache[r.Intn(len(cache))].(map[string]interface{})
			to, _ := cache[r.Intn(len(cache))].(map[string]interface{})
			if from == nil || to == nil {
				continue
			}
			fm, _ := from["Templates"].(map[string]interface{})
			tm, _ := to["Templates"].(map[string]interface{})
			if tm == nil {
				continue
			}
			var fks []string
			for k := range fm {
				fks = append(fks, k)
			}
			sort.Strings(fks)
			if len(fks) == 0 {
				continue
			}
			for _, k := range fks[r.Intn(len(fks)):] {
				v := fm[k]
				switch r.Intn(4) {
				case 0:
					tm[k] = v // the same key text in a second shard
				case 1:
					delete(fm, k)
					tm[k] = v
				case 2:
					tm[strings.ToUpper(k)] = v
				default:
					tm[k+"00"] = v
				}
				break
			}
		}
	case 14, 15, 16: // key texts the decoders never write, with real templates (or the zero template) as their values
		weird := []string{"notanumber", "", "2885243512", "<a&b>", "q\"\\/", "\u2028\u00e9\ufffdx\u2029", "\t\x00\x7f\r\n\b\f", "0A76CB63040F", "\U0001f600", "k\xff\xfe", "0a76cb63040f"}
		var donor interface{} = map[string]interface{}{}
		for _, sh := range cache {
			if m, _ := sh.(map[string]interface{}); m != nil {
				if tm, _ := m["Templates"].(map[string]interface{}); len(tm) > 0 {
					var ks []string
					for k := range tm {
						ks = append(ks, k)
					}
					sort.Strings(ks)
					donor = tm[ks[0]]
					break
				}
			}
		}
		for n := 1 + r.Intn(3); n > 0 && len(cache) > 0; n-- {
			if m, _ := cache[r.Intn(len(cache))].(map[string]interface{}); m != nil {
				if tm, _ := m["Templates"].(map[string]interface{}); tm != nil {
					if r.Intn(3) == 0 {
						tm[weird[r.Intn(len(weird))]] = map[string]interface{}{}
					} else {
						tm[weird[r.Intn(len(weird))]] = donor
					}
				}
			}
		}
	default:
		return []byte([]string{"null", "[]", "{}", `{"ShardNo":32}`, `{"Cache":[],"ShardNo":32}`, `{"Cache":[null,null],"ShardNo":32}`, "32", `"x"`, " "}[r.Intn(9)])
	}
	out, _ := json.Marshal(generic)
	return out
}

func (p *flowProto) loadReal(path string) interface{} {
	if p.isIPFIX {
		return ipfix.GetCache(path)
	}
	return netflow9.GetCache(path)
}

func (p *flowProto) dumpReal(c interface{}, path string) error {
	if p.isIPFIX {
		return c.(ipfix.MemCache).Dump(path)
	}
	return c.(netflow9.MemCache).Dump(path)
}

// usable: what the decoders need — 32 shards, none nil, every map non-nil
func usable(c interface{}) string {
	check := func(n int, nilShard func(i int) bool, nilMap func(i int) bool) string {
		if n != 32 {
			return fmt.Sprintf("%d shards", n)
		}
		for i := 0; i < n; i++ {
			if nilShard(i) {
				return fmt.Sprintf("shard %d is nil", i)
			}
			if nilMap(i) {
				return fmt.Sprintf("shard %d has a nil map", i)
			}
		}
		return ""
	}
	switch m := c.(type) {
	case ipfix.MemCache:
		return check(len(m), func(i int) bool { return m[i] == nil }, func(i int) bool { return m[i].Templates == nil })
	case netflow9.MemCache:
		return check(len(m), func(i int) bool { return m[i] == nil }, func(i int) bool { return m[i].Templates == nil })
	}
	return "unknown cache type"
}

func (p *flowProto) runCacheFile(st *state, line, expect string) (string, string) {
	initElems()
	f := strings.Fields(line)
	switch f[0] {
	case p.name:
		out := p.decodeReal(st, unhx(f[1]), unhx(f[2]), false)
		if expect == "probe-same" {
			if saved, ok := st.v["savedcache"]; ok {
				loaded := st.v[p.name]
				st.v[p.name] = saved
				ref := p.decodeReal(st, unhx(f[1]), unhx(f[2]), false)
				st.v[p.name] = loaded
				if ref.line() != out.line() {
					return out.line(), "fail:restart data decodes differently after save and load: with the saved cache " + clip(ref.line(), 200) + " with the loaded cache " + clip(out.line(), 200)
				}
			}
		}
		if expect == "probe-old" {
			// data for a template that only a file of the old format (decimal hash keys) holds: never found
			if ln := out.line(); !strings.HasSuffix(ln, " errs=unknowntpl recs=") {
				return ln, "fail:oldformat an entry of a cache file written before the key change was used to decode: " + clip(ln, 200)
			}
		}
		return out.line(), "ok"
	case "cf-list":
		l, err := listReal(p.cache(st))
		if err != nil {
			return "ERR", "fail:list " + err.Error()
		}
		st.v["remembered"] = l
		return l, "ok"
	case "cf-dump":
		dir, _ := ioutil.TempDir("", "verif-c11")
		defer os.RemoveAll(dir)
		path := filepath.Join(dir, "cache.json")
		// the file of an earlier, larger save is still there (every restart saves over the previous file)
		ioutil.WriteFile(path, []byte(strings.Repeat(`{"Cache":[{"Templates":{"1":{"Template":{"TemplateID":256}}}}],"ShardNo":32}`+"\n", 3000)), 0o644)
		if err := p.dumpReal(p.cache(st), path); err != nil {
			return "ERR", "fail:dump " + err.Error()
		}
		b, _ := ioutil.ReadFile(path)
		if expect != "keep" { // "keep": a dump in passing; the cache saved for the restart comparisons stays
			st.v["file"] = b
			st.v["savedcache"] = p.cache(st)
		}
		// the file just written must load back to the cache it was written from
		verdict := "ok"
		want, _ := listReal(p.cache(st))
		got, err := listReal(p.loadReal(path))
		if err != nil || got != want {
			verdict = "fail:restart the file written by Dump does not load back to the saved cache: saved " + clip(want, 160) + " loaded " + clip(got, 160)
		}
		return hx(reTimestamp.ReplaceAll(b, []byte(`"Timestamp":0`))), verdict
	}
	return "bad-op", ""
}

// cf-load lines are expanded by the generator-side helper below (they need the dumped file), so the
// case line the model sees carries the parsed document; see expandCacheFile.
func (p *flowProto) loadCase(st *state, content []byte, how string, expectKind string) (string, string) {
	dir, _ := ioutil.TempDir("", "verif-c11")
	defer os.RemoveAll(dir)
	path := filepath.Join(dir, "cache.json")
	switch how {
	case "absent":
	case "dir":
		os.Mkdir(path, 0o755)
	default:
		ioutil.WriteFile(path, content, 0o644)
	}
	c := p.loadReal(path)
	st.v[p.name] = c
	if u := usable(c); u != "" {
		return "loaded UNUSABLE", "fail:unusable GetCache returned a cache the decoders cannot use: " + u
	}
	l, err := listReal(c)
	if err != nil {
		return "ERR", "fail:list " + err.Error()
	}
	verdict := "ok"
	switch expectKind {
	case "same":
		if rem, _ := st.v["remembered"].(string); l != rem {
			verdict = "fail:restart the cache loaded from its own dump differs: before " + clip(rem, 200) + " after " + clip(l, 200)
		}
	case "fresh":
		if l != "-" {
			verdict = "fail:crashpoint a truncated / absent file loaded templates: " + clip(l, 200)
		}
	case "subset", "oldformat":
		// only templates that the file contains (as encoding/json reads it), each in the shard and under the key text
		// the file has it
		var docShards []string
		if doc := docText(content); strings.Contains(doc, ";") {
			docShards = strings.Split(strings.SplitN(doc, ";", 2)[1], ",")
		}
		inDoc := map[string]bool{}
		for i, sh := range docShards {
			for _, e := range strings.Split(sh, "|") {
				inDoc[fmt.Sprintf("%d:%s", i, e)] = true
			}
		}
		n := 0
		for _, e := range strings.Split(l, "|") {
			if e == "-" {
				continue
			}
			n++
			if !inDoc[e] {
				verdict = "fail:subset loaded cache holds an entry (shard:key=template) that is not in the file: " + e
			}
		}
		if expectKind == "oldformat" {
			// the old file is accepted: every one of its entries is in the cache (none is looked up: the probes)
			want := 0
			for _, sh := range docShards {
				if sh != "N" && sh != "M" && sh != "E" {
					want += len(strings.Split(sh, "|"))
				}
			}
			if n != want || want == 0 {
				verdict = fmt.Sprintf("fail:oldformat a cache file written before the key change was not loaded as it is: %d entries in the file, %d in the cache", want, n)
			}
		}
	}
	return "loaded " + l, verdict
}

func init() {
	for _, p := range []*flowProto{protoIPFIX, protoNF9} {
		p := p
		kinds[p.name+"-cachefile"] = &kind{gen: p.genCacheFile, run: func(st *state, line, expect string) (string, string) {
			if strings.HasPrefix(line, "cf-load") {
				// already expanded: cf-load <proto> <doc> with the file content after the TAB: "<kind> <hex> <how>"
				e := strings.Fields(expect)
				var content []byte
				if strings.HasPrefix(e[1], "@") {
					var k int
					fmt.Sscanf(e[1], "@%d", &k)
					base, _ := st.v["basefile"].([]byte)
					if k > len(base) {
						k = len(base)
					}
					content = base[:k]
				} else {
					content = unhx(e[1])
					if e[0] == "same" {
						st.v["basefile"] = content
					}
				}
				return p.loadCase(st, content, e[2], e[0])
			}
			return p.runCacheFile(st, line, expect)
		}}
	}
}
