package main

// C11 (crash points): ties the Lean recogniser `Vflow.Spec.jsonValid` to the real `encoding/json` scanner.
//
// Case line:  jsonvalid <category> <hex|->      model / implementation line:  <category>:valid | <category>:invalid
// (the category is echoed so that the output statistics of the harness show the input distribution).
//
// Implementation side: the real json.Valid. Oracle (model-independent), for every content that json.Valid
// rejects: json.Unmarshal rejects it too (into the cache-file mirror type and into interface{}), and both
// ipfix.GetCache and netflow9.GetCache on a file with that content return a USABLE, EMPTY cache; for every
// content at all, GetCache returns a usable cache.
//
// Inputs: real dump files (real decoder + real Dump, real timestamps) and their proper prefixes (all of them
// for files up to 700 octets, else the first/last 50 and 100 sampled offsets), generated JSON texts with
// whitespace, all number forms and all escapes, structure-aware mutations of valid texts (token
// delete/insert/duplicate/swap, bracket swaps, trailing commas, broken numbers, broken escapes, raw control
// characters, trailing garbage, two top-level values), trivial texts, deep nesting (a few hundred, and the
// scanner's limit 10000 +- 1), byte-level mutations, cuts, random octets.

import (
	"bufio"
	"bytes"
	"encoding/json"
	"fmt"
	"io/ioutil"
	"math/rand"
	"os"
	"path/filepath"
	"strings"
)

// ---------------------------------------------------------------- generator

// a real dump file: templates announced to the real decoder, written by the real Dump
func (p *flowProto) realDumpFile(r *rand.Rand, na int) []byte {
	initElems()
	ver := 10
	if !p.isIPFIX {
		ver = 9
	}
	gst := &state{v: map[string]interface{}{}}
	for i := 0; i < na; i++ {
		addr := exporterAddrs[r.Intn(len(exporterAddrs))]
		t := p.histTpl(r, 256+r.Intn(2000))
		hdr, _ := p.header(r, ver)
		p.decodeReal(gst, addr, append(hdr, p.tplSetBytes(t)...), false)
	}
	dir, _ := ioutil.TempDir("", "verif-jvgen")
	defer os.RemoveAll(dir)
	path := filepath.Join(dir, "cache.json")
	p.dumpReal(p.cache(gst), path)
	b, _ := ioutil.ReadFile(path)
	return b
}

func pick(r *rand.Rand, b []byte) byte { return b[r.Intn(len(b))] }

var jvSpaces = []string{" ", "\t", "\r", "\n", "  ", "\r\n", " \n\t"}

func jvGoodNumber(r *rand.Rand) string {
	ints := []string{"0", "-0", "1", "7", "10", "32", "256", "1024", "65535", "4294967295", "18446744073709551616", "-1", "-12", "123456789012345678901234567890"}
	s := ints[r.Intn(len(ints))]
	if r.Intn(3) == 0 {
		s += "." + []string{"0", "5", "25", "000", "0001", "9999999999"}[r.Intn(6)]
	}
	if r.Intn(3) == 0 {
		s += []string{"e", "E"}[r.Intn(2)] + []string{"", "+", "-"}[r.Intn(3)] + []string{"0", "1", "00", "10", "308", "999999"}[r.Intn(6)]
	}
	return s
}

var jvBadNumbers = []string{"-", "1.", "1e", "01", ".5", "1e+", "+1", "1.e5", "--1", "0x10", "1.5.2", "1e5e5", "00", "-01", "1E", "1e-",
	"-.5", "1.-5", "1e.5", "1e+-5", "0.", "-0.", "0e", "1,5", "1_000", "١", "1f", "0b1", "-e5", "e5", "1.0e", "1.0E+", "- 1", "1 .5", "1e 5", "NaN", "Infinity", "-Infinity", "0.1.", "1..2"}

func jvGoodStringBody(r *rand.Rand) string {
	var b []byte
	n := r.Intn(8)
	if r.Intn(10) == 0 {
		n = 20 + r.Intn(60)
	}
	for i := 0; i < n; i++ {
		switch r.Intn(9) {
		case 0:
			b = append(b, '\\', pick(r, []byte("\"\\/bfnrt")))
		case 1:
			hexd := "0123456789abcdefABCDEF"
			b = append(b, '\\', 'u', hexd[r.Intn(22)], hexd[r.Intn(22)], hexd[r.Intn(22)], hexd[r.Intn(22)])
		case 2: // lone / paired surrogates
			b = append(b, []byte([]string{`\ud800`, `\udc00`, `\uD83D\uDE00`, `\udfff\ud800`}[r.Intn(4)])...)
		case 3: // any octet >= 0x80 (the scanner does not validate UTF-8)
			b = append(b, byte(0x80+r.Intn(0x80)))
		case 4:
			b = append(b, pick(r, []byte("{}[],: \x7f'")))
		default:
			c := byte(0x20 + r.Intn(0x5f))
			if c == '"' || c == '\\' {
				c = 'x'
			}
			b = append(b, c)
		}
	}
	return string(b)
}

var jvBadStrings = []string{`"\u12"`, `"\x"`, `"\u12G4"`, `"\"`, "\"a\x01b\"", "\"\n\"", "\"\t\"", "\"\x00\"", "\"\x1f\"", `"abc`, `"`, `"\u"`, `"\u1"`, `"\u123"`,
	`"\U0041"`, `"\a"`, `"\v"`, `"\0"`, `"\'"`, `'a'`, `"\ "`, `"\u 041"`, `"\u00g1"`, `"\`, `"\u12`, "\"\\\n\"", `"a"b"`, `""x""`, "\"\r\"", `"\u-123"`}

// tokens of a random valid JSON value (no whitespace tokens; whitespace is added when joining)
func jvValue(r *rand.Rand, depth int) []string {
	k := r.Intn(10)
	if depth <= 0 && k >= 6 {
		k = r.Intn(6)
	}
	switch k {
	case 0:
		return []string{"null"}
	case 1:
		return []string{"true"}
	case 2:
		return []string{"false"}
	case 3, 4:
		return []string{jvGoodNumber(r)}
	case 5:
		return []string{`"` + jvGoodStringBody(r) + `"`}
	case 6, 7:
		t := []string{"["}
		n := r.Intn(4)
		for i := 0; i < n; i++ {
			if i > 0 {
				t = append(t, ",")
			}
			t = append(t, jvValue(r, depth-1)...)
		}
		return append(t, "]")
	default:
		t := []string{"{"}
		n := r.Intn(4)
		for i := 0; i < n; i++ {
			if i > 0 {
				t = append(t, ",")
			}
			t = append(t, `"`+jvGoodStringBody(r)+`"`, ":")
			t = append(t, jvValue(r, depth-1)...)
		}
		return append(t, "}")
	}
}

// join tokens, with whitespace between tokens with probability 1/ws (ws = 0: none)
func jvJoin(r *rand.Rand, toks []string, ws int) []byte {
	var b bytes.Buffer
	sp := func() {
		if ws > 0 && r.Intn(ws) == 0 {
			b.WriteString(jvSpaces[r.Intn(len(jvSpaces))])
		}
	}
	sp()
	for _, t := range toks {
		b.WriteString(t)
		sp()
	}
	return b.Bytes()
}

// split a compact JSON text (no insignificant whitespace) into tokens
func jvTokens(b []byte) []string {
	var t []string
	for i := 0; i < len(b); {
		c := b[i]
		switch {
		case strings.IndexByte("{}[],:", c) >= 0:
			t = append(t, string(c))
			i++
		case c == '"':
			j := i + 1
			for j < len(b) && b[j] != '"' {
				if b[j] == '\\' {
					j++
				}
				j++
			}
			if j >= len(b) {
				j = len(b) - 1
			}
			t = append(t, string(b[i:j+1]))
			i = j + 1
		default:
			j := i
			for j < len(b) && strings.IndexByte("{}[],:\"", b[j]) < 0 {
				j++
			}
			t = append(t, string(b[i:j]))
			i = j
		}
	}
	return t
}

var jvAnyTokens = []string{"{", "}", "[", "]", ",", ":", `"k"`, `""`, "0", "1", "-1", "1.5", "true", "false", "null", " ", "\n", "{}", "[]", `"a":1`, ",,", "::"}

func jvIsNumberTok(t string) bool { return t != "" && (t[0] == '-' || (t[0] >= '0' && t[0] <= '9')) }

// a valid text to mutate: a generated value, or (one time in six) a small real dump
func (g *jvGen) validToks(r *rand.Rand) []string {
	if r.Intn(6) == 0 {
		return jvTokens(g.smallDump(r))
	}
	return jvValue(r, 1+r.Intn(4))
}

type jvGen struct {
	small [][]byte // a few small real dumps, produced once per generator run
}

func (g *jvGen) smallDump(r *rand.Rand) []byte {
	if len(g.small) < 4 {
		p := []*flowProto{protoIPFIX, protoNF9}[r.Intn(2)]
		g.small = append(g.small, p.realDumpFile(r, r.Intn(3)))
	}
	return g.small[r.Intn(len(g.small))]
}

func genJSONValid(r *rand.Rand, n int, w *bufio.Writer) {
	g := &jvGen{}
	emitted := 0
	emit := func(cat string, b []byte) {
		if emitted < n {
			fmt.Fprintf(w, "jsonvalid %s %s\n", cat, hx(b))
			emitted++
		}
	}
	for emitted < n {
		switch k := r.Intn(970) - 3; {
		case k < 0: // a real dump and its proper prefixes
			p := []*flowProto{protoIPFIX, protoNF9}[r.Intn(2)]
			na := r.Intn(4)
			if r.Intn(4) == 0 {
				na = 5 + r.Intn(40)
			}
			file := p.realDumpFile(r, na)
			emit("dump", file)
			if len(file) <= 700 {
				for i := 0; i < len(file); i++ {
					emit("prefix", file[:i])
				}
			} else {
				for i := 0; i < 50; i++ {
					emit("prefix", file[:i])
					emit("prefix", file[:len(file)-1-i])
				}
				for i := 0; i < 100; i++ {
					emit("prefix", file[:50+r.Intn(len(file)-100)])
				}
			}
		case k < 120: // generated valid text, with and without whitespace
			emit("gen", jvJoin(r, jvValue(r, r.Intn(6)), []int{0, 1, 2, 5}[r.Intn(4)]))
		case k < 320: // token-level mutation
			t := g.validToks(r)
			for m := 1 + r.Intn(2); m > 0 && len(t) > 0; m-- {
				i := r.Intn(len(t))
				switch r.Intn(7) {
				case 0: // delete
					t = append(append([]string{}, t[:i]...), t[i+1:]...)
				case 1: // insert
					t = append(append(append([]string{}, t[:i]...), jvAnyTokens[r.Intn(len(jvAnyTokens))]), t[i:]...)
				case 2: // duplicate
					t = append(append(append([]string{}, t[:i+1]...), t[i]), t[i+1:]...)
				case 3: // swap two tokens
					j := r.Intn(len(t))
					t = append([]string{}, t...)
					t[i], t[j] = t[j], t[i]
				case 4: // swap a bracket for another one
					var idx []int
					for q, s := range t {
						if s == "{" || s == "}" || s == "[" || s == "]" {
							idx = append(idx, q)
						}
					}
					if len(idx) > 0 {
						t = append([]string{}, t...)
						t[idx[r.Intn(len(idx))]] = []string{"{", "}", "[", "]", "(", ")", "<"}[r.Intn(7)]
					}
				case 5: // trailing comma before a closing bracket / leading comma after an opening one
					var idx []int
					for q, s := range t {
						if s == "}" || s == "]" {
							idx = append(idx, q)
						} else if s == "{" || s == "[" {
							idx = append(idx, q+1)
						}
					}
					if len(idx) > 0 {
						q := idx[r.Intn(len(idx))]
						t = append(append(append([]string{}, t[:q]...), ","), t[q:]...)
					}
				default: // replace a token by any token
					t = append([]string{}, t...)
					t[i] = jvAnyTokens[r.Intn(len(jvAnyTokens))]
				}
			}
			emit("token", jvJoin(r, t, []int{0, 0, 3}[r.Intn(3)]))
		case k < 440: // numbers: every good form and the broken ones, alone and inside a document
			num := jvGoodNumber(r)
			switch r.Intn(4) {
			case 0, 1:
				num = jvBadNumbers[r.Intn(len(jvBadNumbers))]
			case 2: // one octet of a good number replaced by a neighbour of the digit range / another number character
				b := []byte(num)
				b[r.Intn(len(b))] = pick(r, []byte("/:0019.eE+-"))
				num = string(b)
			}
			switch r.Intn(4) {
			case 0:
				emit("number", []byte(num))
			case 1:
				emit("number", []byte("["+num+"]"))
			case 2:
				emit("number", []byte(`{"a":`+num+`,"b":[`+num+` ]}`))
			default:
				t := g.validToks(r)
				var idx []int
				for q, s := range t {
					if jvIsNumberTok(s) {
						idx = append(idx, q)
					}
				}
				if len(idx) > 0 {
					t = append([]string{}, t...)
					t[idx[r.Intn(len(idx))]] = num
				}
				emit("number", jvJoin(r, t, 0))
			}
		case k < 560: // strings: every escape, broken escapes, raw control characters, unterminated
			s := `"` + jvGoodStringBody(r) + `"`
			switch r.Intn(5) {
			case 0:
			case 4: // a \u escape with one of its four digits replaced by a neighbour of the hex ranges
				e := []byte(`\u` + string([]byte{pick(r, []byte("0123456789abcdefABCDEF")), pick(r, []byte("09afAF")), pick(r, []byte("09afAF")), pick(r, []byte("0123456789abcdefABCDEF"))}))
				if r.Intn(5) > 0 {
					e[2+r.Intn(4)] = pick(r, []byte("/:@G`g"))
				}
				s = `"` + jvGoodStringBody(r) + string(e) + jvGoodStringBody(r) + `"`
			case 1:
				s = jvBadStrings[r.Intn(len(jvBadStrings))]
			case 2: // a raw control character / stray quote / stray backslash somewhere in a good body
				b := []byte(s)
				i := 1 + r.Intn(len(b)-1)
				ins := pick(r, []byte{byte(r.Intn(0x20)), '"', '\\', 0x7f, 0x80, 0xff})
				s = string(append(append(append([]byte{}, b[:i]...), ins), b[i:]...))
			default: // cut inside the string
				s = s[:1+r.Intn(len(s)-1)]
			}
			switch r.Intn(4) {
			case 0:
				emit("string", []byte(s))
			case 1:
				emit("string", []byte("["+s+"]"))
			case 2:
				emit("string", []byte("{"+s+":"+s+"}"))
			default:
				emit("string", []byte(`{"k":[1,`+s+`],`+s+`:null}`))
			}
		case k < 640: // after the value: garbage, a second value, whitespace look-alikes, BOM
			v := jvJoin(r, g.validToks(r), 0)
			junk := [][]byte{[]byte("x"), []byte(","), []byte("}"), []byte("]"), []byte("1"), []byte("{}"), []byte("[]"), []byte(" 2"), []byte("\n{}"), []byte(`""`),
				{0x0b}, {0x0c}, {0xa0}, {0x00}, {0xef, 0xbb, 0xbf}, []byte(" "), []byte("\r\n\t "), []byte("//c"), []byte("/**/"), []byte("null")}[r.Intn(20)]
			switch r.Intn(3) {
			case 0:
				emit("tail", append(append([]byte{}, v...), junk...))
			case 1:
				emit("tail", append(append([]byte{}, junk...), v...))
			default:
				emit("tail", append(append(append([]byte{}, v...), []byte(jvSpaces[r.Intn(len(jvSpaces))])...), junk...))
			}
		case k < 700: // trivial texts
			tr := []string{"", " ", "\n", "\t\r\n ", "{", "}", "[", "]", ",", ":", `"`, "{}", "[]", " {} ", " [] ", "[ ]", "{ }", "tru", "True", "nul", "nulll", "falsee", "null", "true", "false",
				"t", "f", "n", "nil", "TRUE", "fals", "truefalse", "null null", "0", "-", "{{}}", "[{}]", "{[]}", `{"a"}`, `{"a":}`, `{:1}`, `{1:1}`, `{"a":1,}`, `[,]`, `[1,]`, `[,1]`, `{"a" 1}`, `{"a":1 "b":2}`, `[1 2]`,
				`{"a":1,"a":2}`, `{"":0}`, `[[]]`, `[{}]`, `[[],[]]`, `{"a":{}}`, "\x00", "\xff", "\xef\xbb\xbf{}", "{\"a\":\n1}", "[1\n,\n2\n]", "{\"a\"\t:\r1}"}
			t := tr[r.Intn(len(tr))]
			if r.Intn(4) == 0 { // a literal with one letter replaced / removed / doubled
				b := []byte([]string{"true", "false", "null"}[r.Intn(3)])
				i := r.Intn(len(b))
				switch r.Intn(3) {
				case 0:
					b[i] = pick(r, []byte("abcdefghijklmnopqrstuvwxyzTFN0 "))
				case 1:
					b = append(b[:i], b[i+1:]...)
				default:
					b = append(append(append([]byte{}, b[:i+1]...), b[i]), b[i+1:]...)
				}
				t = string(b)
				if r.Intn(2) == 0 {
					t = "[" + t + "]"
				}
			}
			emit("trivial", []byte(t))
		case k < 750: // nesting: a few hundred deep, balanced and not; one case in 25 at the scanner's limit of 10000
			d := 1 + r.Intn(400)
			limit := r.Intn(25) == 0
			if limit {
				d = 9999 + r.Intn(4)
			}
			open, cl := "[", "]"
			switch r.Intn(3) {
			case 0:
				open, cl = `{"a":`, "}"
			case 1:
				open, cl = `[{"k":[`, "]}]"
				d = (d + 2) / 3
				if limit {
					d = 3333 + r.Intn(2) // 9999 / 10002 brackets
				}
			}
			inner := []string{"", "1", `"s"`, "null", "{}", "[]"}[r.Intn(6)]
			if open == `{"a":` && inner == "" {
				inner = "0"
			}
			dc := d
			if !limit || r.Intn(4) == 0 {
				switch r.Intn(4) {
				case 0:
					dc = d - 1
				case 1:
					dc = d + 1
				}
			}
			if dc < 0 {
				dc = 0
			}
			emit("nest", []byte(strings.Repeat(open, d)+inner+strings.Repeat(cl, dc)))
		case k < 850: // byte-level mutation of a valid text
			b := append([]byte{}, jvJoin(r, g.validToks(r), []int{0, 4}[r.Intn(2)])...)
			for m := 1 + r.Intn(2); m > 0 && len(b) > 0; m-- {
				i := r.Intn(len(b))
				switch r.Intn(4) {
				case 0:
					b[i] ^= byte(1 << uint(r.Intn(8)))
				case 1:
					b = append(b[:i], b[i+1:]...)
				case 2:
					b = append(append(append([]byte{}, b[:i]...), byte(r.Intn(256))), b[i:]...)
				default:
					b[i] = pick(r, []byte("{}[],:\"\\0-.eE+ \n"))
				}
			}
			emit("bytemut", b)
		case k < 920: // cuts: a prefix / suffix / middle of a valid text
			b := jvJoin(r, g.validToks(r), []int{0, 3}[r.Intn(2)])
			i, j := r.Intn(len(b)+1), r.Intn(len(b)+1)
			if i > j {
				i, j = j, i
			}
			switch r.Intn(3) {
			case 0:
				emit("cut", b[:j])
			case 1:
				emit("cut", b[i:])
			default:
				emit("cut", b[i:j])
			}
		default: // random octets; random octets of the JSON alphabet
			m := r.Intn(12)
			b := make([]byte, m)
			if r.Intn(2) == 0 {
				r.Read(b)
			} else {
				al := []byte("{}[],:\"\\0123456789-+.eEtruefalsn \n\tu")
				for i := range b {
					b[i] = al[r.Intn(len(al))]
				}
			}
			emit("random", b)
		}
	}
}

// ---------------------------------------------------------------- implementation side + oracle

func runJSONValid(st *state, line, expect string) (string, string) {
	f := strings.Fields(line)
	if len(f) != 3 || f[0] != "jsonvalid" {
		return "bad-op", ""
	}
	b := unhx(f[2])
	valid := json.Valid(b)
	out := f[1] + ":invalid"
	if valid {
		out = f[1] + ":valid"
	}
	// the assumption the Lean statement rests on: json.Unmarshal rejects whatever json.Valid rejects
	var d diskMirror
	var any interface{}
	errD, errA := json.Unmarshal(b, &d), json.Unmarshal(b, &any)
	if !valid && (errD == nil || errA == nil) {
		return out, "fail:unmarshal json.Unmarshal accepted a text that json.Valid rejects"
	}
	// (the converse does not hold: Unmarshal also rejects valid texts, e.g. 1e999 "cannot unmarshal number into float64")
	// GetCache on a file with this content: always usable; empty when the text is rejected
	path := filepath.Join(os.TempDir(), fmt.Sprintf("verif-jv-%d.json", os.Getpid()))
	defer os.Remove(path)
	if err := ioutil.WriteFile(path, b, 0o644); err != nil {
		return out, "fail:io " + err.Error()
	}
	for _, p := range []*flowProto{protoIPFIX, protoNF9} {
		c := p.loadReal(path)
		if u := usable(c); u != "" {
			return out, "fail:unusable " + p.name + " GetCache returned a cache the decoders cannot use: " + u
		}
		if !valid {
			l, err := listReal(c)
			if err != nil {
				return out, "fail:list " + err.Error()
			}
			if l != "-" {
				return out, "fail:crashpoint " + p.name + " GetCache loaded templates from a file that is not JSON: " + clip(l, 200)
			}
		}
	}
	return out, "ok"
}

func init() {
	kinds["jsonvalid"] = &kind{gen: genJSONValid, run: runJSONValid}
}
