package main

// e2eref: the in-process reference of the end-to-end traffic cycles (e2e_e2etraffic.py; C01 / C02 / C13), not a
// correspondence kind.
//
//	corr e2eref <max-udp-size>
//
// reads one datagram per line from stdin
//
//	<ipfix|nf9|nf5|sflow> <exporter address, hex, the octets of raddr.IP as the collector sees them> <datagram hex>
//
// and replays them IN ORDER against one IPFIX and one NetFlow v9 template cache that start empty (the collector
// of a cycle starts on fresh cache files), with the real decoder packages and the built-in information model (no
// test elements are injected here: the collector of a cycle runs without an ipfix.elements file). A datagram longer
// than <max-udp-size> is cut to that length first: the collector's read buffer has that size and the kernel hands
// over no more. Prints one line per datagram:
//
//	<class>\t<z>\t<changed>\t<fields>\t<payload>
//
//	class    x  does not count as decoded (ipfix / v9: no message; v5: Decode reports an error; sflow: error, or
//	            neither sample nor counter, or marshal fails — sFlow's DecodedCount follows the successful marshal)
//	         t  counts as decoded, nothing to publish
//	         m  counts as decoded, has data, JSONMarshal fails: nothing published
//	         d  counts as decoded (sflow too) and is published: <payload> is the solo JSON
//	         p  the real decoder panicked on it (the collector has no recover(): it would die)
//	z        the largest number of zero-length field specifiers of a template in this protocol's cache after the
//	         datagram (finding K4: such a template makes decoding cost records x z)
//	changed  1 when the datagram changed the template cache (ignoring timestamps), else 0
//	fields   the number of decoded fields of the message (ipfix / v9: over all records of all data sets). C02 proves
//	         fields <= octets + records x z; what exceeds the octets of the datagram is the K4 term
//	payload  the JSON the collector would publish ("-" when none); sFlow: ColTime (the wall clock) set to 0
//
// The classes are the ones the pipeline kind's generator computes (pipeline.go: pipeClassIPFIX …); the sFlow class
// 't' / 'm' of that generator do not move DecodedCount and are reported as 'x' here.

import (
	"bufio"
	"bytes"
	"encoding/json"
	"fmt"
	"io/ioutil"
	"net"
	"os"
	"path/filepath"
	"strconv"
	"strings"
	"time"

	"github.com/EdgeCast/vflow/ipfix"
	netflow5 "github.com/EdgeCast/vflow/netflow/v5"
	netflow9 "github.com/EdgeCast/vflow/netflow/v9"
	"github.com/EdgeCast/vflow/sflow"
)

func init() { tools["e2eref"] = e2eref }

type refOut struct {
	class   byte
	payload string
	fields  int
}

func refIPFIX(src net.IP, body []byte, cache ipfix.MemCache) refOut {
	msg, _ := ipfix.NewDecoder(src, body).Decode(cache)
	if msg == nil {
		return refOut{'x', "-", 0}
	}
	if len(msg.DataSets) == 0 {
		return refOut{'t', "-", 0}
	}
	nf := 0
	for _, rec := range msg.DataSets {
		nf += len(rec)
	}
	b, err := msg.JSONMarshal(new(bytes.Buffer))
	if err != nil {
		return refOut{'m', "-", nf}
	}
	return refOut{'d', string(b), nf}
}

func refV9(src net.IP, body []byte, cache netflow9.MemCache) refOut {
	msg, _ := netflow9.NewDecoder(src, body).Decode(cache)
	if msg == nil {
		return refOut{'x', "-", 0}
	}
	if msg.DataSets == nil {
		return refOut{'t', "-", 0}
	}
	nf := 0
	for _, rec := range msg.DataSets {
		nf += len(rec)
	}
	b, err := msg.JSONMarshal(new(bytes.Buffer))
	if err != nil {
		return refOut{'m', "-", nf}
	}
	return refOut{'d', string(b), nf}
}

func refV5(src net.IP, body []byte) refOut {
	// "decodes successfully" is "Decode reports no error" (F29), not the worker's `msg == nil`
	msg, err := netflow5.NewDecoder(src, body).Decode()
	if msg == nil || err != nil {
		return refOut{'x', "-", 0}
	}
	if msg.Flows == nil {
		return refOut{'t', "-", 0}
	}
	b, err := msg.JSONMarshal(new(bytes.Buffer))
	if err != nil {
		return refOut{'m', "-", 0}
	}
	return refOut{'d', string(b), 0}
}

func refSFlow(body []byte) refOut {
	d := sflow.NewSFDecoder(bytes.NewReader(body), []uint32{})
	dg, err := d.SFDecode()
	if err != nil || (len(dg.Counters) < 1 && len(dg.Samples) < 1) {
		return refOut{'x', "-", 0}
	}
	b, err := json.Marshal(dg)
	if err != nil {
		return refOut{'x', "-", 0}
	}
	return refOut{'d', colRe.ReplaceAllString(string(b), `"ColTime":0`), 0}
}

// refDigest: an order-independent digest of a template cache without the timestamps (keys, template ids, counts, every
// field specifier of every template): cheap enough to be taken after every datagram of a 2000-datagram stream
func refDigest(c interface{}) uint64 {
	var sum uint64
	mix := func(h uint64, v uint64) uint64 { return (h ^ v) * 1099511628211 }
	str := func(h uint64, s string) uint64 {
		for i := 0; i < len(s); i++ {
			h = mix(h, uint64(s[i]))
		}
		return mix(h, 0x1ff)
	}
	switch m := c.(type) {
	case ipfix.MemCache:
		for i, sh := range m {
			if sh == nil {
				continue
			}
			for k, d := range sh.Templates {
				h := str(mix(14695981039346656037, uint64(i)), k)
				t := d.Template
				h = mix(mix(mix(h, uint64(t.TemplateID)), uint64(t.FieldCount)), uint64(t.ScopeFieldCount))
				for _, f := range t.ScopeFieldSpecifiers {
					h = mix(mix(mix(h, uint64(f.ElementID)), uint64(f.Length)), uint64(f.EnterpriseNo))
				}
				h = mix(h, 0x2ff)
				for _, f := range t.FieldSpecifiers {
					h = mix(mix(mix(h, uint64(f.ElementID)), uint64(f.Length)), uint64(f.EnterpriseNo))
				}
				sum += h
			}
		}
	case netflow9.MemCache:
		for i, sh := range m {
			if sh == nil {
				continue
			}
			for k, d := range sh.Templates {
				h := str(mix(14695981039346656037, uint64(i)), k)
				t := d.Template
				h = mix(mix(mix(h, uint64(t.TemplateID)), uint64(t.FieldCount)), uint64(t.ScopeFieldCount))
				for _, f := range t.ScopeFieldSpecifiers {
					h = mix(mix(h, uint64(f.ElementID)), uint64(f.Length))
				}
				h = mix(h, 0x2ff)
				for _, f := range t.FieldSpecifiers {
					h = mix(mix(h, uint64(f.ElementID)), uint64(f.Length))
				}
				sum += h
			}
		}
	}
	return sum
}

func e2eref(args []string) int {
	maxUDP := 1500
	if len(args) > 0 {
		maxUDP, _ = strconv.Atoi(args[0])
	}
	tmp, err := ioutil.TempDir(pipeWorkDir(), "e2eref-")
	if err != nil {
		fmt.Fprintln(os.Stderr, "e2eref:", err)
		return 2
	}
	defer os.RemoveAll(tmp)
	cacheI := ipfix.GetCache(filepath.Join(tmp, "ipfix.none"))
	cache9 := netflow9.GetCache(filepath.Join(tmp, "nf9.none"))
	fpI, fp9 := refDigest(cacheI), refDigest(cache9)
	sc := bufio.NewScanner(os.Stdin)
	sc.Buffer(make([]byte, 1<<20), 1<<26)
	w := bufio.NewWriterSize(os.Stdout, 1<<20)
	defer w.Flush()
	for sc.Scan() {
		f := strings.Fields(sc.Text())
		if len(f) != 3 {
			fmt.Fprintln(os.Stderr, "e2eref: bad line:", sc.Text())
			return 2
		}
		src, body := net.IP(unhx(f[1])), unhx(f[2])
		if len(body) > maxUDP {
			body = body[:maxUDP]
		}
		body = append([]byte{}, body...)
		ch := make(chan refOut, 1)
		go func() {
			defer func() {
				if p := recover(); p != nil {
					ch <- refOut{'p', strings.Replace(fmt.Sprint(p), "\n", " ", -1), 0}
				}
			}()
			switch f[0] {
			case "ipfix":
				ch <- refIPFIX(src, body, cacheI)
			case "nf9":
				ch <- refV9(src, body, cache9)
			case "nf5":
				ch <- refV5(src, body)
			case "sflow":
				ch <- refSFlow(body)
			default:
				ch <- refOut{'?', "-", 0}
			}
		}()
		var o refOut
		select {
		case o = <-ch:
		case <-time.After(20 * time.Second):
			// the reference itself hangs on this datagram: nothing after it can be predicted
			fmt.Fprintf(w, "h\t0\t0\t0\t-\n")
			w.Flush()
			return 3
		}
		if o.class == '?' {
			fmt.Fprintln(os.Stderr, "e2eref: unknown protocol:", f[0])
			return 2
		}
		z, chg := 0, 0
		switch f[0] {
		case "ipfix":
			z = zeroLenFields(cacheI, nil)
			if fp := refDigest(cacheI); fp != fpI {
				fpI, chg = fp, 1
			}
		case "nf9":
			z = zeroLenFields(cache9, nil)
			if fp := refDigest(cache9); fp != fp9 {
				fp9, chg = fp, 1
			}
		}
		fmt.Fprintf(w, "%c\t%d\t%d\t%d\t%s\n", o.class, z, chg, o.fields, o.payload)
	}
	return 0
}
