package main

import (
	"bufio"
	"fmt"
	"math/rand"
	"strings"
)

// C14 (F20): error scripts for the kafka (sarama) producer. The cases are run inside package
// producer by the verif-tagged test TestVerifSarama (runner, see propdefs/C14.py), which drives the
// real KafkaSarama.inputMsg against sarama's own mocks.AsyncProducer (`mock`) or against a scripted
// sarama.AsyncProducer whose unbuffered channels present exactly one select arm at a time (`arms`);
// message contents derive from the seed there.
//
//	producerk mock <buf> <seed> <n> <script>   script over {s,f}: one letter per input the mock expects
//	                                           (s produced, f failed: the mock reports an error);
//	                                           buf = Config.ChannelBufferSize (0: unbuffered, the
//	                                           outcome is fixed by the script; else timing: `nd`)
//	producerk arms 0 <seed> <n> <script>       script over {i,e}: the arm each successive select of
//	                                           inputMsg can take (i the library accepts an input,
//	                                           e it reports an error); afterwards it accepts
func init() {
	kinds["producerk"] = &kind{gen: genProducerK, run: nil}
}

func genProducerK(r *rand.Rand, n int, w *bufio.Writer) {
	for c := 0; c < n; c++ {
		nm := 1 + r.Intn(40)
		switch r.Intn(12) {
		case 0:
			nm = 100 + r.Intn(300)
		case 1:
			nm = r.Intn(3) // 0, 1, 2 messages
		}
		// how often the library fails / reports: none, rare (the audit's 1 in 50), frequent, almost always
		rate := []float64{0, 0.02, 0.02, 0.1, 0.3, 0.5, 0.9}[r.Intn(7)]
		var b strings.Builder
		if r.Intn(5) < 2 {
			// arm script: up to a few error reports in a row before / between / after the accepted inputs
			steps := nm + r.Intn(nm+3)
			for i := 0; i < steps; i++ {
				if r.Float64() < rate {
					for k, m := 0, 1+r.Intn(3); k < m; k++ {
						b.WriteByte('e')
					}
				} else {
					b.WriteByte('i')
				}
			}
			s := b.String()
			if s == "" {
				s = "-"
			}
			fmt.Fprintf(w, "producerk arms 0 %d %d %s\n", r.Int63n(1<<40), nm, s)
			continue
		}
		buf := 0
		if r.Intn(3) == 0 {
			buf = []int{1, 2, 16, 256}[r.Intn(4)]
		}
		for i := 0; i < nm; i++ {
			if r.Float64() < rate {
				b.WriteByte('f')
			} else {
				b.WriteByte('s')
			}
		}
		s := b.String()
		if s == "" {
			s = "-"
		}
		fmt.Fprintf(w, "producerk mock %d %d %d %s\n", buf, r.Int63n(1<<40), nm, s)
	}
}
