package main

// LockRegions (C10): for every function of ipfix/memcache.go, netflow/v9/memcache.go and
// ipfix/memcache_rpc.go that touches a shard's `.Templates` map, a shard mutex, marshals the cache or
// calls a cache method: the sequence, in source order, of
//
//	X.Lock() / X.RLock() / X.Unlock() / X.RUnlock() / defer X.Unlock() / defer X.RUnlock()
//	v, ok := X.Templates[k] (read) · X.Templates[k] = … / delete(X.Templates, k) (write)
//	for … := range X.Templates (iter) · len(X.Templates) (len)
//	json.Marshal(<the cache>) (marshalAll: iterates every shard's map)
//	<cache>.insert/retrieve/Dump/allSetIds(…) (call)
//
// on the function's single shard variable (`.once`) or on the loop variable of
// `for _, shard := range m { … }` (`.each`). Fails closed: a statement that mentions `.Templates`, a
// mutex method or json.Marshal in any other form, a second shard variable, or a return between a
// lock and its explicit unlock is emitted as `.unrecognised "<go text>"`.

import (
	"bytes"
	"fmt"
	"go/ast"
	"go/parser"
	"go/printer"
	"go/token"
	"path/filepath"
	"regexp"
	"strings"
)

func init() {
	generators = append(generators, genLockRegions)
}

var lkSpace = regexp.MustCompile(`\s+`)

func lkSrc(fset *token.FileSet, n ast.Node) string {
	var b bytes.Buffer
	printer.Fprint(&b, fset, n)
	return strings.TrimSpace(lkSpace.ReplaceAllString(b.String(), " "))
}

func lkLeanStr(s string) string {
	var b strings.Builder
	b.WriteByte('"')
	for _, r := range s {
		switch {
		case r == '"':
			b.WriteString(`\"`)
		case r == '\\':
			b.WriteString(`\\`)
		case r < 0x20 || r == 0x7f:
			fmt.Fprintf(&b, `\x%02x`, r)
		default:
			b.WriteRune(r)
		}
	}
	b.WriteByte('"')
	return b.String()
}

var lkMutexMethods = map[string]string{"Lock": ".lock", "RLock": ".rlock", "Unlock": ".unlock", "RUnlock": ".runlock"}
var lkCacheMethods = map[string]bool{"insert": true, "retrieve": true, "Dump": true, "allSetIds": true}

// lkMentions reports whether the node mentions a shard map, a mutex method call, json.Marshal or a
// cache method call (= whether it is in the anchored region at all)
func lkMentions(fset *token.FileSet, n ast.Node, rpcFile bool) bool {
	found := false
	ast.Inspect(n, func(x ast.Node) bool {
		switch y := x.(type) {
		case *ast.SelectorExpr:
			if y.Sel.Name == "Templates" {
				found = true
			}
		case *ast.CallExpr:
			if se, ok := y.Fun.(*ast.SelectorExpr); ok {
				if _, ok := lkMutexMethods[se.Sel.Name]; ok && len(y.Args) == 0 {
					// in the rpc file the Discovery struct's own mutex (`d.mu`) is not a shard mutex
					if inner, ok := se.X.(*ast.SelectorExpr); !(rpcFile && ok && inner.Sel.Name == "mu") {
						found = true
					}
				}
				if lkSrc(fset, y.Fun) == "json.Marshal" {
					found = true
				}
				if rpcFile && lkCacheMethods[se.Sel.Name] {
					found = true
				}
			}
		}
		return !found
	})
	return found
}

type lkFunc struct {
	fset    *token.FileSet
	recv    string // receiver variable name of a MemCache method ("" otherwise)
	rpcFile bool
	segs    []string // rendered Lean Seg terms
	cur     []string // pending `.once` ops
	vars    map[string]bool
}

func (f *lkFunc) flush() {
	if len(f.cur) > 0 {
		f.segs = append(f.segs, ".once ["+strings.Join(f.cur, ", ")+"]")
		f.cur = nil
	}
}

func (f *lkFunc) unrec(n ast.Node) string {
	return ".unrecognised " + lkLeanStr(lkSrc(f.fset, n))
}

// shardVar returns the identifier X of `X.Templates…` / `X.Lock()` when X is a plain identifier
func lkIdent(e ast.Expr) (string, bool) {
	id, ok := e.(*ast.Ident)
	if !ok {
		return "", false
	}
	return id.Name, true
}

// templatesOf: e is `X.Templates` with X an identifier
func lkTemplatesOf(e ast.Expr) (string, bool) {
	se, ok := e.(*ast.SelectorExpr)
	if !ok || se.Sel.Name != "Templates" {
		return "", false
	}
	return lkIdent(se.X)
}

// ops classifies one statement into ops on shard variable `want` ("" = any single identifier,
// recorded in f.vars). Returns the ops, or a single unrecognised op.
func (f *lkFunc) ops(s ast.Stmt, want string) []string {
	if !lkMentions(f.fset, s, f.rpcFile) {
		return nil
	}
	okVar := func(x string) bool {
		if want != "" {
			return x == want
		}
		f.vars[x] = true
		return true
	}
	switch st := s.(type) {
	case *ast.ExprStmt:
		if call, ok := st.X.(*ast.CallExpr); ok {
			if se, ok := call.Fun.(*ast.SelectorExpr); ok {
				if op, ok := lkMutexMethods[se.Sel.Name]; ok && len(call.Args) == 0 {
					if x, ok := lkIdent(se.X); ok && okVar(x) {
						return []string{op}
					}
				}
				if f.rpcFile && lkCacheMethods[se.Sel.Name] && !lkArgsMention(f, call) {
					return []string{".call " + lkLeanStr(se.Sel.Name)}
				}
			}
			if id, ok := call.Fun.(*ast.Ident); ok && id.Name == "delete" && len(call.Args) == 2 {
				if x, ok := lkTemplatesOf(call.Args[0]); ok && okVar(x) && !lkMentions(f.fset, call.Args[1], f.rpcFile) {
					return []string{".write"}
				}
			}
		}
	case *ast.DeferStmt:
		if se, ok := st.Call.Fun.(*ast.SelectorExpr); ok && len(st.Call.Args) == 0 {
			if x, ok := lkIdent(se.X); ok && okVar(x) {
				switch se.Sel.Name {
				case "Unlock":
					return []string{".deferUnlock"}
				case "RUnlock":
					return []string{".deferRUnlock"}
				}
			}
		}
	case *ast.AssignStmt:
		// X.Templates[k] = rhs   (rhs free of cache accesses)
		if len(st.Lhs) == 1 && len(st.Rhs) == 1 {
			if ix, ok := st.Lhs[0].(*ast.IndexExpr); ok {
				if x, ok := lkTemplatesOf(ix.X); ok && okVar(x) && !lkMentions(f.fset, ix.Index, f.rpcFile) && !lkMentions(f.fset, st.Rhs[0], f.rpcFile) {
					return []string{".write"}
				}
			}
		}
		// v, ok := X.Templates[k]   /   v := X.Templates[k]
		if len(st.Rhs) == 1 {
			lhsClean := true
			for _, l := range st.Lhs {
				if lkMentions(f.fset, l, f.rpcFile) {
					lhsClean = false
				}
			}
			if ix, ok := st.Rhs[0].(*ast.IndexExpr); ok && lhsClean {
				if x, ok := lkTemplatesOf(ix.X); ok && okVar(x) && !lkMentions(f.fset, ix.Index, f.rpcFile) {
					return []string{".read"}
				}
			}
			// n += len(X.Templates)
			if call, ok := st.Rhs[0].(*ast.CallExpr); ok && lhsClean {
				if id, ok := call.Fun.(*ast.Ident); ok && id.Name == "len" && len(call.Args) == 1 {
					if x, ok := lkTemplatesOf(call.Args[0]); ok && okVar(x) {
						return []string{".len"}
					}
				}
				// b, err := json.Marshal(<something built from the cache receiver>)
				if lkSrc(f.fset, call.Fun) == "json.Marshal" && len(call.Args) == 1 && f.recv != "" && want == "" {
					if lkUsesIdent(call.Args[0], f.recv) && !lkMentionsTemplates(call.Args[0]) {
						return []string{".marshalAll"}
					}
				}
				// *resp, ok = r.mCache.retrieve(…)  /  x := m.insert(…)
				if se, ok := call.Fun.(*ast.SelectorExpr); ok && f.rpcFile && lkCacheMethods[se.Sel.Name] && !lkArgsMention(f, call) {
					return []string{".call " + lkLeanStr(se.Sel.Name)}
				}
			}
		}
	case *ast.RangeStmt:
		// for … := range X.Templates { body free of cache accesses }
		if x, ok := lkTemplatesOf(st.X); ok && okVar(x) && !lkMentions(f.fset, st.Body, f.rpcFile) {
			return []string{".iter"}
		}
	}
	return []string{f.unrec(s)}
}

func lkArgsMention(f *lkFunc, call *ast.CallExpr) bool {
	for _, a := range call.Args {
		if lkMentions(f.fset, a, f.rpcFile) {
			return true
		}
	}
	return false
}

func lkUsesIdent(n ast.Node, name string) bool {
	found := false
	ast.Inspect(n, func(x ast.Node) bool {
		if id, ok := x.(*ast.Ident); ok && id.Name == name {
			found = true
		}
		return !found
	})
	return found
}

func lkMentionsTemplates(n ast.Node) bool {
	found := false
	ast.Inspect(n, func(x ast.Node) bool {
		if se, ok := x.(*ast.SelectorExpr); ok && se.Sel.Name == "Templates" {
			found = true
		}
		return !found
	})
	return found
}

// hasExplicitUnlock: the statement contains a non-deferred Unlock/RUnlock call
func lkHasExplicitUnlock(s ast.Stmt) bool {
	found := false
	ast.Inspect(s, func(x ast.Node) bool {
		switch y := x.(type) {
		case *ast.DeferStmt:
			return false
		case *ast.CallExpr:
			if se, ok := y.Fun.(*ast.SelectorExpr); ok && (se.Sel.Name == "Unlock" || se.Sel.Name == "RUnlock") {
				found = true
			}
		}
		return !found
	})
	return found
}

func lkHasExit(s ast.Stmt) bool {
	found := false
	ast.Inspect(s, func(x ast.Node) bool {
		switch y := x.(type) {
		case *ast.FuncLit:
			return false
		case *ast.ReturnStmt:
			found = true
		case *ast.BranchStmt:
			if y.Tok == token.GOTO {
				found = true
			}
		case *ast.CallExpr:
			if id, ok := y.Fun.(*ast.Ident); ok && id.Name == "panic" {
				found = true
			}
		}
		return !found
	})
	return found
}

// body walks the statements of a function (or of a plain nested block) in order
func (f *lkFunc) body(list []ast.Stmt) {
	// a return / goto / panic before the last explicit unlock could leave a mutex locked
	lastUnlock := -1
	for i, s := range list {
		if lkHasExplicitUnlock(s) {
			lastUnlock = i
		}
	}
	for i, s := range list {
		if i < lastUnlock && lkHasExit(s) {
			f.cur = append(f.cur, ".unrecognised "+lkLeanStr("exit before an explicit unlock: "+lkSrc(f.fset, s)))
			continue
		}
		if !lkMentions(f.fset, s, f.rpcFile) {
			continue
		}
		switch st := s.(type) {
		case *ast.RangeStmt:
			// for _, shard := range m { … }
			if x, ok := lkIdent(st.X); ok && f.recv != "" && x == f.recv && st.Value != nil {
				if v, ok := lkIdent(st.Value); ok && v != "_" {
					var ops []string
					for _, bs := range st.Body.List {
						ops = append(ops, f.ops(bs, v)...)
					}
					f.flush()
					f.segs = append(f.segs, ".each ["+strings.Join(ops, ", ")+"]")
					continue
				}
			}
			f.cur = append(f.cur, f.ops(s, "")...)
		case *ast.BlockStmt:
			f.body(st.List)
		default:
			f.cur = append(f.cur, f.ops(s, "")...)
		}
	}
}

// rpcCalls: the rpc paths never touch a shard directly; they go through the cache methods. The
// region is the cache-method calls in source order (loops only repeat them); any direct mention of
// a shard map or shard mutex, or a json.Marshal, is unrecognised.
func (f *lkFunc) rpcCalls(body *ast.BlockStmt) {
	ast.Inspect(body, func(x ast.Node) bool {
		switch y := x.(type) {
		case *ast.SelectorExpr:
			if y.Sel.Name == "Templates" {
				f.cur = append(f.cur, f.unrec(y))
				return false
			}
		case *ast.CallExpr:
			if se, ok := y.Fun.(*ast.SelectorExpr); ok {
				if lkCacheMethods[se.Sel.Name] {
					if lkArgsMention(f, y) {
						f.cur = append(f.cur, f.unrec(y))
					} else {
						f.cur = append(f.cur, ".call "+lkLeanStr(se.Sel.Name))
					}
					return false
				}
				if lkMentions(f.fset, &ast.ExprStmt{X: y}, true) && !lkArgsMention(f, y) && !lkMentions(f.fset, se.X, true) {
					// a shard-mutex call or json.Marshal in the rpc file
					f.cur = append(f.cur, f.unrec(y))
					return false
				}
			}
		}
		return true
	})
}

func lkRecv(fd *ast.FuncDecl) (typ, name string) {
	if fd.Recv == nil || len(fd.Recv.List) != 1 {
		return "", ""
	}
	t := fd.Recv.List[0].Type
	if s, ok := t.(*ast.StarExpr); ok {
		t = s.X
	}
	if id, ok := t.(*ast.Ident); ok {
		typ = id.Name
	}
	if len(fd.Recv.List[0].Names) == 1 {
		name = fd.Recv.List[0].Names[0].Name
	}
	return
}

func lkTitle(s string) string {
	if s == "" {
		return s
	}
	return strings.ToUpper(s[:1]) + s[1:]
}

func genLockRegions(repo string) (genFile, error) {
	fset := token.NewFileSet()
	var b strings.Builder
	b.WriteString("import Vflow.Model.LockIR\n/-! generated by factgen from ipfix/memcache.go, netflow/v9/memcache.go, ipfix/memcache_rpc.go — do not edit -/\nnamespace Vflow.Gen\nopen Vflow.Locks\n\n")
	var names []string
	var loadChecks []string
	for _, src := range []struct {
		path, prefix string
		rpc          bool
	}{
		{"ipfix/memcache.go", "ipfix", false},
		{"netflow/v9/memcache.go", "nf9", false},
		{"ipfix/memcache_rpc.go", "ipfix", true},
	} {
		file, err := parser.ParseFile(fset, filepath.Join(repo, src.path), nil, 0)
		if err != nil {
			return genFile{}, err
		}
		if !src.rpc {
			shardNo := "0"
			for _, d := range file.Decls {
				gd, ok := d.(*ast.GenDecl)
				if !ok || gd.Tok != token.VAR {
					continue
				}
				for _, sp := range gd.Specs {
					vs := sp.(*ast.ValueSpec)
					if len(vs.Names) == 1 && vs.Names[0].Name == "shardNo" && len(vs.Values) == 1 {
						if lit, ok := vs.Values[0].(*ast.BasicLit); ok && lit.Kind == token.INT {
							shardNo = lit.Value
						}
					}
				}
			}
			fmt.Fprintf(&b, "/-- `var shardNo` of %s -/\ndef %sShardNo : Nat := %s\n\n", src.path, src.prefix, shardNo)
		}
		for _, d := range file.Decls {
			fd, ok := d.(*ast.FuncDecl)
			if !ok || fd.Body == nil || !lkMentions(fset, fd.Body, src.rpc) {
				continue
			}
			// load-time validation (`valid`, called by GetCache before the cache is handed to any other goroutine):
			// it only compares shard pointers and map headers with nil — no map access, no lock needed. It is
			// emitted as a fact of its own (exact statement list), not as a lock region.
			if !src.rpc && fd.Name.Name == "valid" {
				var sts []string
				for _, st := range fd.Body.List {
					sts = append(sts, lkLeanStr(lkSrc(fset, st)))
				}
				loadChecks = append(loadChecks, fmt.Sprintf("(%s, [%s])", lkLeanStr(src.prefix+"Valid"), strings.Join(sts, ", ")))
				continue
			}
			rt, rn := lkRecv(fd)
			f := &lkFunc{fset: fset, rpcFile: src.rpc, vars: map[string]bool{}}
			name := src.prefix
			if rt == "MemCache" {
				f.recv = rn
			} else {
				name += rt
				// a plain function taking the cache as parameter `m MemCache`
				for _, p := range fd.Type.Params.List {
					if lkSrc(fset, p.Type) == "MemCache" && len(p.Names) == 1 {
						f.recv = p.Names[0].Name
					}
				}
			}
			name += lkTitle(fd.Name.Name)
			if src.rpc {
				f.rpcCalls(fd.Body)
			} else {
				f.body(fd.Body.List)
			}
			f.flush()
			if len(f.vars) > 1 {
				f.segs = append(f.segs, ".once [.unrecognised "+lkLeanStr(fmt.Sprintf("%d different shard variables in one function", len(f.vars)))+"]")
			}
			fmt.Fprintf(&b, "/-- %s: func %s -/\ndef %s : Region :=\n  [%s]\n\n", src.path, fd.Name.Name, name, strings.Join(f.segs, ",\n   "))
			names = append(names, lkLeanStr(name))
		}
	}
	fmt.Fprintf(&b, "/-- load-time validation functions (run by GetCache before the cache is shared): name and statements -/\ndef loadTimeChecks : List (String × List String) :=\n  [%s]\n\n", strings.Join(loadChecks, ",\n   "))
	fmt.Fprintf(&b, "/-- every function found in the anchored files that touches the cache -/\ndef lockRegionNames : List String :=\n  [%s]\n\nend Vflow.Gen\n", strings.Join(names, ", "))
	return genFile{name: "LockRegions", body: b.String()}, nil
}
