package main

import (
	"fmt"
	"go/ast"
	"go/token"
	"strings"
)

// Layouts: ordered (field, width) read sequences of the `unmarshal` functions that are plain
// chains of `if x.F, err = r.UintN(); err != nil { return err }`.
// Fail closed: any other statement becomes ("!unrecognised <go text>", 0).
func init() { generators = append(generators, genLayouts) }

type layoutSrc struct{ lean, file, recv, fn string }

var layoutSrcs = []layoutSrc{
	{"v5Header", "netflow/v5/decoder.go", "PacketHeader", "unmarshal"},
	{"v5Record", "netflow/v5/decoder.go", "FlowRecord", "unmarshal"},
	{"ipfixHeader", "ipfix/decoder.go", "MessageHeader", "unmarshal"},
	{"ipfixSetHeader", "ipfix/decoder.go", "SetHeader", "unmarshal"},
	{"ipfixTplHeader", "ipfix/decoder.go", "TemplateHeader", "unmarshal"},
	{"ipfixOptTplHeader", "ipfix/decoder.go", "TemplateHeader", "unmarshalOpts"},
	{"v9Header", "netflow/v9/decoder.go", "PacketHeader", "unmarshal"},
	{"v9SetHeader", "netflow/v9/decoder.go", "SetHeader", "unmarshal"},
	{"v9TplHeader", "netflow/v9/decoder.go", "TemplateHeader", "unmarshal"},
	{"v9OptTplHeader", "netflow/v9/decoder.go", "TemplateHeader", "unmarshalOpts"},
	{"v9FieldSpec", "netflow/v9/decoder.go", "TemplateFieldSpecifier", "unmarshal"},
}

var uintWidth = map[string]int{"Uint8": 1, "Uint16": 2, "Uint32": 4, "Uint64": 8}

func readChain(fset *token.FileSet, fd *ast.FuncDecl) [][2]string {
	var out [][2]string
	if fd == nil {
		return [][2]string{{"!unrecognised: function missing", "0"}}
	}
	recvName := ""
	if fd.Recv != nil && len(fd.Recv.List) == 1 && len(fd.Recv.List[0].Names) == 1 {
		recvName = fd.Recv.List[0].Names[0].Name
	}
	rdName := ""
	if fd.Type.Params != nil && len(fd.Type.Params.List) == 1 && len(fd.Type.Params.List[0].Names) == 1 {
		rdName = fd.Type.Params.List[0].Names[0].Name
	}
	for _, st := range fd.Body.List {
		txt := src(fset, st)
		switch s := st.(type) {
		case *ast.DeclStmt:
			if txt == "var err error" {
				continue
			}
		case *ast.ReturnStmt:
			if txt == "return nil" {
				continue
			}
		case *ast.IfStmt:
			// if h.F, err = r.UintN(); err != nil { return err }
			as, ok := s.Init.(*ast.AssignStmt)
			if ok && as.Tok == token.ASSIGN && len(as.Lhs) == 2 && len(as.Rhs) == 1 && s.Else == nil &&
				src(fset, s.Cond) == "err != nil" && src(fset, s.Body) == "{ return err }" && src(fset, as.Lhs[1]) == "err" {
				lhs := src(fset, as.Lhs[0])
				call := src(fset, as.Rhs[0])
				if strings.HasPrefix(lhs, recvName+".") && strings.HasPrefix(call, rdName+".") && strings.HasSuffix(call, "()") {
					m := call[len(rdName)+1 : len(call)-2]
					if w, ok := uintWidth[m]; ok {
						out = append(out, [2]string{lhs[len(recvName)+1:], fmt.Sprint(w)})
						continue
					}
				}
			}
		}
		out = append(out, [2]string{"!unrecognised " + txt, "0"})
	}
	return out
}

func genLayouts(repo string) (genFile, error) {
	var b strings.Builder
	b.WriteString(header("Layouts", "the unmarshal functions of netflow/v5, ipfix and netflow/v9 decoder.go"))
	cache := map[string]*ast.File{}
	fsets := map[string]*token.FileSet{}
	for _, ls := range layoutSrcs {
		if cache[ls.file] == nil {
			fset, f, err := parseFile(repo, ls.file)
			if err != nil {
				return genFile{}, err
			}
			cache[ls.file], fsets[ls.file] = f, fset
		}
		rows := readChain(fsets[ls.file], funcDecl(cache[ls.file], ls.recv, ls.fn))
		fmt.Fprintf(&b, "/-- %s.%s in %s: (field, octets) in read order -/\ndef %s : List (String × Nat) := [", ls.recv, ls.fn, ls.file, ls.lean)
		for i, r := range rows {
			if i > 0 {
				b.WriteString(", ")
			}
			fmt.Fprintf(&b, "(%s, %s)", leanStr(r[0]), r[1])
		}
		b.WriteString("]\n\n")
	}
	b.WriteString(footer("Layouts"))
	return genFile{"Layouts", b.String()}, nil
}
