package main

import (
	"fmt"
	"go/ast"
	"go/token"
	"strings"
)

// SflowLayouts: the ordered (field, octets) read sequences of the sFlow counter records
// (`fields := []interface{}{&x.F, …}` followed by the read loop) and of the extended switch record
// (a chain of `read(r, &es.F)`), with widths taken from the struct declarations. Fail closed.
func init() { generators = append(generators, genSflowLayouts) }

var goWidth = map[string]int{"uint8": 1, "byte": 1, "uint16": 2, "uint32": 4, "uint64": 8, "int32": 4, "int64": 8}

func structFields(f *ast.File, name string) map[string]string {
	out := map[string]string{}
	for _, d := range f.Decls {
		gd, ok := d.(*ast.GenDecl)
		if !ok || gd.Tok != token.TYPE {
			continue
		}
		for _, s := range gd.Specs {
			ts := s.(*ast.TypeSpec)
			st, ok := ts.Type.(*ast.StructType)
			if !ok || ts.Name.Name != name {
				continue
			}
			for _, fl := range st.Fields.List {
				if id, ok := fl.Type.(*ast.Ident); ok {
					for _, n := range fl.Names {
						out[n.Name] = id.Name
					}
				}
			}
		}
	}
	return out
}

func genSflowLayouts(repo string) (genFile, error) {
	var b strings.Builder
	b.WriteString(header("SflowLayouts", "sflow/flow_counter.go and sflow/flow_sample.go"))
	emit := func(lean, file, recv string, listStyle bool) error {
		fset, f, err := parseFile(repo, file)
		if err != nil {
			return err
		}
		types := structFields(f, recv)
		fd := funcDecl(f, recv, "unmarshal")
		var rows [][2]string
		bad := func(t string) { rows = append(rows, [2]string{"!unrecognised " + t, "0"}) }
		if fd == nil {
			bad("unmarshal missing")
		} else {
			rn := fd.Recv.List[0].Names[0].Name
			field := func(e ast.Expr) {
				t := src(fset, e)
				if !strings.HasPrefix(t, "&"+rn+".") {
					bad(t)
					return
				}
				n := t[len(rn)+2:]
				w, ok := goWidth[types[n]]
				if !ok {
					bad(t + " of type " + types[n])
					return
				}
				rows = append(rows, [2]string{n, fmt.Sprint(w)})
			}
			for _, st := range fd.Body.List {
				t := src(fset, st)
				switch s := st.(type) {
				case *ast.DeclStmt:
					if t == "var err error" {
						continue
					}
				case *ast.AssignStmt:
					// fields := []interface{}{ &x.A, &x.B, … }
					if listStyle && len(s.Lhs) == 1 && src(fset, s.Lhs[0]) == "fields" {
						if cl, ok := s.Rhs[0].(*ast.CompositeLit); ok && src(fset, cl.Type) == "[]interface{}" {
							for _, e := range cl.Elts {
								field(e)
							}
							continue
						}
					}
					// err = read(r, &x.F)
					if !listStyle && len(s.Lhs) == 1 && src(fset, s.Lhs[0]) == "err" {
						if c, ok := s.Rhs[0].(*ast.CallExpr); ok && src(fset, c.Fun) == "read" && len(c.Args) == 2 {
							field(c.Args[1])
							continue
						}
					}
				case *ast.RangeStmt:
					if listStyle && t == "for _, field := range fields { if err = read(r, field); err != nil { return err } }" {
						continue
					}
				case *ast.IfStmt:
					// if err = read(r, &x.F); err != nil { return err }
					if as, ok := s.Init.(*ast.AssignStmt); ok && !listStyle && src(fset, s.Cond) == "err != nil" && src(fset, s.Body) == "{ return err }" {
						if c, ok := as.Rhs[0].(*ast.CallExpr); ok && src(fset, c.Fun) == "read" && len(c.Args) == 2 {
							field(c.Args[1])
							continue
						}
					}
				case *ast.ReturnStmt:
					if t == "return nil" || t == "return err" {
						continue
					}
				}
				bad(t)
			}
		}
		fmt.Fprintf(&b, "/-- %s.unmarshal in %s: (field, octets) in read order -/\ndef %s : List (String × Nat) := [", recv, file, lean)
		for i, r := range rows {
			if i > 0 {
				b.WriteString(", ")
			}
			fmt.Fprintf(&b, "(%s, %s)", leanStr(r[0]), r[1])
		}
		b.WriteString("]\n\n")
		return nil
	}
	for _, e := range []struct {
		lean, file, recv string
		list             bool
	}{
		{"genericIf", "sflow/flow_counter.go", "GenericInterfaceCounters", true},
		{"ethernetIf", "sflow/flow_counter.go", "EthernetInterfaceCounters", true},
		{"tokenRing", "sflow/flow_counter.go", "TokenRingCounters", true},
		{"vg", "sflow/flow_counter.go", "VGCounters", true},
		{"vlan", "sflow/flow_counter.go", "VlanCounters", true},
		{"processor", "sflow/flow_counter.go", "ProcessorCounters", true},
		{"extSwitch", "sflow/flow_sample.go", "ExtSwitchData", false},
	} {
		if err := emit(e.lean, e.file, e.recv, e.list); err != nil {
			return genFile{}, err
		}
	}
	b.WriteString(footer("SflowLayouts"))
	return genFile{"SflowLayouts", b.String()}, nil
}
