package main

import (
	"fmt"
	"go/ast"
	"strings"
)

// CacheKey: how the template cache is keyed (the statements of getShard in both cache files) and with
// which arguments the cache is consulted / filled outside the decoders (peer RPC): C04's tie to the source.
func init() { generators = append(generators, genCacheKey) }

func genCacheKey(repo string) (genFile, error) {
	var b strings.Builder
	b.WriteString(header("CacheKey", "ipfix/memcache.go, netflow/v9/memcache.go, ipfix/memcache_rpc.go, ipfix/decoder.go, netflow/v9/decoder.go"))
	for _, e := range []struct{ lean, file string }{{"ipfixGetShard", "ipfix/memcache.go"}, {"nf9GetShard", "netflow/v9/memcache.go"}} {
		fset, f, err := parseFile(repo, e.file)
		if err != nil {
			return genFile{}, err
		}
		var sts []string
		if fd := funcDecl(f, "MemCache", "getShard"); fd != nil {
			for _, st := range fd.Body.List {
				sts = append(sts, leanStr(src(fset, st)))
			}
		} else {
			sts = []string{leanStr("!unrecognised: getShard missing")}
		}
		fmt.Fprintf(&b, "/-- the statements of MemCache.getShard in %s -/\ndef %s : List String := [\n  %s\n]\n\n", e.file, e.lean, strings.Join(sts, ",\n  "))
	}
	// every call of insert / retrieve outside the cache files themselves, with its printed arguments
	for _, e := range []struct{ lean, file string }{
		{"ipfixRpcCalls", "ipfix/memcache_rpc.go"}, {"ipfixDecoderCalls", "ipfix/decoder.go"}, {"nf9DecoderCalls", "netflow/v9/decoder.go"}} {
		fset, f, err := parseFile(repo, e.file)
		if err != nil {
			return genFile{}, err
		}
		var calls []string
		ast.Inspect(f, func(n ast.Node) bool {
			if c, ok := n.(*ast.CallExpr); ok {
				if sel, ok := c.Fun.(*ast.SelectorExpr); ok && (sel.Sel.Name == "insert" || sel.Sel.Name == "retrieve") {
					calls = append(calls, leanStr(src(fset, c)))
				}
			}
			return true
		})
		fmt.Fprintf(&b, "/-- calls of the cache's insert / retrieve in %s -/\ndef %s : List String := [%s]\n\n", e.file, e.lean, strings.Join(calls, ", "))
	}
	b.WriteString(footer("CacheKey"))
	return genFile{"CacheKey", b.String()}, nil
}
