package main

import (
	"fmt"
	"go/ast"
	"strings"
)

// CacheKey: how the template cache is keyed (the statements of getShard in both cache files) and with
// which arguments the cache is consulted / filled outside the decoders (peer RPC): C04's tie to the source.
func init() { generators = append(generators, genCacheKey) }

func genCacheKey(repo string) (genFile, error) {
	var b strings.Builder
	b.WriteString(header("CacheKey", "ipfix/memcache.go, netflow/v9/memcache.go, ipfix/memcache_rpc.go, ipfix/decoder.go, netflow/v9/decoder.go"))
	for _, e := range []struct{ lean, file string }{{"ipfixGetShard", "ipfix/memcache.go"}, {"nf9GetShard", "netflow/v9/memcache.go"}} {
		fset, f, err := parseFile(repo, e.file)
		if err != nil {
			return genFile{}, err
		}
		var sts []string
		if fd := funcDecl(f, "MemCache", "getShard"); fd != nil {
			for _, st := range fd.Body.List {
				sts = append(sts, leanStr(src(fset, st)))
			}
		} else {
			sts = []string{leanStr("!unrecognised: getShard missing")}
		}
		fmt.Fprintf(&b, "/-- the statements of MemCache.getShard in %s -/\ndef %s : List String := [\n  %s\n]\n\n", e.file, e.lean, strings.Join(sts, ",\n  "))
		// how the key getShard returns is used: the signature of getShard, the type of the shard's map, every statement
		// of insert and retrieve (anything missing is a value no theorem accepts)
		base := strings.TrimSuffix(e.lean, "GetShard")
		sig := "!unrecognised: getShard missing"
		if fd := funcDecl(f, "MemCache", "getShard"); fd != nil {
			sig = src(fset, fd.Type)
		}
		fmt.Fprintf(&b, "/-- parameters and results of MemCache.getShard in %s -/\ndef %sGetShardSig : String := %s\n\n", e.file, base, leanStr(sig))
		mapType := "!unrecognised: TemplatesShard.Templates missing"
		nMaps := 0
		ast.Inspect(f, func(n ast.Node) bool {
			ts, ok := n.(*ast.TypeSpec)
			if !ok || ts.Name.Name != "TemplatesShard" {
				return true
			}
			if st, ok := ts.Type.(*ast.StructType); ok {
				for _, fl := range st.Fields.List {
					for _, nm := range fl.Names {
						if nm.Name == "Templates" {
							mapType = src(fset, fl.Type)
							nMaps++
						}
					}
				}
			}
			return false
		})
		if nMaps != 1 {
			mapType = fmt.Sprintf("!unrecognised: %d Templates fields", nMaps)
		}
		fmt.Fprintf(&b, "/-- the type of TemplatesShard.Templates in %s -/\ndef %sMapType : String := %s\n\n", e.file, base, leanStr(mapType))
		for _, fn := range []string{"insert", "retrieve"} {
			var body []string
			if fd := funcDecl(f, "MemCache", fn); fd != nil {
				for _, st := range fd.Body.List {
					body = append(body, leanStr(src(fset, st)))
				}
			} else {
				body = []string{leanStr("!unrecognised: " + fn + " missing")}
			}
			fmt.Fprintf(&b, "/-- the statements of MemCache.%s in %s -/\ndef %s%s : List String := [\n  %s\n]\n\n", fn, e.file, base, strings.Title(fn), strings.Join(body, ",\n  "))
		}
		// the packages behind the identifiers getShard uses (an alias or a dot import shows in the text)
		var imps []string
		for _, im := range f.Imports {
			imps = append(imps, leanStr(src(fset, im)))
		}
		fmt.Fprintf(&b, "/-- the import specs of %s -/\ndef %sImports : List String := [%s]\n\n", e.file, base, strings.Join(imps, ", "))
		// every other mention of the maps' key in the file (an index expression on .Templates outside insert / retrieve,
		// a second caller of getShard) would be a second way to reach an entry
		var others []string
		for _, d := range f.Decls {
			fd, ok := d.(*ast.FuncDecl)
			if !ok || fd.Body == nil || fd.Name.Name == "insert" || fd.Name.Name == "retrieve" {
				continue
			}
			ast.Inspect(fd.Body, func(n ast.Node) bool {
				switch x := n.(type) {
				case *ast.IndexExpr:
					if sel, ok := x.X.(*ast.SelectorExpr); ok && sel.Sel.Name == "Templates" {
						others = append(others, leanStr(fd.Name.Name+": "+src(fset, x)))
					}
				case *ast.CallExpr:
					if sel, ok := x.Fun.(*ast.SelectorExpr); ok && sel.Sel.Name == "getShard" {
						others = append(others, leanStr(fd.Name.Name+": "+src(fset, x)))
					}
				}
				return true
			})
		}
		fmt.Fprintf(&b, "/-- index expressions on .Templates and calls of getShard outside insert / retrieve in %s -/\ndef %sOtherKeyUses : List String := [%s]\n\n", e.file, base, strings.Join(others, ", "))
	}
	// every call of insert / retrieve outside the cache files themselves, with its printed arguments
	for _, e := range []struct{ lean, file string }{
		{"ipfixRpcCalls", "ipfix/memcache_rpc.go"}, {"ipfixDecoderCalls", "ipfix/decoder.go"}, {"nf9DecoderCalls", "netflow/v9/decoder.go"}} {
		fset, f, err := parseFile(repo, e.file)
		if err != nil {
			return genFile{}, err
		}
		var calls []string
		ast.Inspect(f, func(n ast.Node) bool {
			if c, ok := n.(*ast.CallExpr); ok {
				if sel, ok := c.Fun.(*ast.SelectorExpr); ok && (sel.Sel.Name == "insert" || sel.Sel.Name == "retrieve") {
					calls = append(calls, leanStr(src(fset, c)))
				}
			}
			return true
		})
		fmt.Fprintf(&b, "/-- calls of the cache's insert / retrieve in %s -/\ndef %s : List String := [%s]\n\n", e.file, e.lean, strings.Join(calls, ", "))
	}
	b.WriteString(footer("CacheKey"))
	return genFile{"CacheKey", b.String()}, nil
}
