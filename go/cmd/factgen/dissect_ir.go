package main

import (
	"fmt"
	"go/ast"
	"go/token"
	"math/big"
	"strings"
)

// DissectIR: the field expressions of the sampled-header dissector (packet/{ethernet,network,transport,icmp}.go),
// translated by expr_ir.go.  Per function: the `len(BUF) < K` guards in order, the (field, expression) list of the
// struct it builds in source order (composite literal `T{F: e, …}` or assignments `d.F = e`; a field assigned under an
// `if` is `.ite cond e <zero value>`), and the expression of what is handed on (`p.data = p.data[e:]`).  Local
// variables are inlined (`hlen`, `vlan`, `src`, `dst`).  In the 802.1Q branch of decodeEthernet the buffer is rewritten
// (`p.data[12], p.data[13] = p.data[16], p.data[17]`, `p.data = append(p.data[:14], p.data[18:]...)`): the translator
// follows it symbolically and emits the new buffer as octets of the old one (`vlanData`).
//
// Fail closed: a statement that is none of the shapes below becomes a field ("!stmt", .unrecognised "<go text>").
func init() { generators = append(generators, genDissectIR) }

type dfunc struct {
	guards []string
	fields [][2]string
	rest   string
	data   string // the rewritten buffer, when the function rewrites it
	calls  int
}

type seg struct{ lo, hi int64 } // octets lo..hi-1 of the original buffer; hi < 0: to the end

type dwalk struct {
	c       *xctx
	buf     string            // printed text of the buffer ("p.data" / "b")
	sv      string            // the struct variable whose fields are assigned ("d"), or ""
	callee  string            // accepted `d, err = callee(buf)`
	branch  map[string]*dfunc // condition text -> separate output
	segs    []seg             // current buffer in terms of the original one
	rewrote bool
	okStmt  map[string]bool // statements accepted verbatim (no extraction in them)
}

func (w *dwalk) bad(out *dfunc, n ast.Node) {
	out.fields = append(out.fields, [2]string{"!stmt", ".unrecognised " + leanStr(src(w.c.fset, n))})
}

func isReturn(b *ast.BlockStmt) bool {
	if len(b.List) != 1 {
		return false
	}
	_, ok := b.List[0].(*ast.ReturnStmt)
	return ok
}

// composite: `T{F: e, …}`
func (w *dwalk) composite(out *dfunc, cl *ast.CompositeLit, cond string) bool {
	for _, el := range cl.Elts {
		kv, ok := el.(*ast.KeyValueExpr)
		if !ok {
			return false
		}
		k, ok := kv.Key.(*ast.Ident)
		if !ok {
			return false
		}
		w.field(out, k.Name, kv.Value, cond)
	}
	return true
}

func (w *dwalk) field(out *dfunc, name string, e ast.Expr, cond string) {
	t := w.c.expr(e)
	lean := t.lean
	if cond != "" {
		lean = fmt.Sprintf(".ite %s %s (.lit 0)", cond, par(lean))
	}
	out.fields = append(out.fields, [2]string{name, lean})
	if w.sv != "" {
		w.c.locals[w.sv+"."+name] = t
	}
}

// origIndex: octet i of the current buffer as an index of the original one
func (w *dwalk) origIndex(i int64) (int64, bool) {
	for _, s := range w.segs {
		n := s.hi - s.lo
		if s.hi < 0 {
			return s.lo + i, true
		}
		if i < n {
			return s.lo + i, true
		}
		i -= n
	}
	return 0, false
}

// sub: current[lo:hi] (hi < 0: to the end) as segments of the original
func (w *dwalk) sub(lo, hi int64) []seg {
	var out []seg
	pos := int64(0)
	for _, s := range w.segs {
		a := lo - pos
		if a < 0 {
			a = 0
		}
		if s.hi < 0 { // open segment: covers everything from pos on
			if hi < 0 {
				out = append(out, seg{s.lo + a, -1})
			} else if hi-pos > a {
				out = append(out, seg{s.lo + a, s.lo + (hi - pos)})
			}
			return out
		}
		n := s.hi - s.lo
		b := n
		if hi >= 0 && hi-pos < b {
			b = hi - pos
		}
		if b > a {
			out = append(out, seg{s.lo + a, s.lo + b})
		}
		pos += n
	}
	return out
}

func mergeSegs(in []seg) []seg {
	var out []seg
	for _, s := range in {
		if len(out) > 0 && out[len(out)-1].hi == s.lo {
			out[len(out)-1].hi = s.hi
			continue
		}
		out = append(out, s)
	}
	return out
}

func segsLean(in []seg) string {
	one := func(s seg) string {
		if s.hi < 0 {
			return fmt.Sprintf(".octsFrom (.lit %d)", s.lo)
		}
		return fmt.Sprintf(".octs (.lit %d) (.lit %d)", s.lo, s.hi)
	}
	in = mergeSegs(in)
	if len(in) == 0 {
		return ".octs (.lit 0) (.lit 0)"
	}
	r := one(in[len(in)-1])
	for i := len(in) - 2; i >= 0; i-- {
		r = fmt.Sprintf(".cat (%s) (%s)", one(in[i]), r)
	}
	return r
}

func (w *dwalk) bufIndex(e ast.Expr) (int64, bool) {
	ix, ok := e.(*ast.IndexExpr)
	if !ok || src(w.c.fset, ix.X) != w.buf {
		return 0, false
	}
	k, ok := w.c.constInt(ix.Index)
	if !ok || !k.IsInt64() || k.Sign() < 0 {
		return 0, false
	}
	return k.Int64(), true
}

func (w *dwalk) bufSlice(e ast.Expr) (lo, hi int64, ok bool) {
	sl, isS := e.(*ast.SliceExpr)
	if !isS || sl.Slice3 || src(w.c.fset, sl.X) != w.buf {
		return 0, 0, false
	}
	lo, hi = 0, -1
	if sl.Low != nil {
		k, ok := w.c.constInt(sl.Low)
		if !ok || !k.IsInt64() || k.Sign() < 0 {
			return 0, 0, false
		}
		lo = k.Int64()
	}
	if sl.High != nil {
		k, ok := w.c.constInt(sl.High)
		if !ok || !k.IsInt64() || k.Sign() < 0 {
			return 0, 0, false
		}
		hi = k.Int64()
	}
	return lo, hi, true
}

func (w *dwalk) stmts(out *dfunc, list []ast.Stmt, cond string) {
	fset := w.c.fset
	for _, st := range list {
		txt := src(fset, st)
		if w.okStmt[txt] {
			continue
		}
		switch s := st.(type) {
		case *ast.DeclStmt:
			gd, ok := s.Decl.(*ast.GenDecl)
			if !ok || gd.Tok != token.VAR {
				w.bad(out, st)
				continue
			}
			for _, sp := range gd.Specs {
				vs := sp.(*ast.ValueSpec)
				if len(vs.Values) == 0 {
					continue // zero-valued locals: the struct under construction, err
				}
				if len(vs.Values) != len(vs.Names) {
					w.bad(out, st)
					continue
				}
				for i, n := range vs.Names {
					t := w.c.expr(vs.Values[i])
					if vs.Type != nil && src(fset, vs.Type) == "net.IP" && t.ty == tyBytes {
						t.ip = true
					}
					w.c.locals[n.Name] = t
				}
			}
		case *ast.AssignStmt:
			w.assign(out, s, cond)
		case *ast.IfStmt:
			w.ifStmt(out, s, cond)
		case *ast.ReturnStmt:
			// `return nil` / `return d, nil` / `return T{…}, nil`
			okRet := false
			switch len(s.Results) {
			case 1:
				okRet = txt == "return nil"
			case 2:
				if src(fset, s.Results[1]) == "nil" {
					if cl, ok := s.Results[0].(*ast.CompositeLit); ok {
						okRet = w.composite(out, cl, cond)
					} else if id, ok := s.Results[0].(*ast.Ident); ok && id.Name == w.sv {
						okRet = true
					}
				}
			}
			if !okRet {
				w.bad(out, st)
			}
		default:
			w.bad(out, st)
		}
	}
}

func (w *dwalk) assign(out *dfunc, s *ast.AssignStmt, cond string) {
	fset := w.c.fset
	// p.data[i], p.data[j] = p.data[k], p.data[l]
	if len(s.Lhs) == len(s.Rhs) && len(s.Lhs) > 1 && s.Tok == token.ASSIGN {
		var dst, from []int64
		for i := range s.Lhs {
			a, ok1 := w.bufIndex(s.Lhs[i])
			b, ok2 := w.bufIndex(s.Rhs[i])
			if !ok1 || !ok2 {
				w.bad(out, s)
				return
			}
			o, ok := w.origIndex(b)
			if !ok {
				w.bad(out, s)
				return
			}
			dst, from = append(dst, a), append(from, o)
		}
		for i, a := range dst {
			w.segs = append(append(w.sub(0, a), seg{from[i], from[i] + 1}), w.sub(a+1, -1)...)
		}
		w.rewrote = true
		return
	}
	if len(s.Lhs) == 2 && len(s.Rhs) == 1 && s.Tok == token.ASSIGN && w.callee != "" &&
		src(fset, s.Lhs[0]) == w.sv && src(fset, s.Lhs[1]) == "err" && src(fset, s.Rhs[0]) == w.callee+"("+w.buf+")" {
		// d, err = decodeIEEE802(p.data): the callee is translated on its own; here only the buffer it gets
		out.calls++
		if w.rewrote {
			out.data = segsLean(w.segs)
		}
		return
	}
	if len(s.Lhs) != 1 || len(s.Rhs) != 1 {
		w.bad(out, s)
		return
	}
	lhs := src(fset, s.Lhs[0])
	switch {
	case s.Tok == token.DEFINE:
		id, ok := s.Lhs[0].(*ast.Ident)
		if !ok {
			w.bad(out, s)
			return
		}
		if bl, ok := s.Rhs[0].(*ast.BasicLit); ok && bl.Kind == token.STRING {
			w.c.strs[id.Name] = strings.Trim(bl.Value, "\"`")
			return
		}
		t := w.c.expr(s.Rhs[0])
		if t.ty == tyUntyped {
			t.ty = tyInt
		}
		w.c.locals[id.Name] = t
		if t.bad { // keep the unrecognised text visible even if the local is never used
			out.fields = append(out.fields, [2]string{"!local " + id.Name, t.lean})
		}
	case s.Tok == token.ASSIGN && w.sv != "" && strings.HasPrefix(lhs, w.sv+".") && !strings.Contains(lhs[len(w.sv)+1:], "."):
		w.field(out, lhs[len(w.sv)+1:], s.Rhs[0], cond)
	case s.Tok == token.ASSIGN && lhs == w.buf:
		// p.data = p.data[e:]  |  p.data = append(p.data[:a], p.data[b:]...)
		if ce, ok := s.Rhs[0].(*ast.CallExpr); ok && src(fset, ce.Fun) == "append" && len(ce.Args) == 2 && ce.Ellipsis.IsValid() {
			_, a, ok1 := w.bufSlice(ce.Args[0])
			b, e, ok2 := w.bufSlice(ce.Args[1])
			if ok1 && ok2 && a >= 0 && e < 0 && src(fset, ce.Args[0].(*ast.SliceExpr).X) == w.buf && ce.Args[0].(*ast.SliceExpr).Low == nil {
				w.segs = append(w.sub(0, a), w.sub(b, -1)...)
				w.rewrote = true
				return
			}
			w.bad(out, s)
			return
		}
		if sl, ok := s.Rhs[0].(*ast.SliceExpr); ok && sl.High == nil && sl.Low != nil && !sl.Slice3 && src(fset, sl.X) == w.buf {
			t := w.c.expr(sl.Low)
			if !t.bad && t.ty != tyBytes && out.rest == "" {
				out.rest = ".octsFrom " + par(t.lean)
				return
			}
		}
		w.bad(out, s)
	case s.Tok == token.ASSIGN && (strings.HasPrefix(lhs, "p.L")):
		// p.L3 = T{…}  |  p.L2 = d
		if cl, ok := s.Rhs[0].(*ast.CompositeLit); ok {
			if !w.composite(out, cl, cond) {
				w.bad(out, s)
			}
			return
		}
		if src(fset, s.Rhs[0]) == w.sv && w.sv != "" {
			return
		}
		w.bad(out, s)
	default:
		w.bad(out, s)
	}
}

func (w *dwalk) ifStmt(out *dfunc, s *ast.IfStmt, cond string) {
	fset := w.c.fset
	ctxt := src(fset, s.Cond)
	if s.Init != nil || s.Else != nil {
		w.bad(out, s)
		return
	}
	// error propagation
	if ctxt == "err != nil" && isReturn(s.Body) {
		return
	}
	// if len(BUF) < e { return … }
	if be, ok := s.Cond.(*ast.BinaryExpr); ok && be.Op == token.LSS && src(fset, be.X) == "len("+w.buf+")" && isReturn(s.Body) {
		t := w.c.expr(be.Y)
		out.guards = append(out.guards, t.lean)
		return
	}
	// a separately translated branch
	if sub, ok := w.branch[ctxt]; ok {
		w.stmts(sub, s.Body.List, "")
		return
	}
	// if x op K { x = e }: the local becomes a conditional expression
	if len(s.Body.List) == 1 {
		if as, ok := s.Body.List[0].(*ast.AssignStmt); ok && as.Tok == token.ASSIGN && len(as.Lhs) == 1 && len(as.Rhs) == 1 {
			if id, ok := as.Lhs[0].(*ast.Ident); ok {
				if old, isLocal := w.c.locals[id.Name]; isLocal {
					op, a, b, okc := w.c.splitCmp(s.Cond)
					nv := w.c.expr(as.Rhs[0])
					if okc && !nv.bad && !old.bad && nv.ty != tyBytes {
						bd := old.bound
						if nv.bound.Cmp(bd) > 0 {
							bd = nv.bound
						}
						w.c.locals[id.Name] = tx{lean: fmt.Sprintf(".ite %s %s %s %s %s", op, par(a.lean), par(b.lean), par(nv.lean), par(old.lean)),
							ty: old.ty, bound: bd}
						return
					}
				}
			}
		}
	}
	// if cond { d.F = e; … }: fields under a condition
	if w.sv != "" && cond == "" {
		op, a, b, okc := w.c.splitCmp(s.Cond)
		if okc {
			all := true
			for _, b := range s.Body.List {
				as, ok := b.(*ast.AssignStmt)
				if !ok || as.Tok != token.ASSIGN || len(as.Lhs) != 1 || !strings.HasPrefix(src(fset, as.Lhs[0]), w.sv+".") {
					all = false
				}
			}
			if all {
				w.stmts(out, s.Body.List, fmt.Sprintf("%s %s %s", op, par(a.lean), par(b.lean)))
				return
			}
		}
	}
	w.bad(out, s)
}

type dsrc struct {
	lean, file, recv, fn, buf, sv string
}

func genDissectIR(repo string) (genFile, error) {
	var b strings.Builder
	b.WriteString("import Vflow.Model.DissectIR\n")
	b.WriteString(header("DissectIR", "packet/ethernet.go, packet/network.go, packet/transport.go, packet/icmp.go"))
	b.WriteString("open Vflow.DissectIR\n\n")
	consts := map[string]*big.Int{}
	files := map[string]*ast.File{}
	fsets := map[string]*token.FileSet{}
	for _, rel := range []string{"packet/ethernet.go", "packet/network.go", "packet/transport.go", "packet/icmp.go", "packet/packet.go"} {
		fset, f, err := parseFile(repo, rel)
		if err != nil {
			return genFile{}, err
		}
		files[rel], fsets[rel] = f, fset
		collectConsts(f, consts)
	}
	emitList := func(name, doc string, l []string) {
		fmt.Fprintf(&b, "/-- %s -/\ndef %s : List Expr := [", doc, name)
		for i, g := range l {
			if i > 0 {
				b.WriteString(",")
			}
			b.WriteString("\n  " + g)
		}
		b.WriteString("]\n\n")
	}
	emitFields := func(name, doc string, l [][2]string) {
		fmt.Fprintf(&b, "/-- %s -/\ndef %s : List (String × Expr) := [", doc, name)
		for i, f := range l {
			if i > 0 {
				b.WriteString(",")
			}
			fmt.Fprintf(&b, "\n  (%s, %s)", leanStr(f[0]), f[1])
		}
		b.WriteString("]\n\n")
	}
	emitExpr := func(name, doc, e string) {
		if e == "" {
			e = ".unrecognised \"missing\""
		}
		fmt.Fprintf(&b, "/-- %s -/\ndef %s : Expr :=\n  %s\n\n", doc, name, e)
	}
	walk := func(d dsrc, branch map[string]*dfunc, callee string, vars map[string]tx) *dfunc {
		out := &dfunc{}
		fd := funcDecl(files[d.file], d.recv, d.fn)
		if fd == nil || fd.Body == nil {
			out.fields = append(out.fields, [2]string{"!stmt", ".unrecognised \"function missing\""})
			return out
		}
		c := &xctx{fset: fsets[d.file], consts: consts, base: map[string]string{d.buf: ""}, locals: map[string]tx{}, strs: map[string]string{}}
		for k, v := range vars {
			c.locals[k] = v
		}
		w := &dwalk{c: c, buf: d.buf, sv: d.sv, callee: callee, branch: branch, segs: []seg{{0, -1}}}
		w.stmts(out, fd.Body.List, "")
		return out
	}

	// decodeIEEE802
	ie := walk(dsrc{file: "packet/ethernet.go", fn: "decodeIEEE802", buf: "b", sv: "d"}, nil, "", nil)
	emitList("ieee802Guards", "decodeIEEE802 (packet/ethernet.go): the bounds K of its `len(b) < K` guards, in source order", ie.guards)
	emitFields("ieee802", "decodeIEEE802: the assignments to the `Datalink` it returns, in source order (a field set under an `if` is `.ite cond e 0`)", ie.fields)

	// decodeEthernet, with the 802.1Q branch on its own
	vl := &dfunc{}
	et := walk(dsrc{file: "packet/ethernet.go", recv: "Packet", fn: "decodeEthernet", buf: "p.data", sv: "d"},
		map[string]*dfunc{"d.EtherType == EtherTypeIEEE8021Q": vl}, "decodeIEEE802",
		map[string]tx{"d.EtherType": {lean: ".var \"EtherType\"", ty: tyU16, bound: maxOf(tyU16)}})
	emitList("ethGuards", "Packet.decodeEthernet: `len(p.data) < K` guards outside the 802.1Q branch", et.guards)
	tag := ".unrecognised \"no 802.1Q branch\""
	if v, ok := consts["EtherTypeIEEE8021Q"]; ok {
		tag = fmt.Sprintf(".ite .eq (.var \"EtherType\") (.lit %s) (.lit 1) (.lit 0)", v.String())
	}
	emitExpr("ethTagged", "Packet.decodeEthernet: the condition of the 802.1Q branch, over the `EtherType` decodeIEEE802 returned (`d.EtherType == EtherTypeIEEE8021Q`)", tag)
	emitFields("eth", "Packet.decodeEthernet outside the 802.1Q branch: nothing but statements without extraction is expected here", et.fields)
	emitExpr("ethRest", "Packet.decodeEthernet: `p.data = p.data[e:]` — relative to the buffer as it is then (`vlanData` in the 802.1Q branch)", et.rest)
	emitList("vlanGuards", "the 802.1Q branch of Packet.decodeEthernet: `len(p.data) < K` guards", vl.guards)
	emitFields("vlan", "the 802.1Q branch: fields assigned to the `Datalink` (`vlan` inlined)", vl.fields)
	emitExpr("vlanData", "the 802.1Q branch: the buffer handed to the second decodeIEEE802, as octets of the sampled header (after `p.data[12], p.data[13] = p.data[16], p.data[17]` and `append(p.data[:14], p.data[18:]...)`)", vl.data)
	fmt.Fprintf(&b, "/-- calls of decodeIEEE802(p.data) outside / inside the 802.1Q branch -/\ndef ethCalls : Nat × Nat := (%d, %d)\n\n", et.calls, vl.calls)

	for _, d := range []dsrc{
		{"ipv6", "packet/network.go", "Packet", "decodeIPv6Header", "p.data", ""},
		{"ipv4", "packet/network.go", "Packet", "decodeIPv4Header", "p.data", ""},
		{"tcp", "packet/transport.go", "", "decodeTCP", "b", ""},
		{"udp", "packet/transport.go", "", "decodeUDP", "b", ""},
		{"icmp", "packet/icmp.go", "", "decodeICMP", "b", ""},
	} {
		o := walk(d, nil, "", nil)
		emitList(d.lean+"Guards", d.fn+" ("+d.file+"): the bounds of its `len("+d.buf+") < e` guards, in source order (locals inlined)", o.guards)
		emitFields(d.lean, d.fn+": the fields of the struct it builds, in source order", o.fields)
		if d.recv != "" {
			emitExpr(d.lean+"Rest", d.fn+": what is handed to the next layer (`p.data = p.data[e:]`)", o.rest)
		}
	}
	b.WriteString(footer("DissectIR"))
	return genFile{"DissectIR", b.String()}, nil
}
