package main

// IpfixIR, V9IR (C03 / C06 / C09): the functions of ipfix/decoder.go and of netflow/v9/decoder.go (two profiles of one
// translator) translated, statement by statement, from the Go AST into the IR of lean/Vflow/Model/IpfixIR.lean
// (expressions, assignments, if / for / range / break / return, the type switch on nonfatalError, calls).  The Lean side
// interprets the IR with Go's semantics and Props/C03, C06, C09 prove, for every state and argument, that each translated
// function IS the function of the hand-written model (Vflow.Ipfix / Vflow.V9).
//
// What the translation does (everything else is left to the interpreter):
//   * locals are numbered: receiver / parameters first, then every declaration in source order.  Which declaration an
//     identifier refers to is go/parser's own resolution (ast.Ident.Obj), so shadowing (`tr := TemplateRecord{}` inside
//     the loop of decodeSet, `err` in an if-init) is Go's, and a renamed local gives the same IR;
//   * the static type of an arithmetic expression is inferred from the struct declarations, the signatures of the
//     translated functions and of the reader's methods, and written on the operator (`+`, `-` wrap at that type);
//   * `x++`, `x--`, `x += e` are spelled out as assignments; `for init; c; post {…}` is `init` followed by a loop;
//   * the receiver `*Decoder`, every `*reader.Reader` and the `MemCache` are not values of the IR: they are the decoder
//     state itself (`ambient`).  `r := d.reader` therefore declares a second name for the reader and is no statement;
//   * a pointer to a struct (pointer receivers, `*Message`) is passed as a place (copy-in / copy-out);
//   * `fmt.Errorf(format, args…)`: the format string and the arguments are kept, the rendered text is not modelled.
//
// Fail closed: a statement, expression or type that matches none of the shapes below becomes `.unrecognised "<go>"`
// (`.other "<go>"` for a type), on which the interpreter has no result — no theorem about that function can be proved.

import (
	"fmt"
	"go/ast"
	"go/token"
	"strconv"
	"strings"
)

func init() { generators = append(generators, genIpfixIR, genV9IR) }

type irFuncSrc struct{ lean, recv, name string }

type irProfile struct {
	module  string   // Lean module name under Vflow.Gen
	model   string   // Lean module with the IR
	dir     string   // package directory
	files   []string // files whose struct declarations are read
	decoder string   // file with the functions
	funcs   []irFuncSrc
	// struct name -> IR type; a pointer to it is passed by reference
	structs map[string]string
	// named non-struct types
	named map[string]string
	// the package name under which ipfix's InfoModel / ElementKey / Interpret are imported ("" inside package ipfix)
	ipfixPkg string
}

var ipfixIRProfile = irProfile{
	module:  "IpfixIR",
	model:   "Vflow.Model.IpfixIR",
	dir:     "ipfix",
	files:   []string{"ipfix/decoder.go", "ipfix/rfc5102_model.go"},
	decoder: "ipfix/decoder.go",
	funcs: []irFuncSrc{
		{"getDataLength", "Decoder", "getDataLength"},
		{"minRecordLen", "TemplateRecord", "minRecordLen"},
		{"decodeData", "Decoder", "decodeData"},
		{"fieldSpecUnmarshal", "TemplateFieldSpecifier", "unmarshal"},
		{"tplHeaderUnmarshal", "TemplateHeader", "unmarshal"},
		{"tplHeaderUnmarshalOpts", "TemplateHeader", "unmarshalOpts"},
		{"tplRecordUnmarshal", "TemplateRecord", "unmarshal"},
		{"tplRecordUnmarshalOpts", "TemplateRecord", "unmarshalOpts"},
		{"setHeaderUnmarshal", "SetHeader", "unmarshal"},
		{"msgHeaderUnmarshal", "MessageHeader", "unmarshal"},
		{"msgHeaderValidate", "MessageHeader", "validate"},
		{"decodeSet", "Decoder", "decodeSet"},
		{"decode", "Decoder", "Decode"},
	},
	structs: map[string]string{
		"TemplateFieldSpecifier": ".fieldSpec", "TemplateHeader": ".tplHeader", "TemplateRecord": ".tplRecord",
		"SetHeader": ".setHeader", "MessageHeader": ".msgHeader", "InfoElementEntry": ".elem", "DecodedField": ".dfield",
		"Message": ".message",
	},
	named: map[string]string{"FieldType": ".int"},
}

var v9IRProfile = irProfile{
	module:  "V9IR",
	model:   "Vflow.Model.IpfixIR",
	dir:     "netflow/v9",
	files:   []string{"netflow/v9/decoder.go", "ipfix/rfc5102_model.go"},
	decoder: "netflow/v9/decoder.go",
	funcs: []irFuncSrc{
		{"minRecordLen", "TemplateRecord", "minRecordLen"},
		{"decodeData", "Decoder", "decodeData"},
		{"fieldSpecUnmarshal", "TemplateFieldSpecifier", "unmarshal"},
		{"tplHeaderUnmarshal", "TemplateHeader", "unmarshal"},
		{"tplHeaderUnmarshalOpts", "TemplateHeader", "unmarshalOpts"},
		{"tplRecordUnmarshal", "TemplateRecord", "unmarshal"},
		{"tplRecordUnmarshalOpts", "TemplateRecord", "unmarshalOpts"},
		{"setHeaderUnmarshal", "SetHeader", "unmarshal"},
		{"pktHeaderUnmarshal", "PacketHeader", "unmarshal"},
		{"pktHeaderValidate", "PacketHeader", "validate"},
		{"decodeSet", "Decoder", "decodeSet"},
		{"decode", "Decoder", "Decode"},
	},
	structs: map[string]string{
		"TemplateFieldSpecifier": ".fieldSpec", "TemplateHeader": ".tplHeader9", "TemplateRecord": ".tplRecord",
		"SetHeader": ".setHeader", "PacketHeader": ".pktHeader", "InfoElementEntry": ".elem", "DecodedField": ".dfield",
		"Message": ".message9",
	},
	named:    map[string]string{"FieldType": ".int"},
	ipfixPkg: "ipfix",
}

// ---- types ----

const irTyUntyped = "untyped" // an integer constant: takes the type of the other operand

func (g *irGen) tyOfTypeExpr(e ast.Expr) string {
	switch t := e.(type) {
	case *ast.Ident:
		switch t.Name {
		case "uint8", "byte":
			return ".u8"
		case "uint16":
			return ".u16"
		case "uint32":
			return ".u32"
		case "int":
			return ".int"
		case "bool":
			return ".bool"
		case "error":
			return ".error"
		}
		if ty, ok := g.p.structs[t.Name]; ok {
			return ty
		}
		if ty, ok := g.p.named[t.Name]; ok {
			return ty
		}
	case *ast.SelectorExpr:
		if id, ok := t.X.(*ast.Ident); ok && g.p.ipfixPkg != "" && id.Name == g.p.ipfixPkg && id.Obj == nil {
			if ty, ok := g.p.structs[t.Sel.Name]; ok {
				return ty
			}
			if ty, ok := g.p.named[t.Sel.Name]; ok {
				return ty
			}
		}
	case *ast.StarExpr:
		if id, ok := t.X.(*ast.Ident); ok {
			if ty, ok := g.p.structs[id.Name]; ok {
				return ty
			}
		}
	case *ast.InterfaceType:
		if t.Methods == nil || len(t.Methods.List) == 0 {
			return ".any"
		}
	case *ast.ArrayType:
		if t.Len == nil {
			switch g.tyOfTypeExpr(t.Elt) {
			case ".u8":
				return ".bytes"
			case ".error":
				return ".errors"
			case ".fieldSpec":
				return ".fieldSpecs"
			case ".dfield":
				return ".dfields"
			case ".dfields":
				return ".dsets"
			}
		}
	}
	return "(.other " + leanStr(src(g.fset, e)) + ")"
}

func isOther(ty string) bool { return strings.HasPrefix(ty, "(.other") || ty == "" }

func elemTy(ty string) string {
	switch ty {
	case ".bytes":
		return ".u8"
	case ".errors":
		return ".error"
	case ".fieldSpecs":
		return ".fieldSpec"
	case ".dfields":
		return ".dfield"
	case ".dsets":
		return ".dfields"
	}
	return ""
}

func isIntTy(ty string) bool { return ty == ".u8" || ty == ".u16" || ty == ".u32" || ty == ".int" }

// ambient kinds of a type expression: "decoder", "reader", "cache" or ""
func ambientKind(fset *token.FileSet, e ast.Expr) string {
	switch src(fset, e) {
	case "*Decoder":
		return "decoder"
	case "*reader.Reader":
		return "reader"
	case "MemCache":
		return "cache"
	}
	return ""
}

// ---- generator state ----

type irVar struct {
	slot    int
	ty      string
	ambient string // "decoder" / "reader" / "cache": no slot
	ref     bool   // pointer to a struct
}

type irSig struct {
	lean    string
	fd      *ast.FuncDecl
	recv    string   // receiver type name ("" for a plain function)
	params  []string // Lean ParamKind per receiver / parameter
	kinds   []string // "val" / "ref" / "decoder" / "reader" / "cache"
	ptys    []string
	results []string
}

type irGen struct {
	p      *irProfile
	fset   *token.FileSet
	fields map[string]map[string]string // struct -> field -> IR type
	order  map[string][]string          // struct -> field names in declaration order
	sigs   map[string]*irSig            // "Recv.name" -> signature
	// per function
	vars       map[*ast.Object]*irVar
	nslots     int
	names      []string
	curResults []string
	decls      [][2]string
}

func (g *irGen) unrecS(n ast.Node) string { return "(.unrecognised " + leanStr(src(g.fset, n)) + ")" }

func (g *irGen) newSlot(obj *ast.Object, ty string) *irVar {
	v := &irVar{slot: g.nslots, ty: ty}
	g.nslots++
	g.names = append(g.names, obj.Name)
	g.vars[obj] = v
	return v
}

func (g *irGen) lookup(id *ast.Ident) *irVar {
	if id.Obj == nil {
		return nil
	}
	return g.vars[id.Obj]
}

// structName: the struct an IR type stands for
func (g *irGen) structOfTy(ty string) string {
	for n, t := range g.p.structs {
		if t == ty {
			return n
		}
	}
	return ""
}

// ---- expressions ----

// isReader: an expression denoting the decoder's reader (`d.reader`, or a local / parameter of type *reader.Reader)
func (g *irGen) isReader(e ast.Expr) bool {
	switch x := e.(type) {
	case *ast.Ident:
		v := g.lookup(x)
		return v != nil && v.ambient == "reader"
	case *ast.SelectorExpr:
		if id, ok := x.X.(*ast.Ident); ok && x.Sel.Name == "reader" {
			v := g.lookup(id)
			return v != nil && v.ambient == "decoder"
		}
	}
	return false
}

func (g *irGen) isAmbient(e ast.Expr, kind string) bool {
	if kind == "reader" {
		return g.isReader(e)
	}
	id, ok := e.(*ast.Ident)
	if !ok {
		return false
	}
	v := g.lookup(id)
	return v != nil && v.ambient == kind
}

// isRaddr: `d.raddr`
func (g *irGen) isRaddr(e ast.Expr) bool {
	x, ok := e.(*ast.SelectorExpr)
	if !ok || x.Sel.Name != "raddr" {
		return false
	}
	id, ok := x.X.(*ast.Ident)
	if !ok {
		return false
	}
	v := g.lookup(id)
	return v != nil && v.ambient == "decoder"
}

func pkgSel(e ast.Expr, pkg, name string) bool {
	x, ok := e.(*ast.SelectorExpr)
	if !ok || x.Sel.Name != name {
		return false
	}
	id, ok := x.X.(*ast.Ident)
	return ok && id.Name == pkg && id.Obj == nil
}

func universe(e ast.Expr, name string) bool {
	id, ok := e.(*ast.Ident)
	return ok && id.Name == name && id.Obj == nil
}

// pkgLevel: an identifier declared at package level in this file or another file of the package (not a local)
func (g *irGen) pkgLevel(e ast.Expr, name string) bool {
	id, ok := e.(*ast.Ident)
	if !ok || id.Name != name {
		return false
	}
	return id.Obj == nil || g.vars[id.Obj] == nil
}

// ipfixName: `name` of package ipfix — a package-level identifier inside that package, `ipfix.name` elsewhere
func (g *irGen) ipfixName(e ast.Expr, name string) bool {
	if g.p.ipfixPkg == "" {
		return g.pkgLevel(e, name)
	}
	return pkgSel(e, g.p.ipfixPkg, name)
}

var irConvTypes = map[string]string{"int": ".int", "uint8": ".u8", "uint16": ".u16", "uint32": ".u32"}

// expr returns the Lean term and the IR type ("" when unknown)
func (g *irGen) expr(e ast.Expr) (string, string) {
	switch x := e.(type) {
	case *ast.ParenExpr:
		return g.expr(x.X)
	case *ast.BasicLit:
		if x.Kind == token.INT {
			if v, err := strconv.ParseUint(x.Value, 0, 63); err == nil {
				return fmt.Sprintf("(.lit %d)", v), irTyUntyped
			}
		}
	case *ast.Ident:
		if universe(x, "nil") {
			return ".nil", "nil"
		}
		if v := g.lookup(x); v != nil && v.ambient == "" {
			return fmt.Sprintf("(.var %d)", v.slot), v.ty
		}
	case *ast.SelectorExpr:
		if g.isRaddr(x) {
			return ".raddr", ".bytes"
		}
		if id, ok := x.X.(*ast.Ident); ok && id.Obj == nil {
			// a package-level value of another package
			return "(.errConst " + leanStr(id.Name+"."+x.Sel.Name) + ")", ".error"
		}
		s, ty := g.expr(x.X)
		if st := g.structOfTy(ty); st != "" {
			if fty, ok := g.fields[st][x.Sel.Name]; ok {
				return fmt.Sprintf("(.field %s %s)", s, leanStr(x.Sel.Name)), fty
			}
		}
	case *ast.IndexExpr:
		s, ty := g.expr(x.X)
		i, ity := g.expr(x.Index)
		if et := elemTy(ty); et != "" && (isIntTy(ity) || ity == irTyUntyped) {
			return fmt.Sprintf("(.index %s %s)", s, i), et
		}
	case *ast.BinaryExpr:
		return g.binary(x)
	case *ast.UnaryExpr:
		if x.Op == token.NOT {
			if a, ty := g.expr(x.X); ty == ".bool" {
				return "(.not " + a + ")", ".bool"
			}
		}
	case *ast.CompositeLit:
		return g.composite(x)
	case *ast.CallExpr:
		return g.callExpr(x)
	}
	return g.unrecS(e), ""
}

var binOps = map[token.Token]string{
	token.ADD: ".add", token.SUB: ".sub", token.AND: ".band", token.QUO: ".quo",
	token.LSS: ".lt", token.LEQ: ".le", token.GTR: ".gt", token.GEQ: ".ge", token.EQL: ".eq", token.NEQ: ".ne",
	token.LAND: ".land", token.LOR: ".lor",
}

func (g *irGen) binary(x *ast.BinaryExpr) (string, string) {
	op, ok := binOps[x.Op]
	if !ok {
		return g.unrecS(x), ""
	}
	a, ta := g.expr(x.X)
	b, tb := g.expr(x.Y)
	switch x.Op {
	case token.LAND, token.LOR:
		if ta == ".bool" && tb == ".bool" {
			return fmt.Sprintf("(.bin %s .bool %s %s)", op, a, b), ".bool"
		}
	case token.EQL, token.NEQ:
		t := ta
		if t == irTyUntyped || t == "nil" {
			t = tb
		}
		okTy := (isIntTy(ta) || ta == irTyUntyped) && (isIntTy(tb) || tb == irTyUntyped) && (ta == tb || ta == irTyUntyped || tb == irTyUntyped) && t != irTyUntyped
		okTy = okTy || (ta == ".error" && tb == "nil") || (ta == "nil" && tb == ".error") || (ta == ".bool" && tb == ".bool")
		if okTy {
			return fmt.Sprintf("(.bin %s %s %s %s)", op, t, a, b), ".bool"
		}
	default:
		t := ta
		if t == irTyUntyped {
			t = tb
		}
		if isIntTy(t) && (ta == t || ta == irTyUntyped) && (tb == t || tb == irTyUntyped) {
			switch x.Op {
			case token.ADD, token.SUB, token.AND, token.QUO:
				return fmt.Sprintf("(.bin %s %s %s %s)", op, t, a, b), t
			default:
				return fmt.Sprintf("(.bin %s %s %s %s)", op, t, a, b), ".bool"
			}
		}
	}
	return g.unrecS(x), ""
}

// errorfCall: fmt.Errorf("literal", args…)
func (g *irGen) errorfCall(e ast.Expr, nonfatal bool) (string, bool) {
	call, ok := e.(*ast.CallExpr)
	if !ok || !pkgSel(call.Fun, "fmt", "Errorf") || len(call.Args) == 0 || call.Ellipsis != token.NoPos {
		return "", false
	}
	lit, ok := call.Args[0].(*ast.BasicLit)
	if !ok || lit.Kind != token.STRING {
		return "", false
	}
	format, err := strconv.Unquote(lit.Value)
	if err != nil {
		return "", false
	}
	args := ".noArgs"
	for i := len(call.Args) - 1; i >= 1; i-- {
		a, ty := g.expr(call.Args[i])
		if ty == "" {
			return "", false
		}
		args = fmt.Sprintf("(.arg %s %s)", a, args)
	}
	nf := "false"
	if nonfatal {
		nf = "true"
	}
	return fmt.Sprintf("(.errorf %s %s %s)", nf, leanStr(format), args), true
}

func (g *irGen) composite(x *ast.CompositeLit) (string, string) {
	id, ok := x.Type.(*ast.Ident)
	if !ok {
		return g.unrecS(x), ""
	}
	// nonfatalError{fmt.Errorf(…)}
	if g.pkgLevel(id, "nonfatalError") && len(x.Elts) == 1 {
		if s, ok := g.errorfCall(x.Elts[0], true); ok {
			return s, ".error"
		}
		return g.unrecS(x), ""
	}
	ty, ok := g.p.structs[id.Name]
	if !ok || !g.pkgLevel(id, id.Name) {
		return g.unrecS(x), ""
	}
	if len(x.Elts) == 0 {
		return "(.zero " + ty + ")", ty
	}
	if ty == ".dfield" {
		// DecodedField{ID: …, Value: …, EnterpriseNo: …} in any order of the keys
		got := map[string]string{}
		for _, el := range x.Elts {
			kv, ok := el.(*ast.KeyValueExpr)
			if !ok {
				return g.unrecS(x), ""
			}
			k, ok := kv.Key.(*ast.Ident)
			if !ok {
				return g.unrecS(x), ""
			}
			v, vty := g.expr(kv.Value)
			want := g.fields["DecodedField"][k.Name]
			if want == "" || vty == "" || (vty != want && !(vty == irTyUntyped && isIntTy(want))) || got[k.Name] != "" {
				return g.unrecS(x), ""
			}
			got[k.Name] = v
		}
		nf := len(g.fields["DecodedField"])
		if nf == 3 && len(got) == 3 && got["ID"] != "" && got["Value"] != "" && got["EnterpriseNo"] != "" {
			return fmt.Sprintf("(.mkField %s %s %s)", got["ID"], got["Value"], got["EnterpriseNo"]), ty
		}
		// NetFlow v9: DecodedField has no enterprise number
		if nf == 2 && len(got) == 2 && got["ID"] != "" && got["Value"] != "" {
			return fmt.Sprintf("(.mkField2 %s %s)", got["ID"], got["Value"]), ty
		}
	}
	return g.unrecS(x), ""
}

func (g *irGen) callExpr(x *ast.CallExpr) (string, string) {
	if x.Ellipsis != token.NoPos {
		// combineErrors(es...)
		if g.pkgLevel(x.Fun, "combineErrors") && len(x.Args) == 1 {
			a, ty := g.expr(x.Args[0])
			if ty == ".errors" {
				return "(.combine " + a + ")", ".error"
			}
		}
		return g.unrecS(x), ""
	}
	if g.p.ipfixPkg != "" && pkgSel(x.Fun, g.p.ipfixPkg, "Interpret") && len(x.Args) == 2 {
		if s, ty, ok := g.interpretCall(x); ok {
			return s, ty
		}
		return g.unrecS(x), ""
	}
	if id, ok := x.Fun.(*ast.Ident); ok && id.Obj == nil {
		switch {
		case id.Name == "len" && len(x.Args) == 1:
			a, ty := g.expr(x.Args[0])
			if elemTy(ty) != "" {
				return "(.len " + a + ")", ".int"
			}
		case irConvTypes[id.Name] != "" && len(x.Args) == 1:
			a, ty := g.expr(x.Args[0])
			if isIntTy(ty) || ty == irTyUntyped {
				return fmt.Sprintf("(.conv %s %s)", irConvTypes[id.Name], a), irConvTypes[id.Name]
			}
		case id.Name == "new" && len(x.Args) == 1:
			if ty := g.tyOfTypeExpr(x.Args[0]); !isOther(ty) {
				if _, isStruct := g.p.structs[src(g.fset, x.Args[0])]; isStruct {
					return "(.zero " + ty + ")", ty
				}
			}
		case id.Name == "append" && len(x.Args) == 2:
			a, ta := g.expr(x.Args[0])
			b, tb := g.expr(x.Args[1])
			if et := elemTy(ta); et != "" && et == tb {
				return fmt.Sprintf("(.append %s %s)", a, b), ta
			}
		case id.Name == "Interpret" && len(x.Args) == 2 && g.p.ipfixPkg == "":
			if s, ty, ok := g.interpretCall(x); ok {
				return s, ty
			}
		}
		return g.unrecS(x), ""
	}
	if s, ok := g.errorfCall(x, false); ok {
		return s, ".error"
	}
	if sel, ok := x.Fun.(*ast.SelectorExpr); ok && len(x.Args) == 0 {
		if g.isReader(sel.X) {
			switch sel.Sel.Name {
			case "Len":
				return ".rdLen", ".int"
			case "ReadCount":
				return ".rdCount", ".int"
			}
		}
		if g.isRaddr(sel.X) && sel.Sel.Name == "String" {
			return ".raddrString", "(.other \"string\")"
		}
	}
	return g.unrecS(x), ""
}

// interpretCall: Interpret(&b, t)
func (g *irGen) interpretCall(x *ast.CallExpr) (string, string, bool) {
	if u, ok := x.Args[0].(*ast.UnaryExpr); ok && u.Op == token.AND {
		a, ta := g.expr(u.X)
		b, tb := g.expr(x.Args[1])
		if ta == ".bytes" && tb == ".int" {
			return fmt.Sprintf("(.interpret %s %s)", a, b), ".any", true
		}
	}
	return "", "", false
}

// ---- places ----

func (g *irGen) lhs(e ast.Expr) (string, string) {
	switch x := e.(type) {
	case *ast.Ident:
		if x.Name == "_" {
			return ".blank", "_"
		}
		if v := g.lookup(x); v != nil && v.ambient == "" {
			return fmt.Sprintf("(.slot %d [])", v.slot), v.ty
		}
	case *ast.SelectorExpr:
		var path []string
		var cur ast.Expr = x
		for {
			s, ok := cur.(*ast.SelectorExpr)
			if !ok {
				break
			}
			path = append([]string{s.Sel.Name}, path...)
			cur = s.X
		}
		id, ok := cur.(*ast.Ident)
		if !ok {
			return "", ""
		}
		v := g.lookup(id)
		if v == nil || v.ambient != "" {
			return "", ""
		}
		ty := v.ty
		var quoted []string
		for _, f := range path {
			st := g.structOfTy(ty)
			if st == "" {
				return "", ""
			}
			fty, ok := g.fields[st][f]
			if !ok {
				return "", ""
			}
			ty = fty
			quoted = append(quoted, leanStr(f))
		}
		return fmt.Sprintf("(.slot %d [%s])", v.slot, strings.Join(quoted, ", ")), ty
	}
	return "", ""
}

// assignable: may a value of type `from` be stored in a place of type `to`
func assignable(to, from string) bool {
	if to == "_" {
		return from != ""
	}
	if to == "" || from == "" {
		return false
	}
	if to == from {
		return !isOther(to) || to == from
	}
	if from == irTyUntyped {
		return isIntTy(to)
	}
	if from == "nil" {
		return to == ".error"
	}
	return false
}

// ---- calls ----

type irCall struct {
	callee  string
	args    []string
	results []string // IR types of the results
}

// call recognises the callable forms; ok=false otherwise
func (g *irGen) call(e ast.Expr) (irCall, bool) {
	var none irCall
	// InfoModel[ElementKey{…}] (only as the right-hand side of a two-value assignment: checked by the caller)
	if ix, ok := e.(*ast.IndexExpr); ok {
		if !g.ipfixName(ix.X, "InfoModel") {
			return none, false
		}
		cl, ok := ix.Index.(*ast.CompositeLit)
		if !ok || !g.ipfixName(cl.Type, "ElementKey") || len(cl.Elts) != 2 {
			return none, false
		}
		got := map[string]string{}
		for i, el := range cl.Elts {
			name := ""
			val := el
			if kv, ok := el.(*ast.KeyValueExpr); ok {
				k, ok := kv.Key.(*ast.Ident)
				if !ok {
					return none, false
				}
				name, val = k.Name, kv.Value
			} else if ord := g.order["ElementKey"]; i < len(ord) {
				name = ord[i]
			}
			v, ty := g.expr(val)
			want := g.fields["ElementKey"][name]
			if want == "" || !(ty == want || ty == irTyUntyped) {
				return none, false
			}
			got[name] = v
		}
		if len(got) != 2 || got["EnterpriseNo"] == "" || got["ElementID"] == "" {
			return none, false
		}
		return irCall{".infoModel", []string{"(.val " + got["EnterpriseNo"] + ")", "(.val " + got["ElementID"] + ")"}, []string{".elem", ".bool"}}, true
	}
	c, ok := e.(*ast.CallExpr)
	if !ok || c.Ellipsis != token.NoPos {
		return none, false
	}
	sel, ok := c.Fun.(*ast.SelectorExpr)
	if !ok {
		return none, false
	}
	// reader calls
	if g.isReader(sel.X) {
		switch sel.Sel.Name {
		case "Uint8", "Uint16", "Uint32", "PeekUint16":
			if len(c.Args) == 0 {
				m := map[string][2]string{"Uint8": {".rdU8", ".u8"}, "Uint16": {".rdU16", ".u16"}, "Uint32": {".rdU32", ".u32"}, "PeekUint16": {".rdPeekU16", ".u16"}}[sel.Sel.Name]
				return irCall{m[0], nil, []string{m[1], ".error"}}, true
			}
		case "Read":
			if len(c.Args) == 1 {
				a, ty := g.expr(c.Args[0])
				if ty == ".int" || ty == irTyUntyped {
					return irCall{".rdRead", []string{"(.val " + a + ")"}, []string{".bytes", ".error"}}, true
				}
			}
		}
		return none, false
	}
	// cache calls
	if g.isAmbient(sel.X, "cache") {
		switch sel.Sel.Name {
		case "retrieve":
			if len(c.Args) == 2 && g.isRaddr(c.Args[1]) {
				a, ty := g.expr(c.Args[0])
				if ty == ".u16" {
					return irCall{".retrieve", []string{"(.val " + a + ")", "(.val .raddr)"}, []string{".tplRecord", ".bool"}}, true
				}
			}
		case "insert":
			if len(c.Args) == 3 && g.isRaddr(c.Args[1]) {
				a, ty := g.expr(c.Args[0])
				t, tty := g.expr(c.Args[2])
				if ty == ".u16" && tty == ".tplRecord" {
					return irCall{".insert", []string{"(.val " + a + ")", "(.val .raddr)", "(.val " + t + ")"}, nil}, true
				}
			}
		}
		return none, false
	}
	// methods of the package that are translated
	var recvName string
	recvAmbient := g.isAmbient(sel.X, "decoder")
	var recvLhs string
	if recvAmbient {
		recvName = "Decoder"
	} else {
		l, ty := g.lhs(sel.X)
		if l == "" {
			return none, false
		}
		recvName, recvLhs = g.structOfTy(ty), l
	}
	sig := g.sigs[recvName+"."+sel.Sel.Name]
	if sig == nil || len(sig.kinds) != len(c.Args)+1 {
		return none, false
	}
	var args []string
	switch sig.kinds[0] {
	case "decoder":
		if !recvAmbient {
			return none, false
		}
	case "ref":
		if recvAmbient {
			return none, false
		}
		args = append(args, "(.ref "+recvLhs+")")
	default:
		return none, false
	}
	for i, a := range c.Args {
		switch k := sig.kinds[i+1]; k {
		case "decoder", "reader", "cache":
			if !g.isAmbient(a, k) {
				return none, false
			}
		case "ref":
			l, ty := g.lhs(a)
			if l == "" || ty != sig.ptys[i+1] {
				return none, false
			}
			args = append(args, "(.ref "+l+")")
		default:
			s, ty := g.expr(a)
			if !assignable(sig.ptys[i+1], ty) {
				return none, false
			}
			args = append(args, "(.val "+s+")")
		}
	}
	return irCall{"(.fn " + leanStr(sig.lean) + ")", args, sig.results}, true
}

// ---- statements ----

// block: the statements in order, each simple one followed by its Go text as a comment
func (g *irGen) block(l []ast.Stmt) string {
	var parts []string
	var notes []string
	for _, s := range l {
		t := g.stmt(s)
		if t == "" {
			continue
		}
		for i, piece := range strings.Split(t, ",\n") {
			parts = append(parts, piece)
			note := ""
			if i == 0 && !strings.Contains(t, "\n") {
				note = src(g.fset, s)
				if len(note) > 110 {
					note = note[:110] + " …"
				}
			}
			notes = append(notes, note)
		}
	}
	if len(parts) == 0 {
		return ".skip"
	}
	var b strings.Builder
	b.WriteString("(blk [\n")
	for i, p := range parts {
		b.WriteString(p)
		if i < len(parts)-1 {
			b.WriteString(",")
		}
		if notes[i] != "" {
			b.WriteString("  -- " + notes[i])
		}
		b.WriteString("\n")
	}
	b.WriteString("])")
	return b.String()
}

// declare: the place of a declared identifier (a new slot unless it is `_`)
func (g *irGen) declare(id *ast.Ident, ty string) string {
	if id.Name == "_" {
		return ".blank"
	}
	if v := g.lookup(id); v != nil {
		// `:=` re-using a variable of the same scope
		return fmt.Sprintf("(.slot %d [])", v.slot)
	}
	if id.Obj == nil {
		return ""
	}
	v := g.newSlot(id.Obj, ty)
	return fmt.Sprintf("(.slot %d [])", v.slot)
}

func (g *irGen) assignStmt(s *ast.AssignStmt) string {
	un := g.unrecS(s)
	switch s.Tok {
	case token.ASSIGN, token.DEFINE:
		define := s.Tok == token.DEFINE
		if len(s.Rhs) != 1 {
			return un
		}
		// r := d.reader : a second name for the reader
		if define && len(s.Lhs) == 1 && g.isReader(s.Rhs[0]) {
			if id, ok := s.Lhs[0].(*ast.Ident); ok && id.Obj != nil && g.vars[id.Obj] == nil {
				g.vars[id.Obj] = &irVar{slot: -1, ambient: "reader"}
				return ""
			}
			return un
		}
		// calls (the right-hand side is evaluated before a `:=` declares its variables)
		if c, ok := g.call(s.Rhs[0]); ok {
			if len(c.results) != len(s.Lhs) || len(c.results) == 0 {
				return un
			}
			var rets []string
			for i, l := range s.Lhs {
				var p, ty string
				if id, isID := l.(*ast.Ident); isID && define {
					p = g.declare(id, c.results[i])
					ty = c.results[i]
					if v := g.lookup(id); v != nil {
						ty = v.ty
					}
				} else {
					p, ty = g.lhs(l)
				}
				if p == "" || !(ty == "_" || ty == c.results[i] || p == ".blank") {
					return un
				}
				rets = append(rets, p)
			}
			return fmt.Sprintf("(.call [%s] %s [%s])", strings.Join(rets, ", "), c.callee, strings.Join(c.args, ", "))
		}
		if len(s.Lhs) != 1 {
			return un
		}
		e, ety := g.expr(s.Rhs[0])
		if ety == "" {
			return un
		}
		var p, ty string
		if id, isID := s.Lhs[0].(*ast.Ident); isID && define {
			dty := ety
			if dty == irTyUntyped {
				dty = ".int"
			}
			if dty == "nil" {
				return un
			}
			p, ty = g.declare(id, dty), dty
			if v := g.lookup(id); v != nil {
				ty = v.ty
			}
		} else {
			p, ty = g.lhs(s.Lhs[0])
		}
		if p == "" || !assignable(ty, ety) {
			return un
		}
		return fmt.Sprintf("(.assign %s %s)", p, e)
	case token.ADD_ASSIGN, token.SUB_ASSIGN:
		if len(s.Lhs) != 1 || len(s.Rhs) != 1 {
			return un
		}
		p, ty := g.lhs(s.Lhs[0])
		cur, _ := g.expr(s.Lhs[0])
		e, ety := g.expr(s.Rhs[0])
		if p == "" || !isIntTy(ty) || !(ety == ty || ety == irTyUntyped) {
			return un
		}
		op := ".add"
		if s.Tok == token.SUB_ASSIGN {
			op = ".sub"
		}
		return fmt.Sprintf("(.assign %s (.bin %s %s %s %s))", p, op, ty, cur, e)
	}
	return un
}

func (g *irGen) declStmt(s *ast.DeclStmt) string {
	gd, ok := s.Decl.(*ast.GenDecl)
	if !ok || gd.Tok != token.VAR {
		return g.unrecS(s)
	}
	var parts []string
	for _, sp := range gd.Specs {
		vs, ok := sp.(*ast.ValueSpec)
		if !ok {
			return g.unrecS(s)
		}
		switch {
		case len(vs.Values) == 0 && vs.Type != nil:
			ty := g.tyOfTypeExpr(vs.Type)
			for _, n := range vs.Names {
				p := g.declare(n, ty)
				if p == "" {
					return g.unrecS(s)
				}
				parts = append(parts, fmt.Sprintf("(.assign %s (.zero %s))", p, ty))
			}
		case len(vs.Values) == len(vs.Names):
			for i, n := range vs.Names {
				e, ety := g.expr(vs.Values[i])
				ty := ety
				if vs.Type != nil {
					ty = g.tyOfTypeExpr(vs.Type)
				} else if ety == irTyUntyped {
					ty = ".int"
				}
				if ety == "" || ety == "nil" && vs.Type == nil || !assignable(ty, ety) {
					return g.unrecS(s)
				}
				p := g.declare(n, ty)
				if p == "" {
					return g.unrecS(s)
				}
				parts = append(parts, fmt.Sprintf("(.assign %s %s)", p, e))
			}
		default:
			return g.unrecS(s)
		}
	}
	return strings.Join(parts, ",\n")
}

func (g *irGen) simpleOrSkip(s ast.Stmt) string {
	if s == nil {
		return ".skip"
	}
	t := g.stmt(s)
	if t == "" {
		return ".skip"
	}
	if strings.Contains(t, ",\n") {
		return "(blk [" + t + "])"
	}
	return t
}

func (g *irGen) stmt(s ast.Stmt) string {
	switch x := s.(type) {
	case *ast.BlockStmt:
		return g.block(x.List)
	case *ast.EmptyStmt:
		return ""
	case *ast.DeclStmt:
		return g.declStmt(x)
	case *ast.AssignStmt:
		return g.assignStmt(x)
	case *ast.IncDecStmt:
		p, ty := g.lhs(x.X)
		cur, _ := g.expr(x.X)
		if p == "" || !isIntTy(ty) {
			return g.unrecS(x)
		}
		op := ".add"
		if x.Tok == token.DEC {
			op = ".sub"
		}
		return fmt.Sprintf("(.assign %s (.bin %s %s %s (.lit 1)))", p, op, ty, cur)
	case *ast.ExprStmt:
		if c, ok := g.call(x.X); ok && c.callee != ".infoModel" {
			return fmt.Sprintf("(.call [] %s [%s])", c.callee, strings.Join(c.args, ", "))
		}
	case *ast.IfStmt:
		init := g.simpleOrSkip(x.Init)
		c, cty := g.expr(x.Cond)
		if cty != ".bool" {
			c = g.unrecS(x.Cond)
		}
		t := g.block(x.Body.List)
		e := ".skip"
		if x.Else != nil {
			e = g.simpleOrSkip(x.Else)
		}
		return fmt.Sprintf("(.ite %s\n%s\n%s\n%s)", init, c, t, e)
	case *ast.ForStmt:
		if x.Cond == nil {
			return g.unrecS(x)
		}
		init := ""
		if x.Init != nil {
			init = g.simpleOrSkip(x.Init)
		}
		c, cty := g.expr(x.Cond)
		if cty != ".bool" {
			c = g.unrecS(x.Cond)
		}
		// the post statement is translated after the body (it sees the same variables; slots are allocated in source order)
		body := g.block(x.Body.List)
		post := g.simpleOrSkip(x.Post)
		if hasContinue(x.Body) {
			return g.unrecS(x)
		}
		loop := fmt.Sprintf("(.loop %s\n%s\n%s)", c, body, post)
		if init != "" {
			return init + ",\n" + loop
		}
		return loop
	case *ast.RangeStmt:
		if x.Tok != token.DEFINE || x.Value == nil || (x.Key != nil && !isBlank(x.Key)) || hasContinue(x.Body) {
			return g.unrecS(x)
		}
		xs, ty := g.expr(x.X)
		id, ok := x.Value.(*ast.Ident)
		if !ok || elemTy(ty) == "" || id.Name == "_" || id.Obj == nil {
			return g.unrecS(x)
		}
		v := g.newSlot(id.Obj, elemTy(ty))
		body := g.block(x.Body.List)
		return fmt.Sprintf("(.range %d %s\n%s)", v.slot, xs, body)
	case *ast.BranchStmt:
		if x.Tok == token.BREAK && x.Label == nil {
			return ".brk"
		}
	case *ast.ReturnStmt:
		var es []string
		for _, r := range x.Results {
			e, ty := g.expr(r)
			if ty == "" {
				return g.unrecS(x)
			}
			es = append(es, e)
		}
		if len(es) != len(g.curResults) {
			return g.unrecS(x)
		}
		return "(.ret [" + strings.Join(es, ", ") + "])"
	case *ast.TypeSwitchStmt:
		// switch e.(type) { case nonfatalError: A ; default: B }
		es, ok := x.Assign.(*ast.ExprStmt)
		if !ok || x.Init != nil || len(x.Body.List) != 2 {
			return g.unrecS(x)
		}
		ta, ok := es.X.(*ast.TypeAssertExpr)
		if !ok || ta.Type != nil {
			return g.unrecS(x)
		}
		e, ty := g.expr(ta.X)
		if ty != ".error" {
			return g.unrecS(x)
		}
		var nf, dflt string
		seen := 0
		for _, cl := range x.Body.List {
			cc := cl.(*ast.CaseClause)
			switch {
			case cc.List == nil:
				dflt = g.block(cc.Body)
				seen |= 1
			case len(cc.List) == 1 && g.pkgLevel(cc.List[0], "nonfatalError"):
				nf = g.block(cc.Body)
				seen |= 2
			}
		}
		if seen != 3 {
			return g.unrecS(x)
		}
		return fmt.Sprintf("(.switchNonfatal %s\n%s\n%s)", e, nf, dflt)
	case *ast.SelectStmt:
		// select { case rpcChan <- RPCRequest{…}: default: }
		if len(x.Body.List) == 2 {
			seen := 0
			for _, cl := range x.Body.List {
				cc := cl.(*ast.CommClause)
				if len(cc.Body) != 0 {
					return g.unrecS(x)
				}
				if cc.Comm == nil {
					seen |= 1
					continue
				}
				if send, ok := cc.Comm.(*ast.SendStmt); ok && g.pkgLevel(send.Chan, "rpcChan") {
					if cl, ok := send.Value.(*ast.CompositeLit); ok && g.pkgLevel(cl.Type, "RPCRequest") {
						seen |= 2
					}
				}
			}
			if seen == 3 {
				return ".rpcRequest"
			}
		}
	}
	return g.unrecS(s)
}

func isBlank(e ast.Expr) bool { id, ok := e.(*ast.Ident); return ok && id.Name == "_" }

// hasContinue: a `continue` (or a labelled break / goto) anywhere inside: the loop forms of the IR do not have them
func hasContinue(n ast.Node) bool {
	found := false
	ast.Inspect(n, func(m ast.Node) bool {
		if b, ok := m.(*ast.BranchStmt); ok && (b.Tok != token.BREAK || b.Label != nil) {
			found = true
		}
		if _, ok := m.(*ast.LabeledStmt); ok {
			found = true
		}
		return true
	})
	return found
}

// ---- functions ----

func (g *irGen) signature(fs irFuncSrc, fd *ast.FuncDecl) *irSig {
	sig := &irSig{lean: fs.lean, fd: fd, recv: fs.recv}
	add := func(t ast.Expr) {
		if k := ambientKind(g.fset, t); k != "" {
			sig.kinds = append(sig.kinds, k)
			sig.ptys = append(sig.ptys, "")
			sig.params = append(sig.params, "(.ambient "+leanStr(src(g.fset, t))+")")
			return
		}
		ty := g.tyOfTypeExpr(t)
		if _, isPtr := t.(*ast.StarExpr); isPtr && !isOther(ty) {
			sig.kinds = append(sig.kinds, "ref")
			sig.ptys = append(sig.ptys, ty)
			sig.params = append(sig.params, "(.ref "+ty+")")
			return
		}
		sig.kinds = append(sig.kinds, "val")
		sig.ptys = append(sig.ptys, ty)
		sig.params = append(sig.params, "(.val "+ty+")")
	}
	if fd.Recv != nil {
		for _, f := range fd.Recv.List {
			add(f.Type)
		}
	}
	if fd.Type.Params != nil {
		for _, f := range fd.Type.Params.List {
			n := len(f.Names)
			if n == 0 {
				n = 1
			}
			for i := 0; i < n; i++ {
				add(f.Type)
			}
		}
	}
	if fd.Type.Results != nil {
		for _, f := range fd.Type.Results.List {
			n := len(f.Names)
			if n == 0 {
				n = 1
			}
			for i := 0; i < n; i++ {
				sig.results = append(sig.results, g.tyOfTypeExpr(f.Type))
			}
		}
	}
	return sig
}

func (g *irGen) function(sig *irSig) string {
	fd := sig.fd
	g.vars = map[*ast.Object]*irVar{}
	g.nslots = 0
	g.names = nil
	g.curResults = sig.results
	i := 0
	bind := func(names []*ast.Ident) bool {
		for _, n := range names {
			k := sig.kinds[i]
			if n.Name != "_" && n.Obj != nil {
				switch k {
				case "val", "ref":
					v := g.newSlot(n.Obj, sig.ptys[i])
					v.ref = k == "ref"
				default:
					g.vars[n.Obj] = &irVar{slot: -1, ambient: k}
				}
			} else if k == "val" || k == "ref" {
				// an unnamed parameter still occupies a slot
				g.nslots++
				g.names = append(g.names, "_")
			}
			i++
		}
		return true
	}
	named := true
	if fd.Recv != nil {
		for _, f := range fd.Recv.List {
			if len(f.Names) == 0 {
				named = false
			}
			bind(f.Names)
		}
	}
	if fd.Type.Params != nil {
		for _, f := range fd.Type.Params.List {
			if len(f.Names) == 0 {
				named = false
			}
			bind(f.Names)
		}
	}
	namedResults := false
	if fd.Type.Results != nil {
		for _, f := range fd.Type.Results.List {
			if len(f.Names) > 0 {
				namedResults = true
			}
		}
	}
	body := ""
	if !named || namedResults || fd.Body == nil {
		body = g.unrecS(fd.Type)
	} else {
		body = g.block(fd.Body.List)
	}
	var b strings.Builder
	fmt.Fprintf(&b, "/-- `%s`\nslots: %s -/\n", src(g.fset, &ast.FuncDecl{Recv: fd.Recv, Name: fd.Name, Type: fd.Type}), slotDoc(g.names))
	fmt.Fprintf(&b, "def %s : Func := {\n  params := [%s]\n  results := [%s]\n  nslots := %d\n  body :=\n%s }\n\n",
		sig.lean, strings.Join(sig.params, ", "), strings.Join(sig.results, ", "), g.nslots, body)
	return b.String()
}

func slotDoc(names []string) string {
	var p []string
	for i, n := range names {
		p = append(p, fmt.Sprintf("%d=%s", i, n))
	}
	return strings.Join(p, " ")
}

func (g *irGen) readStructs(f *ast.File) {
	for _, d := range f.Decls {
		gd, ok := d.(*ast.GenDecl)
		if !ok || gd.Tok != token.TYPE {
			continue
		}
		for _, sp := range gd.Specs {
			ts := sp.(*ast.TypeSpec)
			st, ok := ts.Type.(*ast.StructType)
			if !ok {
				continue
			}
			m := map[string]string{}
			var ord []string
			for _, fl := range st.Fields.List {
				for _, n := range fl.Names {
					m[n.Name] = g.tyOfTypeExpr(fl.Type)
					ord = append(ord, n.Name)
				}
			}
			g.fields[ts.Name.Name] = m
			g.order[ts.Name.Name] = ord
			var fl []string
			for _, f := range st.Fields.List {
				var ns []string
				for _, n := range f.Names {
					ns = append(ns, n.Name)
				}
				fl = append(fl, strings.TrimSpace(strings.Join(ns, ", ")+" "+src(g.fset, f.Type)))
			}
			g.decls = append(g.decls, [2]string{ts.Name.Name, strings.Join(fl, "; ")})
		}
	}
}

func genIR(repo string, p *irProfile, from string) (genFile, error) {
	g := &irGen{p: p, fields: map[string]map[string]string{}, order: map[string][]string{}, sigs: map[string]*irSig{}}
	for _, rel := range p.files {
		fset, f, err := parseFile(repo, rel)
		if err != nil {
			return genFile{}, err
		}
		g.fset = fset
		g.readStructs(f)
	}
	// re-parse the decoder last so that g.fset is its file set
	fset, f, err := parseFile(repo, p.decoder)
	if err != nil {
		return genFile{}, err
	}
	g.fset = fset
	dec := f
	var b strings.Builder
	fmt.Fprintf(&b, "import %s\n", p.model)
	b.WriteString(header(p.module, from))
	b.WriteString("open Vflow.IpfixIR\n\n")
	// struct declarations the field semantics of the interpreter rely on
	b.WriteString("/-- the struct declarations of the package (name, Go type), in source order -/\ndef structs : List (String × String) := [\n")
	for i, d := range g.decls {
		sep := ","
		if i == len(g.decls)-1 {
			sep = ""
		}
		fmt.Fprintf(&b, "  (%s, %s)%s\n", leanStr(d[0]), leanStr(d[1]), sep)
	}
	b.WriteString("]\n\n")
	for _, fs := range p.funcs {
		fd := funcDecl(dec, fs.recv, fs.name)
		if fd == nil {
			continue
		}
		g.sigs[fs.recv+"."+fs.name] = g.signature(fs, fd)
	}
	for _, fs := range p.funcs {
		sig := g.sigs[fs.recv+"."+fs.name]
		if sig == nil {
			fmt.Fprintf(&b, "def %s : Func := { params := [], results := [], nslots := 0, body := .unrecognised %s }\n\n", fs.lean, leanStr(fs.recv+"."+fs.name+" missing"))
			continue
		}
		b.WriteString(g.function(sig))
	}
	// the functions of the file that are not translated (a new helper the decoder starts to call is not linked in, so
	// the call is unrecognised; this list is for the reader)
	var others []string
	for _, d := range dec.Decls {
		if fd, ok := d.(*ast.FuncDecl); ok {
			r := ""
			if fd.Recv != nil && len(fd.Recv.List) == 1 {
				t := fd.Recv.List[0].Type
				if st, ok := t.(*ast.StarExpr); ok {
					t = st.X
				}
				r = src(fset, t)
			}
			if g.sigs[r+"."+fd.Name.Name] == nil {
				others = append(others, leanStr(strings.TrimPrefix(r+"."+fd.Name.Name, ".")))
			}
		}
	}
	fmt.Fprintf(&b, "/-- functions of %s that are not translated -/\ndef otherFuncs : List String := [%s]\n", p.decoder, strings.Join(others, ", "))
	b.WriteString(footer(p.module))
	return genFile{p.module, b.String()}, nil
}

func genV9IR(repo string) (genFile, error) {
	return genIR(repo, &v9IRProfile, "netflow/v9/decoder.go (the decoder's functions, statement by statement) and the struct declarations of ipfix/rfc5102_model.go")
}

func genIpfixIR(repo string) (genFile, error) {
	return genIR(repo, &ipfixIRProfile, "ipfix/decoder.go (the decoder's functions, statement by statement) and the struct declarations of ipfix/rfc5102_model.go")
}
