// factgen: the translator. Reads the Go sources each property is anchored in
// (go/parser, go/ast, go/printer only) and writes Lean facts under
// <out>/ (Vflow/Gen/*.lean), deleting the previous output first.
//
//	factgen <repo> <outdir>
package main

import (
	"fmt"
	"os"
	"path/filepath"
)

type genFile struct {
	name string
	body string
}

var generators []func(repo string) (genFile, error)

func main() {
	if len(os.Args) != 3 {
		fmt.Fprintln(os.Stderr, "usage: factgen <repo> <outdir>")
		os.Exit(2)
	}
	repo, out := os.Args[1], os.Args[2]
	old, _ := filepath.Glob(filepath.Join(out, "*.lean"))
	var files []genFile
	for _, g := range generators {
		f, err := g(repo)
		if err != nil {
			fmt.Fprintln(os.Stderr, "factgen:", err)
			os.Exit(1)
		}
		files = append(files, f)
	}
	// delete stale output, then write (identical content keeps lake's hash traces valid)
	keep := map[string]bool{}
	for _, f := range files {
		keep[filepath.Join(out, f.name+".lean")] = true
	}
	for _, o := range old {
		if !keep[o] {
			os.Remove(o)
		}
	}
	os.MkdirAll(out, 0o755)
	for _, f := range files {
		p := filepath.Join(out, f.name+".lean")
		if cur, err := os.ReadFile(p); err == nil && string(cur) == f.body {
			continue
		}
		if err := os.WriteFile(p, []byte(f.body), 0o644); err != nil {
			fmt.Fprintln(os.Stderr, "factgen:", err)
			os.Exit(1)
		}
	}
}
