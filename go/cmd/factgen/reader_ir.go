package main

// ReaderIR (C19): every method of reader.Reader translated, statement by statement, into the small IR of
// lean/Vflow/Model/ReaderIR.lean (guard; value expression; advance).  The Lean side interprets the IR with Go's slice
// semantics (an out-of-range index or slice bound is "no result") and Props/C19 proves, for every state and every int
// argument, that each translated method is the corresponding step of the model the C19 theorems are about.
// The translation works on the AST (receiver, parameter and local names do not matter); anything it does not recognise
// becomes `.unrecognised "<go>"`, which no theorem accepts.

import (
	"fmt"
	"go/ast"
	"go/token"
	"strconv"
	"strings"
)

func init() { generators = append(generators, genReaderIR) }

type rdCtx struct {
	fset  *token.FileSet
	recv  string
	param string
}

func (c *rdCtx) isRecvField(e ast.Expr, field string) bool {
	s, ok := e.(*ast.SelectorExpr)
	if !ok || s.Sel.Name != field {
		return false
	}
	id, ok := s.X.(*ast.Ident)
	return ok && id.Name == c.recv
}

func (c *rdCtx) width(e ast.Expr) (string, bool) {
	switch x := e.(type) {
	case *ast.BasicLit:
		if x.Kind == token.INT {
			if v, err := strconv.ParseUint(x.Value, 0, 31); err == nil {
				return fmt.Sprintf("(.k %d)", v), true
			}
		}
	case *ast.Ident:
		if c.param != "" && x.Name == c.param {
			return ".arg", true
		}
	}
	return "", false
}

func (c *rdCtx) lenData(e ast.Expr) bool {
	call, ok := e.(*ast.CallExpr)
	if !ok || len(call.Args) != 1 {
		return false
	}
	id, ok := call.Fun.(*ast.Ident)
	return ok && id.Name == "len" && c.isRecvField(call.Args[0], "data")
}

// lenLess: len(r.data) < W
func (c *rdCtx) lenLess(e ast.Expr) (string, bool) {
	b, ok := e.(*ast.BinaryExpr)
	if !ok || b.Op != token.LSS || !c.lenData(b.X) {
		return "", false
	}
	return c.width(b.Y)
}

func (c *rdCtx) guardCond(e ast.Expr) (string, bool) {
	if w, ok := c.lenLess(e); ok {
		return fmt.Sprintf("⟨false, %s⟩", w), true
	}
	b, ok := e.(*ast.BinaryExpr)
	if !ok || b.Op != token.LOR {
		return "", false
	}
	neg, ok := b.X.(*ast.BinaryExpr)
	if !ok || neg.Op != token.LSS {
		return "", false
	}
	if id, ok := neg.X.(*ast.Ident); !ok || c.param == "" || id.Name != c.param {
		return "", false
	}
	if z, ok := neg.Y.(*ast.BasicLit); !ok || z.Value != "0" {
		return "", false
	}
	w, ok := c.lenLess(b.Y)
	if !ok {
		return "", false
	}
	return fmt.Sprintf("⟨true, %s⟩", w), true
}

// guard: if <cond> { return <zero>, errReader }
func (c *rdCtx) guard(st ast.Stmt) (string, bool) {
	is, ok := st.(*ast.IfStmt)
	if !ok || is.Init != nil || is.Else != nil || len(is.Body.List) != 1 {
		return "", false
	}
	ret, ok := is.Body.List[0].(*ast.ReturnStmt)
	if !ok || len(ret.Results) != 2 {
		return "", false
	}
	if z := src(c.fset, ret.Results[0]); z != "0" && z != "[]byte{}" && z != "nil" {
		return "", false
	}
	if id, ok := ret.Results[1].(*ast.Ident); !ok || id.Name != "errReader" {
		return "", false
	}
	return c.guardCond(is.Cond)
}

func bigEndianCall(e ast.Expr) (octets int, arg ast.Expr, ok bool) {
	call, isCall := e.(*ast.CallExpr)
	if !isCall || len(call.Args) != 1 {
		return 0, nil, false
	}
	sel, isSel := call.Fun.(*ast.SelectorExpr)
	if !isSel {
		return 0, nil, false
	}
	be, isSel := sel.X.(*ast.SelectorExpr)
	if !isSel || be.Sel.Name != "BigEndian" {
		return 0, nil, false
	}
	if pkg, isID := be.X.(*ast.Ident); !isID || pkg.Name != "binary" {
		return 0, nil, false
	}
	switch sel.Sel.Name {
	case "Uint16":
		return 2, call.Args[0], true
	case "Uint32":
		return 4, call.Args[0], true
	case "Uint64":
		return 8, call.Args[0], true
	}
	return 0, nil, false
}

func (c *rdCtx) val(e ast.Expr) (string, bool) {
	switch x := e.(type) {
	case *ast.IndexExpr:
		if lit, ok := x.Index.(*ast.BasicLit); ok && lit.Value == "0" && c.isRecvField(x.X, "data") {
			return ".index0", true
		}
	case *ast.CallExpr:
		if k, arg, ok := bigEndianCall(x); ok && c.isRecvField(arg, "data") {
			return fmt.Sprintf("(.be %d)", k), true
		}
	case *ast.SliceExpr:
		if x.Low == nil && x.High != nil && x.Max == nil && !x.Slice3 && c.isRecvField(x.X, "data") {
			if w, ok := c.width(x.High); ok {
				return fmt.Sprintf("(.pfx %s)", w), true
			}
		}
	}
	return "", false
}

func isNil(e ast.Expr) bool { id, ok := e.(*ast.Ident); return ok && id.Name == "nil" }

func (c *rdCtx) body(fd *ast.FuncDecl) string {
	unrec := func() string {
		var parts []string
		for _, st := range fd.Body.List {
			parts = append(parts, src(c.fset, st))
		}
		return ".unrecognised " + leanStr(strings.Join(parts, " ; "))
	}
	l := fd.Body.List
	switch len(l) {
	case 1:
		ret, ok := l[0].(*ast.ReturnStmt)
		if !ok || len(ret.Results) != 1 {
			return unrec()
		}
		if c.lenData(ret.Results[0]) {
			return ".lenOf"
		}
		if c.isRecvField(ret.Results[0], "count") {
			return ".countOf"
		}
	case 2:
		g, ok := c.guard(l[0])
		ret, ok2 := l[1].(*ast.ReturnStmt)
		if !ok || !ok2 || len(ret.Results) != 2 || !isNil(ret.Results[1]) {
			return unrec()
		}
		if v, ok := c.val(ret.Results[0]); ok {
			return fmt.Sprintf(".peekLike %s %s", g, v)
		}
	case 3:
		// var b []byte ; if b, err = r.Peek(K); err == nil { res = binary.BigEndian.UintN(b) } ; return   (named results res, err)
		if fd.Type.Results == nil || len(fd.Type.Results.List) != 2 || len(fd.Type.Results.List[0].Names) != 1 || len(fd.Type.Results.List[1].Names) != 1 {
			return unrec()
		}
		res, errN := fd.Type.Results.List[0].Names[0].Name, fd.Type.Results.List[1].Names[0].Name
		ds, ok := l[0].(*ast.DeclStmt)
		if !ok {
			return unrec()
		}
		gd, ok := ds.Decl.(*ast.GenDecl)
		if !ok || gd.Tok != token.VAR || len(gd.Specs) != 1 {
			return unrec()
		}
		vs := gd.Specs[0].(*ast.ValueSpec)
		if len(vs.Names) != 1 || len(vs.Values) != 0 || src(c.fset, vs.Type) != "[]byte" {
			return unrec()
		}
		bN := vs.Names[0].Name
		is, ok := l[1].(*ast.IfStmt)
		if !ok || is.Else != nil || is.Init == nil || len(is.Body.List) != 1 {
			return unrec()
		}
		as, ok := is.Init.(*ast.AssignStmt)
		if !ok || as.Tok != token.ASSIGN || len(as.Lhs) != 2 || len(as.Rhs) != 1 || src(c.fset, as.Lhs[0]) != bN || src(c.fset, as.Lhs[1]) != errN {
			return unrec()
		}
		call, ok := as.Rhs[0].(*ast.CallExpr)
		if !ok || len(call.Args) != 1 || !c.isRecvField(call.Fun, "Peek") {
			return unrec()
		}
		k, ok := c.width(call.Args[0])
		if !ok || !strings.HasPrefix(k, "(.k ") || src(c.fset, is.Cond) != errN+" == nil" {
			return unrec()
		}
		set, ok := is.Body.List[0].(*ast.AssignStmt)
		if !ok || set.Tok != token.ASSIGN || len(set.Lhs) != 1 || len(set.Rhs) != 1 || src(c.fset, set.Lhs[0]) != res {
			return unrec()
		}
		oct, arg, ok := bigEndianCall(set.Rhs[0])
		if !ok || src(c.fset, arg) != bN {
			return unrec()
		}
		if ret, ok := l[2].(*ast.ReturnStmt); !ok || len(ret.Results) != 0 {
			return unrec()
		}
		return fmt.Sprintf(".viaPeek %s %d", strings.TrimSuffix(strings.TrimPrefix(k, "(.k "), ")"), oct)
	case 4:
		g, ok := c.guard(l[0])
		if !ok {
			return unrec()
		}
		as, ok := l[1].(*ast.AssignStmt)
		if !ok || as.Tok != token.DEFINE || len(as.Lhs) != 1 || len(as.Rhs) != 1 {
			return unrec()
		}
		d, ok := as.Lhs[0].(*ast.Ident)
		if !ok {
			return unrec()
		}
		v, ok := c.val(as.Rhs[0])
		if !ok {
			return unrec()
		}
		es, ok := l[2].(*ast.ExprStmt)
		if !ok {
			return unrec()
		}
		call, ok := es.X.(*ast.CallExpr)
		if !ok || len(call.Args) != 1 || !c.isRecvField(call.Fun, "advance") {
			return unrec()
		}
		w, ok := c.width(call.Args[0])
		if !ok {
			return unrec()
		}
		ret, ok := l[3].(*ast.ReturnStmt)
		if !ok || len(ret.Results) != 2 || !isNil(ret.Results[1]) || src(c.fset, ret.Results[0]) != d.Name {
			return unrec()
		}
		return fmt.Sprintf(".readLike %s %s %s", g, v, w)
	}
	return unrec()
}

func (c *rdCtx) advStmt(st ast.Stmt) string {
	unrec := ".unrecognised " + leanStr(src(c.fset, st))
	as, ok := st.(*ast.AssignStmt)
	if !ok || len(as.Lhs) != 1 || len(as.Rhs) != 1 {
		return unrec
	}
	switch as.Tok {
	case token.ASSIGN:
		// r.data = r.data[num:]
		sl, ok := as.Rhs[0].(*ast.SliceExpr)
		if ok && c.isRecvField(as.Lhs[0], "data") && c.isRecvField(sl.X, "data") && sl.High == nil && sl.Max == nil && !sl.Slice3 && sl.Low != nil {
			if id, ok := sl.Low.(*ast.Ident); ok && id.Name == c.param {
				return ".reslice"
			}
		}
	case token.ADD_ASSIGN:
		if id, ok := as.Rhs[0].(*ast.Ident); ok && id.Name == c.param && c.isRecvField(as.Lhs[0], "count") {
			return ".countAdd"
		}
	}
	return unrec
}

func genReaderIR(repo string) (genFile, error) {
	fset, f, err := parseFile(repo, "reader/reader.go")
	if err != nil {
		return genFile{}, err
	}
	var b strings.Builder
	b.WriteString("import Vflow.Model.ReaderIR\n")
	b.WriteString(header("ReaderIR", "reader/reader.go (every method of Reader, its fields and NewReader)"))
	b.WriteString("open Vflow.ReaderIR\n\n")
	// fields of Reader
	var fields []string
	for _, d := range f.Decls {
		gd, ok := d.(*ast.GenDecl)
		if !ok {
			continue
		}
		for _, sp := range gd.Specs {
			ts, ok := sp.(*ast.TypeSpec)
			if !ok || ts.Name.Name != "Reader" {
				continue
			}
			if st, ok := ts.Type.(*ast.StructType); ok {
				for _, fl := range st.Fields.List {
					for _, n := range fl.Names {
						fields = append(fields, fmt.Sprintf("(%s, %s)", leanStr(n.Name), leanStr(src(fset, fl.Type))))
					}
				}
			}
		}
	}
	fmt.Fprintf(&b, "/-- the fields of `Reader` with their Go types -/\ndef fields : List (String × String) := [%s]\n\n", strings.Join(fields, ", "))
	// methods
	want := []struct{ goName, leanName string }{
		{"Uint8", "uint8"}, {"Uint16", "uint16"}, {"Uint32", "uint32"}, {"Uint64", "uint64"}, {"Read", "read"},
		{"Peek", "peek"}, {"PeekUint16", "peekUint16"}, {"Len", "len"}, {"ReadCount", "readCount"},
	}
	known := map[string]bool{"advance": true}
	for _, m := range want {
		known[m.goName] = true
		fd := funcDecl(f, "Reader", m.goName)
		if fd == nil || fd.Body == nil {
			fmt.Fprintf(&b, "def %s : Method := ⟨\"\", \"\", .unrecognised %s⟩\n\n", m.leanName, leanStr(m.goName+" missing"))
			continue
		}
		c := &rdCtx{fset: fset, recv: fd.Recv.List[0].Names[0].Name}
		params := ""
		if fd.Type.Params != nil {
			var ps []string
			for _, p := range fd.Type.Params.List {
				for _, n := range p.Names {
					ps = append(ps, src(fset, p.Type))
					c.param = n.Name
				}
			}
			if len(ps) > 1 {
				c.param = ""
			}
			params = strings.Join(ps, ", ")
		}
		ret := ""
		if fd.Type.Results != nil {
			var rs []string
			for _, r := range fd.Type.Results.List {
				k := len(r.Names)
				if k == 0 {
					k = 1
				}
				for i := 0; i < k; i++ {
					rs = append(rs, src(fset, r.Type))
				}
			}
			ret = strings.Join(rs, ", ")
		}
		fmt.Fprintf(&b, "/-- `func (%s *Reader) %s(%s) (%s)` -/\ndef %s : Method := ⟨%s, %s, %s⟩\n\n", c.recv, m.goName, params, ret, m.leanName, leanStr(params), leanStr(ret), c.body(fd))
	}
	// advance
	if fd := funcDecl(f, "Reader", "advance"); fd != nil && fd.Body != nil && fd.Type.Params != nil && len(fd.Type.Params.List) == 1 && len(fd.Type.Params.List[0].Names) == 1 {
		c := &rdCtx{fset: fset, recv: fd.Recv.List[0].Names[0].Name, param: fd.Type.Params.List[0].Names[0].Name}
		var steps []string
		for _, st := range fd.Body.List {
			steps = append(steps, c.advStmt(st))
		}
		fmt.Fprintf(&b, "/-- `func (%s *Reader) advance(%s %s)` -/\ndef advance : List AdvStmt := [%s]\ndef advanceParamType : String := %s\n\n", c.recv, c.param, src(fset, fd.Type.Params.List[0].Type), strings.Join(steps, ", "), leanStr(src(fset, fd.Type.Params.List[0].Type)))
	} else {
		b.WriteString("def advance : List AdvStmt := [.unrecognised \"advance missing\"]\ndef advanceParamType : String := \"\"\n\n")
	}
	// NewReader: return &Reader{data: b}
	nr := ".unrecognised \"NewReader missing\""
	if fd := funcDecl(f, "", "NewReader"); fd != nil && fd.Body != nil {
		nr = ".unrecognised " + leanStr(src(fset, fd.Body))
		if len(fd.Body.List) == 1 && fd.Type.Params != nil && len(fd.Type.Params.List) == 1 && len(fd.Type.Params.List[0].Names) == 1 {
			p := fd.Type.Params.List[0].Names[0].Name
			if src(fset, fd.Body.List[0]) == "return &Reader{ data: "+p+", }" && src(fset, fd.Type.Params.List[0].Type) == "[]byte" {
				nr = ".dataFromArgCountZero"
			}
		}
	}
	fmt.Fprintf(&b, "/-- `NewReader` -/\ndef newReader : NewIR := %s\n\n", nr)
	// every other function or method of the package (there is none today; one that touches the fields would have to be modelled)
	var others []string
	for _, d := range f.Decls {
		if fd, ok := d.(*ast.FuncDecl); ok && !known[fd.Name.Name] && fd.Name.Name != "NewReader" {
			others = append(others, leanStr(fd.Name.Name))
		}
	}
	fmt.Fprintf(&b, "/-- functions of reader/reader.go outside the modelled set -/\ndef otherFuncs : List String := [%s]\n", strings.Join(others, ", "))
	b.WriteString(footer("ReaderIR"))
	return genFile{"ReaderIR", b.String()}, nil
}
