package main

// ProducerFacts (C14): from producer/rawSocket.go the write expression of RawSocket.inputMsg (is the
// message a value argument or the format string?) and the statement skeleton of its receive/retry/
// redial loops; from sarama/segmentio/nsq/nats the expression handed to the client library as
// payload, relative to the variable received from the channel; from sarama.go also the shape of the
// send loop of KafkaSarama.inputMsg (is the select repeated until Input() accepted the message?). Fails closed: whatever is not
// recognised is emitted as `.unrecognised "<go text>"` / `.other "<go text>"`.

import (
	"bytes"
	"fmt"
	"go/ast"
	"go/parser"
	"go/printer"
	"go/token"
	"path/filepath"
	"regexp"
	"strconv"
	"strings"
)

func init() {
	generators = append(generators, genProducerFacts)
}

var pfSpace = regexp.MustCompile(`\s+`)

func pfSrc(fset *token.FileSet, n ast.Node) string {
	var b bytes.Buffer
	printer.Fprint(&b, fset, n)
	return strings.TrimSpace(pfSpace.ReplaceAllString(b.String(), " "))
}

// pfLeanStr renders a Go string as a Lean string literal
func pfLeanStr(s string) string {
	var b strings.Builder
	b.WriteByte('"')
	for _, r := range s {
		switch {
		case r == '"':
			b.WriteString(`\"`)
		case r == '\\':
			b.WriteString(`\\`)
		case r == '\n':
			b.WriteString(`\n`)
		case r == '\t':
			b.WriteString(`\t`)
		case r < 0x20 || r == 0x7f:
			fmt.Fprintf(&b, `\x%02x`, r)
		default:
			b.WriteRune(r)
		}
	}
	b.WriteByte('"')
	return b.String()
}

func pfMethod(f *ast.File, recv, name string) *ast.FuncDecl {
	for _, d := range f.Decls {
		fd, ok := d.(*ast.FuncDecl)
		if !ok || fd.Name.Name != name || fd.Recv == nil || len(fd.Recv.List) != 1 {
			continue
		}
		t := fd.Recv.List[0].Type
		if s, ok := t.(*ast.StarExpr); ok {
			t = s.X
		}
		if id, ok := t.(*ast.Ident); ok && id.Name == recv {
			return fd
		}
	}
	return nil
}

type pfRaw struct {
	fset  *token.FileSet
	toks  []string
	write string // Lean term of the WriteExpr
	nw    int    // number of write statements seen
}

func (p *pfRaw) unrec(n ast.Node) {
	p.toks = append(p.toks, ".unrecognised "+pfLeanStr(pfSrc(p.fset, n)))
}

func (p *pfRaw) isLog(s ast.Stmt) bool {
	es, ok := s.(*ast.ExprStmt)
	if !ok {
		return false
	}
	return regexp.MustCompile(`^rs\.logger\.Print(f|ln)?\(`).MatchString(pfSrc(p.fset, es.X))
}

func (p *pfRaw) onlyLogs(b *ast.BlockStmt) bool {
	for _, s := range b.List {
		if !p.isLog(s) {
			return false
		}
	}
	return true
}

// writeCall recognises the statement that writes to the connection and records its expression
func (p *pfRaw) writeCall(s ast.Stmt) bool {
	as, ok := s.(*ast.AssignStmt)
	if !ok || len(as.Rhs) != 1 || as.Tok != token.ASSIGN || pfSrc(p.fset, as.Lhs[len(as.Lhs)-1]) != "err" {
		return false
	}
	call, ok := as.Rhs[0].(*ast.CallExpr)
	if !ok {
		return false
	}
	fn := pfSrc(p.fset, call.Fun)
	switch {
	case fn == "fmt.Fprintf" && len(call.Args) >= 2 && pfSrc(p.fset, call.Args[0]) == "rs.connection":
		var args []string
		for _, a := range call.Args[2:] {
			args = append(args, pfLeanStr(pfSrc(p.fset, a)))
		}
		if lit, ok := call.Args[1].(*ast.BasicLit); ok && lit.Kind == token.STRING {
			v, err := strconv.Unquote(lit.Value)
			if err != nil {
				return false
			}
			p.write = fmt.Sprintf(".fprintf true %s [%s]", pfLeanStr(v), strings.Join(args, ", "))
		} else {
			p.write = fmt.Sprintf(".fprintf false %s [%s]", pfLeanStr(pfSrc(p.fset, call.Args[1])), strings.Join(args, ", "))
		}
	case fn == "rs.connection.Write" && len(call.Args) == 1:
		p.write = ".connWrite " + pfLeanStr(pfSrc(p.fset, call.Args[0]))
	default:
		return false
	}
	p.nw++
	return true
}

func (p *pfRaw) stmts(list []ast.Stmt) {
	for _, s := range list {
		p.stmt(s)
	}
}

func (p *pfRaw) stmt(s ast.Stmt) {
	txt := pfSrc(p.fset, s)
	switch x := s.(type) {
	case *ast.ForStmt:
		switch {
		case x.Init == nil && x.Cond == nil && x.Post == nil:
			p.toks = append(p.toks, ".forever")
		case x.Init != nil && pfSrc(p.fset, x.Init) == "i := 0" && x.Cond == nil && x.Post != nil && pfSrc(p.fset, x.Post) == "i++":
			p.toks = append(p.toks, ".forCounting")
		default:
			p.unrec(s)
			return
		}
		p.stmts(x.Body.List)
		p.toks = append(p.toks, ".close")
	case *ast.AssignStmt:
		switch {
		case txt == "msg, ok = <-mCh":
			p.toks = append(p.toks, ".recv")
		case p.writeCall(s):
			p.toks = append(p.toks, ".write")
		case txt == "newConnection, err := net.Dial(rs.config.Protocol, rs.config.URL)":
			p.toks = append(p.toks, ".dial")
		default:
			p.unrec(s)
		}
	case *ast.DeclStmt:
		if txt == "var newConnection, err = net.Dial(rs.config.Protocol, rs.config.URL)" {
			p.toks = append(p.toks, ".dial")
		} else {
			p.unrec(s)
		}
	case *ast.IncDecStmt:
		if txt == "*ec++" {
			p.toks = append(p.toks, ".incErr")
		} else {
			p.unrec(s)
		}
	case *ast.IfStmt:
		if x.Init != nil {
			p.unrec(s)
			return
		}
		cond := pfSrc(p.fset, x.Cond)
		isBreak := func(b *ast.BlockStmt) bool {
			if len(b.List) == 0 {
				return false
			}
			br, ok := b.List[len(b.List)-1].(*ast.BranchStmt)
			if !ok || br.Tok != token.BREAK || br.Label != nil {
				return false
			}
			for _, s := range b.List[:len(b.List)-1] {
				if !p.isLog(s) {
					return false
				}
			}
			return true
		}
		switch {
		case cond == "!ok" && x.Else == nil && len(x.Body.List) == 1 && isBreak(x.Body):
			p.toks = append(p.toks, ".breakIfClosed")
		case cond == "err == nil" && x.Else == nil && len(x.Body.List) == 1 && isBreak(x.Body):
			p.toks = append(p.toks, ".breakIfNil")
		case cond == `strings.HasSuffix(err.Error(), "broken pipe")` && x.Else == nil:
			p.toks = append(p.toks, ".ifBrokenPipe")
			p.stmts(x.Body.List)
			p.toks = append(p.toks, ".close")
		case cond == "err != nil" && p.onlyLogs(x.Body):
			p.toks = append(p.toks, ".onDialErrLog")
			eb, ok := x.Else.(*ast.BlockStmt)
			if !ok {
				if x.Else != nil {
					p.unrec(x.Else)
				}
				return
			}
			swap := 0
			for _, es := range eb.List {
				if p.isLog(es) {
					continue
				}
				if pfSrc(p.fset, es) == "rs.connection = newConnection" {
					swap++
					continue
				}
				p.unrec(es)
			}
			if swap == 1 {
				p.toks = append(p.toks, ".elseSwapConn")
			}
		case (cond == "i >= (rs.config.MaxRetry)" || cond == "i >= rs.config.MaxRetry") && isBreak(x.Body):
			p.toks = append(p.toks, ".ifRetryExhaustedBreak")
			if eb, ok := x.Else.(*ast.BlockStmt); ok && p.onlyLogs(eb) {
				p.toks = append(p.toks, ".elseLogRetry")
			} else if x.Else != nil {
				p.unrec(x.Else)
			}
		default:
			p.unrec(s)
		}
	case *ast.ExprStmt:
		if !p.isLog(s) {
			p.unrec(s)
		}
	default:
		p.unrec(s)
	}
}

// pfPayload: in <recv>.inputMsg, the variable received from mCh and the expression passed as payload
func pfPayload(fset *token.FileSet, fd *ast.FuncDecl, backend string) string {
	recvVar := ""
	var payloads []ast.Expr
	ast.Inspect(fd.Body, func(n ast.Node) bool {
		switch x := n.(type) {
		case *ast.AssignStmt:
			if len(x.Rhs) == 1 && pfSrc(fset, x.Rhs[0]) == "<-mCh" && len(x.Lhs) >= 1 {
				v := pfSrc(fset, x.Lhs[0])
				if recvVar != "" && recvVar != v {
					recvVar = "?"
				} else {
					recvVar = v
				}
			}
		case *ast.CompositeLit:
			t := pfSrc(fset, x.Type)
			if t == "sarama.ProducerMessage" || t == "kafka.Message" {
				found := false
				for _, e := range x.Elts {
					if kv, ok := e.(*ast.KeyValueExpr); ok && pfSrc(fset, kv.Key) == "Value" {
						payloads = append(payloads, kv.Value)
						found = true
					}
				}
				if !found {
					payloads = append(payloads, x)
				}
			}
		case *ast.CallExpr:
			if strings.HasSuffix(pfSrc(fset, x.Fun), ".Publish") && len(x.Args) == 2 {
				payloads = append(payloads, x.Args[1])
			}
		}
		return true
	})
	if recvVar == "" || recvVar == "?" || len(payloads) != 1 {
		return fmt.Sprintf(".other %s", pfLeanStr(fmt.Sprintf("%s: receive variable %q, %d payload sites", backend, recvVar, len(payloads))))
	}
	e := pfSrc(fset, payloads[0])
	switch e {
	case recvVar:
		return ".recvVar"
	case "sarama.ByteEncoder(" + recvVar + ")":
		return ".byteEncoderOfRecvVar"
	}
	return ".other " + pfLeanStr(e)
}

// pfKArm renders the body of one select arm: log statements, `*ec++`, how it ends; whatever else
// it holds goes into `junk` as Go text (fail closed)
func pfKArm(fset *token.FileSet, body []ast.Stmt) string {
	logs, incs := 0, 0
	exit := ".fallOut"
	var junk []string
	for i, s := range body {
		txt := pfSrc(fset, s)
		switch x := s.(type) {
		case *ast.ExprStmt:
			if regexp.MustCompile(`^k\.logger\.Print(f|ln)?\(`).MatchString(txt) {
				logs++
				continue
			}
		case *ast.IncDecStmt:
			if txt == "*ec++" {
				incs++
				continue
			}
		case *ast.BranchStmt:
			if i == len(body)-1 {
				if x.Tok == token.BREAK && x.Label != nil {
					exit = ".breakLabel " + pfLeanStr(x.Label.Name)
				} else {
					exit = ".other " + pfLeanStr(txt)
				}
				continue
			}
		}
		junk = append(junk, pfLeanStr(txt))
	}
	return fmt.Sprintf("{ logs := %d, incs := %d, exit := %s, junk := [%s] }", logs, incs, exit, strings.Join(junk, ", "))
}

// pfKSelect recognises `select { case k.producer.Input() <- &sarama.ProducerMessage{…}: …
// case err := <-k.producer.Errors(): … }` (the two arms in either order, nothing else, no default)
// and returns the rendered input and error arms
func pfKSelect(fset *token.FileSet, sel *ast.SelectStmt) (string, string, bool) {
	in, er := "", ""
	for _, c := range sel.Body.List {
		cc, ok := c.(*ast.CommClause)
		if !ok || cc.Comm == nil {
			return "", "", false
		}
		switch x := cc.Comm.(type) {
		case *ast.SendStmt:
			u, ok := x.Value.(*ast.UnaryExpr)
			if !ok || u.Op != token.AND || in != "" || pfSrc(fset, x.Chan) != "k.producer.Input()" {
				return "", "", false
			}
			if cl, ok := u.X.(*ast.CompositeLit); !ok || pfSrc(fset, cl.Type) != "sarama.ProducerMessage" {
				return "", "", false
			}
			in = pfKArm(fset, cc.Body)
		case *ast.AssignStmt:
			if er != "" || pfSrc(fset, x) != "err := <-k.producer.Errors()" {
				return "", "", false
			}
			er = pfKArm(fset, cc.Body)
		default:
			return "", "", false
		}
	}
	return in, er, in != "" && er != "" && len(sel.Body.List) == 2
}

// pfSaramaLoop: the shape of KafkaSarama.inputMsg's send loop as a `KLoop` term. Whatever is not
// recognised ends up in `extra` / `junk` / `.unrecognised`, which no obligation accepts.
func pfSaramaLoop(fset *token.FileSet, fd *ast.FuncDecl) string {
	var extra []string
	var loop *ast.ForStmt
	for _, s := range fd.Body.List {
		txt := pfSrc(fset, s)
		switch x := s.(type) {
		case *ast.DeclStmt:
			if gd, ok := x.Decl.(*ast.GenDecl); ok && gd.Tok == token.VAR {
				plain := true
				for _, sp := range gd.Specs {
					if vs, ok := sp.(*ast.ValueSpec); !ok || len(vs.Values) != 0 {
						plain = false
					}
				}
				if plain {
					continue
				}
			}
		case *ast.ExprStmt:
			if strings.HasPrefix(txt, "k.logger.Printf(\"start producer: Kafka") || txt == "k.producer.Close()" {
				continue
			}
		case *ast.ForStmt:
			if loop == nil && x.Init == nil && x.Cond == nil && x.Post == nil {
				loop = x
				continue
			}
		}
		extra = append(extra, pfLeanStr(txt))
	}
	recvFirst := false
	offer := `.unrecognised "no for { … } found"`
	if loop != nil {
		body := loop.Body.List
		if len(body) >= 2 && pfSrc(fset, body[0]) == "msg, ok = <-mCh" && pfSrc(fset, body[1]) == "if !ok { break }" {
			recvFirst = true
			body = body[2:]
		}
		offer = `.unrecognised "no statement after the receive"`
		if len(body) >= 1 {
			offer = ".unrecognised " + pfLeanStr(pfSrc(fset, body[0]))
			switch x := body[0].(type) {
			case *ast.SelectStmt:
				if in, er, ok := pfKSelect(fset, x); ok {
					offer = fmt.Sprintf(".selectOnce\n      %s\n      %s", in, er)
				}
			case *ast.LabeledStmt:
				if fs, ok := x.Stmt.(*ast.ForStmt); ok && fs.Init == nil && fs.Cond == nil && fs.Post == nil && len(fs.Body.List) == 1 {
					if sel, ok := fs.Body.List[0].(*ast.SelectStmt); ok {
						if in, er, ok := pfKSelect(fset, sel); ok {
							offer = fmt.Sprintf(".selectLoop %s\n      %s\n      %s", pfLeanStr(x.Label.Name), in, er)
						}
					}
				}
			}
			for _, s := range body[1:] {
				extra = append(extra, pfLeanStr(pfSrc(fset, s)))
			}
		}
	}
	return fmt.Sprintf("{ recvFirst := %v,\n    offer := %s,\n    extra := [%s] }", recvFirst, offer, strings.Join(extra, ", "))
}

func genProducerFacts(repo string) (genFile, error) {
	fset := token.NewFileSet()
	var b strings.Builder
	b.WriteString("import Vflow.Model.ProducerIR\n/-! generated by factgen from producer/*.go — do not edit -/\nnamespace Vflow.Gen\nopen Vflow.Producer\n\n")

	f, err := parser.ParseFile(fset, filepath.Join(repo, "producer", "rawSocket.go"), nil, 0)
	if err != nil {
		return genFile{}, err
	}
	p := &pfRaw{fset: fset, write: `.unrecognised "no write statement found"`}
	if fd := pfMethod(f, "RawSocket", "inputMsg"); fd == nil {
		p.toks = append(p.toks, `.unrecognised "RawSocket.inputMsg not found"`)
	} else {
		// declarations and the start-up log line are neutral; everything else is classified
		for _, s := range fd.Body.List {
			if ds, ok := s.(*ast.DeclStmt); ok {
				if gd, ok := ds.Decl.(*ast.GenDecl); ok && gd.Tok == token.VAR {
					plain := true
					for _, sp := range gd.Specs {
						if vs, ok := sp.(*ast.ValueSpec); !ok || len(vs.Values) != 0 {
							plain = false
						}
					}
					if plain {
						continue
					}
				}
			}
			p.stmt(s)
		}
	}
	if p.nw != 1 {
		p.write = fmt.Sprintf(`.unrecognised "%d write statements"`, p.nw)
	}
	fmt.Fprintf(&b, "/-- `RawSocket.inputMsg`: the expression that writes one message -/\ndef rawWrite : WriteExpr := %s\n\n", p.write)
	fmt.Fprintf(&b, "/-- `RawSocket.inputMsg`: statement skeleton -/\ndef rawLoop : List RTok :=\n  [%s]\n\n", strings.Join(p.toks, ",\n   "))

	for _, be := range []struct{ file, recv, name string }{
		{"sarama.go", "KafkaSarama", "saramaPayload"},
		{"segmentio.go", "KafkaSegmentio", "segmentioPayload"},
		{"nsq.go", "NSQ", "nsqPayload"},
		{"nats.go", "NATS", "natsPayload"},
	} {
		val := ""
		f, err := parser.ParseFile(fset, filepath.Join(repo, "producer", be.file), nil, 0)
		if err != nil {
			val = ".other " + pfLeanStr("parse error: "+err.Error())
		} else if fd := pfMethod(f, be.recv, "inputMsg"); fd == nil {
			val = ".other " + pfLeanStr(be.recv+".inputMsg not found")
		} else {
			val = pfPayload(fset, fd, be.recv)
		}
		fmt.Fprintf(&b, "/-- `%s.inputMsg`: what is handed to the client library -/\ndef %s : PayloadExpr := %s\n\n", be.recv, be.name, val)
	}
	kloop := ""
	if f, err := parser.ParseFile(fset, filepath.Join(repo, "producer", "sarama.go"), nil, 0); err != nil {
		kloop = "{ recvFirst := false, offer := .unrecognised " + pfLeanStr("parse error: "+err.Error()) + ", extra := [] }"
	} else if fd := pfMethod(f, "KafkaSarama", "inputMsg"); fd == nil {
		kloop = `{ recvFirst := false, offer := .unrecognised "KafkaSarama.inputMsg not found", extra := [] }`
	} else {
		kloop = pfSaramaLoop(fset, fd)
	}
	fmt.Fprintf(&b, "/-- `KafkaSarama.inputMsg`: the shape of its send loop -/\ndef saramaLoop : KLoop :=\n  %s\n\n", kloop)
	b.WriteString("end Vflow.Gen\n")
	return genFile{name: "ProducerFacts", body: b.String()}, nil
}
