package main

import (
	"fmt"
	"go/ast"
	"regexp"
	"strconv"
	"strings"
)

// JsonWrites: the hand-written JSON encoders as straight-line "write programs":
//   lit "<text>" | num <field> | ip <field> | agent
// extracted from the statement lists of encodeHeader / encodeFlow / encodeAgent (v5, ipfix, v9).
// Fail closed: any other statement becomes `unrecognised "<go text>"`.
func init() { generators = append(generators, genJSONWrites) }

var (
	reLit   = regexp.MustCompile(`^b\.WriteString\((".*")\)$`)
	reByte  = regexp.MustCompile(`^b\.WriteByte\('(.)'\)$`)
	reNum   = regexp.MustCompile(`^b\.WriteString\(strconv\.FormatInt\(int64\((?:m\.Header|r)\.(\w+)\), 10\)\)$`)
	rePut   = regexp.MustCompile(`^binary\.BigEndian\.PutUint32\(ip, r\.(\w+)\)$`)
	reAgent = regexp.MustCompile(`^b\.WriteString\(m\.AgentID\)$`)
)

func leanBytes(s string) string {
	parts := make([]string, 0, len(s))
	for _, c := range []byte(s) {
		parts = append(parts, strconv.Itoa(int(c)))
	}
	return "[" + strings.Join(parts, ", ") + "]"
}

// field names are resolved to their index in the layout of the structure being written
func fieldIndex(layout [][2]string, name string) (int, bool) {
	for i, l := range layout {
		if l[0] == name {
			return i, true
		}
	}
	return 0, false
}

func writeProgram(fsetSrc func(ast.Node) string, fd *ast.FuncDecl, layout [][2]string) []string {
	if fd == nil {
		return []string{`.unrecognised "function missing"`}
	}
	var out []string
	pendingIP := ""
	for _, st := range fd.Body.List {
		t := fsetSrc(st)
		switch {
		case t == "ip := make(net.IP, 4)":
		case reLit.MatchString(t):
			s, err := strconv.Unquote(reLit.FindStringSubmatch(t)[1])
			if err != nil {
				out = append(out, ".unrecognised "+leanStr(t))
			} else {
				out = append(out, ".lit "+leanBytes(s))
			}
		case reByte.MatchString(t):
			out = append(out, ".lit "+leanBytes(reByte.FindStringSubmatch(t)[1]))
		case reNum.MatchString(t):
			if i, ok := fieldIndex(layout, reNum.FindStringSubmatch(t)[1]); ok {
				out = append(out, fmt.Sprintf(".num %d", i))
			} else {
				out = append(out, ".unrecognised "+leanStr(t))
			}
		case rePut.MatchString(t):
			pendingIP = rePut.FindStringSubmatch(t)[1]
		case t == "b.WriteString(ip.String())" && pendingIP != "":
			if i, ok := fieldIndex(layout, pendingIP); ok {
				out = append(out, fmt.Sprintf(".ip %d", i))
			} else {
				out = append(out, ".unrecognised "+leanStr(t))
			}
			pendingIP = ""
		case reAgent.MatchString(t):
			out = append(out, ".agent")
		default:
			out = append(out, ".unrecognised "+leanStr(t))
		}
	}
	return out
}

func genJSONWrites(repo string) (genFile, error) {
	var b strings.Builder
	b.WriteString("import Vflow.Model.JsonW\n")
	b.WriteString(header("JsonWrites", "netflow/v5/marshal.go, ipfix/marshal.go, netflow/v9/marshal.go"))
	b.WriteString("open Vflow (W)\n\n")
	for _, e := range []struct{ lean, file, fn, lfile, lrecv string }{
		{"v5Agent", "netflow/v5/marshal.go", "encodeAgent", "", ""},
		{"v5Header", "netflow/v5/marshal.go", "encodeHeader", "netflow/v5/decoder.go", "PacketHeader"},
		{"v5Flow", "netflow/v5/marshal.go", "encodeFlow", "netflow/v5/decoder.go", "FlowRecord"},
		{"ipfixAgent", "ipfix/marshal.go", "encodeAgent", "", ""},
		{"ipfixHeader", "ipfix/marshal.go", "encodeHeader", "ipfix/decoder.go", "MessageHeader"},
		{"v9Agent", "netflow/v9/marshal.go", "encodeAgent", "", ""},
		{"v9Header", "netflow/v9/marshal.go", "encodeHeader", "netflow/v9/decoder.go", "PacketHeader"},
	} {
		fset, f, err := parseFile(repo, e.file)
		if err != nil {
			return genFile{}, err
		}
		var layout [][2]string
		if e.lfile != "" {
			lfset, lf, err := parseFile(repo, e.lfile)
			if err != nil {
				return genFile{}, err
			}
			layout = readChain(lfset, funcDecl(lf, e.lrecv, "unmarshal"))
		}
		prog := writeProgram(func(n ast.Node) string { return src(fset, n) }, funcDecl(f, "Message", e.fn), layout)
		fmt.Fprintf(&b, "/-- Message.%s in %s -/\ndef %s : List W := [\n  %s\n]\n\n", e.fn, e.file, e.lean, strings.Join(prog, ",\n  "))
	}
	// the type-switch arms of writeValue: which Go dynamic types the encoder can write
	for _, e := range []struct{ lean, file string }{{"ipfixWriteValueArms", "ipfix/marshal.go"}, {"v9WriteValueArms", "netflow/v9/marshal.go"}} {
		fset, f, err := parseFile(repo, e.file)
		if err != nil {
			return genFile{}, err
		}
		var arms []string
		fd := funcDecl(f, "Message", "writeValue")
		if fd == nil {
			arms = append(arms, "!unrecognised: function missing")
		} else {
			for _, st := range fd.Body.List {
				ts, ok := st.(*ast.TypeSwitchStmt)
				if !ok {
					continue
				}
				for _, c := range ts.Body.List {
					cc := c.(*ast.CaseClause)
					for _, t := range cc.List {
						// an arm counts only if it writes something and does not return an error
						body := src(fset, &ast.BlockStmt{List: cc.Body})
						if len(cc.Body) > 0 && !strings.Contains(body, "return errUknownMarshalDataType") {
							arms = append(arms, src(fset, t))
						}
					}
				}
			}
		}
		fmt.Fprintf(&b, "/-- Go dynamic types with a writing arm in Message.writeValue of %s -/\ndef %s : List String := [", e.file, e.lean)
		for i, a := range arms {
			if i > 0 {
				b.WriteString(", ")
			}
			b.WriteString(leanStr(a))
		}
		b.WriteString("]\n\n")
	}
	b.WriteString(footer("JsonWrites"))
	// the import must precede the module doc: move the header comment after the import
	return genFile{"JsonWrites", b.String()}, nil
}
