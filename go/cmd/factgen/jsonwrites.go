package main

import (
	"fmt"
	"go/ast"
	"regexp"
	"strconv"
	"strings"
)

// JsonWrites: the hand-written JSON encoders as straight-line "write programs":
//   lit "<text>" | num <field> | ip <field> | agent
// extracted from the statement lists of encodeHeader / encodeFlow / encodeAgent (v5, ipfix, v9).
// Fail closed: any other statement becomes `unrecognised "<go text>"`.
func init() { generators = append(generators, genJSONWrites) }

var (
	reLit   = regexp.MustCompile(`^b\.WriteString\((".*")\)$`)
	reByte  = regexp.MustCompile(`^b\.WriteByte\('(.)'\)$`)
	reNum   = regexp.MustCompile(`^b\.WriteString\(strconv\.FormatInt\(int64\((?:m\.Header|r)\.(\w+)\), 10\)\)$`)
	rePut   = regexp.MustCompile(`^binary\.BigEndian\.PutUint32\(ip, r\.(\w+)\)$`)
	reAgent = regexp.MustCompile(`^b\.WriteString\(m\.AgentID\)$`)
)

func writeProgram(fsetSrc func(ast.Node) string, fd *ast.FuncDecl) []string {
	if fd == nil {
		return []string{`.unrecognised "function missing"`}
	}
	var out []string
	pendingIP := ""
	for _, st := range fd.Body.List {
		t := fsetSrc(st)
		switch {
		case t == "ip := make(net.IP, 4)":
		case reLit.MatchString(t):
			s, err := strconv.Unquote(reLit.FindStringSubmatch(t)[1])
			if err != nil {
				out = append(out, ".unrecognised "+leanStr(t))
			} else {
				out = append(out, ".lit "+leanStr(s))
			}
		case reByte.MatchString(t):
			out = append(out, ".lit "+leanStr(reByte.FindStringSubmatch(t)[1]))
		case reNum.MatchString(t):
			out = append(out, ".num "+leanStr(reNum.FindStringSubmatch(t)[1]))
		case rePut.MatchString(t):
			pendingIP = rePut.FindStringSubmatch(t)[1]
		case t == "b.WriteString(ip.String())" && pendingIP != "":
			out = append(out, ".ip "+leanStr(pendingIP))
			pendingIP = ""
		case reAgent.MatchString(t):
			out = append(out, ".agent")
		default:
			out = append(out, ".unrecognised "+leanStr(t))
		}
	}
	return out
}

func genJSONWrites(repo string) (genFile, error) {
	var b strings.Builder
	b.WriteString("import Vflow.Model.JsonW\n")
	b.WriteString(header("JsonWrites", "netflow/v5/marshal.go, ipfix/marshal.go, netflow/v9/marshal.go"))
	b.WriteString("open Vflow (W)\n\n")
	for _, e := range []struct{ lean, file, fn string }{
		{"v5Agent", "netflow/v5/marshal.go", "encodeAgent"},
		{"v5Header", "netflow/v5/marshal.go", "encodeHeader"},
		{"v5Flow", "netflow/v5/marshal.go", "encodeFlow"},
		{"ipfixAgent", "ipfix/marshal.go", "encodeAgent"},
		{"ipfixHeader", "ipfix/marshal.go", "encodeHeader"},
		{"v9Agent", "netflow/v9/marshal.go", "encodeAgent"},
		{"v9Header", "netflow/v9/marshal.go", "encodeHeader"},
	} {
		fset, f, err := parseFile(repo, e.file)
		if err != nil {
			return genFile{}, err
		}
		prog := writeProgram(func(n ast.Node) string { return src(fset, n) }, funcDecl(f, "Message", e.fn))
		fmt.Fprintf(&b, "/-- Message.%s in %s -/\ndef %s : List W := [\n  %s\n]\n\n", e.fn, e.file, e.lean, strings.Join(prog, ",\n  "))
	}
	b.WriteString(footer("JsonWrites"))
	// the import must precede the module doc: move the header comment after the import
	return genFile{"JsonWrites", b.String()}, nil
}
