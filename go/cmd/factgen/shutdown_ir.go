package main

import (
	"fmt"
	"go/ast"
	"regexp"
	"strings"
)

// ShutdownIR: the four shutdown() functions, the four UDP read loops and main() of package vflow
// as ordered abstract steps (C15). Fail closed: an unrecognised statement becomes `.unrecognised "<go>"`.
func init() { generators = append(generators, genShutdownIR) }

var shutdownSrcs = []struct{ lean, file, recv string }{
	{"ipfix", "vflow/ipfix.go", "IPFIX"},
	{"netflowV9", "vflow/netflow_v9.go", "NetflowV9"},
	{"netflowV5", "vflow/netflow_v5.go", "NetflowV5"},
	{"sflow", "vflow/sflow.go", "SFlow"},
}

var (
	reGuard   = regexp.MustCompile(`^if !opts\.\w+Enabled \{ return \}$`)
	reSetStop = regexp.MustCompile(`^\w+\.stop = true$`)
	reLog     = regexp.MustCompile(`^logger\.Print(ln|f)\(`)
	reSleep   = regexp.MustCompile(`^time\.Sleep\(1 \* time\.Second\)$`)
	reDump    = regexp.MustCompile(`^if err := mCache\w*\.Dump\(opts\.\w+\); err != nil \{ logger\.Println\(.*\) \}$`)
	reConnCl  = regexp.MustCompile(`^\w+\.conn\.Close\(\)$`)
	reCloseQ  = regexp.MustCompile(`^close\((\w+UDPCh)\)$`)
	reGetBuf  = regexp.MustCompile(`^b := \w+Buffer\.Get\(\)\.\(\[\]byte\)$`)
	reDeadl   = regexp.MustCompile(`^(\w+\.)?conn\.SetReadDeadline\(time\.Now\(\)\.Add\(1e9\)\)$`)
	reRead    = regexp.MustCompile(`^n, raddr, err := (\w+\.)?conn\.ReadFromUDP\(b\)$`)
	reErrCont = regexp.MustCompile(`^if err != nil \{ continue \}$`)
	reCount   = regexp.MustCompile(`^atomic\.AddUint64\(&\w+\.stats\.UDPCount, 1\)$`)
	reEnq     = regexp.MustCompile(`^(\w+UDPCh) <- \w+\{raddr, b\[:n\]\}$`)
)

func classify(t string, table []struct {
	re   *regexp.Regexp
	name string
}) string {
	for _, e := range table {
		if e.re.MatchString(t) {
			return "." + e.name
		}
	}
	return ".unrecognised " + leanStr(t)
}

func genShutdownIR(repo string) (genFile, error) {
	var b strings.Builder
	b.WriteString("import Vflow.Model.Shutdown\n")
	b.WriteString(header("ShutdownIR", "vflow/{ipfix,netflow_v9,netflow_v5,sflow}.go (shutdown, read loops) and vflow/vflow.go (main)"))
	b.WriteString("open Vflow.Shutdown (SStep RStep MStep)\n\n")
	shTable := []struct {
		re   *regexp.Regexp
		name string
	}{{reGuard, "guardEnabled"}, {reSetStop, "setStop"}, {reLog, "log"}, {reSleep, "sleep1s"}, {reDump, "dump"}, {reConnCl, "closeConn"}, {reCloseQ, "closeQueue"}}
	rdTable := []struct {
		re   *regexp.Regexp
		name string
	}{{reGetBuf, "getBuf"}, {reDeadl, "deadline1s"}, {reRead, "read"}, {reErrCont, "onErrorContinue"}, {reCount, "countUDP"}, {reEnq, "enqueue"}}
	for _, s := range shutdownSrcs {
		fset, f, err := parseFile(repo, s.file)
		if err != nil {
			return genFile{}, err
		}
		var steps []string
		fd := funcDecl(f, s.recv, "shutdown")
		if fd == nil {
			steps = []string{`.unrecognised "shutdown missing"`}
		} else {
			for _, st := range fd.Body.List {
				steps = append(steps, classify(src(fset, st), shTable))
			}
		}
		fmt.Fprintf(&b, "/-- %s.shutdown in %s -/\ndef %sShutdown : List SStep := [%s]\n\n", s.recv, s.file, s.lean, strings.Join(steps, ", "))
		// the read loop: the `for !x.stop { … }` statement of run()
		var rsteps []string
		cond := ""
		if rd := funcDecl(f, s.recv, "run"); rd != nil {
			for _, st := range rd.Body.List {
				if fs, ok := st.(*ast.ForStmt); ok && fs.Init == nil && fs.Post == nil && fs.Cond != nil && strings.HasSuffix(src(fset, fs.Cond), ".stop") {
					cond = src(fset, fs.Cond)
					for _, bs := range fs.Body.List {
						rsteps = append(rsteps, classify(src(fset, bs), rdTable))
					}
				}
			}
		}
		if cond == "" || !strings.HasPrefix(cond, "!") {
			rsteps = append([]string{".unrecognised " + leanStr("loop condition "+cond)}, rsteps...)
		} else {
			rsteps = append([]string{".whileNotStop"}, rsteps...)
		}
		fmt.Fprintf(&b, "/-- the UDP read loop of %s.run -/\ndef %sReadLoop : List RStep := [%s]\n\n", s.recv, s.lean, strings.Join(rsteps, ", "))
	}
	// main(): what happens around the signal
	fset, f, err := parseFile(repo, "vflow/vflow.go")
	if err != nil {
		return genFile{}, err
	}
	var msteps []string
	if fd := funcDecl(f, "", "main"); fd != nil {
		for _, st := range fd.Body.List {
			t := src(fset, st)
			switch {
			case strings.HasPrefix(t, "var ("), strings.HasPrefix(t, "opts = GetOptions()"), strings.HasPrefix(t, "runtime.GOMAXPROCS("),
				strings.HasPrefix(t, "logger = "), strings.HasPrefix(t, "if !opts.ProducerEnabled"), strings.HasPrefix(t, "protos := []proto{"):
				// set-up, no synchronisation
			case t == `if opts.IPFIXEnabled { if err := ipfix.LoadExtElements(opts.VFlowConfigPath); err != nil { logger.Println("load.ext.elements:", err) } }`:
				// the information model shared by the IPFIX and NetFlow v9 decoders is replaced here
				msteps = append(msteps, ".loadElements")
			case t == "signal.Notify(signalCh, syscall.SIGINT, syscall.SIGTERM)":
				msteps = append(msteps, ".notifySigintSigterm")
			case t == "for _, p := range protos { wg.Add(1) go func(p proto) { defer wg.Done() p.run() }(p) }":
				msteps = append(msteps, ".spawnRunsCounted")
			case t == "go statsExpose(protos)":
				msteps = append(msteps, ".spawnStats")
			case t == "<-signalCh":
				msteps = append(msteps, ".awaitSignal")
			case t == "for _, p := range protos { wg.Add(1) go func(p proto) { defer wg.Done() p.shutdown() }(p) }":
				msteps = append(msteps, ".spawnShutdownsCounted")
			case t == "wg.Wait()":
				msteps = append(msteps, ".waitAll")
			default:
				msteps = append(msteps, ".unrecognised "+leanStr(t))
			}
		}
	} else {
		msteps = []string{`.unrecognised "main missing"`}
	}
	fmt.Fprintf(&b, "/-- main() of vflow/vflow.go (set-up statements without synchronisation omitted) -/\ndef mainSteps : List MStep := [%s]\n", strings.Join(msteps, ", "))
	b.WriteString(footer("ShutdownIR"))
	return genFile{"ShutdownIR", b.String()}, nil
}
