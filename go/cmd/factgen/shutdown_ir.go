package main

import (
	"fmt"
	"go/ast"
	"go/parser"
	"go/token"
	"os"
	"path/filepath"
	"regexp"
	"sort"
	"strings"
)

// ShutdownIR: the four shutdown() functions, the four UDP read loops (the loop body, every
// statement of run() that follows the loop, and every statement of run() before the loop that
// mentions the template cache or its "loaded" flag) and main() of package vflow as ordered abstract
// steps, plus every send on and every close of a UDP work queue, every assignment to a template
// cache variable and every use of a "loaded" flag anywhere in package vflow (C15).
// Fail closed: an unrecognised statement becomes `.unrecognised "<go>"`.
func init() { generators = append(generators, genShutdownIR) }

var shutdownSrcs = []struct{ lean, file, recv string }{
	{"ipfix", "vflow/ipfix.go", "IPFIX"},
	{"netflowV9", "vflow/netflow_v9.go", "NetflowV9"},
	{"netflowV5", "vflow/netflow_v5.go", "NetflowV5"},
	{"sflow", "vflow/sflow.go", "SFlow"},
}

var (
	reGuard   = regexp.MustCompile(`^if !opts\.\w+Enabled \{ return \}$`)
	reSetStop = regexp.MustCompile(`^\w+\.stop = true$`)
	reLog     = regexp.MustCompile(`^logger\.Print(ln|f)\(`)
	reSleep   = regexp.MustCompile(`^time\.Sleep\(1 \* time\.Second\)$`)
	reDump    = regexp.MustCompile(`^if err := (mCache\w*)\.Dump\((opts\.\w+)\); err != nil \{ logger\.Println\(.*\) \}$`)
	reConnCl  = regexp.MustCompile(`^\w+\.conn\.Close\(\)$`)
	reCloseQ  = regexp.MustCompile(`^close\((\w+UDPCh)\)$`)
	reGetBuf  = regexp.MustCompile(`^b := \w+Buffer\.Get\(\)\.\(\[\]byte\)$`)
	reDeadl   = regexp.MustCompile(`^(\w+\.)?conn\.SetReadDeadline\(time\.Now\(\)\.Add\(1e9\)\)$`)
	reRead    = regexp.MustCompile(`^n, raddr, err := (\w+\.)?conn\.ReadFromUDP\(b\)$`)
	reErrCont = regexp.MustCompile(`^if err != nil \{ continue \}$`)
	reCount   = regexp.MustCompile(`^atomic\.AddUint64\(&\w+\.stats\.UDPCount, 1\)$`)
	reEnq     = regexp.MustCompile(`^(\w+UDPCh) <- \w+\{raddr, b\[:n\]\}$`)
)

var (
	// the guarded dump (F27 repair): flag, cache variable, file
	reDumpG = regexp.MustCompile(`^if atomic\.LoadInt32\(&(mCache\w*Loaded)\) == 1 \{ if err := (mCache\w*)\.Dump\((opts\.\w+)\); err != nil \{ logger\.Println\(.*\) \} \}$`)
	// run(), before the loop: the cache is loaded, the flag is set, (IPFIX) the cache is handed to the RPC goroutine
	reLoad     = regexp.MustCompile(`^(mCache\w*) = \w+\.GetCache\((opts\.\w+)\)$`)
	reMark     = regexp.MustCompile(`^atomic\.StoreInt32\(&(mCache\w*Loaded), 1\)$`)
	reRPC      = regexp.MustCompile(`^go ipfix\.RPC\((mCache\w*), &ipfix\.RPCConfig\{.*\}\)$`)
	reCacheVar = regexp.MustCompile(`^mCache\w*$`)
)

func classify(t string, table []struct {
	re   *regexp.Regexp
	name string
}) string {
	for _, e := range table {
		if e.re.MatchString(t) {
			return "." + e.name
		}
	}
	return ".unrecognised " + leanStr(t)
}

func genShutdownIR(repo string) (genFile, error) {
	var b strings.Builder
	b.WriteString("import Vflow.Model.Shutdown\n")
	b.WriteString(header("ShutdownIR", "vflow/{ipfix,netflow_v9,netflow_v5,sflow}.go (shutdown, read loops) and vflow/vflow.go (main)"))
	b.WriteString("open Vflow.Shutdown (SStep RStep MStep)\n\n")
	shTable := []struct {
		re   *regexp.Regexp
		name string
	}{{reGuard, "guardEnabled"}, {reSetStop, "setStop"}, {reLog, "log"}, {reSleep, "sleep1s"}, {reConnCl, "closeConn"}, {reCloseQ, "closeQueue"}}
	// (the dump statement, plain or guarded, is handled where shutdown() is walked: a second one is unrecognised)
	rdTable := []struct {
		re   *regexp.Regexp
		name string
	}{{reGetBuf, "getBuf"}, {reDeadl, "deadline1s"}, {reRead, "read"}, {reErrCont, "onErrorContinue"}, {reCount, "countUDP"}, {reEnq, "enqueue"}}
	for _, s := range shutdownSrcs {
		fset, f, err := parseFile(repo, s.file)
		if err != nil {
			return genFile{}, err
		}
		var steps []string
		// what the dump statement of shutdown() names: cache variable, file, flag ("" = unguarded / no dump)
		dumpCache, dumpFile, dumpFlag := "", "", ""
		fd := funcDecl(f, s.recv, "shutdown")
		if fd == nil {
			steps = []string{`.unrecognised "shutdown missing"`}
		} else {
			for _, st := range fd.Body.List {
				t := src(fset, st)
				if m := reDumpG.FindStringSubmatch(t); m != nil && dumpCache == "" {
					dumpFlag, dumpCache, dumpFile = m[1], m[2], m[3]
					steps = append(steps, ".dumpIfLoaded")
					continue
				}
				if m := reDump.FindStringSubmatch(t); m != nil && dumpCache == "" {
					dumpCache, dumpFile = m[1], m[2]
					steps = append(steps, ".dump")
					continue
				}
				steps = append(steps, classify(t, shTable))
			}
		}
		fmt.Fprintf(&b, "/-- %s.shutdown in %s -/\ndef %sShutdown : List SStep := [%s]\n\n", s.recv, s.file, s.lean, strings.Join(steps, ", "))
		// the read loop: the `for !x.stop { … }` statement of run(), and every statement of run() after it
		var rsteps []string
		after := []string{}
		before := []string{}
		cond := ""
		nloops := 0
		queue := "" // the channel the loop sends on
		if rd := funcDecl(f, s.recv, "run"); rd != nil {
			for _, st := range rd.Body.List {
				if fs, ok := st.(*ast.ForStmt); ok && fs.Init == nil && fs.Post == nil && fs.Cond != nil && strings.HasSuffix(src(fset, fs.Cond), ".stop") {
					nloops++
					cond = src(fset, fs.Cond)
					rsteps, after = nil, []string{}
					if nloops > 1 {
						before = append(before, ".unrecognised \"a second stop loop\"")
					}
					for _, bs := range fs.Body.List {
						t := src(fset, bs)
						if m := reEnq.FindStringSubmatch(t); m != nil {
							queue = m[1]
						}
						rsteps = append(rsteps, classify(t, rdTable))
					}
					continue
				}
				if nloops == 0 {
					// set-up before the loop (listener, workers, producer) is not part of the stop protocol, except
					// the statements that mention a template cache variable or its "loaded" flag: the cache must be
					// the one shutdown() dumps, loaded from the file it is dumped to, the flag the one the dump tests
					if !mentions(st, reCacheVar) {
						continue
					}
					t := src(fset, st)
					switch {
					case reLoad.MatchString(t):
						if m := reLoad.FindStringSubmatch(t); m[1] == dumpCache && m[2] == dumpFile {
							before = append(before, ".loadCache")
						} else {
							before = append(before, ".unrecognised "+leanStr(t+" (shutdown dumps "+dumpCache+" to "+dumpFile+")"))
						}
					case reMark.MatchString(t):
						if m := reMark.FindStringSubmatch(t); m[1] == dumpFlag {
							before = append(before, ".markLoaded")
						} else {
							before = append(before, ".unrecognised "+leanStr(t+" (the dump of shutdown tests \""+dumpFlag+"\")"))
						}
					case reRPC.MatchString(t) && reRPC.FindStringSubmatch(t)[1] == dumpCache:
						before = append(before, ".spawnRPC")
					default:
						before = append(before, ".unrecognised "+leanStr(t))
					}
					continue
				}
				t := src(fset, st)
				switch m := reCloseQ.FindStringSubmatch(t); {
				case m != nil && m[1] == queue:
					after = append(after, ".closeQueue")
				case m != nil:
					after = append(after, ".unrecognised "+leanStr(t+" (the loop sends on "+queue+")"))
				default:
					after = append(after, classify(t, []struct {
						re   *regexp.Regexp
						name string
					}{{reLog, "log"}}))
				}
			}
		}
		if cond == "" || !strings.HasPrefix(cond, "!") || nloops != 1 {
			rsteps = append([]string{".unrecognised " + leanStr(fmt.Sprintf("%d stop loops, condition %s", nloops, cond))}, rsteps...)
		} else {
			rsteps = append([]string{".whileNotStop"}, rsteps...)
		}
		fmt.Fprintf(&b, "/-- the UDP read loop of %s.run -/\ndef %sReadLoop : List RStep := [%s]\n\n", s.recv, s.lean, strings.Join(rsteps, ", "))
		fmt.Fprintf(&b, "/-- the statements of %s.run after the read loop -/\ndef %sAfterLoop : List RStep := [%s]\n\n", s.recv, s.lean, strings.Join(after, ", "))
		fmt.Fprintf(&b, "/-- the statements of %s.run before the read loop that mention a template cache variable or its loaded flag -/\ndef %sBeforeLoop : List RStep := [%s]\n\n", s.recv, s.lean, strings.Join(before, ", "))
	}
	// every send on / close of a UDP work queue in package vflow (non-test files), by enclosing function
	sends, closes, err := queueUsers(repo)
	if err != nil {
		return genFile{}, err
	}
	fmt.Fprintf(&b, "/-- every send statement on a UDP work queue in package vflow: (function, channel) -/\ndef queueSenders : List (String × String) := [%s]\n\n", strings.Join(sends, ", "))
	fmt.Fprintf(&b, "/-- every `close` of a UDP work queue in package vflow: (function, channel) -/\ndef queueClosers : List (String × String) := [%s]\n\n", strings.Join(closes, ", "))
	// every assignment to a template cache variable, every use of a "loaded" flag in package vflow
	writers, flagUses, err := cacheUsers(repo)
	if err != nil {
		return genFile{}, err
	}
	fmt.Fprintf(&b, "/-- every assignment to a template cache variable (mCache…) in package vflow: (function, statement) -/\ndef cacheWriters : List (String × String) := [%s]\n\n", strings.Join(writers, ", "))
	fmt.Fprintf(&b, "/-- every use of a loaded flag (mCache…Loaded) in package vflow: (function, the call it is passed to by address), or a description of any other use -/\ndef loadedFlagUses : List (String × String) := [%s]\n\n", strings.Join(flagUses, ", "))
	// which decoder package each listener decodes with, and the option that switches the listener on (F34)
	var switches []string
	for _, sw := range shutdownSrcs {
		fset, f, err := parseFile(repo, sw.file)
		if err != nil {
			return genFile{}, err
		}
		switches = append(switches, decoderSwitch(fset, f, sw.file, sw.recv))
	}
	fmt.Fprintf(&b, "/-- per listener of package vflow: (directory of the package whose decoder its workers construct, the option that the first\n    statement of its run() after the declarations tests — `if !opts.<option> { log; return }`) -/\ndef decoderSwitches : List (String × String) := [%s]\n\n", strings.Join(switches, ", "))
	// main(): what happens around the signal
	fset, f, err := parseFile(repo, "vflow/vflow.go")
	if err != nil {
		return genFile{}, err
	}
	var msteps []string
	if fd := funcDecl(f, "", "main"); fd != nil {
		for _, st := range fd.Body.List {
			t := src(fset, st)
			switch {
			case reSigChan.MatchString(t):
				// the channel the signals are relayed to, and its capacity: package os/signal does not block when it relays a
				// signal, so one that arrives while nobody receives is kept only if the channel has room for it
				msteps = append(msteps, ".makeSignalChan "+reSigChan.FindStringSubmatch(t)[1])
			case t == "var ( wg sync.WaitGroup signalCh = make(chan os.Signal) )":
				msteps = append(msteps, ".makeSignalChan 0")
			case t == "opts = GetOptions()":
				// the options phase (F32): flags, configuration file, pid-file test (may fork `kill -0`), pid-file write
				msteps = append(msteps, ".getOptions")
			case reSetUp.MatchString(t):
				// set-up without synchronisation: listed (not omitted), so that its position relative to signal.Notify shows
				msteps = append(msteps, ".setUp")
			case t == loadElementsCall:
				// the information model shared by the IPFIX and NetFlow v9 decoders is replaced here, unconditionally
				msteps = append(msteps, ".loadElements")
			case reLoadElemsIf.MatchString(t):
				// … under a guard (F34): the options whose disjunction the guard is, in source order; anything else in the
				// condition is not recognised
				m := reLoadElemsIf.FindStringSubmatch(t)
				var gs []string
				for _, term := range strings.Split(m[1], " || ") {
					if g := reOptEnabled.FindStringSubmatch(term); g != nil {
						gs = append(gs, leanStr(g[1]))
					} else {
						gs = nil
						break
					}
				}
				if gs == nil {
					msteps = append(msteps, ".unrecognised "+leanStr(t))
				} else {
					msteps = append(msteps, ".loadElementsIf ["+strings.Join(gs, ", ")+"]")
				}
			case t == "signal.Notify(signalCh, syscall.SIGINT, syscall.SIGTERM)":
				msteps = append(msteps, ".notifySigintSigterm")
			case t == "for _, p := range protos { wg.Add(1) go func(p proto) { defer wg.Done() p.run() }(p) }":
				msteps = append(msteps, ".spawnRunsCounted")
			case t == "go statsExpose(protos)":
				msteps = append(msteps, ".spawnStats")
			case t == "<-signalCh":
				msteps = append(msteps, ".awaitSignal")
			case t == "for _, p := range protos { wg.Add(1) go func(p proto) { defer wg.Done() p.shutdown() }(p) }":
				msteps = append(msteps, ".spawnShutdownsCounted")
			case t == "wg.Wait()":
				msteps = append(msteps, ".waitAll")
			default:
				msteps = append(msteps, ".unrecognised "+leanStr(t))
			}
		}
	} else {
		msteps = []string{`.unrecognised "main missing"`}
	}
	fmt.Fprintf(&b, "/-- main() of vflow/vflow.go, every statement (`.setUp`: a statement that synchronises with nothing) -/\ndef mainSteps : List MStep := [%s]\n", strings.Join(msteps, ", "))
	b.WriteString(footer("ShutdownIR"))
	return genFile{"ShutdownIR", b.String()}, nil
}

// main(): the call that replaces the shared information model, and the guard it may stand under
const loadElementsCall = `if err := ipfix.LoadExtElements(opts.VFlowConfigPath); err != nil { logger.Println("load.ext.elements:", err) }`

var (
	reLoadElemsIf = regexp.MustCompile(`^if (.+) \{ ` + regexp.QuoteMeta(loadElementsCall) + ` \}$`)
	reOptEnabled  = regexp.MustCompile(`^opts\.(\w+Enabled)$`)
	reRunGuard    = regexp.MustCompile(`^if !opts\.(\w+Enabled) \{ logger\.Println\("[^"]*"\) return \}$`)
	reNewDecoder  = regexp.MustCompile(`^New\w*Decoder$`)
)

var (
	// main(): the declaration block with the signal channel; the set-up statements that synchronise with nothing
	reSigChan = regexp.MustCompile(`^var \( wg sync\.WaitGroup signalCh = make\(chan os\.Signal, (\d+)\) \)$`)
	reSetUp   = regexp.MustCompile(`^(runtime\.GOMAXPROCS\(opts\.getCPU\(\)\)|logger = opts\.Logger|if !opts\.ProducerEnabled \{ logger\.Println\("[^"]*"\) \}|protos := \[\]proto\{NewSFlow\(\), NewIPFIX\(\), NewNetflowV5\(\), NewNetflowV9\(\)\})$`)
)

// decoderSwitch: the Lean pair (decoder package directory, enabling option) of one listener file; whatever is not found exactly
// once becomes a text no obligation accepts
func decoderSwitch(fset *token.FileSet, f *ast.File, file, recv string) string {
	imports := map[string]string{}
	for _, im := range f.Imports {
		path := strings.Trim(im.Path.Value, "\"")
		name := path[strings.LastIndex(path, "/")+1:]
		if im.Name != nil {
			name = im.Name.Name
		}
		imports[name] = path
	}
	pkgs := map[string]bool{}
	ast.Inspect(f, func(n ast.Node) bool {
		if c, ok := n.(*ast.CallExpr); ok {
			if sel, ok := c.Fun.(*ast.SelectorExpr); ok && reNewDecoder.MatchString(sel.Sel.Name) {
				if id, ok := sel.X.(*ast.Ident); ok {
					if path, ok := imports[id.Name]; ok && strings.HasPrefix(path, "github.com/EdgeCast/vflow/") {
						pkgs[strings.TrimPrefix(path, "github.com/EdgeCast/vflow/")] = true
					} else {
						pkgs["!unrecognised decoder package "+id.Name] = true
					}
				}
			}
		}
		return true
	})
	var ps []string
	for p := range pkgs {
		ps = append(ps, p)
	}
	sort.Strings(ps)
	pkg := strings.Join(ps, " + ")
	if len(ps) != 1 {
		pkg = fmt.Sprintf("!unrecognised: %d decoder packages in %s: %s", len(ps), file, pkg)
	}
	opt := "!unrecognised: " + recv + ".run does not begin (after its declarations) with `if !opts.<X>Enabled { log; return }`"
	if rd := funcDecl(f, recv, "run"); rd != nil {
		// the first statement that is not a declaration
		for _, st := range rd.Body.List {
			if _, ok := st.(*ast.DeclStmt); ok {
				continue
			}
			if m := reRunGuard.FindStringSubmatch(src(fset, st)); m != nil {
				opt = m[1]
			}
			break
		}
	}
	return "(" + leanStr(pkg) + ", " + leanStr(opt) + ")"
}

var reUDPCh = regexp.MustCompile(`UDPCh$`)

// queueUsers lists, for every non-test file of package vflow, each send statement whose channel is
// named …UDPCh and each call close(…UDPCh) (also inside function literals, defers and go statements),
// as Lean pairs ("Recv.func", "channel"), sorted. Anything that passes such a channel on by name
// (an argument, an assignment from or to it) is listed among the closers as ("Recv.func", "escapes: <go>").
func queueUsers(repo string) (sends, closes []string, err error) {
	files, err := filepath.Glob(filepath.Join(repo, "vflow", "*.go"))
	if err != nil {
		return nil, nil, err
	}
	sort.Strings(files)
	for _, path := range files {
		if strings.HasSuffix(path, "_test.go") {
			continue
		}
		if _, e := os.Stat(path); e != nil {
			return nil, nil, e
		}
		fset := token.NewFileSet()
		f, e := parser.ParseFile(fset, path, nil, 0)
		if e != nil {
			return nil, nil, e
		}
		for _, d := range f.Decls {
			fd, ok := d.(*ast.FuncDecl)
			if !ok || fd.Body == nil {
				continue
			}
			name := fd.Name.Name
			if fd.Recv != nil && len(fd.Recv.List) == 1 {
				t := fd.Recv.List[0].Type
				if st, ok := t.(*ast.StarExpr); ok {
					t = st.X
				}
				name = src(fset, t) + "." + name
			}
			pair := func(a, c string) string { return "(" + leanStr(a) + ", " + leanStr(c) + ")" }
			ast.Inspect(fd.Body, func(n ast.Node) bool {
				switch x := n.(type) {
				case *ast.SendStmt:
					if id, ok := x.Chan.(*ast.Ident); ok && reUDPCh.MatchString(id.Name) {
						sends = append(sends, pair(name, id.Name))
					}
				case *ast.CallExpr:
					fn, isId := x.Fun.(*ast.Ident)
					for _, a := range x.Args {
						id, ok := a.(*ast.Ident)
						if !ok || !reUDPCh.MatchString(id.Name) {
							continue
						}
						switch {
						case isId && fn.Name == "close" && len(x.Args) == 1:
							closes = append(closes, pair(name, id.Name))
						case isId && (fn.Name == "len" || fn.Name == "cap") && len(x.Args) == 1:
							// queue length for the statistics and the dynamic-worker heuristic
						default:
							closes = append(closes, pair(name, "escapes: "+src(fset, x)))
						}
					}
				case *ast.AssignStmt:
					for _, r := range append(append([]ast.Expr{}, x.Rhs...), x.Lhs...) {
						if id, ok := r.(*ast.Ident); ok && reUDPCh.MatchString(id.Name) {
							closes = append(closes, pair(name, "escapes: "+src(fset, x)))
						}
					}
				}
				return true
			})
		}
	}
	sort.Strings(sends)
	sort.Strings(closes)
	return sends, closes, nil
}

// mentions reports whether an identifier matching re occurs anywhere in n
func mentions(n ast.Node, re *regexp.Regexp) bool {
	found := false
	ast.Inspect(n, func(x ast.Node) bool {
		if id, ok := x.(*ast.Ident); ok && re.MatchString(id.Name) {
			found = true
		}
		return !found
	})
	return found
}

var reLoadedFlag = regexp.MustCompile(`^mCache\w*Loaded$`)

// cacheUsers lists, for every non-test file of package vflow, (1) each assignment whose left side is a template
// cache variable (an identifier mCache… that is not a flag) as ("Recv.func", "<statement>"), and (2) each occurrence
// of a "loaded" flag (mCache…Loaded): passed by address to a call -> ("Recv.func", "<call>"); declared with an
// initial value -> ("package", "initialised: …"); anything else (a plain read or write, its address kept) ->
// ("Recv.func", "plain use: <enclosing node>"). Both sorted.
func cacheUsers(repo string) (writers, flagUses []string, err error) {
	files, err := filepath.Glob(filepath.Join(repo, "vflow", "*.go"))
	if err != nil {
		return nil, nil, err
	}
	sort.Strings(files)
	pair := func(a, c string) string { return "(" + leanStr(a) + ", " + leanStr(c) + ")" }
	for _, path := range files {
		if strings.HasSuffix(path, "_test.go") {
			continue
		}
		fset := token.NewFileSet()
		f, e := parser.ParseFile(fset, path, nil, 0)
		if e != nil {
			return nil, nil, e
		}
		for _, d := range f.Decls {
			if gd, ok := d.(*ast.GenDecl); ok {
				for _, sp := range gd.Specs {
					vs, ok := sp.(*ast.ValueSpec)
					if !ok {
						continue
					}
					for _, nm := range vs.Names {
						if reCacheVar.MatchString(nm.Name) && len(vs.Values) > 0 {
							if reLoadedFlag.MatchString(nm.Name) {
								flagUses = append(flagUses, pair("package", "initialised: "+src(fset, vs)))
							} else {
								writers = append(writers, pair("package", "initialised: "+src(fset, vs)))
							}
						}
					}
				}
				continue
			}
			fd, ok := d.(*ast.FuncDecl)
			if !ok || fd.Body == nil {
				continue
			}
			name := fd.Name.Name
			if fd.Recv != nil && len(fd.Recv.List) == 1 {
				t := fd.Recv.List[0].Type
				if st, ok := t.(*ast.StarExpr); ok {
					t = st.X
				}
				name = src(fset, t) + "." + name
			}
			var stack []ast.Node
			ast.Inspect(fd.Body, func(n ast.Node) bool {
				if n == nil {
					stack = stack[:len(stack)-1]
					return true
				}
				stack = append(stack, n)
				id, ok := n.(*ast.Ident)
				if !ok || !reCacheVar.MatchString(id.Name) {
					return true
				}
				var parent, grand ast.Node
				if len(stack) >= 2 {
					parent = stack[len(stack)-2]
				}
				if len(stack) >= 3 {
					grand = stack[len(stack)-3]
				}
				if reLoadedFlag.MatchString(id.Name) {
					if u, ok := parent.(*ast.UnaryExpr); ok && u.Op == token.AND {
						if c, ok := grand.(*ast.CallExpr); ok {
							for _, a := range c.Args {
								if a == ast.Expr(u) {
									flagUses = append(flagUses, pair(name, src(fset, c)))
									return true
								}
							}
						}
					}
					flagUses = append(flagUses, pair(name, "plain use: "+src(fset, parent)))
					return true
				}
				switch x := parent.(type) {
				case *ast.AssignStmt:
					for _, l := range x.Lhs {
						if l == ast.Expr(id) {
							writers = append(writers, pair(name, src(fset, x)))
						}
					}
				case *ast.UnaryExpr:
					if x.Op == token.AND {
						writers = append(writers, pair(name, "address taken: "+src(fset, grand)))
					}
				case *ast.IncDecStmt:
					writers = append(writers, pair(name, src(fset, x)))
				}
				return true
			})
		}
	}
	sort.Strings(writers)
	sort.Strings(flagUses)
	return writers, flagUses, nil
}
