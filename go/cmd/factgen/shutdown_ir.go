package main

import (
	"fmt"
	"go/ast"
	"go/parser"
	"go/token"
	"os"
	"path/filepath"
	"regexp"
	"sort"
	"strings"
)

// ShutdownIR: the four shutdown() functions, the four UDP read loops (the loop body and every
// statement of run() that follows the loop) and main() of package vflow as ordered abstract steps,
// plus every send on and every close of a UDP work queue anywhere in package vflow (C15).
// Fail closed: an unrecognised statement becomes `.unrecognised "<go>"`.
func init() { generators = append(generators, genShutdownIR) }

var shutdownSrcs = []struct{ lean, file, recv string }{
	{"ipfix", "vflow/ipfix.go", "IPFIX"},
	{"netflowV9", "vflow/netflow_v9.go", "NetflowV9"},
	{"netflowV5", "vflow/netflow_v5.go", "NetflowV5"},
	{"sflow", "vflow/sflow.go", "SFlow"},
}

var (
	reGuard   = regexp.MustCompile(`^if !opts\.\w+Enabled \{ return \}$`)
	reSetStop = regexp.MustCompile(`^\w+\.stop = true$`)
	reLog     = regexp.MustCompile(`^logger\.Print(ln|f)\(`)
	reSleep   = regexp.MustCompile(`^time\.Sleep\(1 \* time\.Second\)$`)
	reDump    = regexp.MustCompile(`^if err := mCache\w*\.Dump\(opts\.\w+\); err != nil \{ logger\.Println\(.*\) \}$`)
	reConnCl  = regexp.MustCompile(`^\w+\.conn\.Close\(\)$`)
	reCloseQ  = regexp.MustCompile(`^close\((\w+UDPCh)\)$`)
	reGetBuf  = regexp.MustCompile(`^b := \w+Buffer\.Get\(\)\.\(\[\]byte\)$`)
	reDeadl   = regexp.MustCompile(`^(\w+\.)?conn\.SetReadDeadline\(time\.Now\(\)\.Add\(1e9\)\)$`)
	reRead    = regexp.MustCompile(`^n, raddr, err := (\w+\.)?conn\.ReadFromUDP\(b\)$`)
	reErrCont = regexp.MustCompile(`^if err != nil \{ continue \}$`)
	reCount   = regexp.MustCompile(`^atomic\.AddUint64\(&\w+\.stats\.UDPCount, 1\)$`)
	reEnq     = regexp.MustCompile(`^(\w+UDPCh) <- \w+\{raddr, b\[:n\]\}$`)
)

func classify(t string, table []struct {
	re   *regexp.Regexp
	name string
}) string {
	for _, e := range table {
		if e.re.MatchString(t) {
			return "." + e.name
		}
	}
	return ".unrecognised " + leanStr(t)
}

func genShutdownIR(repo string) (genFile, error) {
	var b strings.Builder
	b.WriteString("import Vflow.Model.Shutdown\n")
	b.WriteString(header("ShutdownIR", "vflow/{ipfix,netflow_v9,netflow_v5,sflow}.go (shutdown, read loops) and vflow/vflow.go (main)"))
	b.WriteString("open Vflow.Shutdown (SStep RStep MStep)\n\n")
	shTable := []struct {
		re   *regexp.Regexp
		name string
	}{{reGuard, "guardEnabled"}, {reSetStop, "setStop"}, {reLog, "log"}, {reSleep, "sleep1s"}, {reDump, "dump"}, {reConnCl, "closeConn"}, {reCloseQ, "closeQueue"}}
	rdTable := []struct {
		re   *regexp.Regexp
		name string
	}{{reGetBuf, "getBuf"}, {reDeadl, "deadline1s"}, {reRead, "read"}, {reErrCont, "onErrorContinue"}, {reCount, "countUDP"}, {reEnq, "enqueue"}}
	for _, s := range shutdownSrcs {
		fset, f, err := parseFile(repo, s.file)
		if err != nil {
			return genFile{}, err
		}
		var steps []string
		fd := funcDecl(f, s.recv, "shutdown")
		if fd == nil {
			steps = []string{`.unrecognised "shutdown missing"`}
		} else {
			for _, st := range fd.Body.List {
				steps = append(steps, classify(src(fset, st), shTable))
			}
		}
		fmt.Fprintf(&b, "/-- %s.shutdown in %s -/\ndef %sShutdown : List SStep := [%s]\n\n", s.recv, s.file, s.lean, strings.Join(steps, ", "))
		// the read loop: the `for !x.stop { … }` statement of run(), and every statement of run() after it
		var rsteps []string
		after := []string{}
		cond := ""
		nloops := 0
		queue := "" // the channel the loop sends on
		if rd := funcDecl(f, s.recv, "run"); rd != nil {
			for _, st := range rd.Body.List {
				if fs, ok := st.(*ast.ForStmt); ok && fs.Init == nil && fs.Post == nil && fs.Cond != nil && strings.HasSuffix(src(fset, fs.Cond), ".stop") {
					nloops++
					cond = src(fset, fs.Cond)
					rsteps, after = nil, []string{}
					for _, bs := range fs.Body.List {
						t := src(fset, bs)
						if m := reEnq.FindStringSubmatch(t); m != nil {
							queue = m[1]
						}
						rsteps = append(rsteps, classify(t, rdTable))
					}
					continue
				}
				if nloops == 0 {
					continue // set-up before the loop (listener, workers, producer): not part of the stop protocol
				}
				t := src(fset, st)
				switch m := reCloseQ.FindStringSubmatch(t); {
				case m != nil && m[1] == queue:
					after = append(after, ".closeQueue")
				case m != nil:
					after = append(after, ".unrecognised "+leanStr(t+" (the loop sends on "+queue+")"))
				default:
					after = append(after, classify(t, []struct {
						re   *regexp.Regexp
						name string
					}{{reLog, "log"}}))
				}
			}
		}
		if cond == "" || !strings.HasPrefix(cond, "!") || nloops != 1 {
			rsteps = append([]string{".unrecognised " + leanStr(fmt.Sprintf("%d stop loops, condition %s", nloops, cond))}, rsteps...)
		} else {
			rsteps = append([]string{".whileNotStop"}, rsteps...)
		}
		fmt.Fprintf(&b, "/-- the UDP read loop of %s.run -/\ndef %sReadLoop : List RStep := [%s]\n\n", s.recv, s.lean, strings.Join(rsteps, ", "))
		fmt.Fprintf(&b, "/-- the statements of %s.run after the read loop -/\ndef %sAfterLoop : List RStep := [%s]\n\n", s.recv, s.lean, strings.Join(after, ", "))
	}
	// every send on / close of a UDP work queue in package vflow (non-test files), by enclosing function
	sends, closes, err := queueUsers(repo)
	if err != nil {
		return genFile{}, err
	}
	fmt.Fprintf(&b, "/-- every send statement on a UDP work queue in package vflow: (function, channel) -/\ndef queueSenders : List (String × String) := [%s]\n\n", strings.Join(sends, ", "))
	fmt.Fprintf(&b, "/-- every `close` of a UDP work queue in package vflow: (function, channel) -/\ndef queueClosers : List (String × String) := [%s]\n\n", strings.Join(closes, ", "))
	// main(): what happens around the signal
	fset, f, err := parseFile(repo, "vflow/vflow.go")
	if err != nil {
		return genFile{}, err
	}
	var msteps []string
	if fd := funcDecl(f, "", "main"); fd != nil {
		for _, st := range fd.Body.List {
			t := src(fset, st)
			switch {
			case strings.HasPrefix(t, "var ("), strings.HasPrefix(t, "opts = GetOptions()"), strings.HasPrefix(t, "runtime.GOMAXPROCS("),
				strings.HasPrefix(t, "logger = "), strings.HasPrefix(t, "if !opts.ProducerEnabled"), strings.HasPrefix(t, "protos := []proto{"):
				// set-up, no synchronisation
			case t == `if opts.IPFIXEnabled { if err := ipfix.LoadExtElements(opts.VFlowConfigPath); err != nil { logger.Println("load.ext.elements:", err) } }`:
				// the information model shared by the IPFIX and NetFlow v9 decoders is replaced here
				msteps = append(msteps, ".loadElements")
			case t == "signal.Notify(signalCh, syscall.SIGINT, syscall.SIGTERM)":
				msteps = append(msteps, ".notifySigintSigterm")
			case t == "for _, p := range protos { wg.Add(1) go func(p proto) { defer wg.Done() p.run() }(p) }":
				msteps = append(msteps, ".spawnRunsCounted")
			case t == "go statsExpose(protos)":
				msteps = append(msteps, ".spawnStats")
			case t == "<-signalCh":
				msteps = append(msteps, ".awaitSignal")
			case t == "for _, p := range protos { wg.Add(1) go func(p proto) { defer wg.Done() p.shutdown() }(p) }":
				msteps = append(msteps, ".spawnShutdownsCounted")
			case t == "wg.Wait()":
				msteps = append(msteps, ".waitAll")
			default:
				msteps = append(msteps, ".unrecognised "+leanStr(t))
			}
		}
	} else {
		msteps = []string{`.unrecognised "main missing"`}
	}
	fmt.Fprintf(&b, "/-- main() of vflow/vflow.go (set-up statements without synchronisation omitted) -/\ndef mainSteps : List MStep := [%s]\n", strings.Join(msteps, ", "))
	b.WriteString(footer("ShutdownIR"))
	return genFile{"ShutdownIR", b.String()}, nil
}

var reUDPCh = regexp.MustCompile(`UDPCh$`)

// queueUsers lists, for every non-test file of package vflow, each send statement whose channel is
// named …UDPCh and each call close(…UDPCh) (also inside function literals, defers and go statements),
// as Lean pairs ("Recv.func", "channel"), sorted. Anything that passes such a channel on by name
// (an argument, an assignment from or to it) is listed among the closers as ("Recv.func", "escapes: <go>").
func queueUsers(repo string) (sends, closes []string, err error) {
	files, err := filepath.Glob(filepath.Join(repo, "vflow", "*.go"))
	if err != nil {
		return nil, nil, err
	}
	sort.Strings(files)
	for _, path := range files {
		if strings.HasSuffix(path, "_test.go") {
			continue
		}
		if _, e := os.Stat(path); e != nil {
			return nil, nil, e
		}
		fset := token.NewFileSet()
		f, e := parser.ParseFile(fset, path, nil, 0)
		if e != nil {
			return nil, nil, e
		}
		for _, d := range f.Decls {
			fd, ok := d.(*ast.FuncDecl)
			if !ok || fd.Body == nil {
				continue
			}
			name := fd.Name.Name
			if fd.Recv != nil && len(fd.Recv.List) == 1 {
				t := fd.Recv.List[0].Type
				if st, ok := t.(*ast.StarExpr); ok {
					t = st.X
				}
				name = src(fset, t) + "." + name
			}
			pair := func(a, c string) string { return "(" + leanStr(a) + ", " + leanStr(c) + ")" }
			ast.Inspect(fd.Body, func(n ast.Node) bool {
				switch x := n.(type) {
				case *ast.SendStmt:
					if id, ok := x.Chan.(*ast.Ident); ok && reUDPCh.MatchString(id.Name) {
						sends = append(sends, pair(name, id.Name))
					}
				case *ast.CallExpr:
					fn, isId := x.Fun.(*ast.Ident)
					for _, a := range x.Args {
						id, ok := a.(*ast.Ident)
						if !ok || !reUDPCh.MatchString(id.Name) {
							continue
						}
						switch {
						case isId && fn.Name == "close" && len(x.Args) == 1:
							closes = append(closes, pair(name, id.Name))
						case isId && (fn.Name == "len" || fn.Name == "cap") && len(x.Args) == 1:
							// queue length for the statistics and the dynamic-worker heuristic
						default:
							closes = append(closes, pair(name, "escapes: "+src(fset, x)))
						}
					}
				case *ast.AssignStmt:
					for _, r := range append(append([]ast.Expr{}, x.Rhs...), x.Lhs...) {
						if id, ok := r.(*ast.Ident); ok && reUDPCh.MatchString(id.Name) {
							closes = append(closes, pair(name, "escapes: "+src(fset, x)))
						}
					}
				}
				return true
			})
		}
	}
	sort.Strings(sends)
	sort.Strings(closes)
	return sends, closes, nil
}
