package main

import (
	"io/ioutil"
	"bufio"
	"fmt"
	"go/ast"
	"go/token"
	"os"
	"path/filepath"
	"sort"
	"strconv"
	"strings"
)

// InfoModelTbl: the built-in table (composite literal InfoModel), the FieldTypes map, the FieldType
// iota block (ipfix/rfc5102_model.go) and the shipped scripts/ipfix.elements (YAML subset).
func init() { generators = append(generators, genInfoModel) }

func genInfoModel(repo string) (genFile, error) {
	fset, f, err := parseFile(repo, "ipfix/rfc5102_model.go")
	if err != nil {
		return genFile{}, err
	}
	var iota []string                // constant names in order
	typeNames := [][2]string{}       // yaml name -> const name
	type row struct{ pen, id, fid, name, typ string }
	var rows []row
	for _, d := range f.Decls {
		gd, ok := d.(*ast.GenDecl)
		if !ok {
			continue
		}
		if gd.Tok == token.CONST {
			isIota := false
			for _, s := range gd.Specs {
				vs := s.(*ast.ValueSpec)
				if len(vs.Values) == 1 && src(fset, vs.Values[0]) == "iota" {
					isIota = true
				}
				if isIota {
					for _, n := range vs.Names {
						iota = append(iota, n.Name)
					}
				}
			}
		}
		if gd.Tok == token.VAR {
			for _, s := range gd.Specs {
				vs := s.(*ast.ValueSpec)
				if len(vs.Names) != 1 || len(vs.Values) != 1 {
					continue
				}
				cl, ok := vs.Values[0].(*ast.CompositeLit)
				if !ok {
					continue
				}
				switch vs.Names[0].Name {
				case "FieldTypes":
					for _, e := range cl.Elts {
						kv := e.(*ast.KeyValueExpr)
						k, _ := strconv.Unquote(src(fset, kv.Key))
						typeNames = append(typeNames, [2]string{k, src(fset, kv.Value)})
					}
				case "InfoModel":
					for _, e := range cl.Elts {
						kv, ok := e.(*ast.KeyValueExpr)
						if !ok {
							rows = append(rows, row{"0", "0", "0", "!unrecognised " + src(fset, e), "!"})
							continue
						}
						r := row{pen: "0", id: "0", fid: "0", name: "!unrecognised " + src(fset, kv), typ: "!"}
						if kc, ok := kv.Key.(*ast.CompositeLit); ok && len(kc.Elts) == 2 {
							if a, err := strconv.ParseUint(src(fset, kc.Elts[0]), 0, 32); err == nil {
								if b, err := strconv.ParseUint(src(fset, kc.Elts[1]), 0, 16); err == nil {
									r.pen, r.id = fmt.Sprint(a), fmt.Sprint(b)
								}
							}
						}
						if vc, ok := kv.Value.(*ast.CompositeLit); ok {
							okAll := r.pen != "0" || r.id != "0"
							var fid, name, typ string
							for _, fe := range vc.Elts {
								fkv, ok := fe.(*ast.KeyValueExpr)
								if !ok {
									okAll = false
									continue
								}
								switch src(fset, fkv.Key) {
								case "FieldID":
									if v, err := strconv.ParseUint(src(fset, fkv.Value), 0, 16); err == nil {
										fid = fmt.Sprint(v)
									}
								case "Name":
									name, _ = strconv.Unquote(src(fset, fkv.Value))
								case "Type":
									t := src(fset, fkv.Value)
									if strings.HasPrefix(t, `FieldTypes["`) && strings.HasSuffix(t, `"]`) {
										typ = t[len(`FieldTypes["`) : len(t)-2]
									} else {
										typ = "!unrecognised " + t
									}
								default:
									okAll = false
								}
							}
							if okAll && fid != "" && name != "" && typ != "" {
								r.fid, r.name, r.typ = fid, name, typ
							}
						}
						rows = append(rows, r)
					}
				}
			}
		}
	}
	// key order (stable), so that a harmless reordering of the literal does not change the facts
	sort.SliceStable(rows, func(i, j int) bool {
		pi, _ := strconv.Atoi(rows[i].pen)
		pj, _ := strconv.Atoi(rows[j].pen)
		if pi != pj {
			return pi < pj
		}
		ii, _ := strconv.Atoi(rows[i].id)
		ij, _ := strconv.Atoi(rows[j].id)
		return ii < ij
	})
	idx := map[string]int{}
	for i, n := range iota {
		idx[n] = i
	}
	tyIdx := map[string]int{} // yaml type name -> index (missing => 0 = Unknown, as the Go map does)
	for _, tn := range typeNames {
		if i, ok := idx[tn[1]]; ok {
			tyIdx[tn[0]] = i
		}
	}
	// shipped file
	type srow struct {
		pen, id   int
		name, typ string
	}
	var shipped []srow
	var shipErr []string
	sf, err := os.Open(filepath.Join(repo, "scripts/ipfix.elements"))
	if err == nil {
		sc := bufio.NewScanner(sf)
		pen, id, item := -1, -1, 0
		var cur srow
		flush := func() {
			if id >= 0 {
				if item >= 2 {
					shipped = append(shipped, cur)
				} else {
					shipErr = append(shipErr, fmt.Sprintf("element %d/%d has %d properties", pen, id, item))
				}
			}
		}
		for sc.Scan() {
			l := sc.Text()
			t := strings.TrimSpace(l)
			if t == "" || strings.HasPrefix(t, "#") {
				continue
			}
			ind := len(l) - len(strings.TrimLeft(l, " "))
			switch {
			case ind == 0 && strings.HasSuffix(t, ":"):
				flush()
				id = -1
				pen, err = strconv.Atoi(strings.TrimSuffix(t, ":"))
				if err != nil {
					shipErr = append(shipErr, "bad pen line: "+t)
				}
			case ind == 2 && strings.HasSuffix(t, ":"):
				flush()
				id, err = strconv.Atoi(strings.TrimSuffix(t, ":"))
				if err != nil {
					shipErr = append(shipErr, "bad id line: "+t)
				}
				cur = srow{pen: pen, id: id}
				item = 0
			case strings.HasPrefix(t, "- "):
				v := strings.Trim(strings.TrimPrefix(t, "- "), `"'`)
				if item == 0 {
					cur.name = v
				} else if item == 1 {
					cur.typ = v
				}
				item++
			default:
				shipErr = append(shipErr, "unrecognised line: "+t)
			}
		}
		flush()
		sf.Close()
	} else {
		shipErr = append(shipErr, "scripts/ipfix.elements not readable")
	}
	sort.SliceStable(shipped, func(i, j int) bool {
		if shipped[i].pen != shipped[j].pen {
			return shipped[i].pen < shipped[j].pen
		}
		return shipped[i].id < shipped[j].id
	})

	var b strings.Builder
	b.WriteString(header("InfoModelTbl", "ipfix/rfc5102_model.go and scripts/ipfix.elements"))
	b.WriteString("/-- FieldType constants in iota order -/\ndef fieldTypeConsts : List String := [")
	for i, n := range iota {
		if i > 0 {
			b.WriteString(", ")
		}
		b.WriteString(leanStr(n))
	}
	b.WriteString("]\n\n/-- the FieldTypes map: (type name, FieldType index) -/\ndef fieldTypes : List (String × Nat) := [\n")
	for i, tn := range typeNames {
		ix, ok := idx[tn[1]]
		if !ok {
			ix = 9999
		}
		fmt.Fprintf(&b, "  (%s, %d)", leanStr(tn[0]), ix)
		if i+1 < len(typeNames) {
			b.WriteString(",")
		}
		b.WriteString("\n")
	}
	b.WriteString("]\n\n/-- built-in InfoModel literal: (pen, id, FieldID, name, type name) in key order -/\ndef builtin : List (Nat × Nat × Nat × String × String) := [\n")
	for i, r := range rows {
		fmt.Fprintf(&b, "  (%s, %s, %s, %s, %s)", r.pen, r.id, r.fid, leanStr(r.name), leanStr(r.typ))
		if i+1 < len(rows) {
			b.WriteString(",")
		}
		b.WriteString("\n")
	}
	b.WriteString("]\n\n/-- scripts/ipfix.elements: (pen, id, name, type name), sorted by key -/\ndef shipped : List (Nat × Nat × String × String) := [\n")
	for i, r := range shipped {
		fmt.Fprintf(&b, "  (%d, %d, %s, %s)", r.pen, r.id, leanStr(r.name), leanStr(r.typ))
		if i+1 < len(shipped) {
			b.WriteString(",")
		}
		b.WriteString("\n")
	}
	b.WriteString("]\n\n/-- lines of the shipped file the YAML-subset parser did not recognise (must be empty) -/\ndef shippedUnrecognised : List String := [")
	for i, e := range shipErr {
		if i > 0 {
			b.WriteString(", ")
		}
		b.WriteString(leanStr(e))
	}
	b.WriteString("]\n\n/-- the table the decoders use: (pen, id, FieldID, FieldType index); a type name missing from\n    FieldTypes resolves to 0 (Unknown) exactly as the Go map lookup does -/\ndef infoModelTbl : Array (Nat × Nat × Nat × Nat) := #[\n")
	for i, r := range rows {
		fmt.Fprintf(&b, "  (%s, %s, %s, %d)", r.pen, r.id, r.fid, tyIdx[r.typ])
		if i+1 < len(rows) {
			b.WriteString(",")
		}
		b.WriteString("\n")
	}
	b.WriteString("]\n")
	// how LoadExtElements builds an entry from a row of the file (the decoder-table theorems assume exactly this)
	loadEntry := "!unrecognised: LoadExtElements has no single InfoModel[...] = InfoElementEntry{...} assignment"
	if fd := funcDecl(f, "", "LoadExtElements"); fd != nil {
		n := 0
		ast.Inspect(fd.Body, func(x ast.Node) bool {
			if as, ok := x.(*ast.AssignStmt); ok && len(as.Lhs) == 1 && len(as.Rhs) == 1 {
				if ix, ok := as.Lhs[0].(*ast.IndexExpr); ok && src(fset, ix.X) == "InfoModel" {
					n++
					loadEntry = src(fset, as.Lhs[0]) + " = " + src(fset, as.Rhs[0])
				}
			}
			return true
		})
		if n != 1 {
			loadEntry = fmt.Sprintf("!unrecognised: %d assignments to InfoModel[...] in LoadExtElements", n)
		}
	}
	b.WriteString("\n/-- the one statement of LoadExtElements that fills the model from a row of the file -/\ndef loadExtAssignment : String := " + leanStr(loadEntry) + "\n")
	// who replaces / writes the shared model at run time: every caller of LoadExtElements and every other assignment to
	// InfoModel in the non-test sources of the collector (file func), so that a second writer or a call from a goroutine
	// that runs next to the decoders shows up here
	var writers []string
	for _, dir := range []string{"vflow", "ipfix", "netflow/v9", "netflow/v5", "sflow", "producer", "mirror"} {
		ents, _ := ioutil.ReadDir(filepath.Join(repo, dir))
		for _, e := range ents {
			if e.IsDir() || !strings.HasSuffix(e.Name(), ".go") || strings.HasSuffix(e.Name(), "_test.go") {
				continue
			}
			rel := dir + "/" + e.Name()
			fs2, f2, err := parseFile(repo, rel)
			if err != nil {
				writers = append(writers, "!unrecognised: "+rel+": "+err.Error())
				continue
			}
			for _, d := range f2.Decls {
				fd, ok := d.(*ast.FuncDecl)
				if !ok || fd.Body == nil {
					continue
				}
				ast.Inspect(fd.Body, func(x ast.Node) bool {
					switch n := x.(type) {
					case *ast.CallExpr:
						if t := src(fs2, n.Fun); t == "ipfix.LoadExtElements" || (dir == "ipfix" && t == "LoadExtElements") {
							writers = append(writers, rel+" "+fd.Name.Name+": call "+t)
						}
					case *ast.AssignStmt:
						for _, l := range n.Lhs {
							t := src(fs2, l)
							if t == "InfoModel" || t == "ipfix.InfoModel" || strings.HasPrefix(t, "InfoModel[") || strings.HasPrefix(t, "ipfix.InfoModel[") {
								writers = append(writers, rel+" "+fd.Name.Name+": assign "+t)
							}
						}
					}
					return true
				})
			}
		}
	}
	// who READS the shared model at run time (F34): the package directories in whose functions `InfoModel[…]` is indexed other than
	// on the left of an assignment; any other mention of the map inside a function (passed on, ranged over, its address
	// taken) is listed as a text that names no package
	readerSet := map[string]bool{}
	var readers []string
	for _, dir := range []string{"vflow", "ipfix", "netflow/v9", "netflow/v5", "sflow", "producer", "mirror", "packet", "reader"} {
		ents, _ := ioutil.ReadDir(filepath.Join(repo, dir))
		for _, e := range ents {
			if e.IsDir() || !strings.HasSuffix(e.Name(), ".go") || strings.HasSuffix(e.Name(), "_test.go") {
				continue
			}
			rel := dir + "/" + e.Name()
			fs2, f2, err := parseFile(repo, rel)
			if err != nil {
				readers = append(readers, "!unrecognised: "+rel+": "+err.Error())
				continue
			}
			for _, d := range f2.Decls {
				fd, ok := d.(*ast.FuncDecl)
				if !ok || fd.Body == nil {
					continue
				}
				var stack []ast.Node
				ast.Inspect(fd.Body, func(x ast.Node) bool {
					if x == nil {
						stack = stack[:len(stack)-1]
						return true
					}
					stack = append(stack, x)
					isModel := false
					switch n := x.(type) {
					case *ast.Ident:
						isModel = dir == "ipfix" && n.Name == "InfoModel"
						if isModel && len(stack) >= 2 {
							if sel, ok := stack[len(stack)-2].(*ast.SelectorExpr); ok && sel.Sel == n {
								isModel = false // a field or another package's name
							}
						}
					case *ast.SelectorExpr:
						isModel = dir != "ipfix" && src(fs2, n) == "ipfix.InfoModel"
					}
					if !isModel {
						return true
					}
					var parent, grand ast.Node
					if len(stack) >= 2 {
						parent = stack[len(stack)-2]
					}
					if len(stack) >= 3 {
						grand = stack[len(stack)-3]
					}
					if ix, ok := parent.(*ast.IndexExpr); ok && ix.X == x.(ast.Expr) {
						if as, ok := grand.(*ast.AssignStmt); ok {
							for _, l := range as.Lhs {
								if l == ast.Expr(ix) {
									return true // a write: listed in modelWriters
								}
							}
						}
						if !readerSet[dir] {
							readerSet[dir] = true
							readers = append(readers, dir)
						}
						return true
					}
					if as, ok := parent.(*ast.AssignStmt); ok {
						for _, l := range as.Lhs {
							if l == x.(ast.Expr) {
								return true // the map is replaced: listed in modelWriters
							}
						}
					}
					readers = append(readers, "!other use in "+rel+" "+fd.Name.Name+": "+src(fs2, parent))
					return true
				})
			}
		}
	}
	b.WriteString("\n/-- every package (directory) whose functions read the shared information model by indexing it; any other use of the map is a text that names no package -/\ndef modelReaders : List String := [")
	for i, w := range readers {
		if i > 0 {
			b.WriteString(", ")
		}
		b.WriteString(leanStr(w))
	}
	b.WriteString("]\n")
	b.WriteString("\n/-- every run-time writer of the shared information model: callers of LoadExtElements and assignments to InfoModel (file func: what) -/\ndef modelWriters : List String := [")
	for i, w := range writers {
		if i > 0 {
			b.WriteString(", ")
		}
		b.WriteString(leanStr(w))
	}
	b.WriteString("]\n")
	b.WriteString(footer("InfoModelTbl"))
	return genFile{"InfoModelTbl", b.String()}, nil
}
