package main

import (
	"fmt"
	"go/ast"
	"go/token"
	"math/big"
	"strconv"
	"strings"
)

// expr_ir.go: the translator of Go extraction expressions into the `Expr` of lean/Vflow/Model/DissectIR.lean, shared by
// dissect_ir.go (packet/*.go) and sflow_layouts.go (sflow/*.go).
//
// Accepted (everything else is `.unrecognised "<go text>"`, which no theorem accepts):
//
//	integer literals, named integer constants of the package (resolved to their values)
//	BASE[k]                      k a constant            .byte k
//	BASE[i:j], BASE[i:], BASE[:j]                        .octs / .octsFrom
//	e << k, e >> k               k a constant            .shl / .shr      (`<<` at an unsigned type of w bits: .wrap w)
//	a & b, a | b, a + b, a * b, a % b                    .band .bor .add .mul .mod   (`+`, `*` at w bits: .wrap w)
//	a - b at an unsigned type of w bits                  .subw w          (an `int` subtraction is not accepted)
//	int(e), int64(e), uint8/byte/uint16/uint32/uint64(e) the operand; a narrowing conversion is .wrap w
//	a < b, <=, ==, !=, >, >=; a && b; a || b             .ite … (1 / 0)
//	binary.BigEndian.Uint16/32/64(BASE[i:j]), j-i the width   .be i w
//	net.IP(s).String(), v.String() with v a net.IP local      .ipText
//	net.HardwareAddr(s).String(); fmt.Sprintf(<the six-octet MAC format>, BASE[k], …, BASE[k+5])   .hwText
//	local variables (inlined), receiver fields read earlier / parameters (.var)
//
// Types follow the Go rules as far as these forms need them: an untyped constant takes the type of the other operand,
// a shift has the type of its left operand, both operands of another binary operator have one type (else: unrecognised).
// Every `int`-typed term carries an upper bound; a bound of 2^63 or more is `unrecognised`.

type gty int

const (
	tyBad gty = iota
	tyUntyped
	tyU8
	tyU16
	tyU32
	tyU64
	tyInt
	tyBytes
)

var tyBits = map[gty]int{tyU8: 8, tyU16: 16, tyU32: 32, tyU64: 64}

var convTypes = map[string]gty{"uint8": tyU8, "byte": tyU8, "uint16": tyU16, "uint32": tyU32, "uint64": tyU64, "int": tyInt, "int64": tyInt}

type tx struct {
	lean  string // Lean term of type Expr (atomic or parenthesised where needed by the caller: see par)
	ty    gty
	bound *big.Int // upper bound of the value (numbers only)
	cval  *big.Int // the value, when it is a constant
	ip    bool     // bytes of type net.IP
	bad   bool
}

func par(s string) string {
	if strings.ContainsAny(s, " ") {
		return "(" + s + ")"
	}
	return s
}

type xctx struct {
	fset   *token.FileSet
	consts map[string]*big.Int // named integer constants
	base   map[string]string   // printed text of a buffer expression -> "" (the one buffer of the function)
	locals map[string]tx       // inlined local variables / fields assigned earlier, by printed text
	strs   map[string]string   // string-valued locals
}

func (c *xctx) unrec(n ast.Node) tx {
	return tx{lean: ".unrecognised " + leanStr(src(c.fset, n)), ty: tyBad, bad: true, bound: big.NewInt(0)}
}

func two(n int) *big.Int { return new(big.Int).Lsh(big.NewInt(1), uint(n)) }

func maxOf(t gty) *big.Int {
	if b, ok := tyBits[t]; ok {
		return new(big.Int).Sub(two(b), big.NewInt(1))
	}
	return new(big.Int).Sub(two(63), big.NewInt(1))
}

func litTx(v *big.Int) tx {
	return tx{lean: ".lit " + v.String(), ty: tyUntyped, bound: v, cval: v}
}

// collectConsts: every package-level `const Name [T] = <integer literal>` of the file
func collectConsts(f *ast.File, into map[string]*big.Int) {
	for _, d := range f.Decls {
		gd, ok := d.(*ast.GenDecl)
		if !ok || gd.Tok != token.CONST {
			continue
		}
		for _, s := range gd.Specs {
			vs := s.(*ast.ValueSpec)
			if len(vs.Names) != len(vs.Values) {
				continue
			}
			for i, n := range vs.Names {
				if bl, ok := vs.Values[i].(*ast.BasicLit); ok && bl.Kind == token.INT {
					if v, ok := new(big.Int).SetString(bl.Value, 0); ok {
						into[n.Name] = v
					}
				}
			}
		}
	}
}

const macFormat = "%0.2x:%0.2x:%0.2x:%0.2x:%0.2x:%0.2x"

var cmpOps = map[token.Token]string{token.LSS: ".lt", token.LEQ: ".le", token.EQL: ".eq", token.NEQ: ".ne", token.GTR: ".gt", token.GEQ: ".ge"}

func (c *xctx) constInt(e ast.Expr) (*big.Int, bool) {
	t := c.expr(e)
	if t.bad || t.cval == nil {
		return nil, false
	}
	return t.cval, true
}

// finish: type rules for the result of an arithmetic node of type t
func (c *xctx) finish(n ast.Node, lean string, t gty, bound *big.Int, wraps bool) tx {
	if bits, ok := tyBits[t]; ok {
		if wraps {
			lean = fmt.Sprintf(".wrap %d (%s)", bits, lean)
		}
		if bound.Cmp(maxOf(t)) > 0 {
			bound = maxOf(t)
		}
		return tx{lean: lean, ty: t, bound: bound}
	}
	// int / untyped: must stay below 2^63
	if bound.Cmp(maxOf(tyInt)) > 0 {
		return c.unrec(n)
	}
	return tx{lean: lean, ty: t, bound: bound}
}

func (c *xctx) expr(e ast.Expr) tx {
	switch x := e.(type) {
	case *ast.ParenExpr:
		return c.expr(x.X)
	case *ast.BasicLit:
		if x.Kind == token.INT {
			if v, ok := new(big.Int).SetString(x.Value, 0); ok {
				return litTx(v)
			}
		}
		return c.unrec(e)
	case *ast.Ident:
		if t, ok := c.locals[x.Name]; ok {
			return t
		}
		if v, ok := c.consts[x.Name]; ok {
			return litTx(v)
		}
		if _, ok := c.base[x.Name]; ok {
			return tx{lean: ".octsFrom (.lit 0)", ty: tyBytes, bound: big.NewInt(0)}
		}
		return c.unrec(e)
	case *ast.SelectorExpr:
		if t, ok := c.locals[src(c.fset, x)]; ok {
			return t
		}
		if _, ok := c.base[src(c.fset, x)]; ok {
			return tx{lean: ".octsFrom (.lit 0)", ty: tyBytes, bound: big.NewInt(0)}
		}
		return c.unrec(e)
	case *ast.IndexExpr:
		if _, ok := c.base[src(c.fset, x.X)]; ok {
			if k, ok := c.constInt(x.Index); ok && k.Sign() >= 0 {
				return tx{lean: ".byte " + k.String(), ty: tyU8, bound: big.NewInt(255)}
			}
		}
		return c.unrec(e)
	case *ast.SliceExpr:
		if _, ok := c.base[src(c.fset, x.X)]; !ok || x.Slice3 {
			return c.unrec(e)
		}
		lo := litTx(big.NewInt(0))
		if x.Low != nil {
			lo = c.expr(x.Low)
		}
		if lo.bad || lo.ty == tyBytes {
			return c.unrec(e)
		}
		if x.High == nil {
			return tx{lean: ".octsFrom " + par(lo.lean), ty: tyBytes, bound: big.NewInt(0)}
		}
		hi := c.expr(x.High)
		if hi.bad || hi.ty == tyBytes {
			return c.unrec(e)
		}
		return tx{lean: ".octs " + par(lo.lean) + " " + par(hi.lean), ty: tyBytes, bound: big.NewInt(0)}
	case *ast.CallExpr:
		return c.call(x)
	case *ast.BinaryExpr:
		return c.binary(x)
	}
	return c.unrec(e)
}

func (c *xctx) call(x *ast.CallExpr) tx {
	fn := src(c.fset, x.Fun)
	// conversions
	if t, ok := convTypes[fn]; ok && len(x.Args) == 1 {
		a := c.expr(x.Args[0])
		if a.bad || a.ty == tyBytes {
			return c.unrec(x)
		}
		if t == tyInt {
			if a.bound.Cmp(maxOf(tyInt)) > 0 {
				return c.unrec(x)
			}
			return tx{lean: a.lean, ty: tyInt, bound: a.bound, cval: a.cval}
		}
		// to an unsigned type: narrowing (or from int / an untyped constant) wraps
		if ab, ok := tyBits[a.ty]; ok && ab <= tyBits[t] {
			return tx{lean: a.lean, ty: t, bound: a.bound}
		}
		if a.bound.Cmp(maxOf(t)) <= 0 && a.cval != nil {
			return tx{lean: a.lean, ty: t, bound: a.bound, cval: a.cval}
		}
		b := a.bound
		if b.Cmp(maxOf(t)) > 0 {
			b = maxOf(t)
		}
		return tx{lean: fmt.Sprintf(".wrap %d %s", tyBits[t], par(a.lean)), ty: t, bound: b}
	}
	switch fn {
	case "net.IP", "net.HardwareAddr":
		if len(x.Args) == 1 {
			a := c.expr(x.Args[0])
			if !a.bad && a.ty == tyBytes {
				a.ip = fn == "net.IP"
				return a
			}
		}
		return c.unrec(x)
	case "binary.BigEndian.Uint16", "binary.BigEndian.Uint32", "binary.BigEndian.Uint64":
		w := map[string]int{"binary.BigEndian.Uint16": 2, "binary.BigEndian.Uint32": 4, "binary.BigEndian.Uint64": 8}[fn]
		if len(x.Args) == 1 {
			if sl, ok := x.Args[0].(*ast.SliceExpr); ok && sl.Low != nil && sl.High != nil && !sl.Slice3 {
				if _, ok := c.base[src(c.fset, sl.X)]; ok {
					lo, ok1 := c.constInt(sl.Low)
					hi, ok2 := c.constInt(sl.High)
					if ok1 && ok2 && new(big.Int).Sub(hi, lo).Cmp(big.NewInt(int64(w))) == 0 {
						t := map[int]gty{2: tyU16, 4: tyU32, 8: tyU64}[w]
						return tx{lean: fmt.Sprintf(".be %s %d", lo.String(), w), ty: t, bound: maxOf(t)}
					}
				}
			}
		}
		return c.unrec(x)
	case "fmt.Sprintf":
		if len(x.Args) == 7 {
			format := ""
			switch f := x.Args[0].(type) {
			case *ast.Ident:
				format = c.strs[f.Name]
			case *ast.BasicLit:
				if f.Kind == token.STRING {
					format, _ = strconv.Unquote(f.Value)
				}
			}
			if format == macFormat {
				first := int64(-1)
				for i, a := range x.Args[1:] {
					ix, ok := a.(*ast.IndexExpr)
					if !ok {
						return c.unrec(x)
					}
					if _, ok := c.base[src(c.fset, ix.X)]; !ok {
						return c.unrec(x)
					}
					k, ok := c.constInt(ix.Index)
					if !ok || !k.IsInt64() || k.Sign() < 0 {
						return c.unrec(x)
					}
					if i == 0 {
						first = k.Int64()
					} else if k.Int64() != first+int64(i) {
						return c.unrec(x)
					}
				}
				return tx{lean: fmt.Sprintf(".hwText (.octs (.lit %d) (.lit %d))", first, first+6), ty: tyBytes, bound: big.NewInt(0)}
			}
		}
		return c.unrec(x)
	}
	// v.String() on a net.IP / net.HardwareAddr value
	if sel, ok := x.Fun.(*ast.SelectorExpr); ok && sel.Sel.Name == "String" && len(x.Args) == 0 {
		a := c.expr(sel.X)
		if !a.bad && a.ty == tyBytes {
			if a.ip {
				return tx{lean: ".ipText " + par(a.lean), ty: tyBytes, bound: big.NewInt(0)}
			}
			if ce, ok := sel.X.(*ast.CallExpr); ok && src(c.fset, ce.Fun) == "net.HardwareAddr" {
				return tx{lean: ".hwText " + par(a.lean), ty: tyBytes, bound: big.NewInt(0)}
			}
		}
	}
	return c.unrec(x)
}

func (c *xctx) binary(x *ast.BinaryExpr) tx {
	a := c.expr(x.X)
	b := c.expr(x.Y)
	if a.bad || b.bad || a.ty == tyBytes || b.ty == tyBytes {
		return c.unrec(x)
	}
	one, zero := ".lit 1", ".lit 0"
	switch x.Op {
	case token.LAND:
		return tx{lean: fmt.Sprintf(".ite .ne %s (%s) %s (%s)", par(a.lean), zero, par(b.lean), zero), ty: tyUntyped, bound: big.NewInt(1)}
	case token.LOR:
		return tx{lean: fmt.Sprintf(".ite .ne %s (%s) (%s) %s", par(a.lean), zero, one, par(b.lean)), ty: tyUntyped, bound: big.NewInt(1)}
	}
	if op, ok := cmpOps[x.Op]; ok {
		if a.ty != b.ty && a.ty != tyUntyped && b.ty != tyUntyped {
			return c.unrec(x)
		}
		return tx{lean: fmt.Sprintf(".ite %s %s %s (%s) (%s)", op, par(a.lean), par(b.lean), one, zero), ty: tyUntyped, bound: big.NewInt(1)}
	}
	if x.Op == token.SHL || x.Op == token.SHR {
		if b.cval == nil || !b.cval.IsInt64() || b.cval.Sign() < 0 || b.cval.Int64() > 64 {
			return c.unrec(x)
		}
		k := uint(b.cval.Int64())
		if a.cval != nil { // constant folding
			if x.Op == token.SHL {
				return c.foldTyped(x, a.ty, new(big.Int).Lsh(a.cval, k))
			}
			return c.foldTyped(x, a.ty, new(big.Int).Rsh(a.cval, k))
		}
		if x.Op == token.SHL {
			return c.finish(x, fmt.Sprintf(".shl %s %d", par(a.lean), k), a.ty, new(big.Int).Lsh(a.bound, k), true)
		}
		return c.finish(x, fmt.Sprintf(".shr %s %d", par(a.lean), k), a.ty, new(big.Int).Rsh(a.bound, k), false)
	}
	t := a.ty
	if t == tyUntyped {
		t = b.ty
	} else if b.ty != tyUntyped && b.ty != t {
		return c.unrec(x)
	}
	if a.cval != nil && b.cval != nil { // constant folding
		var v *big.Int
		switch x.Op {
		case token.AND:
			v = new(big.Int).And(a.cval, b.cval)
		case token.OR:
			v = new(big.Int).Or(a.cval, b.cval)
		case token.ADD:
			v = new(big.Int).Add(a.cval, b.cval)
		case token.MUL:
			v = new(big.Int).Mul(a.cval, b.cval)
		default:
			return c.unrec(x)
		}
		return c.foldTyped(x, t, v)
	}
	switch x.Op {
	case token.AND:
		bd := a.bound
		if b.bound.Cmp(bd) < 0 {
			bd = b.bound
		}
		return c.finish(x, fmt.Sprintf(".band %s %s", par(a.lean), par(b.lean)), t, bd, false)
	case token.OR:
		return c.finish(x, fmt.Sprintf(".bor %s %s", par(a.lean), par(b.lean)), t, orBound(a.bound, b.bound), false)
	case token.ADD:
		return c.finish(x, fmt.Sprintf(".add %s %s", par(a.lean), par(b.lean)), t, new(big.Int).Add(a.bound, b.bound), true)
	case token.MUL:
		return c.finish(x, fmt.Sprintf(".mul %s %s", par(a.lean), par(b.lean)), t, new(big.Int).Mul(a.bound, b.bound), true)
	case token.REM:
		if b.cval == nil || b.cval.Sign() <= 0 {
			return c.unrec(x)
		}
		return c.finish(x, fmt.Sprintf(".mod %s %s", par(a.lean), par(b.lean)), t, new(big.Int).Sub(b.cval, big.NewInt(1)), false)
	case token.SUB:
		bits, ok := tyBits[t]
		if !ok {
			return c.unrec(x)
		}
		return tx{lean: fmt.Sprintf(".subw %d %s %s", bits, par(a.lean), par(b.lean)), ty: t, bound: maxOf(t)}
	}
	return c.unrec(x)
}

func (c *xctx) foldTyped(n ast.Node, t gty, v *big.Int) tx {
	if v.Cmp(maxOf(t)) > 0 && t != tyUntyped {
		return c.unrec(n) // a constant overflow does not compile
	}
	r := litTx(v)
	r.ty = t
	return r
}

// orBound: a | b < 2^k when both are
func orBound(a, b *big.Int) *big.Int {
	m := a
	if b.Cmp(m) > 0 {
		m = b
	}
	return new(big.Int).Sub(two(m.BitLen()), big.NewInt(1))
}

// splitCmp: `A op B` with its operands translated (for `.ite op a b t e`)
func (c *xctx) splitCmp(e ast.Expr) (op string, a, b tx, ok bool) {
	for {
		p, isP := e.(*ast.ParenExpr)
		if !isP {
			break
		}
		e = p.X
	}
	be, isB := e.(*ast.BinaryExpr)
	if !isB {
		return "", tx{}, tx{}, false
	}
	o, isC := cmpOps[be.Op]
	if !isC {
		return "", tx{}, tx{}, false
	}
	a, b = c.expr(be.X), c.expr(be.Y)
	if a.bad || b.bad || a.ty == tyBytes || b.ty == tyBytes {
		return "", tx{}, tx{}, false
	}
	if a.ty != b.ty && a.ty != tyUntyped && b.ty != tyUntyped {
		return "", tx{}, tx{}, false
	}
	return o, a, b, true
}
