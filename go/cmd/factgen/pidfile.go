package main

// PidFile (C15, F28): the statements of vFlowIsRunning and vFlowPIDWrite (vflow/options.go) and the statements of
// GetOptions that call them, as ordered abstract steps; every other mention of the pid file in package vflow.
// Fail closed: an unrecognised statement becomes `.unrecognised "<go>"`.

import (
	"fmt"
	"go/ast"
	"go/parser"
	"go/token"
	"path/filepath"
	"regexp"
	"sort"
	"strings"
)

func init() { generators = append(generators, genPidFile) }

var pidTable = []struct {
	re   *regexp.Regexp
	name string
}{
	{regexp.MustCompile(`^b, err := ioutil\.ReadFile\(opts\.PIDFile\)$`), "readPidFile"},
	{regexp.MustCompile(`^if err != nil \{ return false \}$`), "unreadableNotRunning"},
	{regexp.MustCompile(`^if string\(b\) == strconv\.Itoa\(os\.Getpid\(\)\) \{ return false \}$`), "ownPidNotRunning"},
	{regexp.MustCompile(`^cmd := exec\.Command\("kill", "-0", string\(b\)\)$`), "probeKill0"},
	{regexp.MustCompile(`^_, err = cmd\.Output\(\)$`), "runProbe"},
	{regexp.MustCompile(`^return err == nil$`), "runningIffProbeOk"},
	{regexp.MustCompile(`^f, err := os\.OpenFile\(opts\.PIDFile, os\.O_WRONLY\|os\.O_TRUNC\|os\.O_CREATE, 0666\)$`), "openTruncCreate"},
	{regexp.MustCompile(`^if err != nil \{ opts\.Logger\.Println\(err\) return \}$`), "openErrorLogReturn"},
	{regexp.MustCompile(`^_, err = fmt\.Fprintf\(f, "%d", os\.Getpid\(\)\)$`), "writeOwnPidDecimal"},
	{regexp.MustCompile(`^if err != nil \{ opts\.Logger\.Println\(err\) \}$`), "writeErrorLog"},
	{regexp.MustCompile(`^if ok := opts\.vFlowIsRunning\(\); ok \{ opts\.Logger\.Fatal\("the vFlow already is running!"\) \}$`), "refuseIfRunning"},
	{regexp.MustCompile(`^opts\.vFlowPIDWrite\(\)$`), "writePidFile"},
}

var rePidMention = regexp.MustCompile(`^(PIDFile|vFlowIsRunning|vFlowPIDWrite)$`)

func genPidFile(repo string) (genFile, error) {
	var b strings.Builder
	b.WriteString("import Vflow.Model.PidFile\n")
	b.WriteString(header("PidFile", "vflow/options.go (vFlowIsRunning, vFlowPIDWrite, GetOptions) and every other mention of the pid file in package vflow"))
	b.WriteString("open Vflow.PidFile (PStep)\n\n")
	fset, f, err := parseFile(repo, "vflow/options.go")
	if err != nil {
		return genFile{}, err
	}
	body := func(name string, only func(ast.Stmt) bool) string {
		fd := funcDecl(f, "Options", name)
		if fd == nil && name == "GetOptions" {
			fd = funcDecl(f, "", name)
		}
		if fd == nil {
			return `.unrecognised ` + leanStr(name+" missing")
		}
		var steps []string
		for _, st := range fd.Body.List {
			if only != nil && !only(st) {
				continue
			}
			steps = append(steps, classify(src(fset, st), pidTable))
		}
		return strings.Join(steps, ", ")
	}
	fmt.Fprintf(&b, "/-- Options.vFlowIsRunning in vflow/options.go -/\ndef isRunningSteps : List PStep := [%s]\n\n", body("vFlowIsRunning", nil))
	fmt.Fprintf(&b, "/-- Options.vFlowPIDWrite in vflow/options.go -/\ndef pidWriteSteps : List PStep := [%s]\n\n", body("vFlowPIDWrite", nil))
	fmt.Fprintf(&b, "/-- the statements of GetOptions that mention the pid file functions, in order -/\ndef getOptionsPidSteps : List PStep := [%s]\n\n",
		body("GetOptions", func(st ast.Stmt) bool { return mentions(st, rePidMention) }))
	// every function of package vflow (non-test files) that mentions PIDFile / vFlowIsRunning / vFlowPIDWrite
	files, err := filepath.Glob(filepath.Join(repo, "vflow", "*.go"))
	if err != nil {
		return genFile{}, err
	}
	sort.Strings(files)
	var users []string
	for _, path := range files {
		if strings.HasSuffix(path, "_test.go") {
			continue
		}
		fs := token.NewFileSet()
		pf, e := parser.ParseFile(fs, path, nil, 0)
		if e != nil {
			return genFile{}, e
		}
		for _, d := range pf.Decls {
			fd, ok := d.(*ast.FuncDecl)
			if !ok || fd.Body == nil {
				continue
			}
			name := fd.Name.Name
			if fd.Recv != nil && len(fd.Recv.List) == 1 {
				t := fd.Recv.List[0].Type
				if st, ok := t.(*ast.StarExpr); ok {
					t = st.X
				}
				name = src(fs, t) + "." + name
			}
			seen := map[string]bool{}
			ast.Inspect(fd.Body, func(n ast.Node) bool {
				if id, ok := n.(*ast.Ident); ok && rePidMention.MatchString(id.Name) && !seen[id.Name] {
					seen[id.Name] = true
					users = append(users, "("+leanStr(name)+", "+leanStr(id.Name)+")")
				}
				return true
			})
		}
	}
	sort.Strings(users)
	fmt.Fprintf(&b, "/-- every function of package vflow that mentions the pid file or the two functions: (function, identifier) -/\ndef pidFileUsers : List (String × String) := [%s]\n", strings.Join(users, ", "))
	b.WriteString(footer("PidFile"))
	return genFile{"PidFile", b.String()}, nil
}
