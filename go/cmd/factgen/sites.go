package main

import (
	"fmt"
	"go/ast"
	"go/token"
	"strings"
)

// Sites: (a) every allocation site (make / new / append) of the decoder packages with its printed
// expression (C02: a new allocation sized by a wire field changes this list); (b) every expression
// that can panic by itself — index, slice, type assertion without comma-ok — in the files C01 is
// anchored in (C01: the model stands for exactly these sites).
func init() { generators = append(generators, genSites) }

var allocFiles = []string{"reader/reader.go", "ipfix/decoder.go", "netflow/v9/decoder.go", "netflow/v5/decoder.go",
	"sflow/decoder.go", "sflow/flow_sample.go", "sflow/flow_counter.go", "packet/packet.go", "packet/ethernet.go",
	"packet/network.go", "packet/transport.go", "packet/icmp.go"}

var panicFiles = []string{"reader/reader.go", "ipfix/decoder.go", "ipfix/interpret.go", "ipfix/marshal.go", "ipfix/memcache.go",
	"netflow/v9/decoder.go", "netflow/v9/marshal.go", "netflow/v9/memcache.go", "netflow/v5/decoder.go", "netflow/v5/marshal.go",
	"sflow/decoder.go", "sflow/flow_sample.go", "sflow/flow_counter.go", "packet/packet.go", "packet/ethernet.go",
	"packet/network.go", "packet/transport.go", "packet/icmp.go"}

// guardFiles: the files whose control flow the decoder models mirror by hand; every branch and loop condition
// is listed in source order (C09 / C03 / C06 / C07 / C08: a changed bound or dispatch constant changes this list)
var guardFiles = map[string]bool{"reader/reader.go": true, "ipfix/decoder.go": true, "netflow/v9/decoder.go": true,
	"netflow/v5/decoder.go": true, "sflow/decoder.go": true, "sflow/flow_sample.go": true, "sflow/flow_counter.go": true,
	"packet/packet.go": true, "packet/ethernet.go": true, "packet/network.go": true, "packet/transport.go": true, "packet/icmp.go": true}

// nonfatalFiles: the three decoders that tell fatal from non-fatal errors by a type switch on `nonfatalError`.
// Listed per file, in source order: the declaration of that type with its type expression (F4 / F29: as
// `type nonfatalError error` the switch case matches EVERY error) and every place the identifier is used — a
// construction `nonfatalError{…}` / `nonfatalError(…)` with its whole expression (these are the error classes the
// models treat as non-fatal), a `case` of a type switch, or anything else, printed as `other` with the enclosing
// node (which no reviewed inventory contains).
var nonfatalFiles = []string{"ipfix/decoder.go", "netflow/v9/decoder.go", "netflow/v5/decoder.go"}

func nonfatalFacts(repo, rel string) ([]string, error) {
	fset, f, err := parseFile(repo, rel)
	if err != nil {
		return nil, err
	}
	var out []string
	declared := false
	for _, d := range f.Decls {
		fname := "(package level)"
		if fd, ok := d.(*ast.FuncDecl); ok {
			fname = fd.Name.Name
			if fd.Recv != nil && len(fd.Recv.List) == 1 {
				t := fd.Recv.List[0].Type
				if st, ok := t.(*ast.StarExpr); ok {
					t = st.X
				}
				fname = src(fset, t) + "." + fname
			}
		}
		var stack []ast.Node
		ast.Inspect(d, func(n ast.Node) bool {
			if n == nil {
				stack = stack[:len(stack)-1]
				return true
			}
			if id, ok := n.(*ast.Ident); ok && id.Name == "nonfatalError" && len(stack) > 0 {
				switch par := stack[len(stack)-1].(type) {
				case *ast.TypeSpec:
					if par.Name == id {
						declared = true
						assign := ""
						if par.Assign.IsValid() {
							assign = "= "
						}
						out = append(out, fmt.Sprintf("%s type nonfatalError %s%s", rel, assign, src(fset, par.Type)))
					} else {
						out = append(out, fmt.Sprintf("%s %s: other %s", rel, fname, src(fset, par)))
					}
				case *ast.CompositeLit:
					if par.Type == ast.Expr(id) {
						out = append(out, fmt.Sprintf("%s %s: %s", rel, fname, src(fset, par)))
					} else {
						out = append(out, fmt.Sprintf("%s %s: other %s", rel, fname, src(fset, par)))
					}
				case *ast.CallExpr:
					if par.Fun == ast.Expr(id) {
						out = append(out, fmt.Sprintf("%s %s: %s", rel, fname, src(fset, par)))
					} else {
						out = append(out, fmt.Sprintf("%s %s: other %s", rel, fname, src(fset, par)))
					}
				case *ast.CaseClause:
					out = append(out, fmt.Sprintf("%s %s: case nonfatalError", rel, fname))
				default:
					out = append(out, fmt.Sprintf("%s %s: other %s", rel, fname, src(fset, par)))
				}
			}
			stack = append(stack, n)
			return true
		})
	}
	if !declared {
		out = append([]string{rel + " type nonfatalError: not declared"}, out...)
	}
	return out, nil
}

func genSites(repo string) (genFile, error) {
	var allocs, panics, guards []string
	walk := func(rel string, wantAlloc, wantPanic bool) error {
		fset, f, err := parseFile(repo, rel)
		if err != nil {
			return err
		}
		for _, d := range f.Decls {
			fd, ok := d.(*ast.FuncDecl)
			if !ok || fd.Body == nil {
				continue
			}
			name := fd.Name.Name
			if fd.Recv != nil && len(fd.Recv.List) == 1 {
				t := fd.Recv.List[0].Type
				if st, ok := t.(*ast.StarExpr); ok {
					t = st.X
				}
				name = src(fset, t) + "." + name
			}
			commaOk := map[ast.Node]bool{}
			wantGuard := guardFiles[rel]
			errCheck := func(e ast.Expr) bool { t := src(fset, e); return t == "err != nil" || t == "err == nil" }
			ast.Inspect(fd.Body, func(n ast.Node) bool {
				switch x := n.(type) {
				case *ast.IfStmt:
					// plain error propagation carries no decision of its own; everything else is listed
					if wantGuard && !errCheck(x.Cond) {
						guards = append(guards, fmt.Sprintf("%s %s: if %s", rel, name, src(fset, x.Cond)))
					}
				case *ast.ForStmt:
					if wantGuard {
						h := ""
						if x.Init != nil {
							h += src(fset, x.Init)
						}
						h += "; "
						if x.Cond != nil {
							h += src(fset, x.Cond)
						}
						h += "; "
						if x.Post != nil {
							h += src(fset, x.Post)
						}
						guards = append(guards, fmt.Sprintf("%s %s: for %s", rel, name, h))
					}
				case *ast.RangeStmt:
					if wantGuard {
						guards = append(guards, fmt.Sprintf("%s %s: range %s", rel, name, src(fset, x.X)))
					}
				case *ast.SwitchStmt:
					if wantGuard {
						tag := ""
						if x.Tag != nil {
							tag = src(fset, x.Tag)
						}
						for _, cc := range x.Body.List {
							c := cc.(*ast.CaseClause)
							var es []string
							for _, e := range c.List {
								es = append(es, src(fset, e))
							}
							lbl := "default"
							if len(es) > 0 {
								lbl = "case " + strings.Join(es, ", ")
							}
							guards = append(guards, fmt.Sprintf("%s %s: switch %s %s", rel, name, tag, lbl))
						}
					}
				case *ast.TypeSwitchStmt:
					if wantGuard {
						for _, cc := range x.Body.List {
							c := cc.(*ast.CaseClause)
							var es []string
							for _, e := range c.List {
								es = append(es, src(fset, e))
							}
							lbl := "default"
							if len(es) > 0 {
								lbl = "case " + strings.Join(es, ", ")
							}
							guards = append(guards, fmt.Sprintf("%s %s: typeswitch %s %s", rel, name, src(fset, x.Assign), lbl))
						}
					}
				case *ast.BranchStmt:
					if wantGuard {
						guards = append(guards, fmt.Sprintf("%s %s: %s", rel, name, src(fset, x)))
					}
				}
				switch x := n.(type) {
				case *ast.AssignStmt:
					if len(x.Lhs) == 2 && len(x.Rhs) == 1 {
						commaOk[x.Rhs[0]] = true
					}
				case *ast.ValueSpec:
					if len(x.Names) == 2 && len(x.Values) == 1 {
						commaOk[x.Values[0]] = true
					}
				case *ast.CallExpr:
					if id, ok := x.Fun.(*ast.Ident); ok && wantAlloc && (id.Name == "make" || id.Name == "new" || id.Name == "append") {
						allocs = append(allocs, fmt.Sprintf("%s %s: %s", rel, name, src(fset, x)))
					}
				case *ast.UnaryExpr:
					// `&T{…}`: a struct allocated by a composite literal (F33: decodeSampledHeader builds its record this way)
					if cl, ok := x.X.(*ast.CompositeLit); ok && wantAlloc && x.Op == token.AND {
						allocs = append(allocs, fmt.Sprintf("%s %s: &%s{…}", rel, name, src(fset, cl.Type)))
					}
				case *ast.IndexExpr:
					if wantPanic && !commaOk[x] {
						panics = append(panics, fmt.Sprintf("%s %s: index %s", rel, name, src(fset, x)))
					}
				case *ast.SliceExpr:
					if wantPanic {
						panics = append(panics, fmt.Sprintf("%s %s: slice %s", rel, name, src(fset, x)))
					}
				case *ast.TypeAssertExpr:
					if wantPanic && x.Type != nil && !commaOk[x] {
						panics = append(panics, fmt.Sprintf("%s %s: assert %s", rel, name, src(fset, x)))
					}
				}
				return true
			})
		}
		_ = token.NoPos
		return nil
	}
	seen := map[string]bool{}
	for _, f := range allocFiles {
		seen[f] = true
	}
	for _, f := range panicFiles {
		if err := walk(f, seen[f], true); err != nil {
			return genFile{}, err
		}
	}
	var b strings.Builder
	b.WriteString(header("Sites", "the decoder, encoder, cache and dissector sources (make/new/append; index/slice/type-assertion expressions)"))
	emit := func(name, doc string, l []string) {
		fmt.Fprintf(&b, "/-- %s -/\ndef %s : List String := [\n", doc, name)
		for i, s := range l {
			b.WriteString("  " + leanStr(s))
			if i+1 < len(l) {
				b.WriteString(",")
			}
			b.WriteString("\n")
		}
		b.WriteString("]\n\n")
	}
	emit("allocSites", "every make / new / append call of the decoder packages, in source order: `file func: expression`", allocs)
	for _, g := range []struct{ name, prefix, prefix2 string }{{"guardsReader", "reader/", ""}, {"guardsIpfix", "ipfix/", ""}, {"guardsV9", "netflow/v9/", ""},
		{"guardsV5", "netflow/v5/", ""}, {"guardsSflow", "sflow/", "packet/"}} {
		var l []string
		for _, x := range guards {
			if strings.HasPrefix(x, g.prefix) || (g.prefix2 != "" && strings.HasPrefix(x, g.prefix2)) {
				l = append(l, x)
			}
		}
		emit(g.name, "every branch / loop condition, switch case and break / continue under "+g.prefix+" "+g.prefix2+" (decoder / dissector / reader sources), in source order; plain `err != nil` propagation excluded", l)
	}
	emit("panicSites", "every index, slice and single-result type-assertion expression of the files C01 is anchored in", panics)
	for i, rel := range nonfatalFiles {
		l, err := nonfatalFacts(repo, rel)
		if err != nil {
			return genFile{}, err
		}
		emit([]string{"nonfatalIpfix", "nonfatalV9", "nonfatalV5"}[i], "the declaration of `nonfatalError` in "+rel+" and every use of the identifier, in source order: the constructions are the error classes after which decoding goes on", l)
	}
	b.WriteString(footer("Sites"))
	return genFile{"Sites", b.String()}, nil
}
