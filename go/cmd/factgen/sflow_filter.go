package main

// Facts about how the sFlow type filter is consulted and handed over (C18): the statements of
// SFDecoder.isFilterMatch and NewSFDecoder, the statements of the sample loop of SFDecode up to the
// dispatch on the sample type, every use of the filter field in package sflow, and every construction
// of a decoder in package vflow (non-test files).

import (
	"fmt"
	"go/ast"
	"go/token"
	"os"
	"path/filepath"
	"sort"
	"strings"
)

func init() { generators = append(generators, genSflowFilter) }

func genSflowFilter(repo string) (genFile, error) {
	var b strings.Builder
	b.WriteString(header("SflowFilter", "sflow/*.go and vflow/*.go"))
	fset, f, err := parseFile(repo, "sflow/decoder.go")
	if err != nil {
		return genFile{}, err
	}
	stmtsOf := func(recv, name string) []string {
		fd := funcDecl(f, recv, name)
		if fd == nil || fd.Body == nil {
			return []string{"!unrecognised: " + name + " missing"}
		}
		out := []string{"func" + src(fset, fd.Type)[len("func"):]}
		for _, st := range fd.Body.List {
			out = append(out, src(fset, st))
		}
		return out
	}
	list := func(doc, name string, l []string) {
		fmt.Fprintf(&b, "/-- %s -/\ndef %s : List String := [", doc, name)
		for i, s := range l {
			if i > 0 {
				b.WriteString(",\n  ")
			}
			b.WriteString(leanStr(s))
		}
		b.WriteString("]\n\n")
	}
	list("signature and statements of `SFDecoder.isFilterMatch`", "filterMatch", stmtsOf("SFDecoder", "isFilterMatch"))
	list("signature and statements of `NewSFDecoder`", "newDecoder", stmtsOf("", "NewSFDecoder"))
	// the sample loop of SFDecode: header, then the statements before the dispatch, then the dispatch's tag and default
	var loop []string
	if fd := funcDecl(f, "SFDecoder", "SFDecode"); fd != nil && fd.Body != nil {
		n := 0
		for _, st := range fd.Body.List {
			fs, ok := st.(*ast.ForStmt)
			if !ok {
				continue
			}
			n++
			loop = append(loop, "for "+src(fset, fs.Init)+"; "+src(fset, fs.Cond)+"; "+src(fset, fs.Post))
			for _, s := range fs.Body.List {
				if sw, ok := s.(*ast.SwitchStmt); ok {
					loop = append(loop, "switch "+src(fset, sw.Tag))
					for _, c := range sw.Body.List {
						if cc := c.(*ast.CaseClause); cc.List == nil {
							var body []string
							for _, x := range cc.Body {
								body = append(body, src(fset, x))
							}
							loop = append(loop, "default: "+strings.Join(body, "; "))
						}
					}
					continue
				}
				loop = append(loop, src(fset, s))
			}
		}
		if n != 1 {
			loop = append(loop, fmt.Sprintf("!unrecognised: %d for statements in SFDecode", n))
		}
	} else {
		loop = []string{"!unrecognised: SFDecode missing"}
	}
	list("the sample loop of `SFDecode`: its header, its statements before the dispatch on the sample type, the dispatch's tag and default clause", "sampleLoop", loop)
	// every use of the filter field in package sflow (non-test files), and every NewSFDecoder call in package vflow
	var uses, calls []string
	scan := func(dir string, visit func(fs *token.FileSet, file string, fn string, n ast.Node) bool) error {
		ents, err := os.ReadDir(filepath.Join(repo, dir))
		if err != nil {
			return err
		}
		var names []string
		for _, e := range ents {
			if strings.HasSuffix(e.Name(), ".go") && !strings.HasSuffix(e.Name(), "_test.go") {
				names = append(names, e.Name())
			}
		}
		sort.Strings(names)
		for _, nme := range names {
			fs2, f2, err := parseFile(repo, dir+"/"+nme)
			if err != nil {
				return err
			}
			for _, d := range f2.Decls {
				fd, ok := d.(*ast.FuncDecl)
				if !ok || fd.Body == nil {
					continue
				}
				ast.Inspect(fd.Body, func(n ast.Node) bool {
					if n == nil {
						return false
					}
					return visit(fs2, dir+"/"+nme, fd.Name.Name, n)
				})
			}
		}
		return nil
	}
	if err := scan("sflow", func(fset *token.FileSet, file, fn string, n ast.Node) bool {
		if se, ok := n.(*ast.SelectorExpr); ok && se.Sel.Name == "filter" {
			uses = append(uses, file+" "+fn+": "+src(fset, se))
		}
		if kv, ok := n.(*ast.KeyValueExpr); ok {
			if id, ok := kv.Key.(*ast.Ident); ok && id.Name == "filter" {
				uses = append(uses, file+" "+fn+": "+src(fset, kv))
			}
		}
		return true
	}); err != nil {
		return genFile{}, err
	}
	if err := scan("vflow", func(fset *token.FileSet, file, fn string, n ast.Node) bool {
		if c, ok := n.(*ast.CallExpr); ok && strings.HasSuffix(src(fset, c.Fun), "NewSFDecoder") {
			calls = append(calls, file+" "+fn+": "+src(fset, c))
		}
		return true
	}); err != nil {
		return genFile{}, err
	}
	list("every mention of the `filter` field in package sflow (file, function, expression)", "filterUses", uses)
	list("every construction of an sFlow decoder in package vflow (file, function, call)", "decoderCalls", calls)
	b.WriteString(footer("SflowFilter"))
	return genFile{"SflowFilter", b.String()}, nil
}
