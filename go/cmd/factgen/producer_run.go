package main

// ProducerRun (C14, C05, C13): what lies between a worker's send on its message-queue channel and the backend's inputMsg —
// producer/producer.go (registry of backends, Run, Shutdown) and, in each protocol's run() (vflow/{ipfix,sflow,netflow_v5,
// netflow_v9}.go), the block that constructs the producer (which channel, which topic, which error counter it is given).
// The hooks drive the backends' setup / inputMsg directly; this hand-over is pinned statement by statement instead
// (and exercised by the end-to-end cycles that run the binary with the raw-socket backend).

import (
	"fmt"
	"go/ast"
	"go/parser"
	"go/token"
	"path/filepath"
	"sort"
	"strings"
)

func init() { generators = append(generators, genProducerRun) }

func genProducerRun(repo string) (genFile, error) {
	var b strings.Builder
	b.WriteString(header("ProducerRun", "producer/producer.go and the producer blocks of vflow/{ipfix,sflow,netflow_v5,netflow_v9}.go"))
	list := func(name, doc string, l []string) {
		fmt.Fprintf(&b, "/-- %s -/\ndef %s : List String := [", doc, name)
		for i, s := range l {
			if i > 0 {
				b.WriteString(",")
			}
			b.WriteString("\n  " + leanStr(s))
		}
		b.WriteString("]\n\n")
	}
	fset, f, err := parseFile(repo, "producer/producer.go")
	if err != nil {
		return genFile{}, err
	}
	stmts := func(fd *ast.FuncDecl) []string {
		if fd == nil || fd.Body == nil {
			return []string{"<missing>"}
		}
		var out []string
		for _, st := range fd.Body.List {
			out = append(out, src(fset, st))
		}
		return out
	}
	// registry: the map literal of NewProducer, name -> constructor expression, and what NewProducer returns
	var reg []string
	np := funcDecl(f, "", "NewProducer")
	if np != nil {
		ast.Inspect(np, func(n ast.Node) bool {
			cl, ok := n.(*ast.CompositeLit)
			if !ok {
				return true
			}
			if _, isMap := cl.Type.(*ast.MapType); !isMap {
				return true
			}
			for _, e := range cl.Elts {
				if kv, ok := e.(*ast.KeyValueExpr); ok {
					reg = append(reg, src(fset, kv.Key)+" => "+src(fset, kv.Value))
				} else {
					reg = append(reg, "<unrecognised> "+src(fset, e))
				}
			}
			return false
		})
	}
	sort.Strings(reg)
	list("registry", "the backends `NewProducer` knows: option value => constructor (sorted)", reg)
	list("newProducer", "the statements of `NewProducer`, the registry literal elided", func() []string {
		if np == nil {
			return []string{"<missing>"}
		}
		var out []string
		for _, st := range np.Body.List {
			s := src(fset, st)
			if i := strings.Index(s, "map[string]MQueue{"); i >= 0 {
				s = s[:i] + "map[string]MQueue{…}"
			}
			out = append(out, s)
		}
		return out
	}())
	list("run", "the statements of `Producer.Run`", stmts(funcDecl(f, "Producer", "Run")))
	list("shutdown", "the statements of `Producer.Shutdown`", stmts(funcDecl(f, "Producer", "Shutdown")))
	// the MQueue interface
	var iface []string
	for _, d := range f.Decls {
		gd, ok := d.(*ast.GenDecl)
		if !ok {
			continue
		}
		for _, sp := range gd.Specs {
			ts, ok := sp.(*ast.TypeSpec)
			if !ok || ts.Name.Name != "MQueue" {
				continue
			}
			if it, ok := ts.Type.(*ast.InterfaceType); ok {
				for _, m := range it.Methods.List {
					for _, n := range m.Names {
						iface = append(iface, n.Name+strings.TrimPrefix(src(fset, m.Type), "func"))
					}
				}
			}
		}
	}
	list("mqueue", "the methods of interface `MQueue`", iface)
	// the producer block of each protocol
	for _, pr := range []struct{ file, lean string }{{"vflow/ipfix.go", "wiringIpfix"}, {"vflow/sflow.go", "wiringSflow"}, {"vflow/netflow_v5.go", "wiringV5"}, {"vflow/netflow_v9.go", "wiringV9"}} {
		fs, pf, err := parseFile(repo, pr.file)
		if err != nil {
			return genFile{}, err
		}
		var blocks [][]string
		ast.Inspect(pf, func(n ast.Node) bool {
			bl, ok := n.(*ast.BlockStmt)
			if !ok {
				return true
			}
			for _, st := range bl.List {
				as, ok := st.(*ast.AssignStmt)
				if !ok || len(as.Rhs) != 1 {
					continue
				}
				if call, ok := as.Rhs[0].(*ast.CallExpr); ok && strings.HasSuffix(src(fs, call.Fun), "producer.NewProducer") {
					var out []string
					for _, s2 := range bl.List {
						out = append(out, src(fs, s2))
					}
					blocks = append(blocks, out)
					break
				}
			}
			return true
		})
		var flat []string
		if len(blocks) != 1 {
			flat = []string{fmt.Sprintf("<unrecognised> %d blocks construct a producer", len(blocks))}
		} else {
			flat = blocks[0]
		}
		// every other mention of the producer package or of the message-queue channel being handed to anything but a send
		list(pr.lean, "the block of "+pr.file+" that constructs and runs the producer", flat)
	}
	// every statement of package vflow (non-test files) that mentions a message-queue channel: a second receiver would take
	// messages away from the producer, a second sender would publish what no worker decoded
	{
		files, err := filepath.Glob(filepath.Join(repo, "vflow", "*.go"))
		if err != nil {
			return genFile{}, err
		}
		sort.Strings(files)
		chans := map[string]bool{"ipfixMQCh": true, "sFlowMQCh": true, "netflowV5MQCh": true, "netflowV9MQCh": true}
		var uses []string
		for _, path := range files {
			if strings.HasSuffix(path, "_test.go") {
				continue
			}
			fs := token.NewFileSet()
			pf, err := parser.ParseFile(fs, path, nil, 0)
			if err != nil {
				return genFile{}, err
			}
			// innermost simple statement (or declaration spec) around each mention
			var stack []ast.Node
			seen := map[string]bool{}
			ast.Inspect(pf, func(n ast.Node) bool {
				if n == nil {
					stack = stack[:len(stack)-1]
					return true
				}
				stack = append(stack, n)
				if id, ok := n.(*ast.Ident); ok && chans[id.Name] {
					var around ast.Node
					fn := "(package level)"
					for i := len(stack) - 1; i >= 0; i-- {
						switch x := stack[i].(type) {
						case *ast.SendStmt, *ast.AssignStmt, *ast.ExprStmt, *ast.ValueSpec, *ast.ReturnStmt, *ast.CommClause, *ast.KeyValueExpr:
							if around == nil {
								around = x
							}
						case *ast.FuncDecl:
							fn = x.Name.Name
						}
					}
					txt := "<unrecognised>"
					if cc, ok := around.(*ast.CommClause); ok {
						txt = "case " + src(fs, cc.Comm)
					} else if around != nil {
						txt = src(fs, around)
					}
					u := filepath.Base(path) + " " + fn + ": " + txt
					if !seen[u] {
						seen[u] = true
						uses = append(uses, u)
					}
				}
				return true
			})
		}
		sort.Strings(uses)
		list("mqChanUses", "every statement of package vflow that mentions a message-queue channel (file, function, innermost statement)", uses)
	}
	b.WriteString(footer("ProducerRun"))
	return genFile{"ProducerRun", b.String()}, nil
}
