package main

// MirrorFacts (C16): from vflow/ipfix_unix.go, vflow/sflow_unix.go (mirrorIPFIX, mirrorSFlow) and
// mirror/{mirror,ipv4,udp}.go
//   - the packet buffer size expression, the source port, ipHLen of the IPv4 branch, pLen
//   - the arguments of SetLen / udp.SetLen, the three copy()s (slice bounds + source), the bounds of the
//     slice handed to Send, the slice put back into the pool, the order of the loop's statements
//   - what the loop does when Send fails (statements of that `if`), and every statement anywhere in the
//     loop that leaves it (return / break / goto / panic / os.Exit / Fatal): a worker's loop must have none (F25)
//   - the dispatchers (mirrorIPFIXDispatcher / mirrorSFlowDispatcher): declarations, the worker-spawning
//     loop, the dispatch loop and its exits, as statement text
//   - the worker's hand-over block in vflow/{ipfix,sflow}.go (copy into a pool buffer, non-blocking send)
//   - header constants, the template literal, the byte offsets written by Marshal / SetLen / SetAddrs
//
// Size/offset expressions are evaluated to linear forms c + p*pLen + m*max (`.lin c p m`) with
// ipHLen := its IPv4 value; `.len` is an omitted upper bound.  Fail closed: what is not recognised
// becomes `.unrecognised "<go text>"`, which no obligation of Props/C16 accepts.

import (
	"fmt"
	"go/ast"
	"go/parser"
	"go/token"
	"path/filepath"
	"strconv"
	"strings"
)

func init() {
	generators = append(generators, genMirrorFacts)
}

type linEnv struct {
	fset   *token.FileSet
	consts map[string]int // mirror.X and bare X
	ipHLen int            // -1 unknown
	maxSel string         // opts.IPFIXUDPSize
}

// c + p*pLen + m*max, ok
func (e *linEnv) lin(x ast.Expr) (c, p, m int, ok bool) {
	switch v := x.(type) {
	case *ast.ParenExpr:
		return e.lin(v.X)
	case *ast.BasicLit:
		if v.Kind == token.INT {
			n, err := strconv.ParseInt(v.Value, 0, 64)
			return int(n), 0, 0, err == nil
		}
	case *ast.Ident:
		switch v.Name {
		case "pLen":
			return 0, 1, 0, true
		case "ipHLen":
			if e.ipHLen >= 0 {
				return e.ipHLen, 0, 0, true
			}
		default:
			if n, found := e.consts[v.Name]; found {
				return n, 0, 0, true
			}
		}
	case *ast.SelectorExpr:
		t := goText(e.fset, v)
		if t == e.maxSel && e.maxSel != "" {
			return 0, 0, 1, true
		}
		if n, found := e.consts[t]; found {
			return n, 0, 0, true
		}
	case *ast.BinaryExpr:
		if v.Op == token.ADD {
			c1, p1, m1, ok1 := e.lin(v.X)
			c2, p2, m2, ok2 := e.lin(v.Y)
			return c1 + c2, p1 + p2, m1 + m2, ok1 && ok2
		}
	}
	return 0, 0, 0, false
}

func (e *linEnv) ex(x ast.Expr) string {
	if x == nil {
		return ".len"
	}
	if c, p, m, ok := e.lin(x); ok {
		return fmt.Sprintf(".lin %d %d %d", c, p, m)
	}
	return ".unrecognised " + leanStr(goText(e.fset, x))
}

func (e *linEnv) exLo(x ast.Expr) string {
	if x == nil {
		return ".lin 0 0 0"
	}
	return e.ex(x)
}

func mirrorConsts(repo string) (map[string]int, error) {
	fset := token.NewFileSet()
	f, err := parser.ParseFile(fset, filepath.Join(repo, "mirror", "mirror.go"), nil, 0)
	if err != nil {
		return nil, err
	}
	m := map[string]int{}
	for _, d := range f.Decls {
		gd, ok := d.(*ast.GenDecl)
		if !ok || gd.Tok != token.CONST {
			continue
		}
		for _, sp := range gd.Specs {
			vs := sp.(*ast.ValueSpec)
			for i, nm := range vs.Names {
				if i < len(vs.Values) {
					if bl, ok := vs.Values[i].(*ast.BasicLit); ok && bl.Kind == token.INT {
						n, _ := strconv.Atoi(bl.Value)
						m[nm.Name] = n
						m["mirror."+nm.Name] = n
					}
				}
			}
		}
	}
	return m, nil
}

func workerFacts(repo, file, fn, maxSel string, consts map[string]int) (string, error) {
	fset := token.NewFileSet()
	f, err := parser.ParseFile(fset, filepath.Join(repo, "vflow", file), nil, 0)
	if err != nil {
		return "", err
	}
	env := &linEnv{fset: fset, consts: consts, ipHLen: -1, maxSel: maxSel}
	un := func(s string) string { return ".unrecognised " + leanStr(s) }
	bufSize, srcPort, ipHLenV4, pLenIs := un("no packet buffer"), un("no udp literal"), un("no ipHLen"), "?"
	setLenArg, udpSetLenArg := un("no SetLen"), un("no udp.SetLen")
	var copies, loop []string
	sendLo, sendHi, putLo, putHi := un("no Send"), un("no Send"), un("no Put"), un("no Put")
	sendFail := []string{"unrecognised: no Send"}
	var exits []string
	dstPort := "?"
	var fd *ast.FuncDecl
	for _, d := range f.Decls {
		if x, ok := d.(*ast.FuncDecl); ok && x.Name.Name == fn {
			fd = x
		}
	}
	if fd == nil {
		return "", fmt.Errorf("%s: func %s not found", file, fn)
	}
	var loopStmt *ast.ForStmt
	for _, st := range fd.Body.List {
		switch s := st.(type) {
		case *ast.DeclStmt:
			gd := s.Decl.(*ast.GenDecl)
			for _, sp := range gd.Specs {
				vs, ok := sp.(*ast.ValueSpec)
				if !ok {
					continue
				}
				for i, nm := range vs.Names {
					if nm.Name == "packet" && i < len(vs.Values) {
						bufSize = un(goText(fset, vs.Values[i]))
						if call, ok := vs.Values[i].(*ast.CallExpr); ok && goText(fset, call.Fun) == "make" &&
							len(call.Args) == 2 && goText(fset, call.Args[0]) == "[]byte" {
							bufSize = env.ex(call.Args[1])
						}
					}
				}
			}
		case *ast.AssignStmt:
			if len(s.Lhs) == 1 && goText(fset, s.Lhs[0]) == "udp" && len(s.Rhs) == 1 {
				if cl, ok := s.Rhs[0].(*ast.CompositeLit); ok && goText(fset, cl.Type) == "mirror.UDP" {
					// positional {src, dst, len, sum} or keyed
					var vals [4]ast.Expr
					names := map[string]int{"SrcPort": 0, "DstPort": 1, "Length": 2, "Checksum": 3}
					for i, e := range cl.Elts {
						if kv, ok := e.(*ast.KeyValueExpr); ok {
							if j, ok := names[goText(fset, kv.Key)]; ok {
								vals[j] = kv.Value
							}
						} else if i < 4 {
							vals[i] = e
						}
					}
					if vals[0] != nil {
						srcPort = env.ex(vals[0])
					}
					if vals[1] != nil {
						dstPort = goText(fset, vals[1])
					}
					for _, v := range vals[2:] {
						if v != nil && goText(fset, v) != "0" {
							srcPort = un("udp length/checksum not 0: " + goText(fset, cl))
						}
					}
				}
			}
		case *ast.IfStmt:
			// if ipv4 { …; ipHLen = mirror.IPv4HLen } else { … }
			if goText(fset, s.Cond) == "ipv4" {
				for _, b := range s.Body.List {
					if as, ok := b.(*ast.AssignStmt); ok && len(as.Lhs) == 1 && goText(fset, as.Lhs[0]) == "ipHLen" {
						ipHLenV4 = env.ex(as.Rhs[0])
						if c, p, m, ok := env.lin(as.Rhs[0]); ok && p == 0 && m == 0 {
							env.ipHLen = c
						}
					}
				}
			}
		case *ast.ForStmt:
			if s.Cond == nil && s.Init == nil && s.Post == nil {
				loopStmt = s
			}
		}
	}
	// the buffer expression may mention ipHLen-free constants only; re-evaluate nothing here.
	if loopStmt != nil {
		for _, st := range loopStmt.Body.List {
			txt := goText(fset, st)
			kind := "?" + txt
			switch s := st.(type) {
			case *ast.AssignStmt:
				switch {
				case txt == "msg = <-ch":
					kind = "recv"
				case len(s.Lhs) == 1 && goText(fset, s.Lhs[0]) == "pLen":
					kind = "pLen"
					pLenIs = goText(fset, s.Rhs[0])
				}
			case *ast.ExprStmt:
				call, ok := s.X.(*ast.CallExpr)
				if !ok {
					break
				}
				fnName := goText(fset, call.Fun)
				switch {
				case fnName == "ip.SetAddrs" && len(call.Args) == 3:
					kind = "SetAddrs(" + goText(fset, call.Args[0]) + "," + goText(fset, call.Args[1]) + "," + goText(fset, call.Args[2]) + ")"
				case fnName == "ip.SetLen" && len(call.Args) == 2 && goText(fset, call.Args[0]) == "ipHdr":
					kind = "SetLen"
					setLenArg = env.ex(call.Args[1])
				case fnName == "udp.SetLen" && len(call.Args) == 2 && goText(fset, call.Args[0]) == "udpHdr":
					kind = "udp.SetLen"
					udpSetLenArg = env.ex(call.Args[1])
				case fnName == "copy" && len(call.Args) == 2:
					kind = "copy"
					if se, ok := call.Args[0].(*ast.SliceExpr); ok && goText(fset, se.X) == "packet" && se.Max == nil {
						copies = append(copies, fmt.Sprintf("(%s, %s, %s)", env.exLo(se.Low), env.ex(se.High), leanStr(goText(fset, call.Args[1]))))
					} else {
						copies = append(copies, fmt.Sprintf("(%s, .len, \"\")", un(goText(fset, call.Args[0]))))
					}
				case strings.HasSuffix(fnName, "Buffer.Put") && len(call.Args) == 1:
					kind = "Put"
					if se, ok := call.Args[0].(*ast.SliceExpr); ok && goText(fset, se.X) == "msg.body" && se.Max == nil {
						putLo, putHi = env.exLo(se.Low), env.ex(se.High)
					}
				}
			case *ast.IfStmt:
				// `if !ipv4 { udp.SetChecksum() }` and `if err = conn.Send(packet[lo:hi]); err != nil { return err }`
				if goText(fset, s.Cond) == "!ipv4" {
					kind = "if !ipv4"
				}
				if as, ok := s.Init.(*ast.AssignStmt); ok && len(as.Rhs) == 1 {
					if call, ok := as.Rhs[0].(*ast.CallExpr); ok && goText(fset, call.Fun) == "conn.Send" && len(call.Args) == 1 {
						kind = "Send"
						if se, ok := call.Args[0].(*ast.SliceExpr); ok && goText(fset, se.X) == "packet" && se.Max == nil {
							sendLo, sendHi = env.exLo(se.Low), env.ex(se.High)
						}
						// what happens when it fails: `if err = conn.Send(…); err != nil { <these> }`
						sendFail = nil
						if goText(fset, as.Lhs[0]) != "err" || goText(fset, s.Cond) != "err != nil" {
							sendFail = append(sendFail, "unrecognised: if "+goText(fset, s.Init)+"; "+goText(fset, s.Cond))
						}
						for _, b := range s.Body.List {
							sendFail = append(sendFail, goText(fset, b))
						}
						if s.Else != nil {
							sendFail = append(sendFail, "else "+goText(fset, s.Else))
						}
					}
				}
			}
			loop = append(loop, leanStr(kind))
		}
		exits = loopExits(fset, loopStmt)
	}
	var b strings.Builder
	fmt.Fprintf(&b, "  { bufSize := %s\n    srcPort := %s\n    dstPort := %s\n    ipHLenV4 := %s\n    pLenIs := %s\n    setLenArg := %s\n    udpSetLenArg := %s\n    copies := [%s]\n    sendLo := %s\n    sendHi := %s\n    putLo := %s\n    putHi := %s\n    loop := [%s]\n    sendFail := %s\n    exits := %s }",
		bufSize, srcPort, leanStr(dstPort), ipHLenV4, leanStr(pLenIs), setLenArg, udpSetLenArg, strings.Join(copies, ", "),
		sendLo, sendHi, putLo, putHi, strings.Join(loop, ", "), leanStrList(sendFail), leanStrList(exits))
	return b.String(), nil
}

// every statement inside the loop (at any depth, function literals included) that can leave it or end the
// goroutine / process: return, break, goto, labelled continue, panic(…), os.Exit(…), …Fatal…(…), runtime.Goexit()
func loopExits(fset *token.FileSet, loop *ast.ForStmt) []string {
	out := []string{}
	depth := 0 // nesting of inner for / switch / select statements, where a plain break stays inside
	var walk func(n ast.Node)
	walk = func(n ast.Node) {
		ast.Inspect(n, func(x ast.Node) bool {
			switch v := x.(type) {
			case *ast.ReturnStmt:
				out = append(out, goText(fset, v))
			case *ast.BranchStmt:
				switch {
				case v.Tok == token.GOTO || v.Label != nil:
					out = append(out, goText(fset, v))
				case v.Tok == token.BREAK && depth == 0:
					out = append(out, goText(fset, v))
				}
			case *ast.CallExpr:
				fn := goText(fset, v.Fun)
				if fn == "panic" || fn == "os.Exit" || fn == "runtime.Goexit" || strings.Contains(fn, "Fatal") || strings.Contains(fn, "Panic") {
					out = append(out, goText(fset, v))
				}
			case *ast.ForStmt, *ast.RangeStmt, *ast.SwitchStmt, *ast.TypeSwitchStmt, *ast.SelectStmt:
				if x != ast.Node(loop) {
					depth++
					switch b := x.(type) {
					case *ast.ForStmt:
						walk(b.Body)
					case *ast.RangeStmt:
						walk(b.Body)
					case *ast.SwitchStmt:
						walk(b.Body)
					case *ast.TypeSwitchStmt:
						walk(b.Body)
					case *ast.SelectStmt:
						walk(b.Body)
					}
					depth--
					return false
				}
			}
			return true
		})
	}
	walk(loop.Body)
	return out
}

// statements as text, with an `if` / expression-less `switch` opened one level: its head, then one entry per branch
// ("then: a; b", "else: …", "case <cond>: a; b", "default: …")
func flatStmts(fset *token.FileSet, list []ast.Stmt) []string {
	join := func(l []ast.Stmt) string {
		t := make([]string, len(l))
		for i, x := range l {
			t[i] = goText(fset, x)
		}
		return strings.Join(t, "; ")
	}
	var out []string
	for _, st := range list {
		switch s := st.(type) {
		case *ast.IfStmt:
			head := "if "
			if s.Init != nil {
				head += goText(fset, s.Init) + "; "
			}
			out = append(out, head+goText(fset, s.Cond), "then: "+join(s.Body.List))
			switch e := s.Else.(type) {
			case nil:
			case *ast.BlockStmt:
				out = append(out, "else: "+join(e.List))
			default:
				out = append(out, "else "+goText(fset, e))
			}
		case *ast.SwitchStmt:
			if s.Tag != nil {
				out = append(out, goText(fset, s))
				continue
			}
			head := "switch"
			if s.Init != nil {
				head += " " + goText(fset, s.Init)
			}
			out = append(out, head)
			for _, c := range s.Body.List {
				cc := c.(*ast.CaseClause)
				if cc.List == nil {
					out = append(out, "default: "+join(cc.Body))
					continue
				}
				conds := make([]string, len(cc.List))
				for i, x := range cc.List {
					conds[i] = goText(fset, x)
				}
				out = append(out, "case "+strings.Join(conds, ", ")+": "+join(cc.Body))
			}
		default:
			out = append(out, goText(fset, st))
		}
	}
	return out
}

// a dispatcher: its declarations, the statements of the worker-spawning loop and of the dispatch loop, as text.
// Fail closed: the function must be `var (…)`, `if <addr> == "" { return }`, one counted `for` that starts the workers,
// statements without control flow, and one endless `for`; anything else is reported as unrecognised.
func dispatcherFacts(repo, file, fn string) (string, error) {
	fset := token.NewFileSet()
	f, err := parser.ParseFile(fset, filepath.Join(repo, "vflow", file), nil, 0)
	if err != nil {
		return "", err
	}
	var fd *ast.FuncDecl
	for _, d := range f.Decls {
		if x, ok := d.(*ast.FuncDecl); ok && x.Name.Name == fn {
			fd = x
		}
	}
	if fd == nil {
		return "", fmt.Errorf("%s: func %s not found", file, fn)
	}
	var decls, guard, spawnHead, spawn, between, loop, exits []string
	seenLoop := false
	for _, st := range fd.Body.List {
		txt := goText(fset, st)
		if seenLoop {
			between = append(between, "unrecognised after the dispatch loop: "+txt)
			continue
		}
		switch s := st.(type) {
		case *ast.DeclStmt:
			if gd, ok := s.Decl.(*ast.GenDecl); ok && gd.Tok == token.VAR {
				for _, sp := range gd.Specs {
					decls = append(decls, goText(fset, sp))
				}
				continue
			}
			between = append(between, "unrecognised: "+txt)
		case *ast.IfStmt:
			guard = append(guard, txt)
		case *ast.ForStmt:
			if s.Cond == nil && s.Init == nil && s.Post == nil {
				seenLoop = true
				loop = flatStmts(fset, s.Body.List)
				exits = loopExits(fset, s)
			} else {
				spawnHead = append(spawnHead, "for "+goText(fset, s.Init)+"; "+goText(fset, s.Cond)+"; "+goText(fset, s.Post))
				spawn = append(spawn, flatStmts(fset, s.Body.List)...)
			}
		case *ast.AssignStmt, *ast.ExprStmt:
			between = append(between, txt)
		default:
			between = append(between, "unrecognised: "+txt)
		}
	}
	if !seenLoop {
		loop = []string{"unrecognised: no dispatch loop"}
	}
	var b strings.Builder
	fmt.Fprintf(&b, "  { decls := %s\n    guard := %s\n    spawnHead := %s\n    spawn := %s\n    between := %s\n    loop := %s\n    exits := %s }",
		leanStrList(decls), leanStrList(guard), leanStrList(spawnHead), leanStrList(spawn), leanStrList(between), leanStrList(loop), leanStrList(exits))
	return b.String(), nil
}

// statements of a method body as text, one per entry
func methodBody(repo, file, recv, name string) ([]string, error) {
	fset := token.NewFileSet()
	f, err := parser.ParseFile(fset, filepath.Join(repo, "mirror", file), nil, 0)
	if err != nil {
		return nil, err
	}
	for _, d := range f.Decls {
		fd, ok := d.(*ast.FuncDecl)
		if !ok || fd.Name.Name != name || fd.Body == nil {
			continue
		}
		r := ""
		if fd.Recv != nil && len(fd.Recv.List) == 1 {
			r = strings.TrimPrefix(goText(fset, fd.Recv.List[0].Type), "*")
		}
		if r != recv {
			continue
		}
		var out []string
		for _, st := range fd.Body.List {
			out = append(out, goText(fset, st))
		}
		return out, nil
	}
	return nil, fmt.Errorf("mirror/%s: %s.%s not found", file, recv, name)
}

// the worker's hand-over to the mirror: statements of `if <flag> { … }` in the worker loop
func mirrorHandOver(repo, file, flagName string) ([]string, error) {
	fset := token.NewFileSet()
	f, err := parser.ParseFile(fset, filepath.Join(repo, "vflow", file), nil, 0)
	if err != nil {
		return nil, err
	}
	var out []string
	found := 0
	ast.Inspect(f, func(n ast.Node) bool {
		is, ok := n.(*ast.IfStmt)
		if !ok || goText(fset, is.Cond) != flagName {
			return true
		}
		found++
		for _, st := range is.Body.List {
			out = append(out, goText(fset, st))
		}
		if is.Else != nil {
			out = append(out, "else "+goText(fset, is.Else))
		}
		return false
	})
	if found != 1 {
		return []string{fmt.Sprintf("unrecognised: %d blocks guarded by %s", found, flagName)}, nil
	}
	return out, nil
}

func leanStrList(l []string) string {
	q := make([]string, len(l))
	for i, s := range l {
		q[i] = leanStr(s)
	}
	return "[" + strings.Join(q, ", ") + "]"
}

func genMirrorFacts(repo string) (genFile, error) {
	consts, err := mirrorConsts(repo)
	if err != nil {
		return genFile{}, err
	}
	ipfix, err := workerFacts(repo, "ipfix_unix.go", "mirrorIPFIX", "opts.IPFIXUDPSize", consts)
	if err != nil {
		return genFile{}, err
	}
	sflow, err := workerFacts(repo, "sflow_unix.go", "mirrorSFlow", "opts.SFlowUDPSize", consts)
	if err != nil {
		return genFile{}, err
	}
	var b strings.Builder
	b.WriteString("/-! generated by factgen (mirror_facts.go) from vflow/{ipfix,sflow}_unix.go and mirror/*.go — do not edit -/\nnamespace Vflow.Gen.MirrorFacts\n\n")
	b.WriteString("/-- a size/offset expression: `c + p*pLen + m*max`, an omitted upper bound, or unrecognised text -/\ninductive Ex where\n  | lin (c p m : Nat)\n  | len\n  | unrecognised (goText : String)\nderiving DecidableEq, Repr\n\n")
	b.WriteString("structure Worker where\n  bufSize : Ex\n  srcPort : Ex\n  dstPort : String\n  ipHLenV4 : Ex\n  pLenIs : String\n  setLenArg : Ex\n  udpSetLenArg : Ex\n  copies : List (Ex × Ex × String)\n  sendLo : Ex\n  sendHi : Ex\n  putLo : Ex\n  putHi : Ex\n  loop : List String\n  sendFail : List String\n  exits : List String\nderiving DecidableEq, Repr\n\n")
	b.WriteString("structure Dispatcher where\n  decls : List String\n  guard : List String\n  spawnHead : List String\n  spawn : List String\n  between : List String\n  loop : List String\n  exits : List String\nderiving DecidableEq, Repr\n\n")
	b.WriteString("def mirrorIPFIX : Worker :=\n" + ipfix + "\n\n")
	b.WriteString("def mirrorSFlow : Worker :=\n" + sflow + "\n\n")
	for _, d := range []struct{ lean, file, fn string }{
		{"ipfixDispatcher", "ipfix_unix.go", "mirrorIPFIXDispatcher"},
		{"sflowDispatcher", "sflow_unix.go", "mirrorSFlowDispatcher"},
	} {
		body, err := dispatcherFacts(repo, d.file, d.fn)
		if err != nil {
			return genFile{}, err
		}
		fmt.Fprintf(&b, "/-- %s (vflow/%s) -/\ndef %s : Dispatcher :=\n%s\n\n", d.fn, d.file, d.lean, body)
	}
	for _, k := range []string{"IPv4HLen", "IPv6HLen", "UDPHLen", "UDPProto"} {
		v, ok := consts[k]
		if !ok {
			v = 0
		}
		fmt.Fprintf(&b, "def const%s : Nat := %d\n", k, v)
	}
	b.WriteString("\n")
	for _, m := range []struct{ lean, file, recv, name string }{
		{"newIPv4HeaderTpl", "ipv4.go", "", "NewIPv4HeaderTpl"},
		{"ipv4Marshal", "ipv4.go", "IPv4", "Marshal"},
		{"ipv4SetLen", "ipv4.go", "IPv4", "SetLen"},
		{"ipv4SetAddrs", "ipv4.go", "IPv4", "SetAddrs"},
		{"udpMarshal", "udp.go", "UDP", "Marshal"},
		{"udpSetLen", "udp.go", "UDP", "SetLen"},
	} {
		body, err := methodBody(repo, m.file, m.recv, m.name)
		if err != nil {
			return genFile{}, err
		}
		fmt.Fprintf(&b, "/-- statements of %s.%s (mirror/%s) -/\ndef %s : List String := %s\n\n", m.recv, m.name, m.file, m.lean, leanStrList(body))
	}
	for _, m := range []struct{ lean, file, flagName string }{
		{"ipfixHandOver", "ipfix.go", "ipfixMirrorEnabled"},
		{"sflowHandOver", "sflow.go", "sFlowMirrorEnabled"},
	} {
		body, err := mirrorHandOver(repo, m.file, m.flagName)
		if err != nil {
			return genFile{}, err
		}
		fmt.Fprintf(&b, "/-- what the decoding worker does `if %s` (vflow/%s) -/\ndef %s : List String := %s\n\n", m.flagName, m.file, m.lean, leanStrList(body))
	}
	b.WriteString("end Vflow.Gen.MirrorFacts\n")
	return genFile{name: "MirrorFacts", body: b.String()}, nil
}
