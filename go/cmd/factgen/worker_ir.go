package main

// WorkerIR: the four worker loops and the four read loops (loop body and what follows the loop in run())
// of vflow/{ipfix,netflow_v9,netflow_v5,sflow}.go, statement by statement, mapped to the instruction set of lean/Vflow/Model/Pipeline.lean
// (Instr / RInstr). Fail closed: a statement that matches no pattern becomes
// `.unrecognised "<go text>"`, which `Canonical` rejects.
//
// Translation notes (what the patterns rely on):
//   * `d := X.NewDecoder(msg.raddr.IP, msg.body)`, `reader = bytes.NewReader(msg.body)`,
//     `d := sflow.NewSFDecoder(reader, opts.SFlowTypeFilter)` only capture the slice: no instruction.
//   * `if decodedMsg, err = d.Decode(cache); err != nil { log; if decodedMsg == nil { continue } }`
//     becomes `decode, log, contIf noMsg`: the decoders never return (nil, nil).
//   * `if <has data> { BODY }` followed by logging only becomes `contIf noData; BODY`
//     (logging is a no-op in the model, so skipping it is unobservable); any other statement after
//     the block is reported as unrecognised.
//   * `if c { [Put]; [log]; continue }` becomes `contIf c put`.

import (
	"bytes"
	"fmt"
	"go/ast"
	"go/parser"
	"go/printer"
	"go/token"
	"path/filepath"
	"regexp"
	"strconv"
	"strings"
)

func init() { generators = append(generators, genWorkerIR) }

type wproto struct {
	name, file, worker, recv string
	pool, udpCh, mqCh        string
	mCh, mirrorFlag          string
	size, msgType            string
	counted                  string // receiver variable name (i / s)
}

var wprotos = []wproto{
	{"ipfix", "vflow/ipfix.go", "ipfixWorker", "IPFIX", "ipfixBuffer", "ipfixUDPCh", "ipfixMQCh", "ipfixMCh", "ipfixMirrorEnabled", "IPFIXUDPSize", "IPFIXUDPMsg", "i"},
	{"netflowV9", "vflow/netflow_v9.go", "netflowV9Worker", "NetflowV9", "netflowV9Buffer", "netflowV9UDPCh", "netflowV9MQCh", "", "", "NetflowV9UDPSize", "NetflowV9UDPMsg", "i"},
	{"netflowV5", "vflow/netflow_v5.go", "netflowV5Worker", "NetflowV5", "netflowV5Buffer", "netflowV5UDPCh", "netflowV5MQCh", "", "", "NetflowV5UDPSize", "NetflowV5UDPMsg", "i"},
	{"sFlow", "vflow/sflow.go", "sFlowWorker", "SFlow", "sFlowBuffer", "sFlowUDPCh", "sFlowMQCh", "sFlowMCh", "sFlowMirrorEnabled", "SFlowUDPSize", "SFUDPMsg", "s"},
}

var wirWsRe = regexp.MustCompile(`\s+`)

func nodeSrc(fset *token.FileSet, n ast.Node) string {
	var b bytes.Buffer
	printer.Fprint(&b, fset, n)
	return strings.TrimSpace(wirWsRe.ReplaceAllString(b.String(), " "))
}

type wgen struct {
	fset *token.FileSet
	p    wproto
	out  []string
}

func (g *wgen) emit(s string) { g.out = append(g.out, s) }
func (g *wgen) unrec(n ast.Node) {
	s := nodeSrc(g.fset, n)
	if len(s) > 160 {
		s = s[:160] + "…"
	}
	g.emit(".unrecognised " + strconv.Quote(s))
}

func (g *wgen) isLogCall(s string) bool {
	return regexp.MustCompile(`^logger\.(Printf|Println)\(.*\)$`).MatchString(s)
}

// a statement that only logs: `logger.Println(..)`, `if opts.Verbose { logger… }`
func (g *wgen) isLog(st ast.Stmt) bool {
	switch x := st.(type) {
	case *ast.ExprStmt:
		return g.isLogCall(nodeSrc(g.fset, x))
	case *ast.IfStmt:
		if x.Init != nil || x.Else != nil || nodeSrc(g.fset, x.Cond) != "opts.Verbose" {
			return false
		}
		for _, b := range x.Body.List {
			if !g.isLog(b) {
				return false
			}
		}
		return true
	}
	return false
}

func (g *wgen) putText() string {
	return g.p.pool + ".Put(msg.body[:opts." + g.p.size + "])"
}

// body of `if c { … continue }`: Put?, logs, continue
func (g *wgen) contBody(list []ast.Stmt) (put bool, ok bool) {
	if len(list) == 0 {
		return false, false
	}
	last, isBr := list[len(list)-1].(*ast.BranchStmt)
	if !isBr || last.Tok != token.CONTINUE || (last.Label != nil && last.Label.Name != "LOOP") {
		return false, false
	}
	nput := 0
	for _, st := range list[:len(list)-1] {
		switch {
		case nodeSrc(g.fset, st) == g.putText():
			nput++
		case g.isLog(st):
		default:
			return false, false
		}
	}
	return nput == 1, nput <= 1
}

func (g *wgen) lastReal() string {
	for i := len(g.out) - 1; i >= 0; i-- {
		if g.out[i] != ".log" {
			return g.out[i]
		}
	}
	return ""
}

func lbool(b bool) string {
	if b {
		return "true"
	}
	return "false"
}

var dataConds = map[string]bool{
	"len(decodedMsg.DataSets) > 0": true,
	"decodedMsg.DataSets != nil":   true,
	"decodedMsg.Flows != nil":      true,
}

func (g *wgen) stmts(list []ast.Stmt) {
	for idx, st := range list {
		s := nodeSrc(g.fset, st)
		switch {
		case s == g.putText():
			g.emit(".putBack")
		case s == "buf.Reset()":
			g.emit(".resetEnc")
		case s == "select { case <-wQuit: break LOOP case msg, ok = <-"+g.p.udpCh+": if !ok { break LOOP } }":
			g.emit(".recvOrQuit")
		case g.isLog(st):
			g.emit(".log")
		case regexp.MustCompile(`^d := \w+\.NewDecoder\(msg\.raddr\.IP, msg\.body\)$`).MatchString(s),
			s == "reader = bytes.NewReader(msg.body)",
			s == "d := sflow.NewSFDecoder(reader, opts.SFlowTypeFilter)":
			// captures the slice only
		case s == "datagram, err := d.SFDecode()":
			g.emit(".decode")
		case s == "atomic.AddUint64(&"+g.p.counted+".stats.DecodedCount, 1)":
			g.emit(".countDecoded")
		case s == "b, err = decodedMsg.JSONMarshal(buf)":
			g.emit(".marshal true")
		case s == "b, err = json.Marshal(datagram)":
			g.emit(".marshal false")
		case s == "select { case "+g.p.mqCh+" <- append([]byte{}, b...): default: }":
			g.emit(".publishCopy")
		case s == "select { case "+g.p.mqCh+" <- b: default: }":
			g.emit(".publishAlias")
		default:
			ifs, isIf := st.(*ast.IfStmt)
			if !isIf || ifs.Else != nil {
				g.unrec(st)
				continue
			}
			cond := nodeSrc(g.fset, ifs.Cond)
			initS := ""
			if ifs.Init != nil {
				initS = nodeSrc(g.fset, ifs.Init)
			}
			switch {
			case g.p.mirrorFlag != "" && initS == "" && cond == g.p.mirrorFlag:
				g.mirror(ifs)
			case regexp.MustCompile(`^decodedMsg, err = d\.Decode\((\w*)\)$`).MatchString(initS) && cond == "err != nil":
				// { logs…; if decodedMsg == nil { continue } }
				g.emit(".decode")
				okShape := len(ifs.Body.List) >= 1
				for k, b := range ifs.Body.List {
					if k < len(ifs.Body.List)-1 {
						if g.isLog(b) {
							g.emit(".log")
						} else {
							okShape = false
						}
						continue
					}
					in, isIn := b.(*ast.IfStmt)
					if !isIn || in.Init != nil || in.Else != nil || nodeSrc(g.fset, in.Cond) != "decodedMsg == nil" {
						okShape = false
						continue
					}
					put, ok := g.contBody(in.Body.List)
					if !ok {
						okShape = false
						continue
					}
					g.emit(".contIf .noMsg " + lbool(put))
				}
				if !okShape {
					g.unrec(st)
				}
			case initS == "" && dataConds[cond]:
				// if <has data> { BODY } ; only logging may follow
				g.emit(".contIf .noData false")
				g.stmts(ifs.Body.List)
				for _, rest := range list[idx+1:] {
					if !g.isLog(rest) {
						g.emit(".unrecognised " + strconv.Quote("statement after the data block: "+nodeSrc(g.fset, rest)))
					}
				}
			case initS == "" && cond == "err != nil || (len(datagram.Counters) < 1 && len(datagram.Samples) < 1)":
				if put, ok := g.contBody(ifs.Body.List); ok && g.lastReal() == ".decode" {
					g.emit(".contIf .noMsgOrNoData " + lbool(put))
				} else {
					g.unrec(st)
				}
			case initS == "" && cond == "err != nil":
				if put, ok := g.contBody(ifs.Body.List); ok && strings.HasPrefix(g.lastReal(), ".marshal") {
					g.emit(".contIf .marshalErr " + lbool(put))
				} else {
					g.unrec(st)
				}
			default:
				g.unrec(st)
			}
		}
	}
}

func (g *wgen) mirror(ifs *ast.IfStmt) {
	var body []string
	for _, b := range ifs.Body.List {
		body = append(body, nodeSrc(g.fset, b))
	}
	get := "mirror.body = " + g.p.pool + ".Get().([]byte)"
	addr := "mirror.raddr = msg.raddr"
	cp := "mirror.body = append(mirror.body[:0], msg.body...)"
	send := "select { case " + g.p.mCh + " <- mirror: default: }"
	j := strings.Join(body, " ;; ")
	switch j {
	case strings.Join([]string{get, addr, cp, send}, " ;; "), strings.Join([]string{addr, get, cp, send}, " ;; "):
		g.emit(".mirrorCopy")
	case strings.Join([]string{addr, "mirror.body = msg.body", send}, " ;; "),
		strings.Join([]string{"mirror.body = msg.body", addr, send}, " ;; "):
		g.emit(".mirrorAlias")
	default:
		g.unrec(ifs)
	}
}

func leanList(items []string, indent string) string {
	if len(items) == 0 {
		return "[]"
	}
	return "[\n" + indent + strings.Join(items, ",\n"+indent) + "]"
}

func genWorkerIR(repo string) (genFile, error) {
	var sb strings.Builder
	sb.WriteString("import Vflow.Model.Pipeline\n/-! generated by factgen (worker_ir.go) from vflow/{ipfix,netflow_v9,netflow_v5,sflow}.go — do not edit -/\nnamespace Vflow.Gen\nopen Vflow.Pipeline\n\n")
	for _, p := range wprotos {
		fset := token.NewFileSet()
		f, err := parser.ParseFile(fset, filepath.Join(repo, p.file), nil, 0)
		if err != nil {
			return genFile{}, err
		}
		var worker, run *ast.FuncDecl
		for _, d := range f.Decls {
			fd, ok := d.(*ast.FuncDecl)
			if !ok || fd.Recv == nil || fd.Body == nil {
				continue
			}
			if fd.Name.Name == p.worker {
				worker = fd
			}
			if fd.Name.Name == "run" {
				run = fd
			}
		}
		if worker == nil || run == nil {
			return genFile{}, fmt.Errorf("%s: worker or run() not found", p.file)
		}
		// ---- worker
		g := &wgen{fset: fset, p: p}
		initGet := "false"
		seenLoop := false
		var extra []string
		for _, st := range worker.Body.List {
			switch x := st.(type) {
			case *ast.DeclStmt:
				s := nodeSrc(fset, x)
				if strings.Contains(s, "msg = "+p.msgType+"{body: "+p.pool+".Get().([]byte)}") {
					initGet = "true"
				} else if strings.Contains(s, ".Get()") {
					extra = append(extra, ".unrecognised "+strconv.Quote("declaration: "+s))
				}
			case *ast.LabeledStmt:
				loop, ok := x.Stmt.(*ast.ForStmt)
				if !ok || x.Label.Name != "LOOP" || loop.Init != nil || loop.Cond != nil || loop.Post != nil || seenLoop {
					g.unrec(st)
					continue
				}
				seenLoop = true
				g.stmts(loop.Body.List)
			default:
				extra = append(extra, ".unrecognised "+strconv.Quote("outside the loop: "+nodeSrc(fset, st)))
			}
		}
		if !seenLoop {
			extra = append(extra, ".unrecognised \"no LOOP\"")
		}
		items := append(extra, g.out...)
		fmt.Fprintf(&sb, "/-- `%s` (%s) -/\ndef %s : Prog := { initGet := %s, loop := %s }\n\n", p.worker, p.file, p.worker, initGet, leanList(items, "  "))

		// ---- read loop: the `for !x.stop { … }` of run(), and the statements of run() after it
		var rloop *ast.ForStmt
		tail := []string{}
		for _, st := range run.Body.List {
			if fs, ok := st.(*ast.ForStmt); ok && fs.Init == nil && fs.Post == nil && fs.Cond != nil &&
				nodeSrc(fset, fs.Cond) == "!"+p.counted+".stop" {
				if rloop != nil {
					tail = append(tail, ".unrecognised \"a second read loop\"")
				}
				rloop = fs
				continue
			}
			if rloop == nil {
				continue // set-up before the loop
			}
			switch s := nodeSrc(fset, st); {
			case s == "close("+p.udpCh+")":
				tail = append(tail, ".closeUDP")
			case g.isLog(st):
				tail = append(tail, ".log")
			default:
				if len(s) > 160 {
					s = s[:160] + "…"
				}
				tail = append(tail, ".unrecognised "+strconv.Quote("after the read loop: "+s))
			}
		}
		var r []string
		if rloop == nil {
			r = append(r, ".unrecognised \"no read loop\"")
		} else {
			for _, st := range rloop.Body.List {
				s := nodeSrc(fset, st)
				switch {
				case s == "b := "+p.pool+".Get().([]byte)":
					r = append(r, ".getBuf")
				case s == "conn.SetReadDeadline(time.Now().Add(1e9))", s == p.counted+".conn.SetReadDeadline(time.Now().Add(1e9))":
					r = append(r, ".deadline")
				case s == "n, raddr, err := conn.ReadFromUDP(b)", s == "n, raddr, err := "+p.counted+".conn.ReadFromUDP(b)":
					r = append(r, ".readUDP")
				case s == "if err != nil { continue }":
					r = append(r, ".contIfErr")
				case s == "atomic.AddUint64(&"+p.counted+".stats.UDPCount, 1)":
					r = append(r, ".countUDP")
				case s == p.udpCh+" <- "+p.msgType+"{raddr, b[:n]}":
					r = append(r, ".enqueueUDP")
				case g.isLog(st):
					r = append(r, ".log")
				default:
					if len(s) > 160 {
						s = s[:160] + "…"
					}
					r = append(r, ".unrecognised "+strconv.Quote(s))
				}
			}
		}
		fmt.Fprintf(&sb, "/-- the read loop of `(*%s).run` (%s) -/\ndef %sRun : List RInstr := %s\n\n", p.recv, p.file, p.name, leanList(r, "  "))
		fmt.Fprintf(&sb, "/-- the statements of `(*%s).run` after the read loop (%s) -/\ndef %sRunTail : List RInstr := %s\n\n", p.recv, p.file, p.name, leanList(tail, "  "))
	}
	sb.WriteString("end Vflow.Gen\n")
	return genFile{name: "WorkerIR", body: sb.String()}, nil
}
