package main

import (
	"fmt"
	"go/ast"
	"strings"
)

// InterpretTbl: the two switch statements of ipfix/interpret.go:
// FieldType -> minimum length, FieldType -> result kind (by the printed return expression).
func init() { generators = append(generators, genInterpret) }

var interpretKinds = map[string]string{
	"(*b)[0] == 1":                                           "bool",
	"(*b)[0]":                                                "u8",
	"binary.BigEndian.Uint16(*b)":                            "u16",
	"binary.BigEndian.Uint32(*b)":                            "u32",
	"binary.BigEndian.Uint64(*b)":                            "u64",
	"int8((*b)[0])":                                          "i8",
	"int16(binary.BigEndian.Uint16(*b))":                     "i16",
	"int32(binary.BigEndian.Uint32(*b))":                     "i32",
	"int64(binary.BigEndian.Uint64(*b))":                     "i64",
	"math.Float32frombits(binary.BigEndian.Uint32(*b))":      "f32",
	"math.Float64frombits(binary.BigEndian.Uint64(*b))":      "f64",
	"net.HardwareAddr(*b)":                                   "mac",
	"string(*b)":                                             "str",
	"net.IP(*b)":                                             "ip",
	"*b":                                                     "raw",
}

func genInterpret(repo string) (genFile, error) {
	fset, f, err := parseFile(repo, "ipfix/interpret.go")
	if err != nil {
		return genFile{}, err
	}
	_, mf, err := parseFile(repo, "ipfix/rfc5102_model.go")
	if err != nil {
		return genFile{}, err
	}
	// iota order again
	idx := map[string]int{}
	n := 0
	for _, d := range mf.Decls {
		if gd, ok := d.(*ast.GenDecl); ok && gd.Tok.String() == "const" {
			for _, s := range gd.Specs {
				for _, nm := range s.(*ast.ValueSpec).Names {
					idx[nm.Name] = n
					n++
				}
			}
		}
	}
	var b strings.Builder
	b.WriteString(header("InterpretTbl", "ipfix/interpret.go"))
	emit := func(fn *ast.FuncDecl, name string, conv func(string) string, guardWant string) {
		fmt.Fprintf(&b, "def %s : List (Nat × String) := [\n", name)
		var rows []string
		var pre []string
		if fn == nil {
			rows = append(rows, `  (9999, "!unrecognised: function missing")`)
		} else {
			for _, st := range fn.Body.List {
				sw, ok := st.(*ast.SwitchStmt)
				if !ok {
					pre = append(pre, src(fset, st))
					continue
				}
				if src(fset, sw.Tag) != "t" {
					rows = append(rows, fmt.Sprintf("  (9999, %s)", leanStr("!unrecognised switch tag "+src(fset, sw.Tag))))
				}
				for _, c := range sw.Body.List {
					cc := c.(*ast.CaseClause)
					val := "!unrecognised"
					if len(cc.Body) == 1 {
						if rs, ok := cc.Body[0].(*ast.ReturnStmt); ok && len(rs.Results) == 1 {
							val = conv(src(fset, rs.Results[0]))
						}
					}
					if cc.List == nil {
						rows = append(rows, fmt.Sprintf("  (9998, %s)", leanStr(val))) // default
					}
					for _, e := range cc.List {
						i, ok := idx[src(fset, e)]
						if !ok {
							i = 9999
						}
						rows = append(rows, fmt.Sprintf("  (%d, %s)", i, leanStr(val)))
					}
				}
			}
		}
		b.WriteString(strings.Join(rows, ",\n"))
		b.WriteString("\n]\n\n")
		fmt.Fprintf(&b, "/-- statements of %s outside the switch (guard, final return) -/\ndef %sOther : List String := [", name, name)
		for i, p := range pre {
			if i > 0 {
				b.WriteString(", ")
			}
			b.WriteString(leanStr(p))
		}
		b.WriteString("]\n\n")
	}
	emit(funcDecl(f, "", "Interpret"), "interpretKind", func(s string) string {
		if k, ok := interpretKinds[s]; ok {
			return k
		}
		return "!unrecognised " + s
	}, "")
	emit(funcDecl(f, "FieldType", "minLen"), "minLen", func(s string) string { return s }, "")
	b.WriteString(footer("InterpretTbl"))
	return genFile{"InterpretTbl", b.String()}, nil
}
