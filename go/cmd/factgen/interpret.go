package main

import (
	"fmt"
	"go/ast"
	"strings"
)

// InterpretTbl: the switch statements of ipfix/interpret.go:
// FieldType -> minimum length, FieldType -> result kind (by the printed return expression), and (since the
// F24 repair) the over-long branch `if len(*b) > t.minLen() { switch t { … return wideUint(*b) / wideInt(*b) } }`:
// FieldType -> helper, plus the statements of the two helpers. Fail closed: a statement in front of / behind the
// switch that is not exactly of that shape is listed with its source text, which no theorem accepts.
func init() { generators = append(generators, genInterpret) }

var interpretKinds = map[string]string{
	"(*b)[0] == 1":                                           "bool",
	"(*b)[0]":                                                "u8",
	"binary.BigEndian.Uint16(*b)":                            "u16",
	"binary.BigEndian.Uint32(*b)":                            "u32",
	"binary.BigEndian.Uint64(*b)":                            "u64",
	"int8((*b)[0])":                                          "i8",
	"int16(binary.BigEndian.Uint16(*b))":                     "i16",
	"int32(binary.BigEndian.Uint32(*b))":                     "i32",
	"int64(binary.BigEndian.Uint64(*b))":                     "i64",
	"math.Float32frombits(binary.BigEndian.Uint32(*b))":      "f32",
	"math.Float64frombits(binary.BigEndian.Uint64(*b))":      "f64",
	"net.HardwareAddr(*b)":                                   "mac",
	"string(*b)":                                             "str",
	"net.IP(*b)":                                             "ip",
	"*b":                                                     "raw",
}

// the over-long branch of Interpret: helper call -> name in the generated table
var interpretWide = map[string]string{"wideUint(*b)": "wideUint", "wideInt(*b)": "wideInt"}

const wideGuard = "len(*b) > t.minLen()"

// wideBranch recognises `if len(*b) > t.minLen() { switch t { case A, B: return wideX(*b) … } }` (no else, no
// init, nothing else in the body, every case a single return of a known helper call, no default)
func wideBranch(st ast.Stmt, text func(ast.Node) string) (rows [][2]string, ok bool) {
	ifs, isIf := st.(*ast.IfStmt)
	if !isIf || ifs.Init != nil || ifs.Else != nil || text(ifs.Cond) != wideGuard || len(ifs.Body.List) != 1 {
		return nil, false
	}
	sw, isSw := ifs.Body.List[0].(*ast.SwitchStmt)
	if !isSw || sw.Init != nil || sw.Tag == nil || text(sw.Tag) != "t" {
		return nil, false
	}
	for _, c := range sw.Body.List {
		cc := c.(*ast.CaseClause)
		if cc.List == nil || len(cc.Body) != 1 {
			return nil, false
		}
		rs, isRet := cc.Body[0].(*ast.ReturnStmt)
		if !isRet || len(rs.Results) != 1 {
			return nil, false
		}
		h, known := interpretWide[text(rs.Results[0])]
		if !known {
			return nil, false
		}
		for _, e := range cc.List {
			rows = append(rows, [2]string{text(e), h})
		}
	}
	return rows, true
}

func genInterpret(repo string) (genFile, error) {
	fset, f, err := parseFile(repo, "ipfix/interpret.go")
	if err != nil {
		return genFile{}, err
	}
	_, mf, err := parseFile(repo, "ipfix/rfc5102_model.go")
	if err != nil {
		return genFile{}, err
	}
	// iota order again
	idx := map[string]int{}
	n := 0
	for _, d := range mf.Decls {
		if gd, ok := d.(*ast.GenDecl); ok && gd.Tok.String() == "const" {
			for _, s := range gd.Specs {
				for _, nm := range s.(*ast.ValueSpec).Names {
					idx[nm.Name] = n
					n++
				}
			}
		}
	}
	var b strings.Builder
	b.WriteString(header("InterpretTbl", "ipfix/interpret.go"))
	var wideRows []string
	emit := func(fn *ast.FuncDecl, name string, conv func(string) string, guardWant string) {
		fmt.Fprintf(&b, "def %s : List (Nat × String) := [\n", name)
		var rows []string
		var pre []string
		if fn == nil {
			rows = append(rows, `  (9999, "!unrecognised: function missing")`)
		} else {
			for _, st := range fn.Body.List {
				sw, ok := st.(*ast.SwitchStmt)
				if !ok {
					if wr, isWide := wideBranch(st, func(n ast.Node) string { return src(fset, n) }); isWide && name == "interpretKind" && wideRows == nil {
						for _, r := range wr {
							i, known := idx[r[0]]
							if !known {
								i = 9999
							}
							wideRows = append(wideRows, fmt.Sprintf("  (%d, %s)", i, leanStr(r[1])))
						}
						pre = append(pre, "if "+wideGuard+" { switch t <interpretWide> }")
						continue
					}
					pre = append(pre, src(fset, st))
					continue
				}
				pre = append(pre, "switch t <"+name+">")
				if src(fset, sw.Tag) != "t" {
					rows = append(rows, fmt.Sprintf("  (9999, %s)", leanStr("!unrecognised switch tag "+src(fset, sw.Tag))))
				}
				for _, c := range sw.Body.List {
					cc := c.(*ast.CaseClause)
					val := "!unrecognised"
					if len(cc.Body) == 1 {
						if rs, ok := cc.Body[0].(*ast.ReturnStmt); ok && len(rs.Results) == 1 {
							val = conv(src(fset, rs.Results[0]))
						}
					}
					if cc.List == nil {
						rows = append(rows, fmt.Sprintf("  (9998, %s)", leanStr(val))) // default
					}
					for _, e := range cc.List {
						i, ok := idx[src(fset, e)]
						if !ok {
							i = 9999
						}
						rows = append(rows, fmt.Sprintf("  (%d, %s)", i, leanStr(val)))
					}
				}
			}
		}
		b.WriteString(strings.Join(rows, ",\n"))
		b.WriteString("\n]\n\n")
		fmt.Fprintf(&b, "/-- statements of %s in order, the switch itself as a marker (guard, over-long branch, final return) -/\ndef %sOther : List String := [", name, name)
		for i, p := range pre {
			if i > 0 {
				b.WriteString(", ")
			}
			b.WriteString(leanStr(p))
		}
		b.WriteString("]\n\n")
	}
	emit(funcDecl(f, "", "Interpret"), "interpretKind", func(s string) string {
		if k, ok := interpretKinds[s]; ok {
			return k
		}
		return "!unrecognised " + s
	}, "")
	emit(funcDecl(f, "FieldType", "minLen"), "minLen", func(s string) string { return s }, "")
	b.WriteString("/-- the over-long branch of Interpret (`if len(*b) > t.minLen() { switch t … }`): FieldType -> helper -/\n")
	b.WriteString("def interpretWide : List (Nat × String) := [\n" + strings.Join(wideRows, ",\n") + "\n]\n\n")
	// the helpers: parameter list, result and every statement of the body, as source text
	for _, h := range []string{"wideUint", "wideInt"} {
		fmt.Fprintf(&b, "/-- `%s`: signature, then the statements of its body -/\ndef %sBody : List String := [", h, h)
		fn := funcDecl(f, "", h)
		if fn == nil {
			b.WriteString(leanStr("!unrecognised: function missing"))
		} else {
			b.WriteString(leanStr("func" + strings.TrimPrefix(src(fset, fn.Type), "func")))
			for _, st := range fn.Body.List {
				b.WriteString(", " + leanStr(src(fset, st)))
			}
		}
		b.WriteString("]\n\n")
	}
	// every function of the file: a new helper that nothing above describes changes this list
	var fns []string
	for _, d := range f.Decls {
		if fd, ok := d.(*ast.FuncDecl); ok {
			fns = append(fns, fd.Name.Name)
		}
	}
	b.WriteString("def interpretFuncs : List String := [")
	for i, n := range fns {
		if i > 0 {
			b.WriteString(", ")
		}
		b.WriteString(leanStr(n))
	}
	b.WriteString("]\n")
	b.WriteString(footer("InterpretTbl"))
	return genFile{"InterpretTbl", b.String()}, nil
}
