package main

// OptionsTbl (C17): from vflow/options.go
//   - struct Options: field, kind, yaml tag
//   - NewOptions: the composite literal's defaults
//   - flagSet: flag.XxxVar(&opts.F, "name", <default>, usage) registrations (is <default> opts.F itself?)
//     and the order of its statements as a stage list (the last one, behind flag.Parse(): `if flag.NArg() > 0 { …; os.Exit(2) }`, F31)
//   - GetOptions: its first two statements (NewOptions, flagSet)
//   - getEnv / loadCfg: the literal pieces the model depends on ("VFLOW_%s", "-", "_", strings.ToUpper; the loop over os.Args that
//     recognises -config / --config / -config= / --config=, verbatim)
//
// Fail closed: whatever is not recognised becomes `.unrecognised "<go text>"` / `.other "<type>"`,
// which no theorem of Props/C17 accepts.

import (
	"bytes"
	"fmt"
	"go/ast"
	"go/parser"
	"go/printer"
	"go/token"
	"path/filepath"
	"reflect"
	"regexp"
	"strconv"
	"strings"
)

func init() {
	generators = append(generators, genOptionsTbl)
}

var wsRe = regexp.MustCompile(`\s+`)

func goText(fset *token.FileSet, n ast.Node) string {
	var b bytes.Buffer
	printer.Fprint(&b, fset, n)
	return wsRe.ReplaceAllString(b.String(), " ")
}


type optRow struct {
	field, kind, yaml, flag, dflt, fdef string
	goKind                             string // int | string | bool | ""
}

func genOptionsTbl(repo string) (genFile, error) {
	fset := token.NewFileSet()
	f, err := parser.ParseFile(fset, filepath.Join(repo, "vflow", "options.go"), nil, 0)
	if err != nil {
		return genFile{}, err
	}
	var rows []*optRow
	byField := map[string]*optRow{}
	var notes []string // anything unrecognised that has no row to attach to
	listFields := []string{}

	// ---- struct Options
	for _, d := range f.Decls {
		gd, ok := d.(*ast.GenDecl)
		if !ok {
			continue
		}
		for _, sp := range gd.Specs {
			ts, ok := sp.(*ast.TypeSpec)
			if !ok || ts.Name.Name != "Options" {
				continue
			}
			st, ok := ts.Type.(*ast.StructType)
			if !ok {
				notes = append(notes, "type Options is not a struct")
				continue
			}
			for _, fl := range st.Fields.List {
				ty := goText(fset, fl.Type)
				tag := ""
				if fl.Tag != nil {
					s, _ := strconv.Unquote(fl.Tag.Value)
					tag = reflect.StructTag(s).Get("yaml")
				}
				for _, nm := range fl.Names {
					r := &optRow{field: nm.Name, yaml: tag, fdef: ".noflag"}
					switch ty {
					case "int":
						r.kind, r.goKind, r.dflt = ".int", "int", ".int 0"
					case "string":
						r.kind, r.goKind, r.dflt = ".str", "string", `.str ""`
					case "bool":
						r.kind, r.goKind, r.dflt = ".bool", "bool", ".bool false"
					default:
						// list-valued / pointer fields: outside the table, listed separately
						listFields = append(listFields, nm.Name+" "+ty+" "+tag)
						continue
					}
					rows = append(rows, r)
					byField[r.field] = r
				}
			}
		}
	}

	var stages []string
	var head []string
	envFacts := map[string]bool{}
	cfgFacts := map[string]bool{}

	for _, d := range f.Decls {
		fd, ok := d.(*ast.FuncDecl)
		if !ok || fd.Body == nil {
			continue
		}
		switch fd.Name.Name {
		case "NewOptions":
			// return &Options{ K: V, ... }
			done := false
			if len(fd.Body.List) == 1 {
				if rs, ok := fd.Body.List[0].(*ast.ReturnStmt); ok && len(rs.Results) == 1 {
					if ue, ok := rs.Results[0].(*ast.UnaryExpr); ok && ue.Op == token.AND {
						if cl, ok := ue.X.(*ast.CompositeLit); ok && goText(fset, cl.Type) == "Options" {
							done = true
							for _, e := range cl.Elts {
								kv, ok := e.(*ast.KeyValueExpr)
								if !ok {
									notes = append(notes, "NewOptions element: "+goText(fset, e))
									continue
								}
								k := goText(fset, kv.Key)
								r := byField[k]
								if r == nil {
									continue // Logger, SFlowTypeFilter: not in the table
								}
								r.dflt = literalVal(fset, r.goKind, kv.Value)
							}
						}
					}
				}
			}
			if !done {
				notes = append(notes, "NewOptions body not of the form `return &Options{…}`")
			}
		case "GetOptions":
			for i, st := range fd.Body.List {
				if i >= 2 {
					break
				}
				head = append(head, goText(fset, st))
			}
		case "flagSet":
			recv := "opts"
			if fd.Recv != nil && len(fd.Recv.List) == 1 && len(fd.Recv.List[0].Names) == 1 {
				recv = fd.Recv.List[0].Names[0].Name
			}
			for _, st := range fd.Body.List {
				txt := goText(fset, st)
				stage := ""
				switch s := st.(type) {
				case *ast.DeclStmt:
					if txt == "var config string" {
						continue
					}
				case *ast.AssignStmt:
					if len(s.Lhs) == 1 && goText(fset, s.Lhs[0]) == "flag.Usage" {
						continue // help text only
					}
				case *ast.IfStmt:
					// F31: `if flag.NArg() > 0 { fmt.Fprintf(os.Stderr, …); os.Exit(2) }` — a positional argument is refused.
					// Exactly this shape: no init, no else, the body reports on stderr and ends the process with status 2.
					if s.Init == nil && s.Else == nil && goText(fset, s.Cond) == "flag.NArg() > 0" && len(s.Body.List) == 2 {
						rep, ok := s.Body.List[0].(*ast.ExprStmt)
						if !ok {
							break
						}
						call, ok := rep.X.(*ast.CallExpr)
						if ok && goText(fset, call.Fun) == "fmt.Fprintf" && len(call.Args) >= 2 && goText(fset, call.Args[0]) == "os.Stderr" &&
							goText(fset, s.Body.List[1]) == "os.Exit(2)" {
							stage = ".refuseStray"
						}
					}
				case *ast.ExprStmt:
					call, ok := s.X.(*ast.CallExpr)
					if !ok {
						break
					}
					fn := goText(fset, call.Fun)
					switch {
					case fn == recv+".getEnv" && len(call.Args) == 0:
						stage = ".env"
					case fn == recv+".loadCfg" && len(call.Args) == 0:
						stage = ".file"
					case fn == "flag.Parse" && len(call.Args) == 0:
						stage = ".parse"
					case fn == "flag.StringVar" && len(call.Args) == 4 && goText(fset, call.Args[0]) == "&config" &&
						goText(fset, call.Args[1]) == `"config"`:
						stage = ".registerConfig"
					case fn == "flag.Var" && len(call.Args) == 3:
						// list-valued flag (sflow-type-filter): outside the table; it must not target a table field
						tgt := strings.TrimPrefix(goText(fset, call.Args[0]), "&"+recv+".")
						if byField[tgt] == nil {
							stage = ".register"
						}
					case (fn == "flag.BoolVar" || fn == "flag.IntVar" || fn == "flag.StringVar") && len(call.Args) == 4:
						tgt := goText(fset, call.Args[0])
						if !strings.HasPrefix(tgt, "&"+recv+".") {
							break
						}
						r := byField[strings.TrimPrefix(tgt, "&"+recv+".")]
						name, err := strconv.Unquote(goText(fset, call.Args[1]))
						want := map[string]string{"flag.BoolVar": "bool", "flag.IntVar": "int", "flag.StringVar": "string"}[fn]
						if r == nil || err != nil || r.goKind != want || r.flag != "" {
							break
						}
						r.flag = name
						def := goText(fset, call.Args[2])
						switch {
						case def == recv+"."+r.field:
							r.fdef = ".current"
						case literalVal(fset, r.goKind, call.Args[2]) == r.dflt:
							r.fdef = ".builtin"
						default:
							r.fdef = ".unrecognised " + leanStr(def)
						}
						stage = ".register"
					}
				}
				if stage == "" {
					stage = ".unrecognised " + leanStr(txt)
				}
				if stage == ".register" && len(stages) > 0 && stages[len(stages)-1] == ".register" {
					continue // one block of registrations
				}
				stages = append(stages, stage)
			}
		case "getEnv":
			txt := goText(fset, fd.Body)
			for _, piece := range []string{
				`strings.ToUpper(r.Field(i).Tag.Get("yaml"))`,
				`strings.ReplaceAll(key, "-", "_")`,
				`fmt.Sprintf("VFLOW_%s", key)`,
				`os.Getenv(key)`,
				`if value != ""`,
				`strconv.Atoi(value)`,
				`strconv.ParseBool(value)`,
				`case reflect.String: ve.Field(i).SetString(value)`,
			} {
				envFacts[piece] = strings.Contains(txt, piece)
			}
			envFacts["log.Fatal x2"] = strings.Count(txt, "log.Fatal(err)") == 2
		case "loadCfg":
			txt := goText(fset, fd.Body)
			for _, piece := range []string{
				`path.Join(opts.VFlowConfigPath, "vflow.conf")`,
				// the whole scan of os.Args, verbatim: the four spellings of the config flag (Model: cfgWord), the
				// value in the next word or after the "=", the first match decides (Model: findConfig)
				`for i, arg := range os.Args { if arg == "-config" || arg == "--config" { file = os.Args[i+1] } ` +
					`else if strings.HasPrefix(arg, "-config=") || strings.HasPrefix(arg, "--config=") ` +
					`{ file = arg[strings.Index(arg, "=")+1:] } else { continue } ` +
					`opts.VFlowConfigPath, _ = path.Split(file) break }`,
				`ioutil.ReadFile(file)`,
				`yaml.Unmarshal(b, opts)`,
			} {
				cfgFacts[piece] = strings.Contains(txt, piece)
			}
		}
	}

	var b strings.Builder
	b.WriteString("import Vflow.Model.Options\n/-! generated by factgen (options_tbl.go) from vflow/options.go — do not edit -/\nnamespace Vflow.Gen.OptionsTbl\nopen Vflow.Options\n\n")
	b.WriteString("/-- struct Options (int/string/bool fields, in declaration order) with NewOptions defaults and flag registrations -/\ndef rows : List Row := [\n")
	for i, r := range rows {
		sep := ","
		if i == len(rows)-1 {
			sep = ""
		}
		fmt.Fprintf(&b, "  ⟨%s, %s, %s, %s, %s, %s⟩%s\n", leanStr(r.field), r.kind, leanStr(r.yaml), leanStr(r.flag), r.dflt, r.fdef, sep)
	}
	b.WriteString("]\n\n/-- the statements of flagSet in source order -/\ndef stages : List Stage := [")
	b.WriteString(strings.Join(stages, ", "))
	b.WriteString("]\n\n/-- the first two statements of GetOptions -/\ndef getOptionsHead : List String := [")
	for i, h := range head {
		if i > 0 {
			b.WriteString(", ")
		}
		b.WriteString(leanStr(h))
	}
	b.WriteString("]\n\n/-- fields of other types (outside the table): name, type, yaml tag -/\ndef otherFields : List String := [")
	for i, h := range listFields {
		if i > 0 {
			b.WriteString(", ")
		}
		b.WriteString(leanStr(h))
	}
	b.WriteString("]\n\n/-- anything not recognised in the anchored declarations -/\ndef unrecognised : List String := [")
	for i, h := range notes {
		if i > 0 {
			b.WriteString(", ")
		}
		b.WriteString(leanStr(h))
	}
	b.WriteString("]\n\n/-- the code pieces of getEnv the model transcribes, found verbatim -/\ndef getEnvShape : Bool := ")
	b.WriteString(allTrue(envFacts))
	b.WriteString("\n\n/-- the code pieces of loadCfg the model transcribes, found verbatim -/\ndef loadCfgShape : Bool := ")
	b.WriteString(allTrue(cfgFacts))
	// the list-valued setting (sflow-type-filter): how one occurrence of the flag / one file entry adds to the list
	var setStmts []string
	if fd := funcDecl(f, "arrUInt32Flags", "Set"); fd != nil {
		for _, st := range fd.Body.List {
			setStmts = append(setStmts, src(fset, st))
		}
	} else {
		setStmts = []string{"!unrecognised: arrUInt32Flags.Set missing"}
	}
	b.WriteString("\n\n/-- the statements of `arrUInt32Flags.Set` (the sFlow type filter's flag value): every occurrence APPENDS its comma list -/\ndef filterFlagSet : List String := [")
	for i, h := range setStmts {
		if i > 0 {
			b.WriteString(", ")
		}
		b.WriteString(leanStr(h))
	}
	b.WriteString("]")
	b.WriteString("\n\nend Vflow.Gen.OptionsTbl\n")
	return genFile{name: "OptionsTbl", body: b.String()}, nil
}

func allTrue(m map[string]bool) string {
	if len(m) == 0 {
		return "false"
	}
	for _, v := range m {
		if !v {
			return "false"
		}
	}
	return "true"
}

// a literal of the field's kind as a Lean `Val`, or a value no default equals
func literalVal(fset *token.FileSet, goKind string, e ast.Expr) string {
	txt := goText(fset, e)
	switch goKind {
	case "int":
		if bl, ok := e.(*ast.BasicLit); ok && bl.Kind == token.INT {
			if n, err := strconv.ParseInt(bl.Value, 0, 64); err == nil {
				return ".int " + strconv.FormatInt(n, 10)
			}
		}
	case "string":
		if bl, ok := e.(*ast.BasicLit); ok && bl.Kind == token.STRING {
			if s, err := strconv.Unquote(bl.Value); err == nil {
				return ".str " + leanStr(s)
			}
		}
	case "bool":
		if txt == "true" || txt == "false" {
			return ".bool " + txt
		}
	}
	return ".str " + leanStr("unrecognised: "+txt)
}
