module verif

go 1.15

require github.com/EdgeCast/vflow v0.0.0

replace github.com/EdgeCast/vflow => /repo
