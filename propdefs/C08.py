SPEC = {
    "corr": [{"kind": "nf5", "quick": 10000, "thorough": 1000000},
             # the v5 encoder under the real concurrent workers
             {"kind": "pipeline", "quick": 48, "thorough": 1600, "runner": {"pkg": "./vflow", "test": "TestVerifPipeline", "race": False}}],
    "rule": "generated NetFlow v5 datagrams: random header and record contents, counts 0..31, versions 5 and other, lengths "
            "short / one record short / the last record 1..47 octets short (one case in six) / exact / with trailing octets; decoded and marshalled by the real netflow5 code, compared with the "
            "model (decode result and JSON byte-for-byte); oracle = the abstract packet the datagram was generated from (must be "
            "returned field for field; a packet that must be rejected yields no flows AND no message: Decode never returns a message together "
            "with an error, fail:decoded-and-failed (F29); the JSON parses back to it). "
            "non-trivial = the implementation returned a message; distinct = distinct case line",
    "assumptions": ["Go slice semantics of reader.Reader as transcribed in Vflow.Model.Reader (C19)",
                    "factgen's reading of the unmarshal read chains (layouts) and of the encoder's writes"],
}
META = {
    "text": "Lean theorems over every octet string: the decoder model is the generic big-endian field reader instantiated with the "
            "layouts regenerated from netflow/v5/decoder.go, obliged (decide +kernel) to be Cisco's v5 layout (24-octet header, "
            "48-octet record, Go field names in wire order). decode_spec gives the complete outcome of Decode for every input; "
            "decode_encode: version 5, count = number of records in 1..30, values fitting their widths => decode (encodeV5 h fs ++ tail) "
            "= ok <h, fs> for every tail; decode_ok_cases / decode_ok_flows / decode_ok_iff: a message is returned exactly for version 5, count "
            "in 1..30 and 24+48*count octets present, and then with exactly count (>= 1) flows (a header alone or a partial record list never "
            "occurs); decode_rejected / decode_short_flows: every other datagram - in particular one that is shorter than its header "
            "announces - is rejected as a whole, (nil, err), no message (F29 repair: until then the header came back as a message "
            "without flows together with the error); decoded_header/flow_at_offsets: every "
            "decoded field is the big-endian value of its octets at the Cisco offset; readFields_spec/readFields_encFields generic in "
            "the width list. JSON: v5_marshal_eq_render / v5_marshal_valid - the published text is the rendering of v5Tree (9 header "
            "and 20 flow members by name, addresses dotted-quad, exact decimal numbers) and derives it in the RFC 8259 grammar, "
            "unconditionally. v5_nonfatal_reviewed: over regenerated facts nonfatalError is declared as the struct wrapper and never "
            "constructed (every v5 error is fatal). Tied to the real decoder/encoder by correspondence with an independent expected-packet oracle.",
    "ref": "DESIGN.md §6 C08",
    "note": "Trusted: Lean kernel; the hand-written model Vflow.Model.V5 (tied to netflow/v5 by correspondence on the decode "
            "result and the JSON bytes); factgen (layouts, write programs); the harness and its generator.",
    "technique": "Lean 4 proofs (induction over width lists / record counts) over layouts regenerated from the Go AST + differential "
                 "correspondence with netflow5.Decoder.Decode and JSONMarshal",
}
