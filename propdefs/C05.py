import e2e_e2etraffic
SPEC = {
    "corr": [{"kind": "json", "quick": 10000, "thorough": 1000000},
             {"kind": "nf5", "quick": 3000, "thorough": 200000},
             # sFlow: the model's rendering of sflowTree vs the real json.Marshal(datagram), byte for byte
             {"kind": "sflow", "quick": 8000, "thorough": 400000},
             # what is actually handed to the message queue by the real workers (1..64 of them): every payload must be the solo JSON of its datagram
             {"kind": "pipeline", "quick": 48, "thorough": 1600, "runner": {"pkg": "./vflow", "test": "TestVerifPipeline", "race": False}},
             # the same with a stalling consumer: the message queue fills, publishes are dropped, then the consumer recovers —
             # whatever is published afterwards must again be the solo JSON of one datagram (counts depend on the stall: no model comparison)
             {"kind": "pipeline", "label": "pipeline-stall", "seed_offset": 47, "quick": 24, "thorough": 800, "model": False,
              "runner": {"pkg": "./vflow", "test": "TestVerifPipeline", "race": False}, "env": {"VERIF_PIPE_STALL": "1"}},
             # "lines received by the message-queue sink": the payloads (JSON text with printf verbs, stray '%', quotes, binary octets,
             # multi-kilobyte) handed to the real raw-socket producer must arrive at a real sink byte for byte, one per line; to the
             # kafka producer's Input() unchanged (seed C05-f: the payload used as a format string)
             {"kind": "producer", "label": "sink-lines", "seed_offset": 91, "quick": 60, "thorough": 6000,
              "runner": {"pkg": "./producer", "test": "TestVerifRawSocket", "race": False, "timeout": "30m"}},
             {"kind": "producerk", "label": "sink-values", "seed_offset": 92, "quick": 60, "thorough": 6000,
              "runner": {"pkg": "./producer", "test": "TestVerifSarama", "race": False, "timeout": "30m"}}],
    "extra": [e2e_e2etraffic.traffic_cycles],
    "rule": "json: IPFIX / NetFlow v9 messages built directly from typed values (every Interpret result kind x content "
            "class: plain / quotes+backslashes / controls / HTML / multi-byte and invalid UTF-8 / random octets; NaN, +-Inf, "
            "64-bit extremes; IPv4, IPv6, v4-mapped and odd-length addresses), marshalled by the real JSONMarshal, compared "
            "byte-for-byte with the model; oracle = json.Valid + the re-parsed document equals the value tree the message was "
            "built from. nf5: generated v5 datagrams decoded and marshalled by the real code. sflow: generated sFlow v5 datagrams "
            "(flow / counter / unknown samples, all record kinds, IPv4 / IPv6 agents and next hops, sampled Ethernet / 802.1Q / "
            "IPv4 / IPv6 / TCP / UDP / ICMP headers) decoded by the real decoder and marshalled by the real json.Marshal, compared "
            "byte-for-byte with render (sflowTree d). non-trivial = the implementation "
            "produced a document; distinct = distinct case line",
    "assumptions": [
        "float text: strconv.FormatFloat(f,'E',-1,bits) is not modelled; its text is an input of the model, assumed to be an "
        "RFC 8259 number for a finite bit pattern and one of NaN/+Inf/-Inf otherwise (hypothesis FloatOk of the validity "
        "theorems; checked on every float the correspondence generates)",
        "sFlow is published through encoding/json (library code): that render (sflowTree d) equals what json.Marshal emits is "
        "established by the byte-for-byte correspondence (kinds sflow here, sflowf / dissect in C07 / C18), not proved; what is "
        "proved is that this rendering is valid JSON deriving sflowTree d",
        "Go string/slice semantics and encoding/json's appendString as transcribed in Vflow.Model.JsonOut (tied by the "
        "byte-for-byte correspondence)",
    ],
}
META = {
    "text": "Lean theorems, for every exporter address, header, record list and field value (all value kinds, arbitrary octets in "
            "strings, every float bit pattern, unbounded integers): (1) ipfix/v9/v5_marshal_eq_render - the octets the three "
            "hand-written encoders emit are exactly the compact rendering of an explicit message tree (ipfixTree / v9Tree / v5Tree: "
            "AgentID = canonical address text, Header members by name and in order, per field I / V / E-when-non-zero, v5 flows "
            "with 20 named members, addresses dotted) - the tree is the faithfulness statement; (2) ..._marshal_valid - that text "
            "derives exactly that tree in an RFC 8259 grammar (DVal), given FloatOk for float fields (none needed for v5); "
            "(3) leaves: natDigits/intDigits are JSON numbers and decode10 (natDigits n) = n; escString s (Go's HTML-safe escaping) "
            "is a JSON string body for every octet string and the identity on plain ASCII; address/MAC/hex text needs no escaping; "
            "(4) sFlow (published as json.Marshal(datagram)): the datagram is mapped to an explicit tree sflowTree (Go field names in "
            "declaration order, map keys sorted, []byte as base64, net.IP via MarshalText, MAC / address strings, exact decimal "
            "numbers, null for absent layers) and sflow_tree_wf / sflow_json_valid / sflow_published_valid prove, for every datagram "
            "value, that its rendering is valid JSON deriving exactly that tree; equality of the rendering with encoding/json's output "
            "is by correspondence only. "
            "(5) end to end: the pipeline model's codec parameter instantiated with the IPFIX / NetFlow v9 decoder models and the marshal model "
            "(ipfix_published_end_to_end, v9_published_end_to_end, ipfix_published_current_source, ipfix_wellformed_published, v9_wellformed_published): for any number of workers "
            "running the worker loop extracted from the current source, any datagram sequence and every schedule, every payload handed to the message queue "
            "is render of the message tree of the decode of ONE received datagram's own octets and is accepted by the JSON scanner; for a datagram that "
            "encodes a well-formed message (Spec.Wire) the tree is that of exactly the message's records. "
            "The encoders' fixed text and member order are regenerated from the Go source (factgen write programs) and obliged, by "
            "decide, to equal the specification programs up to merging adjacent literal writes. The model is tied to the real "
            "JSONMarshal byte-for-byte by correspondence plus a json.Valid / re-parse oracle.",
    "ref": "DESIGN.md §6 C05",
    "note": "Assumed, not proved: the float text (FormatFloat) is an input satisfying FloatOk; for sFlow, that encoding/json (library) "
            "emits exactly render (sflowTree d) - tied byte-for-byte by the sflow / sflowf / dissect correspondences, not proved. Trusted: Lean kernel; the hand-written model "
            "Vflow.Model.JsonOut / V5 (tied byte-for-byte to the Go encoders); factgen; the harness.",
    "technique": "Lean 4 proofs (structural induction; render/grammar soundness; lexical lemmas by case analysis over all 256 octets) "
                 "over write programs regenerated from the Go AST + byte-for-byte differential correspondence + json.Valid/re-parse oracle",
}
