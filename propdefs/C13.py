import e2e_e2etraffic

RUNNER = {"pkg": "./vflow", "test": "TestVerifPipeline", "race": False}

SPEC = {
    "corr": [{"kind": "pipeline", "quick": 160, "thorough": 6400, "runner": RUNNER},
             # NetFlow v5 Decode alone: a message is never handed out together with an error (the worker counts `decodedMsg != nil`): F29
             {"kind": "nf5", "quick": 4000, "thorough": 200000},
             # a stalling consumer: the queue fills, publishes are dropped by the non-blocking enqueue, the consumer recovers;
             # still every datagram counted once, nothing published twice, every payload the solo JSON of one datagram
             {"kind": "pipeline", "label": "pipeline-stall", "seed_offset": 53, "quick": 16, "thorough": 600, "model": False,
              "runner": RUNNER, "env": {"VERIF_PIPE_STALL": "1"}}],
    # the property's own observation points (/flow statistics API, lines at the message-queue sink) on the unmodified binary
    "extra": [e2e_e2etraffic.traffic_cycles],
    "search_factor": 2,
    "rule": "a case = protocol (ipfix/v9/v5/sflow) x 1..64 real worker goroutines x 20..2000 datagrams (about 70 % yield a "
            "message, the rest template-less / undecodable / malformed / marshal-failing; NetFlow v5: 6 % with the last record 1..47 "
            "octets short and 6 % cut anywhere - class x, Decode fails, must not be counted: F29) sent over loopback UDP through the real "
            "read loop (so UDPCount is the real counter), pools, channels and worker functions, < 400 in flight, MQ drained; "
            "implementation line = UDPCount / DecodedCount deltas and number of messages taken from the MQ channel, compared with "
            "the model's run of the extracted worker program; non-trivial = every case; distinct = distinct case line. "
            "e2e-traffic (the REAL binary, DESIGN.md §6 *End-to-end*): 6 (quick) / 200 (thorough) cycles, each starting the unmodified vflow binary (four listeners, producer rawSocket -> a TCP sink of the harness, fresh cache files, 1..64 workers, read buffers of 1500 / 9000 octets) and sending it about 300 / 2000 datagrams of the ipfix, nf9, nf5 and sflow generators from per-session loopback exporter addresses, in phases separated by the collector's own counters (no dependence on worker order, K5), paced by its UDPCount (no socket overflow); expectation per datagram from the real decoders in-process (`corr e2eref`); C13 demands, per protocol at quiescence: UDPCount = datagrams sent to its port (short with kernel drops: no "
            "verdict), DecodedCount = datagrams the reference counts as decoded (ipfix / v9 / v5: a message resp. no error; sFlow: "
            "published), the multiset of lines at the sink = the multiset of the reference's solo JSON payloads (none invented, none "
            "twice, none missing; sFlow ColTime, the wall clock, set to 0 on both sides); phase 0 is sent one protocol at a time and no "
            "counter of another protocol may move; the thorough tier adds a burst at full speed of datagrams that leave the cache "
            "alone, for which only UDPCount <= sent, DecodedCount within [UDPCount - undecodable sent, decodable sent] and 'every line "
            "is the payload of a datagram sent, at most as often as sent' are demanded",
    "assumptions": ["sync.Pool, channels and goroutine scheduling as atomic steps of Vflow.Model.Pipeline",
                    "the MQ channel never fills during the runs (the property's premise; the hook keeps < 400 datagrams in flight)",
                    "the per-datagram outcome class (no message / no data / marshal error / yields) is computed by the generator "
                    "with the real solo decode and re-checked by the hook; for ipfix / v9 'no message' is the code's `msg == nil`, for v5 - "
                    "which has no partially decodable datagram - it is the property's 'Decode reports an error' (since F29)"],
}
META = {
    "text": "Lean theorems over every number of workers, every datagram sequence and every schedule, for every Canonical worker "
            "program: every received datagram is in exactly one place (read loop, UDP channel, one worker, finished); exactly one "
            "countUDP; at most one decode, one countDecoded, one publish attempt at any time; when its iteration is over exactly one "
            "countDecoded iff its decode counts by the code's own notion (ipfix/v9/v5: a message was returned; sFlow: decoded, has a "
            "sample, marshals; for NetFlow v5 that is 'decodes successfully' - v5_counted_iff_decodes: counted iff version 5, count in "
            "1..30 and all 24+48*count octets present, with C08.decode_ok_iff; before the F29 repair a datagram shorter than announced "
            "came back as a message together with the error and was counted) and exactly one publish attempt iff it has data and marshals; an attempt is `published` iff the MQ "
            "channel had room at that step; every published payload is the solo result of a received datagram; at quiescence with "
            "no drop the published messages are exactly the solo results of the yielding datagrams, one each. Worker and read loops "
            "are re-extracted from vflow/*.go on every run and must be Canonical (decide; after the read loop only the close of the "
            "reader's own UDP channel). The real pipeline is run over loopback "
            "UDP; counters and the published multiset must match the solo decodes and the model's run. End to end: the unmodified "
            "binary with a rawSocket sink; /flow counters and the multiset of lines at the sink must equal what the real decoders "
            "in-process say about the datagrams sent.",
    "ref": "DESIGN.md §6 C13",
    "note": "Trusted: as C12. DecodedCount for sFlow follows the code (incremented after a successful marshal). The end-to-end traffic "
            "cycles (e2e_e2etraffic.py) observe the statistics API and the sink of the unmodified binary in both tiers; trusted there: "
            "the harness, loopback delivery guarded by UDPCount and the kernel's drop counter.",
    "technique": "Lean 4 invariant proof (event-log accounting) over a small-step concurrent model + regenerated worker IR "
                 "(decide Canonical) + differential run of the real pipeline with counter/multiset oracle + end-to-end traffic cycles of the built binary (/flow, rawSocket sink)",
}
