RUNNER = {"pkg": "./vflow", "test": "TestVerifPipeline", "race": False}

SPEC = {
    "corr": [{"kind": "pipeline", "quick": 160, "thorough": 6400, "runner": RUNNER},
             # NetFlow v5 Decode alone: a message is never handed out together with an error (the worker counts `decodedMsg != nil`): F29
             {"kind": "nf5", "quick": 4000, "thorough": 200000},
             # a stalling consumer: the queue fills, publishes are dropped by the non-blocking enqueue, the consumer recovers;
             # still every datagram counted once, nothing published twice, every payload the solo JSON of one datagram
             {"kind": "pipeline", "label": "pipeline-stall", "seed_offset": 53, "quick": 16, "thorough": 600, "model": False,
              "runner": RUNNER, "env": {"VERIF_PIPE_STALL": "1"}}],
    "search_factor": 2,
    "rule": "a case = protocol (ipfix/v9/v5/sflow) x 1..64 real worker goroutines x 20..2000 datagrams (about 70 % yield a "
            "message, the rest template-less / undecodable / malformed / marshal-failing; NetFlow v5: 6 % with the last record 1..47 "
            "octets short and 6 % cut anywhere - class x, Decode fails, must not be counted: F29) sent over loopback UDP through the real "
            "read loop (so UDPCount is the real counter), pools, channels and worker functions, < 400 in flight, MQ drained; "
            "implementation line = UDPCount / DecodedCount deltas and number of messages taken from the MQ channel, compared with "
            "the model's run of the extracted worker program; non-trivial = every case; distinct = distinct case line",
    "assumptions": ["sync.Pool, channels and goroutine scheduling as atomic steps of Vflow.Model.Pipeline",
                    "the MQ channel never fills during the runs (the property's premise; the hook keeps < 400 datagrams in flight)",
                    "the per-datagram outcome class (no message / no data / marshal error / yields) is computed by the generator "
                    "with the real solo decode and re-checked by the hook; for ipfix / v9 'no message' is the code's `msg == nil`, for v5 - "
                    "which has no partially decodable datagram - it is the property's 'Decode reports an error' (since F29)"],
}
META = {
    "text": "Lean theorems over every number of workers, every datagram sequence and every schedule, for every Canonical worker "
            "program: every received datagram is in exactly one place (read loop, UDP channel, one worker, finished); exactly one "
            "countUDP; at most one decode, one countDecoded, one publish attempt at any time; when its iteration is over exactly one "
            "countDecoded iff its decode counts by the code's own notion (ipfix/v9/v5: a message was returned; sFlow: decoded, has a "
            "sample, marshals; for NetFlow v5 that is 'decodes successfully' - v5_counted_iff_decodes: counted iff version 5, count in "
            "1..30 and all 24+48*count octets present, with C08.decode_ok_iff; before the F29 repair a datagram shorter than announced "
            "came back as a message together with the error and was counted) and exactly one publish attempt iff it has data and marshals; an attempt is `published` iff the MQ "
            "channel had room at that step; every published payload is the solo result of a received datagram; at quiescence with "
            "no drop the published messages are exactly the solo results of the yielding datagrams, one each. Worker and read loops "
            "are re-extracted from vflow/*.go on every run and must be Canonical (decide; after the read loop only the close of the "
            "reader's own UDP channel). The real pipeline is run over loopback "
            "UDP; counters and the published multiset must match the solo decodes and the model's run.",
    "ref": "DESIGN.md §6 C13",
    "note": "Trusted: as C12. DecodedCount for sFlow follows the code (incremented after a successful marshal). The thorough-tier "
            "e2e run of the built binary mentioned in DESIGN.md is not part of this check (the hook already drives the real read "
            "loop, so UDPCount is exercised).",
    "technique": "Lean 4 invariant proof (event-log accounting) over a small-step concurrent model + regenerated worker IR "
                 "(decide Canonical) + differential run of the real pipeline with counter/multiset oracle",
}
