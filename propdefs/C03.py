SPEC = {
    "corr": [{"kind": "ipfix-wf", "quick": 6000, "thorough": 600000},
             {"kind": "ipfix", "quick": 4000, "thorough": 300000}],
    "rule": "ipfix-wf: sessions of well-formed generated IPFIX messages (template / options template / data sets, IANA and "
            "enterprise elements, fixed lengths and the 65535 marker with 1- and 3-octet prefixes, padding) with a "
            "model-independent expected-decode oracle; ipfix: mixed stream with about 12 % malformed datagrams; "
            "non-trivial = the implementation produced a non-error result; distinct = distinct case line",
    "assumptions": ["information model = the table regenerated from ipfix/rfc5102_model.go (lookupElem is opaque in the proofs)",
                    "the template cache is modelled as one map keyed by the 32-bit FNV-1 hash (finding K1: colliding keys share an entry)"],
}
META = {
    "text": "Lean theorems (Vflow.Props.C03, all fully proved, axioms propext/Classical.choice/Quot.sound only) over every "
            "cache, exporter address and well-formed message: record_roundtrip / fields_roundtrip (every template over the "
            "information model, fixed and variable-length fields with either length-prefix form, enterprise elements, scope "
            "fields first: decodeData returns exactly per field (element id, enterprise number, interpret octets type) and "
            "stops right behind the record), recordLoop_roundtrip, dataSet_roundtrip (all records in order, padding skipped, "
            "cache unchanged, no error), templateSet_roundtrip / optTemplateSet_roundtrip (exactly the announced templates "
            "inserted in order, later overriding earlier), message_roundtrip (Decode of the RFC 7011 encoding of a "
            "well-formed message = header, exactly the expected records, no non-fatal error, cache updated; templates "
            "announced earlier in the message are in force for later sets: announced_template_in_force). The encoders and "
            "the decidable well-formedness predicates are in Vflow/Spec/Wire.lean, written from RFC 7011 without reference "
            "to the decoder. Preconditions that the proof forces and that are stated, not hidden: every data record is "
            "longer than 4 octets (known finding K2, k2_counterexample proves the hypothesis cannot be dropped: 3 records "
            "encoded, 2 decoded), <= 4 padding octets, set length < 65536, non-empty sets, template ids != 0, a template "
            "record has >= 1 field, enterprise elements have id >= 1, the data set's template is what Cache.lookup returns "
            "on the cache as updated by the preceding sets. Nothing is partial. The model is tied to ipfix/decoder.go by "
            "the differential correspondence on generated well-formed and malformed datagram streams plus a "
            "model-independent expected-decode oracle.",
    "ref": "DESIGN.md §6 C03",
    "note": "Trusted: Lean kernel; hand-written model Vflow.Model.Ipfix / Flow (Go code transcribed) and hand-written RFC "
            "encoders Vflow.Spec.Wire; lookupElem/interpret are shared by spec and model (their tie to the Go tables is "
            "C20); the correspondence harness and its generator bound what the tie sees. Value rendering to JSON is C11.",
    "technique": "Lean 4 proof by induction over field lists, record lists, template lists and set lists + differential "
                 "correspondence with ipfix.Decoder.Decode + independent expected-decode oracle",
}
