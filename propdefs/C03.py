SPEC = {
    "corr": [{"kind": "ipfix-wf", "quick": 6000, "thorough": 600000},
             {"kind": "ipfix", "quick": 4000, "thorough": 300000},
             {"kind": "interp", "quick": 4000, "thorough": 300000},
             # the property is also observed on the published JSON: the real IPFIX workers (1..64 goroutines, the real read loop and its
             # receive-buffer pool) on the same kind of datagrams — every published payload must be the solo decode of its own datagram
             # (values that alias a recycled receive buffer show only here; seed C03-f)
             {"kind": "pipeline", "quick": 32, "thorough": 1200, "runner": {"pkg": "./vflow", "test": "TestVerifPipeline", "race": False},
              "env": {"VERIF_PIPE_PROTO": "ipfix"}}],
    "rule": "ipfix-wf: sessions of well-formed generated IPFIX messages (template / options template / data sets, IANA and "
            "enterprise elements, fixed lengths incl. integers in more octets than their type (size+1..8 and 9..12) and the 65535 "
            "marker on elements of ANY type with 1- and 3-octet prefixes, data records of any positive "
            "length, set padding of 0 .. min(shortest record of the template - 1, 7) octets as RFC 7011 3.3.1 allows) with a "
            "model-independent expected-decode oracle whose expected values are computed from the data types' definitions (RFC 7011 "
            "6.1: big-endian / two's-complement number of all the field's octets, math/big), not from Interpret; ipfix: mixed "
            "stream with about 12 % malformed datagrams, incl. template records with field count 0 in front of other records of their set "
            "followed by data sets for them (expected: the message with exactly the records of its other sets, any error list: tag F30); interp: ipfix.Interpret alone on every FieldType x every field length "
            "0..20 x boundary contents; "
            "non-trivial = the implementation produced a non-error result; distinct = distinct case line",
    "assumptions": ["information model = the table regenerated from ipfix/rfc5102_model.go (lookupElem is opaque in the proofs)",
                    "the template cache is modelled as one map keyed by the 32-bit FNV-1 hash (finding K1: colliding keys share an entry)"],
}
META = {
    "text": "Lean theorems (Vflow.Props.C03, all fully proved, axioms propext/Classical.choice/Quot.sound only) over every "
            "cache, exporter address and well-formed message: record_roundtrip / fields_roundtrip (every template over the "
            "information model, fixed and variable-length fields - the 65535 marker on an element of any type - with either "
            "length-prefix form, enterprise elements, scope "
            "fields first: decodeData returns exactly per field (element id, enterprise number, interpret octets type) and "
            "stops right behind the record), recordLoop_roundtrip, dataSet_roundtrip (all records in order, padding skipped, "
            "cache unchanged, no error), templateSet_roundtrip / optTemplateSet_roundtrip (exactly the announced templates "
            "inserted in order, later overriding earlier), message_roundtrip (Decode of the RFC 7011 encoding of a "
            "well-formed message = header, exactly the expected records, no non-fatal error, cache updated; templates "
            "announced earlier in the message are in force for later sets: announced_template_in_force). The encoders and "
            "the decidable well-formedness predicates are in Vflow/Spec/Wire.lean, written from RFC 7011 without reference "
            "to the decoder. Preconditions that are stated, not hidden: every data record has a positive length; the "
            "padding of a data set is shorter than the shortest record its template can describe (RFC 7011 3.3.1; "
            "Wire.Ipfix.minRecLen, minRecLen_is_shortest) and the padding of a template set is at most 4 octets (RFC: 0..3); "
            "the former hypotheses 'record longer than 4 octets' (finding K2) and '<= 4 padding octets' were forced by the "
            "decoder's constant `> 4`, not by the RFC: under the second, 5..7 octets of padding after records of >= 8 octets "
            "lost the whole message (F16). Both are repaired in the code (fix 3c79378) and gone from the theorems; "
            "k2_repaired / k3_repaired evaluate the former counterexamples. The former hypothesis '65535 only on string / "
            "octetArray elements' was read off getDataLength, not RFC 7011 section 7: any other variable-length element (RFC 6313 "
            "structured data 291..293 always is) lost the whole message (F23, fix 6666d44, f23_repaired). What `interpret` means "
            "for the integer types is stated independently of it (Wire.unsignedValue / signedValue, from RFC 7011 6.1) and "
            "proved: unsigned_field_value / signed_field_value (a field of k <= n <= 8 octets, k the type's size, is reported "
            "with the value of ALL n octets; before fix 6666d44 the leading k octets were read: F24, f24_repaired), "
            "integer_field_kind, field_raw (shorter than the type, or an integer of more than 8 octets: the octets). "
            "Further: set length < 65536, non-empty sets, "
            "template ids != 0, a template "
            "record has >= 1 field, enterprise elements have id >= 1, the data set's template is what Cache.lookup returns "
            "on the cache as updated by the preceding sets. Nothing is partial. The model is tied to ipfix/decoder.go (i) statically: "
            "every run re-translates the decoder's functions from the Go AST, statement by statement, into a small IR "
            "(go/cmd/factgen/ipfix_ir.go -> Vflow.Gen.IpfixIR: assignments, if / for / range / break / return, calls, typed "
            "arithmetic with the wrap-around of the unsigned types; locals numbered, so a renamed local gives the same IR; what is "
            "not recognised becomes `.unrecognised`, which has no meaning), an interpreter gives the IR Go's semantics on the "
            "model's state (Vflow.Model.IpfixIR: reader = Rd.step, template cache, locals, panics / unfinished loops = no result) and "
            "the gen_ir_* theorems prove, for EVERY argument, reader state, cache and exporter, that the interpreted translation IS the "
            "model's function: gen_ir_getDataLength (= dataLen), gen_ir_minRecordLen (= minRecLen), gen_ir_decodeData (= decodeData: "
            "both index loops, the order lookup / length / read / Interpret / append, the non-fatal and the fatal error paths), "
            "gen_ir_fieldSpecUnmarshal (= readSpec, incl. the test > 0x8000 and the mask & 0x7fff), gen_ir_tplHeaderUnmarshal / "
            "...Opts, gen_ir_setHeaderUnmarshal, gen_ir_tplRecordUnmarshal / ...Opts (= parseTpl / parseOptTpl: the count-down loops, "
            "the wrapping 16-bit difference FieldCount - ScopeFieldCount), gen_ir_msgHeaderUnmarshal (= readHeader), "
            "gen_ir_msgHeaderValidate; gen_ir_structs pins the struct declarations the field semantics stand for (decodeSet and Decode: "
            "C09). The older gen_*_layout / guards_reviewed obligations are kept; (ii) dynamically by "
            "the differential correspondence on generated well-formed and malformed datagram streams plus a "
            "model-independent expected-decode oracle.",
    "ref": "DESIGN.md §6 C03",
    "note": "Trusted: Lean kernel; for the functions covered by gen_ir_* the translator (go/cmd/factgen/ipfix_ir.go) and the IR's Go "
            "semantics (Vflow.Model.IpfixIR: integers as naturals with explicit wrap-around, pointers as copy-in/copy-out, one reader, "
            "error = class + non-fatal wrapper, message text not modelled) take the place of 'the model transcribes the Go code'; "
            "Vflow.Model.Flow (Interpret, element lookup, cache) stays transcribed; hand-written RFC "
            "encoders Vflow.Spec.Wire; lookupElem/interpret are shared by spec and model (their tie to the Go tables is "
            "C20; for the integer types interpret is proved equal to the RFC value, for the other types - floats, booleans, "
            "dates, addresses - it is tied to Interpret by correspondence only); the correspondence harness and its generator bound what the tie sees. Value rendering to JSON is C11.",
    "technique": "Lean 4 proof by induction over field lists, record lists, template lists and set lists + translation validation "
                 "(regenerated statement-level IR, interpreter, per-function equality theorems by symbolic execution and one lemma per loop) + differential "
                 "correspondence with ipfix.Decoder.Decode + independent expected-decode oracle",
}
