SPEC = {
    "corr": [{"kind": "ipfix-cachefile", "quick": 2000, "thorough": 400000},
             {"kind": "nf9-cachefile", "quick": 2000, "thorough": 400000},
             {"kind": "jsonvalid", "quick": 20000, "thorough": 2000000}],
    "rule": "*-cachefile, per session: 0..140 templates announced by several exporters, the real Dump, reload of the file, EVERY proper "
            "prefix of the file (all offsets up to 4000 octets, else first/last 1000 + 2000 sampled), 8 byte-/structure-level corruptions "
            "(dropped/null/duplicated shards, null or missing maps, wrong ShardNo, wrong types, deleted chunks, bit flips, other JSON "
            "documents; entries moved / copied to other shards, renamed keys, key texts the decoders never write: empty, decimal, "
            "upper-case hex, `<a&b>`, quotes and backslashes, control characters, U+2028/9, U+FFFD, invalid UTF-8, non-BMP), half of them "
            "dumped again (the octets compared with the model: keys escaped as encoding/json does), absent / empty / directory paths, "
            "each followed by probe decodes; then the file the code BEFORE the K1 repair wrote for the same templates (decimal hash keys): "
            "it must load with all its entries, no data may find its template there, and after the exporters announced again data must "
            "decode as before the restart (corpus/C11/*-cachefile--F26-old-format.txt runs first); non-trivial = a load or decode that "
            "returned templates/records; distinct = distinct case line. "
            "jsonvalid (the Lean recogniser Spec.jsonValid against the real json.Valid; the category is part of the output line, so the "
            "per-kind distribution in the evidence is the input distribution, valid/invalid per category): real dump files with real "
            "timestamps (dump) and their proper prefixes (prefix: all of them for files up to 700 octets, else first/last 50 + 100 sampled); "
            "generated JSON texts with whitespace, every number form, every escape, octets >= 0x80, lone surrogates (gen); token-level "
            "mutations of valid texts and of small dumps: delete / insert / duplicate / swap / replace a token, swapped brackets, "
            "leading and trailing commas (token); good and broken numbers (-, 1., 1e, 01, .5, 1e+, +1, 0x10, NaN ..., a digit replaced "
            "by '/' ':' or another number character), alone and inside documents (number); strings with broken escapes (\\u12, \\x, "
            "\\u with one digit replaced by a neighbour of the hex ranges), raw control characters, stray quotes, unterminated (string); "
            "trailing garbage, a second top-level value, VT / FF / NBSP / NUL / BOM around the value (tail); empty, whitespace-only, "
            "single tokens, damaged literals (trivial); nesting 1..400 deep, balanced and unbalanced, one case in 25 at the scanner's "
            "limit (9999..10002 brackets) (nest); byte flips / deletions / insertions (bytemut); prefixes, suffixes, middles of valid "
            "texts (cut); random octets and random octets of the JSON alphabet (random); corpus/C11/jsonvalid--boundaries.txt runs first. "
            "Oracle of jsonvalid (model-independent): whatever json.Valid rejects, json.Unmarshal rejects (into the cache-file type and "
            "into interface{}) and ipfix.GetCache / netflow9.GetCache load as a usable EMPTY cache; every content loads as a usable cache",
    "assumptions": ["Spec.jsonValid (Lean port of the scanner of encoding/json) computes json.Valid: sampled by the jsonvalid "
                    "correspondence, not proved (the Go library is the reference; a disagreement is repaired in the model)",
                    "json.Unmarshal returns an error, leaving its target untouched, for every input json.Valid rejects (it runs the same "
                    "scanner over the whole input first: encoding/json/decode.go, func Unmarshal, checkValid): checked on every "
                    "jsonvalid case by the oracle, modelled as C11.bindFile",
                    "the reflection-driven binding of an ACCEPTED document to memCacheDisk is library code: the harness obtains the parsed "
                    "document from encoding/json itself through a structurally identical mirror type",
                    "timestamps are zeroed on both sides before dumps are compared (dump_zero: the compared text is dumpJsonTs with all "
                    "timestamps 0; the crash-point theorems hold for every timestamp function)"],
}
META = {
    "text": "Lean: load_save (for every cache with distinct keys — proved to be every cache reachable by decoding, both protocols — "
            "loading the document Dump writes maps every key to the same template: bucket/sort permutation + map law), load_usable "
            "(whatever the document, GetCache yields the document's cache with 32 non-null shards and maps, or a fresh cache), "
            "load_subset (only entries of the file, each in its shard under its key text), loadDoc_nodup, loadDoc_shard_lt; "
            "load_old_format_lookup (a file with the decimal hash keys of the code before the K1 repair loads, and every lookup by an "
            "address of >= 4 octets finds nothing: templates are learnt again). Crash points, now PROVED: Spec.jsonValid is an executable port of "
            "the state machine of Go's encoding/json scanner (json.Valid, incl. the 10000 nesting limit); json_render_valid (every "
            "well-formed RFC 8259 tree within the nesting limit renders to an accepted text), json_valid_prefix_rejected (an accepted "
            "text that begins with a bracket and does not end in whitespace has no accepted proper prefix), json_render_prefix_rejected "
            "(objects and arrays); dump_is_render (the cache file with arbitrary int64 timestamps is the rendering of a well-formed "
            "object tree, 8 deep), dump_valid, dump_prefix_rejected (EVERY proper prefix of the file, every cache, every timestamps, "
            "both protocols), load_prefix (GetCache = scanner first, then binding: a file cut anywhere loads as the fresh cache, "
            "whatever the binding). Correspondence: jsonvalid ties Spec.jsonValid to the real json.Valid (dumps, all/sampled prefixes, "
            "structure-aware mutations, random octets) and checks on the real GetCache that rejected contents load as usable empty "
            "caches; *-cachefile compare the dump octets, the loaded caches and the probe decodes with the model and load every "
            "prefix length of every sampled dump with the real GetCache.",
    "ref": "DESIGN.md §6 C11, §8 F9, §13.2",
    "note": "Trusted for the crash-point claim: that the Lean recogniser equals json.Valid (sampled, 20 k / 2 M cases per run, 0 "
            "disagreements) and that json.Unmarshal rejects what json.Valid rejects (library source: checkValid before decoding; "
            "checked per case). The binding of accepted documents to memCacheDisk stays trusted library code. "
            "Trusted: Lean kernel, CacheFile model, harness.",
    "technique": "Lean 4 proofs about the dump/load model (permutation + map refinement, totality over all documents) and about a "
                 "ported JSON scanner (tree induction + parse-stack invariant) + differential correspondence incl. every file prefix "
                 "and json.Valid vs the Lean recogniser",
}
