SPEC = {
    "corr": [{"kind": "ipfix-cachefile", "quick": 2000, "thorough": 400000},
             {"kind": "nf9-cachefile", "quick": 2000, "thorough": 400000},
             {"kind": "jsonvalid", "quick": 20000, "thorough": 2000000}],
    "rule": "per session: 0..140 templates announced by several exporters, the real Dump, reload of the file, EVERY proper prefix of "
            "the file (all offsets up to 4000 octets, else first/last 1000 + 2000 sampled), 8 byte-/structure-level corruptions "
            "(dropped/null/duplicated shards, null or missing maps, wrong ShardNo, wrong types, deleted chunks, bit flips, other JSON "
            "documents), absent / empty / directory paths, each followed by probe decodes; non-trivial = a load or decode that "
            "returned templates/records; distinct = distinct case line",
    "assumptions": ["encoding/json (parse and the binding of a document to memCacheDisk) is library code: the harness obtains the parsed "
                    "document from encoding/json itself through a structurally identical mirror type",
                    "timestamps are zeroed on both sides before dumps are compared"],
}
META = {
    "text": "Lean: load_save (for every cache with distinct keys — proved to be every cache reachable by decoding, both protocols — "
            "loading the document Dump writes maps every key to the same template: bucket/sort permutation + map law), load_usable "
            "(whatever the document, GetCache yields the document's cache with 32 non-null shards and maps, or a fresh cache), "
            "load_subset (only templates of the file), loadDoc_nodup. Crash points: load_prefix_partial — 'a proper prefix is rejected by "
            "encoding/json' is not proved (library); the correspondence loads every prefix length of every sampled dump with the real "
            "GetCache. Correspondence also compares the dump octets, the loaded caches and the probe decodes with the model.",
    "ref": "DESIGN.md §6 C11, §8 F9",
    "note": "Partial: JSON parsing/binding is trusted library code (crash-point claim rests on the exhaustive-per-file prefix runs). "
            "Trusted: Lean kernel, CacheFile model, harness.",
    "technique": "Lean 4 proofs about the dump/load model (permutation + map refinement, totality over all documents) + differential correspondence incl. every file prefix",
}
