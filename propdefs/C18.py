SPEC = {
    "corr": [{"kind": "sflowf", "quick": 40000, "thorough": 600000}],
    "rule": "the C07 datagram generator with 1..6 samples and always a filter list (flow, counter, both, expanded types, "
            "unknown types, values that cannot match a 12-bit format, the type of the first sample so that a filtered sample "
            "precedes unfiltered ones); oracle: abstract datagram minus the listed types, and the unfiltered decode of the "
            "same octets minus the listed types; ~12% mutations. non-trivial = a datagram was returned; distinct = distinct case line",
    "assumptions": ["Go semantics of bytes.Reader / encoding/binary.Read as transcribed in Vflow.Model.Sflow"],
}
META = {
    "text": "Lean theorem over every filter list and every octet string: decoding with a filter equals decoding without it "
            "minus the samples of the listed types whenever the filtered samples are framed by their declared length "
            "(by induction over the sample loop; errors included), and unconditionally when the filter lists no supported type; "
            "since the F19 repair framing asks nothing of the sampled headers (a header the dissector rejects no longer fails the unfiltered decode: filter_undissectable) nor of extended-router lengths, only that the declared sample length is the real one and the records can be read (framing_needed); "
            "tied to sflow.SFDecode by differential correspondence and checked on the real decoder with and without the filter.",
    "ref": "DESIGN.md §6 C07 / C18",
    "note": "Trusted: Lean kernel; hand-written model; harness generator and oracle.",
    "technique": "Lean 4 proof by induction over the sample loop + differential correspondence + filtered-vs-unfiltered oracle",
}
