SPEC = {
    "corr": [{"kind": "reader", "quick": 20000, "thorough": 2000000}],
    "rule": "random buffers (0..64 octets) x random sequences of 0..40 reader operations with lengths around "
            "-3..3 and remaining-3..remaining+3; non-trivial = the implementation produced a non-error result; distinct = distinct case line",
    "assumptions": ["Go slice semantics as transcribed in Vflow.Model.Reader"],
}
META = {
    "text": "Lean theorems over every buffer, every finite sequence of the reader operations and every Int length "
            "(run_accounting, read_spec, uint_spec, fail_unchanged, peek_*); the model is tied to reader/reader.go by "
            "running both on the same random operation sequences and by an independent slice-arithmetic oracle.",
    "ref": "DESIGN.md §6 C19",
    "note": "Trusted: Lean kernel; hand-written model Vflow.Model.Reader (Go slice semantics transcribed); the "
            "correspondence harness and its generator bound what the tie sees.",
    "technique": "Lean 4 proof by induction over operation sequences + differential correspondence with reader.Reader",
}
