SPEC = {
    "corr": [{"kind": "reader", "quick": 20000, "thorough": 2000000}],
    "rule": "random buffers (0..64 octets) x random sequences of 0..40 reader operations with lengths around "
            "-3..3 and remaining-3..remaining+3; non-trivial = the implementation produced a non-error result; distinct = distinct case line",
    "assumptions": ["Go slice semantics as transcribed in Vflow.Model.Reader"],
}
META = {
    "text": "Lean theorems over every buffer, every finite sequence of the reader operations and every Int length "
            "(run_accounting, read_spec, uint_spec, fail_unchanged, peek_*); the model is tied to reader/reader.go by a "
            "translation of every method regenerated on every run (gen_reader_*: translated method = model step for every state and argument), by "
            "running both on the same random operation sequences and by an independent slice-arithmetic oracle.",
    "ref": "DESIGN.md §6 C19",
    "note": "Trusted: Lean kernel; the translator factgen/reader_ir.go and the Go slice semantics written in Vflow.Model.ReaderIR; the "
            "correspondence harness and its generator bound what the tie sees.",
    "technique": "Lean 4 proof by induction over operation sequences + differential correspondence with reader.Reader",
}
