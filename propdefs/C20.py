import e2e

SPEC = {
    "corr": [{"kind": "infomodel", "quick": 1, "thorough": 1}],
    # both load paths of the real binary: started with / without the shipped file in its configuration directory while
    # NetFlow v9 and IPFIX exporters are already sending
    "extra": [e2e.startup_cycles],
    "rule": "exhaustive: every key of the built-in table, every IANA id 0..500 and 100 random keys; for each the real "
            "ipfix.InfoModel entry before and after the real LoadExtElements on the shipped scripts/ipfix.elements; "
            "non-trivial = the key exists; distinct = distinct key. e2e-startup: 32 (quick) / 320 (thorough) start-ups (+ the witnesses "
            "of corpus/C20) of the race-detector build of the binary with an ipfix.elements file installed (three in four) or absent "
            "while NetFlow v9 and IPFIX exporters are already sending: it must come up, keep decoding and log no race / crash report "
            "(judged before the stop; the stop path is C15's). The installed file is the cycle's own: the shipped one + one extension "
            "element (an id the built-in table lacks, type unsigned8/16/32/64 or ipv4Address) which the exporters' templates use, and "
            "the collector runs with both listeners on, -ipfix-enabled=false, -netflow9-enabled=false or both off: whichever of the two "
            "decoders is on must publish the element with the file's type; '... element key (id) not exist' from a decoder that is on "
            "is fail:not-loaded (F34); no published data set of a probed protocol within 0.4 s = no verdict",
    "assumptions": ["factgen's go/ast reading of the InfoModel literal / FieldTypes map / iota block and its YAML-subset parser "
                    "(cross-checked: the driver prints the generated table and the harness the real map, entry by entry)",
                    "gopkg.in/yaml.v2 as used by LoadExtElements (library)"],
    "exhaustive": False,
}
META = {
    "text": "Decided entirely on regenerated facts: factgen extracts the 402-entry InfoModel literal, the FieldTypes map and the "
            "iota block from ipfix/rfc5102_model.go and parses scripts/ipfix.elements; Lean theorems (decide +kernel over the "
            "whole finite tables): builtin = shipped, self-keyed, duplicate-free, types recognised, both = committed registry "
            "snapshot, decoder table = builtin resolved through FieldTypes, model minLen/interpret = source switch tables for "
            "every FieldType x field length 0..20 incl. the over-long branch (interpretWide; the statements of wideUint / wideInt "
            "are pinned), the structured-data elements 291..293 resolve to Unknown (reported as their octets; they are "
            "variable-length elements and decodable since fix 6666d44, C03 F23). main loads the file before it starts the listeners "
            "(F18) under the guard 'IPFIX or NetFlow v9 enabled' (F34; regenerated: .loadElementsIf), and every package that indexes "
            "ipfix.InfoModel (regenerated: modelReaders) is the decoder package of a listener (decoderSwitches) whose switch is a "
            "disjunct of that guard (gen_load_guard_covers_readers; the guard before fix c4f5256, a third reader, a reader that is no "
            "listener's decoder: false). "
            "Correspondence: real InfoModel before/after the real LoadExtElements, every key.",
    "ref": "DESIGN.md §6 C20, §8 F18 F34",
    "note": "Trusted: Lean kernel; factgen translator (validated entry-by-entry against the real map by the correspondence); yaml library.",
    "technique": "Lean 4 decide +kernel over tables regenerated from the Go AST + exhaustive comparison with the real LoadExtElements",
}
