SPEC = {
    "corr": [{"kind": "ipfix-trunc", "quick": 60000, "thorough": 3000000},
             {"kind": "nf9-trunc", "quick": 60000, "thorough": 3000000}],
    "rule": "half of the IPFIX sessions announce the undecodable template first decodably and then with an enterprise number changed only; one self-contained message per session with a data set of the later-announced id in front of the announcement; sampled well-formed messages (templates announced beforehand by the same exporter; 1..4 sets of 1..4 records "
            "of any positive length, padding of 0 .. min(shortest record - 1, 7) octets) x an undecodable set (unknown template id, reserved set id - for IPFIX also the unused id 1 -, data for a "
            "template naming an element missing from the model, or data for a template without fields, announced as a field-count-0 "
            "record in front of another record of its template set; random body of 0..36 octets) inserted at EVERY set boundary "
            "x truncation at EVERY octet offset 0..len; oracle on the real decoder's own output: records(inserted) == "
            "records(full), records(truncated) is a prefix of records(full); non-trivial = the implementation emitted at "
            "least one record; distinct = distinct case line",
    "assumptions": ["Go semantics of ipfix/decoder.go and netflow/v9/decoder.go as transcribed in Vflow.Model.Ipfix / "
                    "Vflow.Model.V9 (tied by the byte-for-byte correspondence of every case)",
                    "skip-equivalence at message level (decode_skips) assumes the decode without the inserted set does not "
                    "exhaust the model's fuel (fuel sufficiency is a separate theorem)"],
}
META = {
    "text": "Lean theorems about the executable models of both decoders, for every cache, exporter address and octet string. "
            "(b) Truncation => prefix (Ipfix/V9.truncation_prefix): if the decode of the whole datagram does not fail, the records "
            "decoded from ANY truncation bs.take n are a list prefix of the records of the whole datagram; the hypothesis is "
            "necessary (truncation_prefix_unconditional_counterexample: a datagram whose last set is fatal yields nothing, its "
            "truncation before that set yields records) and the hypothesis-free form truncation_prefix_state bounds the truncated "
            "output by the records the full run had accumulated when it stopped; no fuel hypothesis. Proof: lock-step simulation "
            "of the truncated and the full run (every composite read is prefix-monotone; the record loop ends short / out of fuel "
            "/ as the full run / starved, and a starved loop fails the skip of the rest of the set; records only grow). "
            "(a) Skip-equivalence: decodeSet_skips (an undecodable set - unknown template id > 255 for the cache at that point, "
            "reserved id 4..255, for v9 also ids 2 and 3 - followed by ANY rest changes the decoder state only by advancing the "
            "reader over the set: cache and records untouched, error slot non-fatal), decodeSet_skips_unknownElem (the same for a "
            "data set with a cached template and a body of at least minRecLen octets - one shortest record, so that the record loop is "
            "entered (padding repair 3c79378; formerly > 4 octets) - on which the record decoder, run on the body alone, stops at an "
            "element missing from the information model), Ipfix.decodeSet_skips_noFields (F30 repair: the same for a data set whose cached "
            "template has no field specifier at all - a template record with field count 0 - and for set id 1, any body: the error slot "
            "holds the now non-fatal emptyRec or nothing; before the repair Decode returned (nil, 'failed to decodeData') and the records of "
            "every other set were lost; NetFlow v9 reports zeroRec), outer_skips / outer_skips_tail (the outer loop continues on the rest as "
            "if the set were absent), outer_locality (what a clean prefix decodes to does not depend on what follows) and "
            "decode_skips: for hdr ++ pre ++ u ++ post vs hdr ++ pre ++ post, where pre decodes on its own cleanly to its exact "
            "end and u is skipped at the cache reached there (Skipped; instances skipped_of_undecodable, skipped_of_unknownElem, Ipfix.skipped_of_noFields), "
            "the records, the resulting cache and the fatal-error outcome are equal. gen_ir_decodeSet / gen_ir_decode: Decoder.decodeSet and "
            "Decoder.Decode, re-translated statement by statement from the Go AST on every run (Vflow.Gen.IpfixIR) and interpreted with Go's "
            "semantics (Vflow.Model.IpfixIR), ARE Ipfix.decodeSet / Ipfix.decode - same state, cache, records, returned error with its class "
            "and its nonfatalError wrapping - for every datagram, cache and exporter address, given fuel above the octets to read and the "
            "size of every cached template: the template lookup, err carried across the record loop, break / return inside it, the leftover "
            "skip with its wrapping 16-bit difference and the non-fatal error collection are tied statically, not only by running both sides. "
            "gen_ir_v9_decodeSet / gen_ir_v9_decode: the same for netflow/v9/decoder.go (Vflow.Gen.V9IR) against V9.decodeSet / V9.decode - "
            "there what is left of a flowset is a difference of ints that may be negative, in the translation as in the model. nonfatal_reviewed: the declaration of nonfatalError "
            "in both decoders and every construction of one (= the models' non-fatal classes) are the reviewed inventory. The models are tied to ipfix/decoder.go and "
            "netflow/v9/decoder.go by running both on every insertion position and every truncation offset of sampled "
            "well-formed messages, with a model-independent prefix/equality oracle on the real decoder's output.",
    "ref": "DESIGN.md §6 C09",
    "note": "Trusted: Lean kernel; hand-written models Vflow.Model.Ipfix / Vflow.Model.V9 (Go semantics transcribed, lookupElem "
            "opaque in the proofs) - both models are PROVED equal to the interpreted translations of their decoder.go (gen_ir_*), so what is "
            "trusted there is the translator go/cmd/factgen/ipfix_ir.go and the IR semantics Vflow.Model.IpfixIR; the correspondence harness and its generator bound what the tie sees. decode_skips carries "
            "the hypotheses 'pre decodes on its own to its exact end without a fatal error' (formalises 'between two sets') and "
            "'the decode without the inserted set does not exhaust the model fuel'.",
    "technique": "Lean 4 proof by lock-step simulation (truncation), count-shift invariance + fuel monotonicity (skip), "
                 "+ differential correspondence with the real decoders over every insertion position and truncation offset",
}
