import e2e

SPEC = {
    "corr": [{"kind": "ipfix-hist", "quick": 3000, "thorough": 200000},
             {"kind": "nf9-hist", "quick": 3000, "thorough": 200000}],
    # the property at the collector: one exporter re-announces template 500 with alternating definitions and sends data
    # right behind each announcement (real binary, IPFIX and NetFlow v9); with one worker per protocol every published data
    # set must show the definition announced just before it; with several workers a data set can overtake the announcement
    # in front of it: recorded finding K5 (`fail:worker-order`), anything else is a violation
    "extra": [e2e.redefinition_cycles],
    "rule": "histories of 4..13 steps over 2..5 exporters (4-octet, IPv4-mapped, IPv6) and template ids incl. 65535: announce / "
            "re-announce with a different definition / data for the latest definition / data for a never-announced id; one history in "
            "three uses a pair of (exporter,id) keys found by birthday search to collide under the FNV-1 hash that picks the shard "
            "(4-octet, IPv4-mapped and IPv6 addresses, also mixed): since the K1 repair (F26) these pairs are judged like any other "
            "(a failure on one of them is `fail:hash-collision ...`, matched by no known finding); corpus/C04/*-hist--K1-hash-collision.txt "
            "(the pair of C04.hash_collision_counterexample / colliding_pair_separate) runs first; non-trivial = records decoded; "
            "distinct = distinct case line",
    "assumptions": ["hash/fnv, hex.EncodeToString and map semantics as transcribed (fnv1, keyText, association list keyed by (shard, key text)); "
                    "the statements of getShard / insert / retrieve, the map type and the absence of any other use of the keys are regenerated "
                    "facts (C04.gen_cache_key, gen_cache_key_use, gen_cache_calls)",
                    "the refinement / history theorems and the *-hist kinds are about the sequential Decode API (concurrent cache use is C10); the order in "
                    "which the worker pool decodes consecutive datagrams of one exporter is observed by the redefinition cycles (K5) and, in the "
                    "pipeline model, settled by k5_two_workers_counterexample (several workers: can be wrong) and one_worker_in_order / "
                    "one_worker_latest_template / one_worker_latest_template_v9 (one worker: exact); the pipeline model's tie to the source is C12's "
                    "(Gen.ipfixWorker / Gen.netflowV9Worker canonical, read loop = canonicalRx); not proved: liveness"],
}
META = {
    "text": "Lean: the concrete cache (32 shard maps keyed by the hex text of addr||id, shard picked by FNV-1) refines the abstract map "
            "(exporter,id) -> latest template for EVERY history of announcements with 16-bit ids (refinement, refinement_empty: by induction "
            "over the history from the map law lookup_insert and cacheKey_inj, the key determines the pair); an announcement by another "
            "exporter never changes a lookup (other_exporter_no_influence, no hypothesis on ids or hashes); unknown template => no record, "
            "error (both decoder models); the decoders use exactly this lookup. For the OLD key function (the hash alone, oldCacheKey) the "
            "statement is false: hash_collision_counterexample (decide), K1; colliding_pair_separate shows the same pair in two entries of "
            "one shard now. At the collector (pipeline model of C12/C13: one UDP channel, N workers running the regenerated Gen.ipfixWorker, one shared "
            "cache; every schedule is a Reach derivation): k5_two_workers_counterexample (+ _ipfix on RFC 7011 octets with the IPFIX decoder "
            "model, k5_two_workers_not_in_order) is the kernel-checked model-level witness of finding K5 - two workers, announce / re-announce / "
            "data from one exporter, the data is decoded before the re-announcement that arrived before it and is published with the superseded "
            "definition (a counterexample for the code as it is); one_worker_in_order (+ _schedule, _all_decoded, _published_sequential): for every "
            "codec, every Canonical worker program and EVERY schedule with at most one worker the decodes are a prefix of the sequential semantics "
            "of the arrivals (arrival order, cache threaded by folding decode), by the invariant Seq over Reach (Proofs/PipelineSeq.lean); "
            "one_worker_latest_template (IPFIX): with one worker, if the first arrivals encode a history whose data sets use the latest definition "
            "announced before them by the same exporter (wfHistoryLatest, no cache in the premise; wfHistory_eq_latest = refinement lifted to "
            "histories of messages), every published payload is the rendering of exactly the records read with that latest definition; "
            "one_worker_latest_template_v9 (+ _current_source for Gen.netflowV9Worker): the same for the NetFlow v9 instance (C05.v9Codec, RFC 3954 "
            "encodings, premise wfHistoryLatestV9, wfHistoryV9_eq_latest, C05.v9_wellformed_published), with a kernel-checked one-worker run "
            "announce A / re-announce B / data published with definition B. "
            "Correspondence: histories incl. searched colliding pairs, model vs real Decode, plus a reference-map oracle.",
    "ref": "DESIGN.md §6 C04, §8 K1/F26 K5",
    "note": "K1 is repaired (F26): no hypothesis about the hash is left; Ids16 (template ids < 65536) is the uint16 type of the code. "
            "Trusted: Lean kernel, model of FNV-1 / hex / map, harness.",
    "technique": "Lean 4 refinement proof (sharded string-keyed cache -> abstract map, key injectivity) + differential correspondence on generated histories with adversarial hash collisions",
}
