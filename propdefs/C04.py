import e2e

SPEC = {
    "corr": [{"kind": "ipfix-hist", "quick": 3000, "thorough": 200000},
             {"kind": "nf9-hist", "quick": 3000, "thorough": 200000}],
    # the property at the collector: one exporter re-announces template 500 with alternating definitions and sends data
    # right behind each announcement (real binary, IPFIX and NetFlow v9); with one worker per protocol every published data
    # set must show the definition announced just before it; with several workers a data set can overtake the announcement
    # in front of it: recorded finding K5 (`fail:worker-order`), anything else is a violation
    "extra": [e2e.redefinition_cycles],
    "rule": "histories of 4..13 steps over 2..5 exporters (4-octet, IPv4-mapped, IPv6) and template ids incl. 65535: announce / "
            "re-announce with a different definition / data for the latest definition / data for a never-announced id; one history in "
            "three uses a pair of (exporter,id) keys found by birthday search to collide under FNV-1; non-trivial = records decoded; "
            "distinct = distinct case line",
    "assumptions": ["hash/fnv and map semantics as transcribed (fnv1, cacheKey, association list keyed by the hash)",
                    "the theorems and the *-hist kinds are about the sequential Decode API (concurrent cache use is C10); the order in "
                    "which the worker pool decodes consecutive datagrams of one exporter is observed by the redefinition cycles (K5)"],
}
META = {
    "text": "Lean: the concrete hash-keyed cache refines the abstract map (exporter,id) -> latest template for every history whose keys do "
            "not collide (refinement_partial, by induction over the history, from the map law lookup_insert); other exporters never "
            "influence a lookup absent a collision; unknown template => no record, error (both decoder models); the decoders use exactly "
            "this lookup. The unconditional statement is false: hash_collision_counterexample (decide) is finding K1, re-demonstrated on "
            "the real ipfix and netflow9 caches in every run. Correspondence: histories incl. searched colliding pairs, model vs real "
            "Decode, plus a reference-map oracle.",
    "ref": "DESIGN.md §6 C04, §8 K1 K5",
    "note": "Partial: hypothesis NoCollision (K1 is a known finding, matched only by failures whose keys the harness has itself "
            "verified to collide). Trusted: Lean kernel, model of FNV-1/map, harness.",
    "technique": "Lean 4 refinement proof (hash-keyed cache -> abstract map) + differential correspondence on generated histories with adversarial hash collisions",
}
