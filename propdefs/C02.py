import e2e_e2etraffic

SPEC = {
    "corr": [{"kind": "ipfix", "quick": 12000, "thorough": 1200000},
             {"kind": "nf9", "quick": 12000, "thorough": 1200000},
             {"kind": "nf5", "quick": 5000, "thorough": 400000},
             {"kind": "sflow", "quick": 15000, "thorough": 1200000}],
    # the second observation point of the property (RSS / liveness of the vflow process), on the unmodified binary
    "extra": [e2e_e2etraffic.traffic_cycles],
    "rule": "as C01; one many-unknown-sets datagram in ten comes from an exporter whose cache holds 500-1500 templates (cost must not grow with the cache); the allocation bound is per datagram, with an allowance for Go map growth only for datagrams that announce templates and a K4 tolerance computed from the templates the datagram uses; every decode call runs under a 1 s watchdog (a hang = the model's `fuel`), its runtime.MemStats.TotalAlloc delta "
            "is compared with a bound linear in the datagram (16 KiB + 200 B per octet; IPFIX/v9: the product with the number of zero-length "
            "field specifiers of a cached template is tolerated only as the recorded finding K4 `fail:amplification`), and len(DataSets)/len(Samples) "
            "with the datagram length; corpus: the zero-length / zero-field template and reserved-flowset witnesses of F2; "
            "non-trivial = decoded; distinct = case line. "
            "e2e-traffic (the REAL binary, DESIGN.md §6 *End-to-end*): 6 (quick) / 200 (thorough) cycles, each starting the unmodified vflow binary (four listeners, producer rawSocket -> a TCP sink of the harness, fresh cache files, 1..64 workers, read buffers of 1500 / 9000 octets) and sending it about 300 / 2000 datagrams of the ipfix, nf9, nf5 and sflow generators from per-session loopback exporter addresses, in phases separated by the collector's own counters (no dependence on worker order, K5), paced by its UDPCount (no socket overflow); expectation per datagram from the real decoders in-process (`corr e2eref`); C02 demands: VmHWM of the process after the stream <= 200 MB + (4 x 1000 queue slots + 2 x workers) x read-buffer "
            "size (unchanged tree: <= 27 MB over 150 cycles); the bytes the collector itself reports as allocated (/sys MemTotalAlloc delta) <= "
            "8 MiB + 8 KiB per datagram + 100 B per octet + 8 KiB per statistics request of the harness + 64 KiB/s (unchanged tree: <= 16 % "
            "of that); an excess is the recorded finding K4 `fail:amplification` only as far as the decoded fields that consume no octet "
            "(counted by the reference) explain it at 1 KiB each, else `fail:rss` / `fail:alloc`; no standstill of the counters for 10 s "
            "with datagrams queued (`fail:stall`); the probes after the stream are decoded and published within 5 s (`fail:latency`); "
            "every such time / memory verdict must show again when the cycle is run alone, twice",
    "assumptions": ["seconds and bytes are measured, not proved: the theorems bound loop iterations (fuel) and allocation *units* of the model",
                    "the make/new/append sites of the decoder packages are the reviewed inventory lean/Vflow/Spec/Sites.lean (re-extracted on every run)"],
}
META = {
    "text": "Lean: for every cache and payload the fuel the decoders are given (length+1) suffices (ipfix/v9_terminates; sflow "
            "decode_ne_fuel; v5 is structurally recursive), records <= octets (ipfix/v9_record_bound), samples+counters <= octets/8 "
            "(sflow), flows <= 30 and 48 octets each (v5_flow_bound), templates parsed from n octets have <= n/4 fields; decoded fields are "
            "linear in the datagram plus exactly the zero-length term of finding K4: per record fields <= octets consumed + zero-length "
            "specifiers of the template (ipfix/v9_record_fields_le_octets, unconditional), per message fields <= octets + records x Z with Z "
            "bounding the zero-length specifiers of every cached template and of every template record that parses at some offset of the "
            "datagram (ipfix/v9_fields_linear), Z = 0: fields <= octets (ipfix/v9_fields_le_octets); the product octets x largest template "
            "(ipfix/v9_alloc_bound) is kept as the weaker statement; sFlow model allocation <= 64*len+1525 (alloc_linear); over "
            "regenerated facts the allocation-site inventory is the reviewed one. Correspondence: watchdog, TotalAlloc delta and record "
            "counts of every real decode call on malformed-heavy streams + the F2 witnesses. End to end: resident memory (VmHWM) and "
            "allocation volume (/sys MemTotalAlloc) of the unmodified binary over streams of the same generators, against bounds that "
            "depend on the configuration and the octets sent; no stall; probes answered in time.",
    "ref": "DESIGN.md §6 C02",
    "note": "Partial: wall-clock and byte counts are measured by the harness (sampled), the proofs bound steps and allocation units of "
            "the model (units = decoded fields, not the octets of their values); IPFIX/v9: linear in the octets received except for the term "
            "records x zero-length specifiers, which is the recorded finding K4 (a length-0 specifier is decoded without consuming an octet) "
            "and is stated, not hidden: the theorems and the TotalAlloc oracle have the same shape (linear, K4 named). "
            "Trusted: Lean kernel, factgen, harness (incl. the end-to-end harness "
            "e2e_e2etraffic.py; its memory bounds are measured constants with a margin, not theorems).",
    "technique": "Lean 4 fuel-sufficiency and size-bound proofs on executable decoder models + regenerated allocation-site inventory + watchdog/TotalAlloc-instrumented correspondence + end-to-end traffic cycles of the built binary (VmHWM, MemTotalAlloc)",
}
