SPEC = {
    "corr": [
        {"kind": "cachestress", "quick": 4, "thorough": 50,
         "runner": {"pkg": "./ipfix", "test": "TestVerifCache", "race": True, "timeout": "30m"}},
        {"kind": "cachestress9", "quick": 3, "thorough": 40,
         "runner": {"pkg": "./netflow/v9", "test": "TestVerifCache", "race": True, "timeout": "30m"}},
        # "not already superseded before the lookup began", seen from the decoders: sequential histories of announcements,
        # re-announcements (also in the middle of one message) and data through the real Decode (a lookup the decoder answers
        # from anything but the cache shows here)
        {"kind": "ipfix-hist", "quick": 1500, "thorough": 100000},
        {"kind": "nf9-hist", "quick": 1500, "thorough": 100000},
    ],
    "rule": "each case = 16..63 goroutines for 0.4..4 s under `go test -race` calling the real insert / retrieve / IRPC.Get / Dump "
            "on shared (overlap %) and private keys (three shared and eight private pairs of keys are searched to collide under the "
            "32-bit hash that picks the shard — one entry for both before the K1 repair —, every sixth address is in its 16-octet "
            "form); every lookup is checked complete / own key / not stale / announced, every "
            "dump file is loaded back through encoding/json and GetCache; non-trivial = the case ran to the end with all "
            "observations checked; distinct = distinct case line. The model side runs the lock regions extracted from the "
            "current source under adversarial and pseudo-random schedules (`ok` / `race` / `deadlock`).",
    "assumptions": ["Go memory model, sync.RWMutex and the runtime map are trusted",
                    "the race detector and the stress harness sample schedules; the theorems cover every schedule of the modelled steps"],
    "search_factor": 1,
}
META = {
    "text": "Lean theorems over any number of threads, any well-bracketed programs and every schedule (no_data_race, "
            "lookup_atomic, two_phase_snapshot / dump_consistent, deadlock_free, all_schedules_terminate); the lock regions of "
            "insert / retrieve / Dump / IRPC.Get are regenerated from the Go AST and checked well bracketed by decide; the real "
            "caches are stressed under the race detector with a version-carrying template oracle.",
    "ref": "DESIGN.md §6 C10",
    "note": "Trusted: Lean kernel; the step model of RWMutex and map accesses (one access = one atomic step, justified by race "
            "freedom under the Go memory model); factgen; the stress harness. The dynamic side samples schedules.",
    "technique": "Lean 4 invariant proof over all interleavings + AST lock-region facts + race-detector stress with oracle",
}
