SPEC = {
    "corr": [{"kind": "ipfix", "quick": 12000, "thorough": 1200000},
             {"kind": "nf9", "quick": 12000, "thorough": 1200000},
             {"kind": "nf5", "quick": 6000, "thorough": 600000},
             {"kind": "sflow", "quick": 15000, "thorough": 1200000},
             {"kind": "dissect", "quick": 8000, "thorough": 600000},
             {"kind": "json", "quick": 5000, "thorough": 400000},
             # the real worker pools of all four protocols under concurrent load incl. unchanged template refreshes: a crash of any worker goroutine kills the run
             {"kind": "pipeline", "quick": 48, "thorough": 1600, "runner": {"pkg": "./vflow", "test": "TestVerifPipeline", "race": False}}],
    "rule": "the malformed-heavy streams of all four protocols: sessions of 1..8 datagrams over several exporter address forms with "
            "hostile templates in force (zero-length fields, zero fields - also as a field-count-0 record in front of other records of a "
            "template set, followed by data for it: that datagram is expected back with the records of its other sets, tag F30 -, reserved ids, "
            "65535 markers, length fields 0/boundary/0xffff, "
            "truncation, bit flips, trailing garbage), each datagram decoded AND marshalled by the real code under recover(), a watchdog "
            "and ulimit -v; crashed cases are attributed by restarting the runner; non-trivial = decoded (not rejected); distinct = case line",
    "assumptions": ["Go slice / map / integer semantics as transcribed in the models; every panic-capable expression of the anchored "
                    "files is in the reviewed inventory lean/Vflow/Spec/Sites.lean (re-extracted on every run)",
                    "the worker loops (vflow/*.go) only call Decode + JSONMarshal on the datagram: their share is covered by C12/C13"],
}
META = {
    "text": "Lean: sFlow decoder and packet dissector never produce the model's explicit `panic` outcome (decode_ne_panic, dissect_ne_panic); "
            "IPFIX / v9 / v5 decoders: every payload, in every cache state, is decoded or rejected with an error — never `fuel` "
            "(non-termination); Interpret's unguarded reads are inside the value for every FieldType; over regenerated facts: writeValue "
            "has an arm for every dynamic type Interpret returns, and the index/slice/type-assertion expressions of the 18 anchored files "
            "are the reviewed inventory. Correspondence: malformed streams of all four protocols, decode + marshal, under recover().",
    "ref": "DESIGN.md §6 C01",
    "note": "Partial: the theorem is about the model; a panic in Go code the model does not transcribe would be seen only by the "
            "correspondence (which samples) or by a change of the site inventory. Trusted: Lean kernel, factgen, harness.",
    "technique": "Lean 4 totality / no-panic proofs on executable decoder models + regenerated panic-site inventory + differential fuzz-style correspondence under recover()",
}
