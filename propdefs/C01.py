import e2e_e2etraffic

SPEC = {
    "corr": [{"kind": "ipfix", "quick": 12000, "thorough": 1200000},
             {"kind": "nf9", "quick": 12000, "thorough": 1200000},
             {"kind": "nf5", "quick": 6000, "thorough": 600000},
             {"kind": "sflow", "quick": 15000, "thorough": 1200000},
             {"kind": "dissect", "quick": 8000, "thorough": 600000},
             {"kind": "json", "quick": 5000, "thorough": 400000},
             # the real worker pools of all four protocols under concurrent load incl. unchanged template refreshes: a crash of any worker goroutine kills the run
             {"kind": "pipeline", "quick": 48, "thorough": 1600, "runner": {"pkg": "./vflow", "test": "TestVerifPipeline", "race": False}}],
    # the third observation point of the property (liveness and exit status of the vflow process after datagrams have been sent to
    # its UDP ports), on the unmodified binary
    "extra": [e2e_e2etraffic.traffic_cycles],
    "rule": "the malformed-heavy streams of all four protocols: sessions of 1..8 datagrams over several exporter address forms with "
            "hostile templates in force (zero-length fields, zero fields - also as a field-count-0 record in front of other records of a "
            "template set, followed by data for it: that datagram is expected back with the records of its other sets, tag F30 -, reserved ids, "
            "65535 markers, length fields 0/boundary/0xffff, "
            "truncation, bit flips, trailing garbage), each datagram decoded AND marshalled by the real code under recover(), a watchdog "
            "and ulimit -v; crashed cases are attributed by restarting the runner; non-trivial = decoded (not rejected); distinct = case line. "
            "e2e-traffic (the REAL binary, DESIGN.md §6 *End-to-end*): 6 (quick) / 200 (thorough) cycles, each starting the unmodified vflow binary (four listeners, producer rawSocket -> a TCP sink of the harness, fresh cache files, 1..64 workers, read buffers of 1500 / 9000 octets) and sending it about 300 / 2000 datagrams of the ipfix, nf9, nf5 and sflow generators from per-session loopback exporter addresses, in phases separated by the collector's own counters (no dependence on worker order, K5), paced by its UDPCount (no socket overflow); expectation per datagram from the real decoders in-process (`corr e2eref`); C01 demands: no panic / fatal error / runtime error on stderr, the process alive after the stream and answering "
            "/flow, a fresh template + data record (IPFIX, NetFlow v9), a NetFlow v5 and an sFlow datagram sent afterwards are decoded "
            "(DecodedCount moves, their four JSON lines arrive at the sink), SIGTERM ends it with status 0; a cycle that could not be run "
            "(start, statistics API, datagrams lost on the way in) gives no verdict (`skipped:<reason>` in the distribution)",
    "assumptions": ["Go slice / map / integer semantics as transcribed in the models; every panic-capable expression of the anchored "
                    "files is in the reviewed inventory lean/Vflow/Spec/Sites.lean (re-extracted on every run)",
                    "the worker loops (vflow/*.go) only call Decode + JSONMarshal on the datagram: their share is covered by C12/C13"],
}
META = {
    "text": "Lean: sFlow decoder and packet dissector never produce the model's explicit `panic` outcome (decode_ne_panic, dissect_ne_panic); "
            "IPFIX / v9 / v5 decoders: every payload, in every cache state, is decoded or rejected with an error — never `fuel` "
            "(non-termination); Interpret's unguarded reads are inside the value for every FieldType; over regenerated facts: writeValue "
            "has an arm for every dynamic type Interpret returns, and the index/slice/type-assertion expressions of the 18 anchored files "
            "are the reviewed inventory. Correspondence: malformed streams of all four protocols, decode + marshal, under recover(). "
            "End to end: the same generators' streams sent to the UDP ports of the unmodified binary; it must stay alive, keep decoding, "
            "log no panic and leave with status 0 on SIGTERM.",
    "ref": "DESIGN.md §6 C01",
    "note": "Partial: the theorem is about the model; a panic in Go code the model does not transcribe would be seen only by the "
            "correspondence (which samples) or by a change of the site inventory. Trusted: Lean kernel, factgen, harness (incl. the end-to-end harness e2e_e2etraffic.py: "
            "a cycle it cannot run gives no verdict).",
    "technique": "Lean 4 totality / no-panic proofs on executable decoder models + regenerated panic-site inventory + differential fuzz-style correspondence under recover() + end-to-end traffic cycles of the built binary",
}
