import e2e

SPEC = {
    "corr": [],
    "extra": [e2e.shutdown_cycles],
    "rule": "half of the ordinary cycles have a third run (templates announced again with another layout and acknowledged in the second run must be decoded with the new layout after the next restart); end-to-end stop/start cycles of the built binary (6 quick / 120 thorough, run in parallel): traffic pattern idle / steady / "
            "burst (up to 150 templates + 600 in-flight datagrams from 1..5 loopback exporters, IPFIX and NetFlow v9), traffic keeps "
            "arriving for 1.6 s across the stop, SIGTERM or SIGINT at a random offset; checks exit status 0, latency, stderr, both cache "
            "files complete and holding every template sent >= 300 ms before the signal, restart on the same files, data-only datagrams "
            "decoded at once, second stop. Then stalled stops (32 quick / 200 thorough, plus the witnesses of corpus/C15): the collector "
            "runs with -cpu-cap 1 under a flood on all four listeners (NetFlow v5, sFlow, IPFIX, NetFlow v9; evenly or nine in twelve to "
            "one of them), the signal is delivered and the whole process is frozen (SIGSTOP) for 1.2 .. 1.5 s as soon as shutdown() has "
            "begun, then thawed (what a VM pause or a cgroup freeze does); checks exit status 0, no panic, exit within 6 s of the thaw, "
            "both cache files complete and holding the templates acknowledged before the signal. Then early stops (2 quick / 32 thorough, "
            "plus the witnesses of corpus/C15; three at a time next to the other cycles): the collector is started on a large valid cache "
            "file of an earlier run (117 MB IPFIX / 101 MB NetFlow v9, written once per run by the real decoder + Dump: `corr bigcache gen`, "
            "6000 / 8000 exporters x 10 templates x 40 fields; the real GetCache needs 1.6 .. 1.9 s for it, measured, and the file is made "
            "larger on a machine that loads it in under 1.5 s) and SIGTERM / SIGINT is delivered 0, 20 ms, 100 ms or 1 s after the "
            "'<protocol> is running (UDP' line, one in four of the early ones also frozen for 1.05 s right after the signal; checks exit "
            "status 0, no panic, exit within 6 s + twice the load time, and that the file still holds EVERY template it held (loaded back "
            "with the real GetCache, multiset of template records compared, cache keys never looked at). And same-PID restarts (1 quick / "
            "6 thorough + witness): a second instance on the pid file of a running one must be refused; then stop/start in PID namespaces "
            "of their own (unshare --pid --fork --mount-proc /bin/sh -c 'sleep 0.2 && vflow …', the shipped docker-compose entrypoint), "
            "pid file and cache files kept: the second start must come up (its pid file records its own PID) and decode data sent "
            "without templates; no verdict where PID namespaces cannot be created (summary key pid_namespaces). And start-up stops (32 quick / "
            "320 thorough + the witnesses of corpus/C15; four at a time, after everything else): SIGTERM / SIGINT 0 .. 40 ms after the exec of "
            "the collector (dense at 0 .. 20 ms), or at the moment the harness sees the cycle's pid file hold the new pid / the first log "
            "line, i.e. while main is still reading its options; a pid file of an earlier run (dead pid: vFlowIsRunning forks kill -0) in "
            "half of them, small valid cache files of an earlier run (written by the real code) in all; verdict with certainty only: a "
            "process that ended by the signal (negative wait status) is fail:killed iff its own fresh pid file already holds its pid or "
            "GetOptions has already logged (main was running and had had the chance to install the handler), and gives no verdict "
            "otherwise (the instants before main are the operating system's: summary key startup_stops_before_main); exit status 0: no "
            "panic, exit within 6 s, both cache files still hold every template (real GetCache). Non-trivial = a cycle that "
            "passed every check; distinct = distinct cycle description",
    "assumptions": ["wall-clock behaviour, signal delivery, the non-atomic stop flag and UDP delivery on loopback are the runtime's and the "
                    "kernel's: observed by the e2e cycles, not proved",
                    "no hypothesis on scheduling is left in the model (hypothesis H of the design disappeared with the F21 repair: the read "
                    "loop closes its own queue); the 1 s sleep / 1 s read deadline fact is used only for 'the dump is taken when the read "
                    "loop no longer reads' and is an explicit optional assumption of the model (Assume.deadlines)",
                    "GetCache (reading and parsing the cache file, then the assignment to the package-level variable) is one atomic step "
                    "of the model's reader that may take arbitrarily long relative to shutdown(); the atomic flag is sequentially "
                    "consistent (sync/atomic); the pid-file model takes `kill -0 <text>` to succeed exactly on the decimal text of a "
                    "live PID of the process's namespace",
                    "the model of main and the signal (Model/MainSignal): a signal before signal.Notify has returned ends the process "
                    "(default action), after it the signal is relayed to the channel without blocking (buffered if there is room, handed "
                    "over if main is receiving, dropped otherwise: package os/signal); the instants before main runs (exec, start of the Go "
                    "runtime, package initialisation) are not modelled; statements of main are atomic steps, GetOptions is one step during "
                    "which (= while main is at it) a signal may arrive"],
}
META = {
    "text": "Lean: the statements of the four shutdown() functions, the four UDP read loops, what follows each loop in run(), every send on / "
            "close of a UDP work queue anywhere in package vflow, and main() are regenerated from the source (ShutdownIR) and proved canonical "
            "(shutdown() does not close the queue; the read loop is the only sender and the only closer, and closes after the loop). For "
            "each generated program the complete state space of all interleavings of read loop and shutdown goroutine is enumerated by the "
            "kernel: no send on the closed queue and no second close under NO assumption on timing or scheduling (every interleaving of the "
            "atomic steps; hence also under the hand-off hypothesis and the 1 s-deadline fact), the queue is closed only after the loop has "
            "been left, at most one read completes after stop is set, every step after stop decreases a measure (the loop exits, the queue "
            "is closed, run() and shutdown() return, nothing is stuck), the dump is taken after stop + grace period. The programs before the "
            "F21 repair are kept as constants: there the send on the closed channel is reachable without the hand-off hypothesis, and "
            "even with it once the process does not run during the grace period (counterexamples). The reader of the model starts "
            "BEFORE run() has loaded the cache file (regenerated: the cache variable shutdown() dumps is assigned from GetCache of the "
            "file it dumps to, then the atomic flag the guarded dump tests is stored; each variable is assigned once and each flag used "
            "in exactly those two places in package vflow): in no interleaving is the file rewritten from a cache that has not been "
            "loaded, a skipped dump happens only in a run that never armed a read, a run that did is always dumped; on the programs "
            "before the F27 repair the wipe is reachable under every timing assumption in a run that ends normally (counterexample). "
            "The pid-file test of a start (vFlowIsRunning, vFlowPIDWrite and their two call sites regenerated; no other user of the "
            "pid file) answers 'running' exactly when the file records a live PID other than the process's own, for every file "
            "content, own PID and set of live PIDs: a restart under the previous run's PID is not refused, a second instance is; the "
            "old test refused every such restart (counterexample). main itself is regenerated statement by statement (the signal "
            "channel and its capacity, signal.Notify, GetOptions, set-up statements, the guarded load of the information model, the "
            "spawns, the receive, the wait) and run next to the goroutines it starts and an environment that sends the signal at ANY "
            "moment from main's first statement on (inductive reachability, no bound on steps; every reachable state is a pair of "
            "separately enumerated states of main alone and of the protocol, the kernel checks an inductive invariant and the claims on "
            "all pairs): the signal kills the process only while main is at its first two statements (channel declaration, Notify), a "
            "written pid file implies an installed handler, a signal during the options phase is caught, and a caught signal ends in "
            "exit status 0 through the stop protocol (every non-reader step decreases a measure no reader step changes, after stop every "
            "step decreases a second one, the only stuck states are 'killed' and 'returned from main') with nothing wiped and no "
            "panic; the order before the F32 repair and an unbuffered channel are counterexamples. Template survival composes with C10 "
            "(dump = consistent snapshot) and C11 (load_save). The binary itself is exercised by stop/start cycles with traffic in flight "
            "and by stops during which the process is frozen for longer than the grace period, by stops that arrive while a 100 MB cache "
            "file of the previous run is still being loaded, by stop/start pairs in PID namespaces (same PID on every start), and by "
            "stops that arrive while main is still reading its options.",
    "ref": "DESIGN.md §6 C15, §8 F21 F27 F28 F32",
    "note": "Partial: seconds, signals, the kernel and the scheduler are outside the model. Trusted: Lean kernel, "
            "factgen statement classification, e2e harness.",
    "technique": "Lean 4 exhaustive (kernel-decided) interleaving analysis of the regenerated stop protocol + end-to-end stop/start cycles of the binary",
}
