import e2e

SPEC = {
    "corr": [],
    "extra": [e2e.shutdown_cycles],
    "rule": "end-to-end stop/start cycles of the built binary (6 quick / 120 thorough, run in parallel): traffic pattern idle / steady / "
            "burst (up to 150 templates + 600 in-flight datagrams from 1..5 loopback exporters, IPFIX and NetFlow v9), traffic keeps "
            "arriving for 1.6 s across the stop, SIGTERM or SIGINT at a random offset; checks exit status 0, latency, stderr, both cache "
            "files complete and holding every template sent >= 300 ms before the signal, restart on the same files, data-only datagrams "
            "decoded at once, second stop; non-trivial = a cycle that passed every check; distinct = distinct cycle description",
    "assumptions": ["wall-clock behaviour, signal delivery, the non-atomic stop flag and UDP delivery on loopback are the runtime's and the "
                    "kernel's: observed by the e2e cycles, not proved",
                    "hypothesis H of the model: a datagram already returned by ReadFromUDP is enqueued before close(queue) is reached "
                    "(without it a send on the closed channel is reachable: C15.close_race_without_H)"],
}
META = {
    "text": "Lean: the statements of the four shutdown() functions, the four UDP read loops and main() are regenerated from the source "
            "(ShutdownIR) and proved canonical; for each generated program the complete state space of all interleavings of read loop and "
            "shutdown goroutine is enumerated by the kernel: under hypothesis H no send on the closed queue, at most one read completes "
            "after stop is set, every step after stop decreases a measure (the loop exits, shutdown returns, nothing is stuck), the dump is "
            "taken after stop + grace period and before the queue is closed; without H the close race is reachable (counterexample). "
            "Template survival composes with C10 (dump = consistent snapshot) and C11 (load_save). The binary itself is exercised by "
            "stop/start cycles with traffic in flight.",
    "ref": "DESIGN.md §6 C15",
    "note": "Partial: seconds, signals, the kernel and the scheduler are outside the model; H is an explicit hypothesis. Trusted: Lean kernel, "
            "factgen statement classification, e2e harness.",
    "technique": "Lean 4 exhaustive (kernel-decided) interleaving analysis of the regenerated stop protocol + end-to-end stop/start cycles of the binary",
}
