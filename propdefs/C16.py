import check as C

RUNNER = {"pkg": "./vflow", "test": "TestVerifMirror", "race": False}


def sweep(pid, tier, seed):
    """thorough tier: every payload length 0..max for max in {64, 1500, 9000} through the real workers."""
    import concurrent.futures as cf
    tot = C.CorrResult()
    tot.name = "mirror-sweep"
    if tier == "quick":
        tot.summary = {"skipped": "thorough tier only"}
        return tot
    C.RUNNERS["mirror"] = RUNNER
    jobs = [(64, 1, 0), (1500, 2, 0), (1500, 2, 1)] + [(9000, 12, i) for i in range(12)]
    with cf.ThreadPoolExecutor(max_workers=min(C.NCPU, len(jobs))) as ex:
        futs = [ex.submit(C.corr_shard, "mirror", seed * 1000 + 500 + j, 0, True,
                          {"VERIF_MIRROR_SWEEP": "%d/%d/%d" % job}) for j, job in enumerate(jobs)]
        for f in futs:
            tot.merge(f.result())
    tot.summary = {"evaluations": tot.evaluations, "compared_with_model": tot.compared,
                   "disagreements": len(tot.disagreements), "oracle_ok": tot.oracle_ok,
                   "oracle_fail": len(tot.oracle_fail), "lengths": "every 0..max for max in 64, 1500, 9000"}
    return tot


SPEC = {
    "corr": [{"kind": "mirror", "quick": 4000, "thorough": 100000, "runner": RUNNER},
             # "never changes what is decoded and published": the real pipelines (read loop, pools, workers) with the real
             # mirror dispatchers and workers running; every published payload must still be the solo decode of its datagram
             {"kind": "pipeline", "quick": 60, "thorough": 1600, "runner": {"pkg": "./vflow", "test": "TestVerifPipeline", "race": False},
              "env": {"VERIF_PIPE_MIRROR": "1"}},
             # the same with unequal maximum datagram sizes for the two mirrored protocols (jumbo sFlow / jumbo IPFIX)
             {"kind": "pipeline", "label": "pipeline-mirror-jumbo-sflow", "seed_offset": 61, "quick": 12, "thorough": 300,
              "runner": {"pkg": "./vflow", "test": "TestVerifPipeline", "race": False},
              "env": {"VERIF_PIPE_MIRROR": "1", "VERIF_PIPE_SIZES": "9000,1500"}},
             {"kind": "pipeline", "label": "pipeline-mirror-jumbo-ipfix", "seed_offset": 67, "quick": 12, "thorough": 300,
              "runner": {"pkg": "./vflow", "test": "TestVerifPipeline", "race": False},
              "env": {"VERIF_PIPE_MIRROR": "1", "VERIF_PIPE_SIZES": "1500,9000"}}],
    "extra": [sweep],
    "rule": "in the unequal-size pipeline entries the other protocol mirrors 64 short datagrams through its real mirror path before each case; real mirrorIPFIX/mirrorSFlow towards random 127/8 targets and ports, captured on a raw IPPROTO_UDP socket and a UDP "
            "listener; payload lengths 0..max biased to max-29..max for max in {64,1500,9000}, random contents and sources in 4- and "
            "16-octet form; one case in twenty is a stream of 2..12 datagrams (plus floods of 999..2100 of the unserved address "
            "family) through one worker or the real dispatcher with 0..5 workers in a private network namespace whose loopback MTU "
            "is set per case (68..65536, lengths around MTU-28; max 65535 for 28+len > 65535); non-trivial = a packet was captured; "
            "distinct = distinct case line",
    "assumptions": ["Go slice/copy semantics as transcribed in Vflow.Model.Mirror",
                    "Linux raw-socket (IP_HDRINCL) behaviour: the kernel fills in identification, total length and header checksum; "
                    "sendto refuses (EMSGSIZE) exactly the packets longer than the route's MTU or than 65535 octets (Mirror.linkSend)",
                    "IPv4 mirror targets only (what an IPv6-target worker emits is outside the model; the dispatcher's liveness is checked there)"],
}
META = {
    "text": "Lean theorems over every payload, every IPv4 source in 4- or 16-octet form, every IPv4 target and port and every "
            "maximum with length <= max and 28+length <= 65535: the assembled packet never panics, equals the RFC 791/768 layout "
            "and parses back to (source, target, port, total length 28+n, UDP length 8+n, payload); over EVERY sequence of "
            "datagrams up to max and every answer of the kernel's sendto (refusing at least what exceeds 65535 octets): a mirror "
            "worker never panics and emits, in order, exactly the datagrams of the messages the kernel takes - a refused one costs "
            "only itself (F25); with the dispatcher in front, for exporters of any address family and any number of datagrams: "
            "exactly those of the IPv4 exporters, none is queued for a worker that does not exist; buffer size, copy offsets, "
            "Send bounds, the failed-send branch, the absence of any exit from the worker and dispatcher loops, the dispatch "
            "switch and header offsets regenerated from the Go AST; the model is tied to the real mirrorIPFIX/mirrorSFlow and the "
            "real dispatchers by capturing the emitted packets byte for byte, single datagrams and streams on paths of chosen MTU.",
    "ref": "DESIGN.md §6 C16",
    "note": "Trusted: Lean kernel; hand-written model Vflow.Model.Mirror; the capture hook (raw socket, private network namespace; "
            "falls back to the header helpers when raw sockets or the namespace are refused); Linux IP_HDRINCL / EMSGSIZE semantics. Header/UDP checksums are not claimed. "
            "'never changes what is decoded' rests on the worker copying the datagram before queuing it (C12).",
    "technique": "Lean 4 proof (byte-level refinement to the RFC layout) + go/ast facts + differential capture of real packets",
}
