import e2e

SPEC = {
    "corr": [{"kind": "nf9-wf", "quick": 6000, "thorough": 600000},
             {"kind": "nf9", "quick": 4000, "thorough": 300000},
             {"kind": "interp", "quick": 4000, "thorough": 300000},
             # the property is also observed on the published JSON: the real NetFlow v9 workers (1..64 goroutines, the real read loop and its
             # receive-buffer pool) on the same kind of datagrams — every published payload must be the solo decode of its own datagram
             # (values that alias a recycled receive buffer show only here; seed C03-f)
             {"kind": "pipeline", "quick": 32, "thorough": 1200, "runner": {"pkg": "./vflow", "test": "TestVerifPipeline", "race": False},
              "env": {"VERIF_PIPE_PROTO": "v9"}}],
    # the information model the templates range over is the LOADED one: start-ups of the real binary with an ipfix.elements file that
    # adds an extension element, a NetFlow v9 exporter using it, the IPFIX listener switched off (three in four) or on (F34)
    "extra": [e2e.startup_cycles],
    "rule": "nf9-wf: sessions of well-formed generated NetFlow v9 export packets (template / options template / data "
            "flowsets, any field lengths incl. integers in more octets than their type (size+1..8 and 9..12), data records of any "
            "positive length, flowset padding of 0 .. min(record length - 1, 7) octets) with a "
            "model-independent expected-decode oracle whose expected values are computed from the data types' definitions "
            "(big-endian / two's-complement number of all the field's octets, math/big), not from Interpret; interp: "
            "ipfix.Interpret alone on every FieldType x every field length 0..20 x boundary contents; nf9: mixed stream with about 12 % "
            "malformed datagrams; non-trivial = the implementation produced a non-error result; distinct = distinct case line. "
            "e2e-startup (8 quick / 64 thorough + the witnesses of corpus/C06): the race build of the binary started with an "
            "ipfix.elements file that adds one extension element, a NetFlow v9 exporter whose template uses it, the IPFIX listener "
            "switched off (three in four) or on: the element must be published with the file's type (F34)",
    "assumptions": ["information model = the table regenerated from ipfix/rfc5102_model.go (lookupElem is opaque in the proofs); that the "
                    "collector decodes with the INSTALLED model whenever the NetFlow v9 listener is on is C20's obligation "
                    "gen_load_guard_covers_readers and the e2e start-ups (F34)",
                    "the template cache is modelled as one map keyed by the 32-bit FNV-1 hash (finding K1: colliding keys share an entry)"],
}
META = {
    "text": "Lean theorems (Vflow.Props.C06, all fully proved, axioms propext/Classical.choice/Quot.sound only) over every "
            "cache, exporter address and well-formed export packet: record_roundtrip (every template over the information "
            "model, scope fields first: decodeData returns exactly per field (field type id, 0, interpret octets type) and "
            "stops right behind the record), recordLoop_roundtrip, dataFlowSet_roundtrip (all records in order, padding "
            "skipped, cache unchanged, no error), templateFlowSet_roundtrip / optTemplateFlowSet_roundtrip (exactly the "
            "announced templates inserted in order, later overriding earlier; option lengths in octets), packet_roundtrip "
            "(Decode of the RFC 3954 encoding of a well-formed packet = header, exactly the expected records, no non-fatal "
            "error, cache updated; templates announced earlier in the packet are in force for later flowsets: "
            "announced_template_in_force). The encoders and the decidable well-formedness predicates are in "
            "Vflow/Spec/Wire.lean, written from RFC 3954 without reference to the decoder. Preconditions that the proof "
            "forces and that are stated, not hidden: every data record has a positive length; the padding of a data "
            "flowset is shorter than the template's record and the padding of a template flowset is at most 4 octets "
            "(RFC 3954: 0..3); the former hypotheses 'record longer than 4 octets' (finding K2) and '<= 4 padding octets' "
            "were forced by the decoder's constant `> 4`: under the second, 5..7 octets of padding after records of >= 8 "
            "octets lost the whole packet (F16). Both are repaired in the code (fix 3c79378) and gone from the theorems; "
            "k2_repaired / k3_repaired evaluate the former counterexamples. What `interpret` means for the integer types is "
            "stated independently of it (Wire.unsignedValue / signedValue) and proved: unsigned_field_value / "
            "signed_field_value (a field of k <= n <= 8 octets, k the type's size, is reported with the value of ALL n "
            "octets - before fix 6666d44 Interpret read the leading k octets, FLOW_SAMPLER_ID in 2 octets = 7 gave 0: F24, "
            "f24_repaired), integer_field_kind, field_raw (shorter than the type, or an integer of more than 8 octets: the "
            "octets). Further: "
            "flowset length < 65536, non-empty flowsets, a template record has >= 1 field, the data flowset's template is "
            "what Cache.lookup returns on the cache as updated by the preceding flowsets. Nothing is partial. The model is "
            "tied to netflow/v9/decoder.go (i) statically, as C03 for IPFIX: every run re-translates the decoder's functions from the "
            "Go AST, statement by statement (go/cmd/factgen/ipfix_ir.go, second profile -> Vflow.Gen.V9IR), the interpreter "
            "Vflow.Model.IpfixIR gives the IR Go's semantics, and gen_ir_minRecordLen (= V9.minRecLen), gen_ir_decodeData (= V9.decodeData: "
            "the read BEFORE the element lookup, both index loops, fatal / non-fatal errors), gen_ir_fieldSpecUnmarshal (= readSpec), "
            "gen_ir_tplHeaderUnmarshal / ...Opts, gen_ir_setHeaderUnmarshal, gen_ir_tplRecordUnmarshal / ...Opts (= parseTpl / parseOptTpl: "
            "count-down loops over FieldCount, OptionScopeLen / 4, OptionLen / 4), gen_ir_pktHeaderUnmarshal (= readHeader), "
            "gen_ir_pktHeaderValidate, gen_ir_structs prove that each interpreted translation IS the model's function for every input "
            "(decodeSet / Decode: C09); (ii) by the differential correspondence on generated well-formed and malformed "
            "datagram streams plus a model-independent expected-decode oracle.",
    "ref": "DESIGN.md §6 C06",
    "note": "Trusted: Lean kernel; for the functions covered by gen_ir_* the translator (go/cmd/factgen/ipfix_ir.go) and the IR's Go "
            "semantics (Vflow.Model.IpfixIR) take the place of 'the model transcribes the Go code'; Vflow.Model.Flow (Interpret, element "
            "lookup, cache) stays transcribed; hand-written RFC "
            "encoders Vflow.Spec.Wire; lookupElem/interpret are shared by spec and model (their tie to the Go tables is "
            "C20; for the integer types interpret is proved equal to the RFC value, for the other types it is tied to "
            "Interpret by correspondence only); the correspondence harness and its generator bound what the tie sees. Value rendering to JSON is C11.",
    "technique": "Lean 4 proof by induction over field lists, record lists, template lists and flowset lists + translation validation "
                 "(regenerated statement-level IR, interpreter, per-function equality theorems) + differential "
                 "correspondence with netflow9.Decoder.Decode + independent expected-decode oracle",
}
