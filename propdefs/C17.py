import e2e_e2esettings

SPEC = {
    # the property at its observation point: the started collector (real binary, no hook) must USE what the documented
    # order resolves to — sockets, statistics, pid / log / cache files, judged from outside the process
    "extra": [e2e_e2esettings.settings_cycles],
    "corr": [{"kind": "options", "quick": 8000, "thorough": 500000,
              "runner": {"pkg": "./vflow", "test": "TestVerifOptions", "race": False}}],
    "rule": "real NewOptions+flagSet on random subsets of {environment, file, command line} x 0..4 of the 45 documented "
            "int/string/bool keys x random values (both dash spellings, -k v / -k=v / bare bool, repeated flags, "
            "foreign-typed yaml scalars, ineffective env names, a file nobody points at, near-miss words) plus malformed "
            "values and flags; the config flag in all four spellings package flag accepts (-config F, --config F, -config=F, "
            "--config=F), with an empty path, without a value as the last word; without an expectation (model against code "
            "only): the flag given twice, behind --, as the value of another flag; "
            "non-trivial = the process reached the end of flagSet; distinct = distinct case line",
    "assumptions": ["package flag / strconv / yaml.v2 semantics as transcribed in Vflow.Model.Options",
                    "the configuration file is given to the model as typed scalars (canonical integers, true/false, quoted strings)",
                    "/etc/vflow/vflow.conf does not exist on the checking machine (the hook refuses to run otherwise)"],
}
META = {
    "text": "Lean theorem over every option table, every environment, file system and argument list: if the process reaches "
            "the end of flagSet, every setting equals command line, else the file named by the config flag, else VFLOW_<KEY>, "
            "else the built-in default; which file: loadCfg's test of a word equals package flag's reading of it as the flag "
            "config for every string (config_word_spec), each of the four spellings brings the file at its path into the "
            "precedence (precedence_spelling), and it is the file whose path flag.Parse leaves in config when every word "
            "spelling the flag is read as the flag and it is given at most once (precedence_config_flag; both conditions "
            "shown necessary; the scan before the repair of F22 kept as old_locate_counterexample); "
            "the other stage orders are refuted by counterexample; the option table, the flag "
            "registrations (default = current value), the statement order of flagSet and the os.Args loop of loadCfg are regenerated from the Go AST "
            "and pinned by decide; the model is tied to the real NewOptions+flagSet on random configurations.",
    "ref": "DESIGN.md §6 C17",
    "note": "Trusted: Lean kernel; hand-written model Vflow.Model.Options (flag/strconv/yaml semantics transcribed); factgen; "
            "the hook and its generator. Out of scope: list-valued sflow-type-filter, "
            "non-canonical yaml scalars, fields without yaml tag as yaml keys. Recorded, not repaired: loadCfg takes the first "
            "config flag (package flag keeps the last) and also words package flag does not read as flags; "
            "-config / --config as the last word panics instead of flag's message.",
    "technique": "Lean 4 proof (stages as data) + go/ast option table + differential run of the real option loading",
}
