import e2e_e2esettings

SPEC = {
    # the property at its observation point: the started collector (real binary, no hook) must USE what the documented
    # order resolves to — sockets, statistics, pid / log / cache files, judged from outside the process
    "extra": [e2e_e2esettings.settings_cycles],
    "corr": [{"kind": "options", "quick": 8000, "thorough": 500000,
              "runner": {"pkg": "./vflow", "test": "TestVerifOptions", "race": False}}],
    "rule": "real NewOptions+flagSet on random subsets of {environment, file, command line} x 0..4 of the 45 documented "
            "int/string/bool keys x random values (both dash spellings, -k v / -k=v / bare bool, repeated flags, "
            "foreign-typed yaml scalars, ineffective env names, a file nobody points at, near-miss words) plus malformed "
            "values and flags; the config flag in all four spellings package flag accepts (-config F, --config F, -config=F, "
            "--config=F), with an empty path, without a value as the last word; without an expectation (model against code "
            "only): the flag given twice, behind --, as the value of another flag; "
            "F31: booleans also in the documented two-word form (-k true|false|1|0|t|f|…, one in six; -k <no boolean> expects exit 2), "
            "a stray word / a lone - / -- followed by words at any place among the flags with flags behind them, -- as the last word "
            "(expectation refused-or: exit 2, or every setting as the documented precedence gives it with every -key value of the "
            "command line counted; started with anything else is a failure; such cases run in a child process); "
            "non-trivial = the process reached the end of flagSet; distinct = distinct case line. "
            "e2e-settings (e2e_e2esettings.py; the unmodified binary, no hook): 8 quick / 400 thorough settings cycles, run in parallel on "
            "OS-chosen ports and private files: for each of 32 keys whose effect is visible from outside (the four UDP ports, bind "
            "addresses, worker counts, enable switches, ipfix / netflow5 / netflow9 udp-size, both template cache files, stats-enabled / "
            "-format / -http-addr / -http-port, pid-file, log-file, verbose, cpu-cap, dynamic-workers, producer-enabled, ipfix-rpc-enabled) "
            "a subset of {environment, file, command line} provides distinct values (every key meets every subset once in eight consecutive "
            "cycles; one lower source in three gives the built-in default explicitly; flags in both dash spellings, -k v / -k=v / bare "
            "bool, given twice; boolean words of ParseBool; file scalars plain / quoted / of another type; a file nobody points at), the "
            "config flag in its four spellings; the started collector is then observed from outside — its UDP sockets and listening "
            "TCP socket (/proc/<pid>/net/* matched to the pid by socket inode), which statistics endpoints answer, Workers per protocol "
            "and GOMAXPROCS, which listener counts a datagram sent to which port, the largest announcement / NetFlow v5 datagram a "
            "listener takes whole (probes at the octet boundary of udp-size), pid file, log file, the log lines only one value of a "
            "boolean produces, and after SIGTERM exit status 0 and which cache files exist and hold the announced templates — and every "
            "observation must equal what the documented order gives for the draw (computed by the harness, no vflow code). Plus 10 quick "
            "/ 100 thorough starts with one unparsable value / unknown flag / flag without value / a boolean in the two-word form -k v "
            "or a stray word (also -, -- and words) with a flag behind it (F31): exit status 1 (environment) or 2 "
            "(command line), a message naming the flag or quoting the value / the word, nothing left listening. No verdict (skipped:<reason>): a port "
            "taken by another process (redrawn four times), unreadable statistics, probes the collector's own UDPCount says did not all "
            "arrive; a finding must reproduce when the cycle is run again alone, twice",
    "assumptions": ["package flag / strconv / yaml.v2 semantics as transcribed in Vflow.Model.Options",
                    "the configuration file is given to the model as typed scalars (canonical integers, true/false, quoted strings)",
                    "/etc/vflow/vflow.conf does not exist on the checking machine (the hook refuses to run otherwise; the settings cycles "
                    "then always name a file)",
                    "settings cycles: the kernel's socket tables under /proc, loopback UDP / HTTP delivery and Go's net package (an IPv4 "
                    "wildcard address opens the same dual-stack socket as no address) are observed, not modelled; the built-in defaults "
                    "of the harness's key table are those of NewOptions (pinned by C17.gen_rows_*); the well-known default ports and the "
                    "default files under /tmp and /var/run are never the expected value (a source always provides those keys; the default "
                    "appears only explicitly in a lower source)"],
}
META = {
    "text": "Lean theorem over every option table, every environment, file system and argument list: if the process reaches "
            "the end of flagSet, every setting equals command line, else the file named by the config flag, else VFLOW_<KEY>, "
            "else the built-in default — with the command line taken as it is WRITTEN, not as package flag's parser gets through it "
            "(cliGiven / cliSource: every -key value, -key=value and bare boolean -key of the whole token list; precedence_cli), and "
            "either the process refuses to start or every key the command line mentions is a registered key whose setting has exactly "
            "the mentioned value (cli_given_or_refused: no word is silently dropped; flagSet refuses a positional argument with exit 2 "
            "since the repair of F31, the check regenerated as its last statement; the old flagSet kept as f31_counterexample: "
            "-ipfix-enabled false -sflow-port 7000 started with sflow-port 6343); which file: loadCfg's test of a word equals package flag's reading of it as the flag "
            "config for every string (config_word_spec), each of the four spellings brings the file at its path into the "
            "precedence (precedence_spelling), and it is the file whose path flag.Parse leaves in config when every word "
            "spelling the flag is read as the flag and it is given at most once (precedence_config_flag; both conditions "
            "shown necessary; the scan before the repair of F22 kept as old_locate_counterexample); "
            "the other stage orders are refuted by counterexample; the option table, the flag "
            "registrations (default = current value), the statement order of flagSet and the os.Args loop of loadCfg are regenerated from the Go AST "
            "and pinned by decide; the model is tied to the real NewOptions+flagSet on random configurations. At the property's "
            "observation point — the started collector — settings cycles of the unmodified binary draw sources and values for 32 keys, "
            "start it and compare its sockets, statistics, pid / log / cache files with the documented order's result, from outside the process.",
    "ref": "DESIGN.md §6 C17",
    "note": "Trusted: Lean kernel; hand-written model Vflow.Model.Options (flag/strconv/yaml semantics transcribed); factgen; "
            "the hook and its generator; the settings-cycle harness (its key table, its reading of /proc and of the statistics). Out of scope: list-valued sflow-type-filter, "
            "non-canonical yaml scalars, fields without yaml tag as yaml keys. Recorded, not repaired: loadCfg takes the first "
            "config flag (package flag keeps the last) and also words package flag does not read as flags; "
            "-config / --config as the last word panics instead of flag's message. A boolean written the documented way "
            "(-key value) is refused with a hint since F31, not interpreted (-verbose -config f must keep its meaning); "
            "docs/config.md still shows `-key value` for every key.",
    "technique": "Lean 4 proof (stages as data) + go/ast option table + differential run of the real option loading + end-to-end settings cycles of the binary",
}
