SPEC = {
    "corr": [{"kind": "options", "quick": 8000, "thorough": 500000,
              "runner": {"pkg": "./vflow", "test": "TestVerifOptions", "race": False}}],
    "rule": "real NewOptions+flagSet on random subsets of {environment, file, command line} x 0..4 of the 45 documented "
            "int/string/bool keys x random values (both dash spellings, -k v / -k=v / bare bool, repeated flags, "
            "foreign-typed yaml scalars, ineffective env names, a file nobody points at) plus malformed values and flags; "
            "non-trivial = the process reached the end of flagSet; distinct = distinct case line",
    "assumptions": ["package flag / strconv / yaml.v2 semantics as transcribed in Vflow.Model.Options",
                    "the configuration file is given to the model as typed scalars (canonical integers, true/false, quoted strings)",
                    "/etc/vflow/vflow.conf does not exist on the checking machine (the hook refuses to run otherwise)"],
}
META = {
    "text": "Lean theorem over every option table, every environment, file system and argument list: if the process reaches "
            "the end of flagSet, every setting equals command line, else the file named by -config, else VFLOW_<KEY>, else "
            "the built-in default; the other stage orders are refuted by counterexample; the option table, the flag "
            "registrations (default = current value) and the statement order of flagSet are regenerated from the Go AST "
            "and pinned by decide; the model is tied to the real NewOptions+flagSet on random configurations.",
    "ref": "DESIGN.md §6 C17",
    "note": "Trusted: Lean kernel; hand-written model Vflow.Model.Options (flag/strconv/yaml semantics transcribed); factgen; "
            "the hook and its generator. Out of scope: list-valued sflow-type-filter, --config/-config=x spellings, "
            "non-canonical yaml scalars, fields without yaml tag as yaml keys.",
    "technique": "Lean 4 proof (stages as data) + go/ast option table + differential run of the real option loading",
}
