RUNNER = {"pkg": "./vflow", "test": "TestVerifPipeline", "race": False}


def race_run(pid, tier, seed):
    """thorough only: the same cases under the Go race detector (go test -race)."""
    import check as C
    if tier == "quick":
        r = C.CorrResult()
        r.name, r.summary = "pipeline-race", {"skipped": "thorough tier only"}
        return r
    C.RUNNERS["pipeline"] = dict(RUNNER, race=True, timeout="30m")
    try:
        r = C.run_corr("pipeline", seed + 101, 480, shards=4)
    finally:
        C.RUNNERS["pipeline"] = RUNNER
    r.name = "pipeline-race"
    r.summary = {"evaluations": r.evaluations, "compared_with_model": r.compared, "disagreements": len(r.disagreements),
                 "oracle_ok": r.oracle_ok, "oracle_fail": len(r.oracle_fail), "race_detector": "go test -race"}
    return r


SPEC = {
    "corr": [{"kind": "pipeline", "quick": 120, "thorough": 6400, "runner": RUNNER},
             # the same pipelines after silence: the read loop's 1 s read deadline expires before the first and before the
             # middle datagram of the data phase (idle-then-burst)
             {"kind": "pipeline", "label": "pipeline-idle", "seed_offset": 31, "quick": 8, "thorough": 160, "runner": RUNNER,
              "env": {"VERIF_PIPE_IDLE_MS": "1100", "VERIF_PIPE_MAXDG": "300"}},
             # a stalling consumer: publishes are dropped while the queue is full; what is published after it recovers must
             # again be the solo decode of one datagram (an encode buffer that keeps a dropped message shows here)
             {"kind": "pipeline", "label": "pipeline-stall", "seed_offset": 59, "quick": 24, "thorough": 600, "model": False,
              "runner": RUNNER, "env": {"VERIF_PIPE_STALL": "1"}}],
    "extra": [race_run],
    "search_factor": 2,
    "rule": "a case = protocol (ipfix/v9/v5/sflow) x 1..64 real worker goroutines x 20..2000 datagrams (decodable / "
            "template-less / undecodable / malformed / marshal-failing, 1..4 exporter addresses) sent over loopback UDP through "
            "the real read loop, pools, channels and worker functions; non-trivial = every case (each publishes messages); "
            "distinct = distinct case line",
    "assumptions": ["sync.Pool, channels and goroutine scheduling as atomic steps of Vflow.Model.Pipeline",
                    "the decoders as the Codec parameter (a decoded message is a view of the receive buffer)",
                    "real schedules are sampled by the runs; the theorems cover every schedule of the model"],
}
META = {
    "text": "Lean theorems over every number of workers, every datagram sequence and every schedule of the pipeline model, for "
            "every worker program accepted by the decidable predicate Canonical: ownership (each receive buffer referenced from "
            "at most one place), writes only by the owner, held buffers never change, every published / queued / delivered payload "
            "is marshal(decode(cache-at-decode, addr, octets)) of one received datagram's own octets, MQ elements are private "
            "copies and the encode buffer is empty before each use. The four worker loops and four read loops are re-extracted "
            "from vflow/*.go on every run and must satisfy Canonical / equal the modelled read loop, with nothing after the loop but "
            "the reader closing its own UDP channel (decide). The real pipeline "
            "(read loop over loopback UDP, pools, channels, 1..64 workers) is run on generated traffic; every published payload "
            "must equal the solo Decode+JSONMarshal of exactly one datagram; counters are compared with the model's run.",
    "ref": "DESIGN.md §6 C12",
    "note": "Trusted: Lean kernel; the atomic-step model of sync.Pool/channels/goroutines; factgen's statement patterns "
            "(worker_ir.go); the hook vflow/verif_pipeline_test.go and generator go/cmd/corr/pipeline.go. Dynamic worker "
            "scaling is modelled only as workers starting/quitting at arbitrary times; the mirror consumer is one atomic step.",
    "technique": "Lean 4 invariant proof over a small-step concurrent model + regenerated worker IR (decide Canonical) + "
                 "differential run of the real pipeline with a solo-decode oracle (race detector in the thorough tier)",
}
