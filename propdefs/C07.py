SPEC = {
    "corr": [{"kind": "sflow", "quick": 40000, "thorough": 600000},
             {"kind": "dissect", "quick": 40000, "thorough": 600000}],
    "rule": "sFlow v5 datagrams encoded from an abstract datagram by the harness's own XDR encoder: 0..5 samples of "
            "flow / counter / expanded / unknown / enterprise type, 0..4 records each (raw header Ethernet(+-802.1Q)/IPv4/IPv6 x "
            "TCP/UDP/ICMP(1 and 58 after either network layer), all 24 layer combinations incl. header protocol 11/12, every header field over its full range incl. the version nibble, IPv4 options in a quarter of the IPv4 headers (IHL 6..15: random octets, real options, octets that read as a transport header), header lengths up to 1500 and XDR padding, extended switch, extended router v4/v6, the six "
            "counter layouts, unknown formats), IPv4/IPv6 agents; ~12% field-aware mutations (truncation, bit flip, boundary "
            "values in length/count/format words, extended-router lengths, truncated sampled headers); kind dissect: "
            "packet.Decoder alone on encoded headers, 30% truncated/perturbed (incl. an IPv4 header-length nibble 0..15 that no longer matches the octets). non-trivial = the implementation returned a "
            "datagram/packet (not an error); distinct = distinct case line",
    "assumptions": ["Go semantics of bytes.Reader / encoding/binary.Read / slices as transcribed in Vflow.Model.Sflow and Vflow.Model.Packet",
                    "well-formed sampled headers: IPv4 options 0..40 octets in multiples of 4 (IHL 5..15, any content), TCP reserved bits 0, first IPv6 next header TCP/UDP/ICMPv6 "
                    "(what the packet structs can represent)"],
}
META = {
    "text": "Lean theorems about the executable model of sflow/*.go and packet/*.go (round trip decode (encode d) = expected d "
            "from the leaves upward: field lists, the six counter layouts, extended switch/router, raw header with XDR padding, "
            "flow/counter samples, unknown samples/records skipped by length, header with v4/v6 agent; dissector field-extraction "
            "theorems per layer, composed in dissect_encodeHeader for every Ethernet(+-802.1Q)|none x IPv4 (any options, IHL 5..15)|IPv6 x TCP|UDP|ICMP "
            "combination, and decode_encode' over abstract headers needing only well-formedness); the model is tied to the code by byte-for-byte comparison of json.Marshal output on generated "
            "datagrams, and the code is checked against the abstract datagram each case was encoded from.",
    "ref": "DESIGN.md §6 C07 / C18",
    "note": "Trusted: Lean kernel; hand-written model (Go reader/slice semantics transcribed); harness generator, wire encoder "
            "and oracle bound what the tie sees. IPv6 extension headers are outside the modelled well-formed domain "
            "(IPv4 options are inside it since F17).",
    "technique": "Lean 4 round-trip proofs over a wire encoder + differential correspondence with sflow.SFDecode / packet.Decoder "
                 "+ abstract-datagram oracle",
}
