SPEC = {
    "corr": [{"kind": "sflow", "quick": 40000, "thorough": 600000},
             {"kind": "dissect", "quick": 40000, "thorough": 600000},
             # the real sFlow workers (1..64 goroutines, each with its own decoder) on the same kind of datagrams: every published
             # payload must be the solo decode of its datagram — decoders that share state show only under concurrency
             {"kind": "pipeline", "quick": 48, "thorough": 1200, "runner": {"pkg": "./vflow", "test": "TestVerifPipeline", "race": False},
              "env": {"VERIF_PIPE_PROTO": "sflow"}}],
    "rule": "sFlow v5 datagrams encoded from an abstract datagram by the harness's own XDR encoder: 0..5 samples of "
            "flow / counter / expanded / unknown / enterprise type, 0..4 records each (raw header Ethernet(+-802.1Q)/IPv4/IPv6 x "
            "TCP/UDP/ICMP(1 and 58 after either network layer), all 24 layer combinations incl. header protocol 11/12, every header field over its full range incl. the version nibble and the three TCP reserved bits, IPv4 options in a quarter of the IPv4 headers (IHL 6..15: random octets, real options, octets that read as a transport header), header lengths 0..1500 and XDR padding; "
            "one sampled header in five is one the packet structs cannot represent (cut at a marked or random offset inside the Ethernet header / 802.1Q tag / fixed IP header / IPv4 options / transport header, or to nothing; ARP, LACP, LLDP, MPLS, 802.1ad, QinQ and random ether types; IPv6 extension headers, GRE, ESP, OSPF, SCTP and random IP protocols; sFlow header protocols other than 1/11/12): expectation = the record's own four words (header protocol, frame length, stripped, header length) without layers, everything else intact; "
            "every raw-header record is expected with these four words as encoded (F33; the expectation's record is a struct of the harness's own), frame length / stripped over the full 32-bit range; "
            "flow-sample source id type and 24-bit index; extended switch, extended router v4/v6, address type 0 (length 12) and other lengths (0..64), the six "
            "counter layouts, unknown formats), IPv4/IPv6 agents; ~12% field-aware mutations (truncation, bit flip, boundary "
            "values in length/count/format words, extended-router lengths, truncated sampled headers; a quarter of the mutations of a datagram with a raw-header record aim at its HeaderLength word: 1500 / 1501..1504, "
            "0x7fffffff, 0x80000000, 0xfffffffc..0xffffffff, 0..5, 1496..1499, with the octets behind it left alone, cut to none / one short / the padding missing, or replaced by 0..1600 fresh ones); kind dissect: "
            "packet.Decoder alone on encoded headers: the representable ones must dissect to the abstract packet, the unrepresentable ones must be an error (expectation E), 30% truncated/perturbed (incl. an IPv4 header-length nibble 0..15 that no longer matches the octets). non-trivial = the implementation returned a "
            "datagram/packet (not an error); distinct = distinct case line",
    "assumptions": ["Go semantics of bytes.Reader / encoding/binary.Read / slices as transcribed in Vflow.Model.Sflow and Vflow.Model.Packet",
                    "sampled headers: any octets, 0..1500, under any header protocol (F19a); the ones reported as RawHeader are Ethernet(+-one 802.1Q tag)|none x IPv4 with options 0..40 octets in multiples of 4 (IHL 5..15, any content)|IPv6 x TCP (reserved bits 0..7)|UDP|ICMP as the first IPv6 next header "
                    "(what the packet structs can represent); every other sampled header is reported with the record's four words and no layers (F33; until then: record left out) and nothing else changes; of several raw-header records in one sample the last is the entry (Records is a map); an ICMP header cut after 5..7 of its 8 octets is reported with the RestHeader octets that are there, cut after 4 it is not (the code's threshold `len(b) < 5`, taken over by the oracle and by ATrans.need; named in DESIGN.md 13.2)"],
}
META = {
    "text": "Lean theorems about the executable model of sflow/*.go and packet/*.go (round trip decode (encode d) = expected d "
            "from the leaves upward: field lists, the six counter layouts, extended switch/router, raw header with XDR padding, "
            "flow/counter samples, unknown samples/records skipped by length, header with v4/v6 agent; dissector field-extraction "
            "theorems per layer, composed in dissect_encodeHeader for every Ethernet(+-802.1Q)|none x IPv4 (any options, IHL 5..15)|IPv6 x TCP|UDP|ICMP "
            "combination; undissectable_header / header_cut: a header cut before the end of its transport header at any offset, a non-IP ether type incl. QinQ, an IP protocol without a struct incl. IPv6 extension headers, another header protocol is a dissector error; raw_record_fields / raw_record_dissectable / raw_record_undissectable: a raw-header record of ANY octets (0..1500) is consumed exactly and reported with its own four words - header protocol, frame length, stripped, header length - as they are on the wire (F33), with the packet iff dissectable; "
            "decode_encode' over abstract headers of both kinds needing only well-formedness, its expected datagram not mentioning the dissector); the model is tied to the code by byte-for-byte comparison of json.Marshal output on generated "
            "datagrams, and the code is checked against the abstract datagram each case was encoded from. "
            "Regenerated and proved on every run (gen_dissect_*, gen_sflow_*): factgen translates the extraction code itself - every right-hand side with which "
            "packet/{ethernet,network,transport,icmp}.go fill Datalink / IPv4Header / IPv6Header / TCPHeader / UDPHeader / ICMP (octet, shift, mask, |, +, *, "
            "conversions with their wrap-around, the IPv4 header-length clamp, slices and the text function applied to them; the length guards; the hand-over to the next layer; "
            "the 802.1Q buffer rewrite followed symbolically), and sfHeaderDecode / getSampleInfo / the FlowSample, CounterSample, SampledHeader, ExtRouterData unmarshal functions "
            "statement by statement (reads, the 24-bit source-id index, the 1500 cap, XDR padding in uint32, agent address length by type, extended-router length rule, tag split "
            "enterprise = tag >> 12 / format = tag & 0xfff), the named dispatch constants and the three switch tables - into a small expression / row IR with a total evaluator; "
            "the model's field functions, its decoders and its fixed-layout readers are proved EQUAL to the meaning of the regenerated terms for every octet string "
            "(no sampling; structures built by field name), so a changed offset, shift, mask, width or read order in the source breaks a named proof; "
            "the pre-fix expressions of F8, F15, F17, F19b, F19c are shown to evaluate differently from the model. "
            "F33: the raw-header record reported is built BY FIELD NAME through the regenerated composite literal of decodeSampledHeader (gen_sflow_raw_header), and the members the model "
            "renders for it are the regenerated declarations of sflow.RawHeader and packet.Packet in order (gen_sflow_raw_header_struct).",
    "ref": "DESIGN.md §6 C07 / C18",
    "note": "Trusted: Lean kernel; hand-written model (Go reader/slice semantics transcribed; its field extraction and fixed-layout reads are no longer trusted: proved equal to the "
            "regenerated extraction code, which moves the trust to factgen's expression translator and the evaluator in Model/DissectIR.lean); harness generator, wire encoder "
            "and oracle bound what the tie sees. IPv4 options are inside the well-formed domain since F17; since F19 every sampled header is "
            "(IPv6 extension headers, non-IP frames, truncated headers: since F33 the record's four words without layers, rest intact), as are the source id index, the TCP reserved bits and extended-router records of any length.",
    "technique": "Lean 4 round-trip proofs over a wire encoder + source-to-IR translation of the extraction code with equality proofs against the model "
                 "+ differential correspondence with sflow.SFDecode / packet.Decoder + abstract-datagram oracle",
}
