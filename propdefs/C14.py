SPEC = {
    "corr": [{"kind": "producer", "quick": 200, "thorough": 16000,
              "runner": {"pkg": "./producer", "test": "TestVerifRawSocket", "race": False, "timeout": "30m"}}],
    "rule": "fault scripts (sink closes / resets / goes down / comes back at message indices) x protocols unix, tcp, udp x "
            "retry-max 0..5 x 8..400 messages whose contents include printf verbs, stray '%', multi-kilobyte and binary "
            "octets; run by producer/verif_rawsocket_test.go against real loopback sockets; non-trivial = the sink received "
            "at least one message; distinct = distinct case line. The model predicts the exact per-connection delivery and "
            "MQErrorCount for unix-socket scripts and all fault-free runs; tcp/udp fault scripts are oracle-only (`nd`).",
    "assumptions": ["TCP/UDP loopback timing enters only through the oracle-only (`nd`) cases",
                    "kafka/nsq/nats client libraries are outside the model (payload expression facts only)"],
    "search_factor": 1,
}
META = {
    "text": "Lean theorems over every message list, every write/dial outcome script and every retry-max "
            "(delivered_in_order, delivered_subsequence, bounded_gap, counters_exact, resumption, no_fault_all_delivered); "
            "the write expression and retry/redial skeleton of rawSocket.inputMsg and the payload expressions of the other "
            "backends are regenerated from the Go AST and discharged by decide; the real RawSocket is run against real "
            "unix/tcp/udp sinks under scripted faults.",
    "ref": "DESIGN.md §6 C14",
    "note": "Trusted: Lean kernel; the outcome-script abstraction of the network (write = ok/lost/broken-pipe/other error; "
            "dial = ok/fail); factgen; the socket harness. tcp/udp fault timing is the kernel's and is checked by the oracle "
            "only. Kafka/NSQ/NATS delivery is the client libraries'.",
    "technique": "Lean 4 proof by induction over the message list and retry budget + AST facts + socket-level differential test",
}
