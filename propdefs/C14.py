import check as _C
import e2e_e2etraffic


def experienced(pid, tier, seed):
    """tcp/udp fault scripts: the hook reconstructs the outcome script the producer actually experienced
    (from its log lines and the sink); the Lean model is run on that script and must predict the observed
    MQErrorCount and per-connection delivery."""
    n = 60 if tier == "quick" else 10000
    kind = "producer"
    _C.RUNNERS[kind] = SPEC["corr"][0]["runner"]
    cases = [l for l in _C.gen_cases(kind, seed * 1000 + 977, n * 3) if not l.startswith("producer unix") and not l.endswith(" -")
             # the quick tier has its one stalled-sink case (3.5 s of silence) in the main correspondence
             and not (tier == "quick" and "z" in l.split(" ")[5])][:n]
    shards = 1 if tier == "quick" else min(_C.NCPU, 8)
    chunks = [cases[i::shards] for i in range(shards)]

    def one(ch):
        r = _C.CorrResult()
        lines = ["producerx" + l[len("producer"):] for l in ch]
        go = _C.run_go(kind, lines)
        minputs, idx = [], []
        for i, l in enumerate(lines):
            if go[i] is None:
                continue
            out, verdict = go[i]
            r.evaluations += 1
            f = l.split(" ")
            if verdict.startswith("fail"):
                r.oracle_fail.append({"kind": kind, "seed": seed, "session": [l], "verdict": verdict, "impl": out})
                continue
            if verdict.startswith("ok"):
                r.oracle_ok += 1
            o = out.split(" ", 2)
            if len(o) == 3 and o[0].startswith("w=") and o[1].startswith("d="):
                minputs.append("producerx %s %s %s %s" % (f[2], f[4], o[0][2:], o[1][2:]))
                idx.append((l, out, o[2]))
                cls = "".join(sorted(set(o[0][2:])))
                r.stats["outcomes:" + cls] = r.stats.get("outcomes:" + cls, 0) + 1
        model = _C.run_model(minputs) if minputs else []
        for (l, out, observed), m in zip(idx, model):
            r.compared += 1
            r.distinct.add(l)
            if m != observed:
                r.disagreements.append({"kind": "producerx", "seed": seed, "session": [l], "impl": out, "model": m})
        return r
    import concurrent.futures as cf
    tot = _C.CorrResult()
    with cf.ThreadPoolExecutor(max_workers=shards) as ex:
        for r in ex.map(one, chunks):
            tot.merge(r)
    tot.name = "producer-experienced-script"
    tot.summary = {"evaluations": tot.evaluations, "compared_with_model": tot.compared, "disagreements": len(tot.disagreements),
                   "oracle_ok": tot.oracle_ok, "oracle_fail": len(tot.oracle_fail), "distribution": dict(sorted(tot.stats.items(), key=lambda kv: -kv[1])[:20])}
    return tot


SPEC = {
    "corr": [{"kind": "producer", "quick": 200, "thorough": 50000,
              "runner": {"pkg": "./producer", "test": "TestVerifRawSocket", "race": False, "timeout": "30m"}},
             {"kind": "producerk", "quick": 400, "thorough": 40000,
              "runner": {"pkg": "./producer", "test": "TestVerifSarama", "race": False, "timeout": "30m"}}],
    "extra": [experienced, e2e_e2etraffic.traffic_cycles],
    "rule": "fault scripts (sink closes / resets / goes down / comes back at message indices, or stalls and kills the connection while the producer is blocked half-way through writing a multi-megabyte message, or stays connected but reads nothing for 3.5 s "
            "while such a message is being written and then reads everything: event z, stream sockets, no fault — exact delivery and a zero error counter are demanded; "
            "one such case per quick run, 40-48 per thorough run, one or two stalls each, half of them mixed with the other faults; they run in a lane of their own next to the other cases) x protocols unix, tcp, udp x "
            "retry-max 0..5 x 8..400 messages whose lengths also sit on buffer boundaries (2^k-1, 2^k, 2^k+1 for k = 8..16; a new longest message followed by one 2^j-1..2^j+1 octets longer) and whose contents include printf verbs, stray '%', multi-kilobyte and binary "
            "octets; run by producer/verif_rawsocket_test.go against real loopback sockets; non-trivial = the sink received "
            "at least one message; distinct = distinct case line. The model predicts the exact per-connection delivery and "
            "MQErrorCount for unix-socket scripts and all fault-free runs (a run in which the sink only stalls is fault-free, on tcp too); on tcp/udp fault scripts (kernel timing) the main correspondence prints `nd`; for those the extra pass "
            "`producer-experienced-script` runs the model on the outcome script the producer actually experienced (reconstructed from "
            "its log and the sink) and compares ec / per-connection delivery. "
            "producerk (kafka, the default backend; F20): error scripts x 0..400 messages (printf verbs, binary octets, newlines, multi-kilobyte) "
            "run by producer/verif_sarama_test.go on the real KafkaSarama.inputMsg: `mock` = sarama's own mocks.AsyncProducer with one "
            "succeed/fail expectation per input and ChannelBufferSize 0 (the select arm that can be taken is then fixed by the script; the model, "
            "which interprets the regenerated loop description Gen.saramaLoop, must print the same offered indices / ec / logged reports) or "
            "1..256 (scheduler decides: `nd`, oracle only); `arms` = a scripted sarama.AsyncProducer with unbuffered channels that presents "
            "exactly one arm per select (runs of 1..3 error reports before / between / after the accepted inputs). Oracle: the values reaching "
            "Input() are exactly the handed-over messages, each once, in order, topic unchanged; ec = reports logged = reports taken from Errors() "
            "(mock: = failed inputs - reports left unread).",
    "assumptions": ["TCP/UDP loopback timing enters only through the oracle-only (`nd`) cases",
                    "kafka: what sarama does with a value after Input() accepted it is the library's; nsq/nats/segmentio client libraries are "
                    "outside the model (payload expression facts only; their loops have no second select arm that can pre-empt the hand-over)"],
    "search_factor": 1,
}
META = {
    "text": "Lean theorems over every message list, every write/dial outcome script and every retry-max "
            "(delivered_in_order, delivered_subsequence, bounded_gap, counters_exact, resumption, no_fault_all_delivered); "
            "the write expression and retry/redial skeleton of rawSocket.inputMsg and the payload expressions of the other "
            "backends are regenerated from the Go AST and discharged by decide; the real RawSocket is run against real "
            "unix/tcp/udp sinks under scripted faults and against sinks that stay connected but stop reading for seconds "
            "(for the model a write that blocks and then returns nil is an `ok` write: the all-ok script of no_fault_all_delivered). Kafka (sarama, default backend): the send loop of KafkaSarama.inputMsg is a "
            "regenerated description interpreted by a Lean model; for every message list and every script of select arms the "
            "values accepted on Input() are exactly the handed-over messages, once, in order, and the error counter equals the "
            "error reports taken (kafka_offered_is_prefix, kafka_offered_eq_received, kafka_counters_exact; false on the loop "
            "before the F20 repair: f20_drop_counterexample); the real inputMsg is run against sarama's mock producer and a "
            "scripted AsyncProducer.",
    "ref": "DESIGN.md §6 C14",
    "note": "Trusted: Lean kernel; the outcome-script abstraction of the network (write = ok/lost/broken-pipe/other error; "
            "dial = ok/fail); factgen; the socket harness. tcp/udp fault timing is the kernel's and is checked by the oracle "
            "only. Kafka: the arm-script abstraction of the client library and scheduler (per select: input accepted / error report "
            "taken); delivery after Input() accepted a value is sarama's. NSQ/NATS/segmentio delivery is the client libraries'.",
    "technique": "Lean 4 proof by induction over the message list and retry budget + AST facts + socket-level differential test",
}
