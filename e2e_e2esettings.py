"""Settings cycles of the built vflow binary: C17 at its observation point (`anchors.observe_at`: "effective settings of a
started collector: listening UDP/HTTP ports, 'Workers' in the /flow stats, enabled protocols, cache file paths written at
shutdown").

One cycle draws, for every key whose effect can be seen from outside the process (KEYS below), which of the three sources
(environment VFLOW_<KEY>, configuration file, command line) provide it and with which values, writes the YAML file, sets the
environment, starts the UNMODIFIED binary with the config flag in one of its four spellings, and then observes
  * the UDP sockets and the listening TCP socket of the process (/proc/<pid>/net/{udp,udp6,tcp,tcp6}, matched to the process
    through the socket inodes of /proc/<pid>/fd): ports, bind addresses, which protocols listen at all, whether a statistics
    server exists,
  * which statistics endpoints answer (/flow + /sys = restful, /metrics = prometheus), `Workers` per protocol, `MaxProcs`,
  * which listener counts a datagram sent to which port (`UDPCount` per protocol: attributes the ports to the protocols and
    tells whether every probe arrived), what the largest datagram is that a listener takes whole (template / NetFlow v5
    probes at the octet boundary of `*-udp-size`),
  * the pid file, the log file, and the lines of the log that only one value of a boolean produces,
  * after SIGTERM: exit status 0 and which template cache files exist and hold the announced templates.
The expectation is computed HERE from the draw by the documented rule (command line, else the file named by the config flag,
else VFLOW_<KEY>, else the built-in default: the key table below carries the defaults `vflow -h` prints, which C17's regenerated
option table pins; docs/config.md differs from them for netflow5/9-workers and the NetFlow v9 cache file, recorded in DESIGN §6);
no vflow code is called.

A second kind of cycle gives one value that cannot be parsed (or an unknown flag, a flag without its value): the start must
fail with the exit status package flag / log.Fatal give (2 / 1) and a message naming the flag (command line) or quoting the
value (environment), and nothing may be left listening.

No verdict (statistic `skipped:<reason>`): a port taken by another process (redrawn up to four times), statistics that cannot
be read although the socket exists, probes that did not all arrive (the collector's own UDPCount is compared with what was
sent). A verdict that may depend on time or load must reproduce: the cycle is run again alone, twice.
"""
import json, os, random, re, shutil, signal, socket, subprocess, sys, time, urllib.request, urllib.error
import check as C
import e2e

KIND = "e2e-settings"

# yaml prefix, section of /flow, infix of the prometheus metric names, "<x> is running (UDP", "<x> has been disabled", "<x> dynamic worker disabled"
PROTOS = [
    ("ipfix", "IPFIX", "ipfix", "ipfix is running (UDP", "ipfix has been disabled", "IPFIX dynamic worker disabled"),
    ("sflow", "SFlow", "sflow", "sFlow is running (UDP", "sflow has been disabled", "sFlow dynamic worker disabled"),
    ("netflow5", "NetflowV5", "netflowv5", "netflow v5 is running (UDP", "netflow v5 has been disabled", "netflow v5 dynamic worker disabled"),
    ("netflow9", "NetflowV9", "netflowv9", "netflow v9 is running (UDP", "netflow v9 has been disabled", "netflow v9 dynamic worker disabled"),
]
PNAMES = [p[0] for p in PROTOS]
DEFAULT_PORT = {"ipfix": 4739, "sflow": 6343, "netflow5": 9996, "netflow9": 4729}
DEFAULT_CACHE = {"ipfix": "/tmp/vflow.templates", "netflow9": "/tmp/netflowv9.templates"}


class Key:
    def __init__(self, yaml, kind, default, role, flag=None, must=False):
        # must: some source always provides it (its built-in default is a resource shared by every process of the machine:
        # a well-known port, a file under /tmp or /var/run), so the default is only ever given explicitly in a LOWER source
        self.yaml, self.kind, self.default, self.role, self.flag, self.must = yaml, kind, default, role, flag or yaml, must
        self.env = "VFLOW_" + yaml.upper().replace("-", "_")


# the documented keys (docs/config.md) whose effect is visible from outside; flag = the spelling `vflow -h` prints
KEYS = [
    Key("verbose", "b", False, "verbose"),
    Key("log-file", "s", "", "log-file"),
    Key("pid-file", "s", "/var/run/vflow.pid", "pid-file", must=True),
    Key("cpu-cap", "s", "100%", "cpu-cap"),
    Key("dynamic-workers", "b", True, "dyn"),
    Key("stats-enabled", "b", True, "stats-enabled"),
    Key("stats-format", "s", "prometheus", "stats-format"),
    Key("stats-http-addr", "s", "", "stats-addr"),
    Key("stats-http-port", "s", "8081", "stats-port", must=True),
    Key("producer-enabled", "b", True, "producer", must=True),      # always resolves to false: there is no broker here
    Key("ipfix-rpc-enabled", "b", True, "rpc", must=True),          # always resolves to false: it would bind the fixed UDP port 1024
]
for _p in PNAMES:
    KEYS += [Key(_p + "-enabled", "b", True, "enabled:" + _p),
             Key(_p + "-port", "i", DEFAULT_PORT[_p], "port:" + _p, must=True),
             Key(_p + "-addr", "s", "", "addr:" + _p),
             Key(_p + "-workers", "i", 200, "workers:" + _p)]
    if _p != "sflow":       # what the sFlow listener does with a datagram longer than its buffer cannot be told from outside
        KEYS.append(Key(_p + "-udp-size", "i", 1500, "udpsize:" + _p, flag=_p + "-max-udp-size"))
    if _p in DEFAULT_CACHE:
        KEYS.append(Key(_p + "-tpl-cache-file", "s", DEFAULT_CACHE[_p], "cache:" + _p, must=True))
KEY = {k.yaml: k for k in KEYS}
SRC = ("env", "file", "cli")          # bit 0, 1, 2 of a mask; the documented order, weakest first

_V6 = []


def have_v6():
    """can a socket be bound to ::1 here?"""
    if not _V6:
        try:
            s = socket.socket(socket.AF_INET6, socket.SOCK_DGRAM)
            s.bind(("::1", 0))
            s.close()
            _V6.append(True)
        except OSError:
            _V6.append(False)
    return _V6[0]


def fresh_ports(n_udp, n_tcp):
    """port numbers that were free a moment ago (all distinct): bound together, then closed"""
    socks, udp, tcp = [], [], []
    for i in range(n_udp + n_tcp):
        s = socket.socket(socket.AF_INET, socket.SOCK_DGRAM if i < n_udp else socket.SOCK_STREAM)
        s.bind(("127.0.0.1", 0))
        socks.append(s)
        (udp if i < n_udp else tcp).append(s.getsockname()[1])
    for s in socks:
        s.close()
    return udp, tcp


TRUE_WORDS, FALSE_WORDS = ["true", "1", "t", "T", "TRUE", "True"], ["false", "0", "f", "F", "FALSE", "False"]


class Draw:
    """the structured choices of one cycle and everything derived from them"""

    def __init__(self, n, seed, wdir, udp_ports, tcp_ports):
        self.n, self.seed, self.wdir = n, seed, wdir
        rng = self.rng = random.Random(seed * 1000003 + n * 7919 + 11)
        # every key meets every subset of the sources once in eight consecutive cycles (offsets depend on the seed only)
        orng = random.Random(seed * 31 + 5)
        off = {k.yaml: orng.randrange(8) for k in KEYS}
        self.use_cfg = rng.random() >= 1 / 12.0           # else: a file nobody points at; its values must not be used
        self.cfg_spelling = rng.choice(["-config F", "--config F", "-config=F", "--config=F"])
        self.prov = {}        # yaml -> {source: value} as provided (typed: int / bool / str)
        self.foreign = {}     # yaml -> text of a file scalar of another type (the file then does not provide the key)
        self.twice = {}       # yaml -> the value of the first of two occurrences of the flag (the last one wins)
        self.expected, self.source = {}, {}
        udp_ports, tcp_ports = list(udp_ports), list(tcp_ports)
        import itertools
        names = itertools.count(1)
        for k in KEYS:
            mask = (n + off[k.yaml]) % 8
            if k.must and mask == 0:
                mask = rng.randint(1, 7)
            if k.must and not self.use_cfg and mask == 2:
                mask |= rng.choice([1, 4])
            eff = mask if self.use_cfg else mask & ~2
            if mask & 2 and self.use_cfg and not k.must and k.kind != "s" and k.role not in ("stats-enabled",) and not k.role.startswith("enabled") and rng.random() < 1 / 10.0:
                # a scalar of another type in the file: yaml leaves the field alone
                self.foreign[k.yaml] = rng.choice(['"abc"', "true", '"12x"']) if k.kind == "i" else rng.choice(["7", '"on"', "0"])
                eff &= ~2
            top = "cli" if eff & 4 else "file" if eff & 2 else "env" if eff & 1 else None
            vals = {}
            used = []

            def fresh(kk=k):
                for _ in range(50):
                    v = self.value(kk, rng, udp_ports, tcp_ports, names)
                    if v not in used or kk.kind == "b":
                        break
                used.append(v)
                return v
            for bit, src in ((4, "cli"), (2, "file"), (1, "env")):
                if not mask & bit or (src == "file" and k.yaml in self.foreign):
                    continue
                if src == top or (top is None and not vals):
                    v = self.top_value(k, rng, fresh)
                else:
                    # a lower source: one in three gives the built-in default explicitly (an empty string cannot be given
                    # through the environment, where an empty variable counts as unset)
                    if rng.random() < 0.34 and not (src == "env" and k.default == ""):
                        v = k.default
                    else:
                        v = fresh()
                vals[src] = v
            if "cli" in vals and rng.random() < 1 / 12.0:
                self.twice[k.yaml] = fresh() if k.kind != "b" else (not vals["cli"])
            self.prov[k.yaml] = vals
            self.expected[k.yaml], self.source[k.yaml] = (vals[top], top) if top else (k.default, "default")
        self.render(rng)

    # ---- values
    def value(self, k, rng, udp_ports, tcp_ports, names):
        r = k.role
        if r.startswith("port:"):
            return udp_ports.pop()
        if r == "stats-port":
            return str(tcp_ports.pop())
        if r.startswith("workers:"):
            return rng.randint(1, 48)
        if r.startswith("udpsize:"):
            return rng.randint(90, 1400) if r.endswith("netflow5") else rng.choice([rng.randint(200, 1496), rng.randint(1504, 4000)])
        if r.startswith("addr:") or r == "stats-addr":
            return rng.choice(["127.0.0.1", "127.0.0.2", "127.0.0.1", "127.0.0.2", "0.0.0.0"] + (["::1", "::1"] if have_v6() else []))
        if r in ("pid-file", "log-file") or r.startswith("cache:"):
            return os.path.join(self.wdir, "%s.%d" % (k.yaml, next(names)))
        if r == "stats-format":
            return rng.choice(["restful", "prometheus"])
        if r == "cpu-cap":
            return rng.choice(["1", "2", "3", "25%", "50%", "100%"])
        return rng.random() < 0.5            # booleans

    def top_value(self, k, rng, fresh):
        """the value of the source that decides: pinned for the two keys that must resolve to false, biased towards the
        values under which more can be observed, sometimes the built-in default given explicitly"""
        r = k.role
        if r in ("producer", "rpc"):
            return False
        if r == "stats-enabled":
            return rng.random() < 0.85
        if r.startswith("enabled:"):
            return rng.random() < 0.8
        if r == "stats-format":
            return "restful" if rng.random() < 0.75 else "prometheus"
        if not k.must and rng.random() < 0.15:
            return k.default
        return fresh()

    # ---- rendering of the three sources
    def render(self, rng):
        env, lines, groups = {}, [], []
        for k in KEYS:
            vals = self.prov[k.yaml]
            if "env" in vals:
                v = vals["env"]
                env[k.env] = (rng.choice(TRUE_WORDS if v else FALSE_WORDS) if k.kind == "b" else
                              ("+" if rng.random() < 0.15 else "") + str(v) if k.kind == "i" else v)
            if k.yaml in self.foreign:
                lines.append("%s: %s" % (k.yaml, self.foreign[k.yaml]))
            elif "file" in vals:
                v = vals["file"]
                if k.kind == "b":
                    txt = "true" if v else "false"
                elif k.kind == "i":
                    txt = str(v)
                elif v.isdigit() and rng.random() < 0.5:
                    txt = v                                # `stats-http-port: 8082` as anyone would write it
                elif v and re.match(r"^[A-Za-z/][\w./-]*$", v) and rng.random() < 0.5:
                    txt = v                                # a plain scalar
                else:
                    txt = '"%s"' % v
                lines.append("%s: %s" % (k.yaml, txt))
            if "cli" in vals:
                seq = ([self.twice[k.yaml]] if k.yaml in self.twice else []) + [vals["cli"]]
                grp = []
                for v in seq:
                    dash = "--" if rng.random() < 0.2 else "-"
                    if k.kind == "b":
                        grp += [dash + k.flag] if v and rng.random() < 0.5 else [dash + k.flag + "=" + rng.choice(TRUE_WORDS if v else FALSE_WORDS)]
                    elif rng.random() < 0.35:
                        grp += [dash + k.flag + "=" + str(v)]
                    else:
                        grp += [dash + k.flag, str(v)]
                groups.append(grp)
        rng.shuffle(lines)
        rng.shuffle(groups)
        self.env = env
        self.file_path = os.path.join(self.wdir, "vflow.conf")
        self.file_text = "\n".join(lines) + ("\n" if lines else "")
        # the file is written when it has content, and half of the time when it has none (an empty file / an absent one)
        self.write_file = bool(lines) or rng.random() < 0.5
        self.point = self.use_cfg and (bool(lines) or rng.random() < 0.7)     # else no config flag at all (/etc/vflow/vflow.conf is absent)
        cfg_path = self.file_path
        if not self.point and os.path.exists("/etc/vflow/vflow.conf"):
            # this machine has a configuration file at the default path: never start without a config flag (an absent file is named)
            self.point, cfg_path = True, os.path.join(self.wdir, "absent.conf")
        if self.point:
            sp = self.cfg_spelling
            cfg = [sp.split("=")[0] + "=" + cfg_path] if "=" in sp else [sp.split(" ")[0], cfg_path]
            groups.insert(rng.randint(0, len(groups)), cfg)
        self.argv = [t for g in groups for t in g]

    # ---- what the documented rule says the collector does
    def proto(self, p):
        e = self.expected
        return {"enabled": e[p + "-enabled"], "port": e[p + "-port"], "addr": e[p + "-addr"], "workers": e[p + "-workers"],
                "udpsize": e.get(p + "-udp-size"), "cache": e.get(p + "-tpl-cache-file")}

    def describe(self, yaml):
        vals = self.prov[yaml]

        def show(s):
            if s == "file" and yaml in self.foreign:
                return "%s (not a %s: ignored)" % (self.foreign[yaml], {"i": "number", "b": "boolean"}[KEY[yaml].kind])
            if s == "file" and s in vals and not self.use_cfg:
                return "%s (in a file no config flag names)" % fmt(vals[s])
            if s == "cli" and yaml in self.twice:
                return "%s then %s" % (fmt(self.twice[yaml]), fmt(vals[s]))
            return fmt(vals[s]) if s in vals else "-"
        return "provided file=%s env=%s cli=%s, expected %s (%s)" % (show("file"), show("env"), show("cli"), fmt(self.expected[yaml]),
                                                                    "built-in default" if self.source[yaml] == "default" else self.source[yaml])

    def sample(self, full=False):
        cnt = {s: sum(1 for v in self.prov.values() if s in v) for s in SRC}
        d = {"config_flag": self.cfg_spelling if self.point else ("none, file written" if self.write_file else "none"),
             "provided": cnt, "decided_by": {s: sum(1 for x in self.source.values() if x == s) for s in ("cli", "file", "env", "default")},
             "stats": ("off" if not self.expected["stats-enabled"] else self.expected["stats-format"]),
             "enabled": "".join("1" if self.expected[p + "-enabled"] else "0" for p in PNAMES)}
        if full:
            w = self.wdir
            d.update({"argv": [a.replace(w, "$W") for a in self.argv], "env": {k: v.replace(w, "$W") for k, v in self.env.items()},
                      "file": self.file_text.replace(w, "$W") if self.write_file else None})
        return d


def fmt(v):
    return json.dumps(v) if isinstance(v, (str, bool)) else str(v)


# ---------------------------------------------------------------- observation from outside

def _addr(hexaddr):
    h, port = hexaddr.split(":")
    if len(h) == 8:
        ip = socket.inet_ntoa(bytes.fromhex(h)[::-1])
    else:
        ip = socket.inet_ntop(socket.AF_INET6, b"".join(bytes.fromhex(h[i:i + 8])[::-1] for i in range(0, 32, 8)))
    return ip, int(port, 16)


def proc_sockets(pid):
    """(set of (address, port) of the UDP sockets, set of (address, port) of the listening TCP sockets) of process pid, or None
    when the process is gone: the rows of /proc/<pid>/net/* whose inode is one of the process's own descriptors"""
    inodes = set()
    try:
        for fd in os.listdir("/proc/%d/fd" % pid):
            try:
                l = os.readlink("/proc/%d/fd/%s" % (pid, fd))
            except OSError:
                continue
            if l.startswith("socket:["):
                inodes.add(l[8:-1])
        udp, tcp = set(), set()
        for fam in ("udp", "udp6", "tcp", "tcp6"):
            for line in open("/proc/%d/net/%s" % (pid, fam)).read().split("\n")[1:]:
                w = line.split()
                if len(w) > 9 and w[9] in inodes:
                    if fam.startswith("udp"):
                        udp.add(_addr(w[1]))
                    elif w[3] == "0A":
                        tcp.add(_addr(w[1]))
        return udp, tcp
    except OSError:
        return None


def bound(addr, port):
    """the row a listener configured with this address shows: no address = the dual-stack wildcard, and Go's net package
    opens the same dual-stack socket for the IPv4 wildcard"""
    return ("::" if addr in ("", "0.0.0.0") else addr, int(port))


def host_of(addr):
    """where to reach a listener bound to addr from this machine: (family, host)"""
    return (socket.AF_INET6, "::1") if addr == "::1" else (socket.AF_INET, addr if addr.startswith("127.") else "127.0.0.1")


def http_get(addr, port, path, timeout=3):
    """(status, body) or (None, error text)"""
    fam, host = host_of(addr)
    url = "http://%s:%d%s" % ("[::1]" if fam == socket.AF_INET6 else host, int(port), path)
    try:
        with urllib.request.urlopen(url, timeout=timeout) as r:
            return r.status, r.read()
    except urllib.error.HTTPError as e:
        return e.code, b""
    except Exception as e:
        return None, repr(e)


def read_stats(fmt_, addr, port):
    """{section: {"Workers", "UDPCount", "DecodedCount"}} from /flow (restful) or /metrics (prometheus), or None"""
    if fmt_ == "restful":
        st, body = http_get(addr, port, "/flow")
        if st != 200:
            return None
        try:
            d = json.loads(body)
            return {sec: {x: d[sec][x] for x in ("Workers", "UDPCount", "DecodedCount")} for _, sec, _, _, _, _ in PROTOS}
        except (ValueError, KeyError, TypeError):
            return None
    st, body = http_get(addr, port, "/metrics")
    if st != 200:
        return None
    out = {}
    txt = body.decode("utf-8", "replace")
    for _, sec, infix, _, _, _ in PROTOS:
        row = {}
        for name, metric in (("Workers", "workers"), ("UDPCount", "udp_packets"), ("DecodedCount", "decoded_packets")):
            m = re.search(r"^vflow_%s_%s (\S+)$" % (infix, metric), txt, re.M)
            if not m:
                return None
            row[name] = int(float(m.group(1)))
        out[sec] = row
    return out


def tpl_datagram(proto, tid, total):
    """an IPFIX / NetFlow v9 message of exactly `total` octets announcing template tid with 4-octet fields"""
    hdr = 16 if proto == "ipfix" else 20
    nf = (total - hdr - 8) // 4
    m = (e2e.ipfix_msg if proto == "ipfix" else e2e.v9_msg)([e2e.tpl_set("ipfix" if proto == "ipfix" else "nf9", tid, [(1 + (i % 200), 4) for i in range(nf)])], tid)
    assert len(m) == total, (len(m), total)
    return m


def tpl_probe_lengths(proto, size):
    """(longest announcement that fits a buffer of `size` octets, the next longer one: four octets more)"""
    base = 24 if proto == "ipfix" else 28
    nf = (size - base) // 4
    return base + 4 * nf, base + 4 * (nf + 1)


def cache_templates(path):
    """{template id: field count} of a template cache file, None when it is absent, "bad" when it is not a cache document"""
    if not os.path.exists(path):
        return None
    try:
        doc = json.load(open(path))
        out = {}
        for sh in doc["Cache"]:
            for ent in (sh.get("Templates") or {}).values():
                t = ent["Template"]
                out[t["TemplateID"]] = len(t.get("FieldSpecifiers") or [])
        return out
    except Exception:
        return "bad"


class Finding(Exception):
    pass


def gomaxprocs(cap, ncpu):
    """what getCPU documents: a number of CPUs, or a percentage of the available ones; never more than there are"""
    n = int(ncpu * int(cap[:-1]) / 100.0) if cap.endswith("%") else int(cap)
    return min(n, ncpu)


# ---------------------------------------------------------------- one settings cycle

def settings_cycle(n, seed, binary):
    """returns (impl_line, verdict, sample)"""
    res = None
    for attempt in range(4):
        res = _settings_once(n, seed, binary, attempt)
        if res[0] != "port-taken":
            return res
        time.sleep(0.1 * (attempt + 1))
    return "skipped:port-taken", "", res[2]


def _settings_once(n, seed, binary, attempt):
    wdir = os.path.join(C.WORK, "e2e-settings-%d-%d-%d" % (os.getpid(), seed, n))
    shutil.rmtree(wdir, ignore_errors=True)
    os.makedirs(wdir)
    udp_ports, tcp_ports = fresh_ports(18, 5)
    d = Draw(n, seed, wdir, udp_ports, tcp_ports)
    sample = d.sample()
    if d.write_file:
        open(d.file_path, "w").write(d.file_text)
    env = {k: v for k, v in os.environ.items() if not k.upper().startswith("VFLOW_")}
    env.update(d.env)
    errpath = os.path.join(wdir, "stderr.log")
    errf = open(errpath, "wb")
    t_start = time.time() - 1
    proc = subprocess.Popen([binary] + d.argv, stdout=errf, stderr=errf, cwd=wdir, env=env)
    E = d.expected
    log_candidates = sorted({v for v in list(d.prov["log-file"].values()) + [d.twice.get("log-file")] if v})

    def stderr_text():
        try:
            return open(errpath, "rb").read().decode("utf-8", "replace")
        except OSError:
            return ""

    def logs():
        out = stderr_text()
        for p in log_candidates:
            try:
                out += open(p, "rb").read().decode("utf-8", "replace")
            except OSError:
                pass
        return out

    mism = []       # (key, what the collector does)

    def verdict():
        first = mism[0]
        more = (" (+%d more: %s)" % (len(mism) - 1, ", ".join(sorted({m[0] for m in mism[1:]}))[:160])) if len(mism) > 1 else ""
        return ("fail:setting %s: %s, the collector %s%s" % (first[0], d.describe(first[0]) if first[0] in KEY else "-", first[1], more)).replace(wdir, "$W")

    try:
        exp_udp = {bound(d.proto(p)["addr"], d.proto(p)["port"]) for p in PNAMES if d.proto(p)["enabled"]}
        exp_tcp = {bound(E["stats-http-addr"], E["stats-http-port"])} if E["stats-enabled"] else set()
        # ---- wait until every listener has reported (running / disabled) and the process shows the expected sockets, or has
        #      ended, or has settled on other sockets. (The expected sockets alone are not the end of the start: a listener that
        #      should not exist may come last.) Without a statistics server to wait for, the sockets are looked at again 0.3 s later.
        t0 = time.time()
        last, stable_since, snap = None, t0, None
        while True:
            rc = proc.poll()
            if rc is not None:
                break
            snap = proc_sockets(proc.pid)
            now = time.time()
            if snap != last:
                last, stable_since = snap, now
            lg = logs()
            accounted = sum(lg.count(p[3]) + lg.count(p[4]) for p in PROTOS) >= 4
            stats_line = "starting stats http server" in lg or "starting prometheus http server" in lg
            if snap == (exp_udp, exp_tcp) and accounted and (exp_tcp or now - stable_since > 0.3):
                break
            if accounted and now - stable_since > 1.5 and (stats_line or now - t0 > 5):
                break
            if now - t0 > 25:
                break
            time.sleep(0.02)
        if rc is not None:
            errf.close()
            lg = logs()
            if any(w in lg for w in ("panic:", "fatal error")):
                i = max(lg.find("panic:"), lg.find("fatal error"))
                return "start-crashed", "fail:crash the collector crashed while starting: " + lg[max(0, i - 100):i + 500].replace("\n", " | "), d.sample(True)
            m = re.search(r"listen (udp|tcp) (\S*):(\d+): bind: address already in use", lg)
            if m:
                port = int(m.group(3))
                if port in {p for _, p in (exp_udp if m.group(1) == "udp" else exp_tcp)}:
                    return "port-taken", "", sample          # another process took a port the harness had picked: redraw
                # a port no source resolves to: name the key one of whose values (or whose default) it is
                key = next((k.yaml for k in KEYS if (k.role.startswith("port:") or k.role == "stats-port") and
                            str(port) in [str(k.default)] + [str(v) for v in d.prov[k.yaml].values()] + [str(d.twice.get(k.yaml))]),
                           "stats-http-port" if m.group(1) == "tcp" else "udp-port")
                mism.append((key, "tried to bind %s port %s:%d (and ended with status %s because it is taken)" % (m.group(1).upper(), m.group(2), port, rc)))
                return "exit=%s bound-other-port" % rc, verdict(), d.sample(True)
            if "producer message queue has been disabled" not in lg and rc != 0:
                mism.append(("producer-enabled", "started the producer and ended with status %s: %s" % (rc, lg[-200:].replace("\n", " | "))))
                return "exit=%s producer" % rc, verdict(), d.sample(True)
            return "exit=%s at-start" % rc, "fail:start the collector ended with status %s while starting on a valid configuration: %s" % (rc, lg[-300:].replace("\n", " | ")), d.sample(True)

        pid = proc.pid
        udp, tcp = snap if snap else (set(), set())
        # ---- sockets: ports, addresses, which protocols listen at all
        left = set(udp)
        for p in PNAMES:
            pp = d.proto(p)
            if not pp["enabled"]:
                continue
            want = bound(pp["addr"], pp["port"])
            if want in left:
                left.discard(want)
                continue
            same_port = [a for a in left if a[1] == want[1]]
            if same_port:
                left.discard(same_port[0])
                mism.append((p + "-addr", "has bound UDP port %d to %s" % (want[1], same_port[0][0])))
            elif PROTOS[PNAMES.index(p)][4] in logs():
                mism.append((p + "-enabled", "has no UDP socket on port %d and reports the protocol disabled" % want[1]))
            else:
                mism.append((p + "-port", "has no UDP socket on port %d (its UDP sockets: %s)" % (want[1], sorted(udp))))
        for a in sorted(left):
            # a socket no enabled protocol accounts for: a protocol that should be off, the RPC discovery, or a port from elsewhere
            key = None
            for p in PNAMES:
                k = KEY[p + "-port"]
                if a[1] in [k.default] + list(d.prov[k.yaml].values()) + [d.twice.get(k.yaml)]:
                    key = (p + "-enabled") if not d.proto(p)["enabled"] else (p + "-port")
            if a[1] == 1024:
                key = "ipfix-rpc-enabled"
            mism.append((key or "udp-sockets", "listens on UDP %s port %d" % a))
        if E["stats-enabled"]:
            want = bound(E["stats-http-addr"], E["stats-http-port"])
            if want not in tcp:
                same_port = [a for a in tcp if a[1] == want[1]]
                if same_port:
                    mism.append(("stats-http-addr", "serves statistics on %s port %d" % same_port[0]))
                elif tcp:
                    mism.append(("stats-http-port", "serves statistics on %s" % ", ".join("%s port %d" % a for a in sorted(tcp))))
                else:
                    mism.append(("stats-enabled", "has no listening TCP socket"))
        elif tcp:
            mism.append(("stats-enabled", "listens on TCP %s" % ", ".join("%s port %d" % a for a in sorted(tcp))))
        sockets_ok = not mism

        # ---- pid file, verbose
        pidtxt = None
        try:
            pidtxt = open(E["pid-file"]).read()
        except OSError:
            pass
        if pidtxt != str(pid):
            where = [p for p in sorted(set(list(d.prov["pid-file"].values()) + [KEY["pid-file"].default, str(d.twice.get("pid-file"))])) if p != E["pid-file"]
                     and os.path.exists(p) and open(p).read() == str(pid)]
            mism.append(("pid-file", ("wrote its pid to %s" % where[0]) if where else "has not written its pid %d to that file (content: %r)" % (pid, pidtxt)))
            for q in where:
                if not q.startswith(wdir + "/"):
                    os.remove(q)          # a file outside this cycle's directory that holds this collector's pid: its own litter
        if ("the full logging enabled" in stderr_text()) != E["verbose"]:
            mism.append(("verbose", "%s the full logging" % ("did not enable" if E["verbose"] else "enabled")))

        # ---- statistics: which endpoints answer, Workers, MaxProcs
        stats_seen = None
        skipped = None
        if E["stats-enabled"] and sockets_ok:
            sa, sp, sf = E["stats-http-addr"], E["stats-http-port"], E["stats-format"]
            st_flow, _ = http_get(sa, sp, "/flow")
            st_metrics, _ = http_get(sa, sp, "/metrics")
            if st_flow is None or st_metrics is None:
                skipped = "skipped:stats-unreachable"
            else:
                serves = "restful" if (st_flow == 200 and st_metrics == 404) else "prometheus" if (st_metrics == 200 and st_flow == 404) else "/flow %s, /metrics %s" % (st_flow, st_metrics)
                if serves != sf:
                    mism.append(("stats-format", "serves %s" % (serves if serves in ("restful", "prometheus") else "neither format cleanly: " + serves)))
                else:
                    want_w = {sec: (d.proto(p)["workers"] if d.proto(p)["enabled"] else 0) for p, sec, _, _, _, _ in PROTOS}
                    t1 = time.time()
                    while True:
                        stats_seen = read_stats(sf, sa, sp)
                        if stats_seen is None or all(stats_seen[sec]["Workers"] == w for sec, w in want_w.items()) or time.time() - t1 > 5:
                            break
                        time.sleep(0.05)
                    if stats_seen is None:
                        skipped = "skipped:stats-unreachable"
                    else:
                        for p, sec, _, _, _, _ in PROTOS:
                            if stats_seen[sec]["Workers"] != want_w[sec]:
                                key = p + "-workers" if d.proto(p)["enabled"] else p + "-enabled"
                                mism.append((key, "runs %d %s workers" % (stats_seen[sec]["Workers"], p)))
                    if sf == "restful":
                        st, body = http_get(sa, sp, "/sys")
                        try:
                            sysd = json.loads(body) if st == 200 else None
                        except ValueError:
                            sysd = None
                        ncpu = len(os.sched_getaffinity(0))
                        if sysd and sysd.get("NumLogicalCPU") == ncpu:
                            want_mp = gomaxprocs(E["cpu-cap"], ncpu)
                            if want_mp >= 1 and sysd.get("MaxProcs") != want_mp:
                                mism.append(("cpu-cap", "runs with GOMAXPROCS %s (of %d CPUs)" % (sysd.get("MaxProcs"), ncpu)))
                            sample["cpu_cap_observed"] = True

        # ---- probes: every enabled listener gets datagrams on its port; its own counter must count them
        sent = {sec: 0 for _, sec, _, _, _, _ in PROTOS}
        want_dec = dict(sent)
        tplp = {}
        if sockets_ok:
            s4 = socket.socket(socket.AF_INET, socket.SOCK_DGRAM)
            s4.bind(("127.0.0.1", 0))
            s6 = socket.socket(socket.AF_INET6, socket.SOCK_DGRAM) if have_v6() else None
            for p, sec, _, _, _, _ in PROTOS:
                pp = d.proto(p)
                if not pp["enabled"]:
                    continue
                fam, host = host_of(pp["addr"])
                s = s6 if fam == socket.AF_INET6 else s4
                dgrams = []
                if p in ("ipfix", "netflow9"):
                    lo, hi = tpl_probe_lengths(p, pp["udpsize"])
                    dgrams = [(tpl_datagram(p, 256, 24 + 12 if p == "ipfix" else 28 + 12), True), (tpl_datagram(p, 300, lo), True), (tpl_datagram(p, 301, hi), False)]
                    tplp[p] = (lo, hi)
                elif p == "netflow5":
                    nlo = min(30, (pp["udpsize"] - 24) // 48)
                    if nlo >= 1:
                        dgrams.append((e2e.v5_msg(nlo), True))
                    if nlo + 1 <= 30:
                        dgrams.append((e2e.v5_msg(nlo + 1), False))
                    tplp[p] = (24 + 48 * nlo, 24 + 48 * (nlo + 1) if nlo < 30 else None)
                else:
                    dgrams = [(e2e.sflow_msg(), None)]
                for m, dec in dgrams:
                    try:
                        s.sendto(m, (host, pp["port"]))
                    except OSError:
                        continue
                    sent[sec] += 1
                    want_dec[sec] += 1 if dec else 0
            s4.close()
            if s6:
                s6.close()
        probes_ok = False
        if sockets_ok and E["stats-enabled"] and stats_seen is not None and not any(m[0] == "stats-format" for m in mism):
            sa, sp, sf = E["stats-http-addr"], E["stats-http-port"], E["stats-format"]
            t1 = time.time()
            cur = None
            while time.time() - t1 < 6:
                cur = read_stats(sf, sa, sp)
                if cur is None:
                    break
                if all(cur[sec]["UDPCount"] >= sent[sec] for sec in sent) and all(cur[sec]["DecodedCount"] >= want_dec[sec] for sec in sent if sec != "SFlow"):
                    break
                time.sleep(0.03)
            if cur is None:
                skipped = "skipped:stats-unreachable"
            elif sum(cur[sec]["UDPCount"] for sec in sent) < sum(sent.values()):
                skipped = "skipped:probe-lost"          # fewer datagrams arrived than were sent: nothing follows
            elif any(cur[sec]["UDPCount"] != sent[sec] for sec in sent):
                # every probe arrived, but at another listener than the one its port is configured for
                for p, sec, _, _, _, _ in PROTOS:
                    if cur[sec]["UDPCount"] != sent[sec]:
                        mism.append((p + "-port", "counted %d datagrams as %s where %d were sent to port %s" % (cur[sec]["UDPCount"], p, sent[sec], d.proto(p)["port"])))
            else:
                probes_ok = True
                time.sleep(0.1)
                cur = read_stats(sf, sa, sp) or cur
                for p, sec, _, _, _, _ in PROTOS:
                    if p in tplp and p in ("ipfix", "netflow9", "netflow5") and d.proto(p)["enabled"] and cur[sec]["DecodedCount"] != want_dec[sec]:
                        lo, hi = tplp[p]
                        mism.append((p + "-udp-size", "decoded %d of the %d probes (the %d-octet one must be decoded%s)" % (
                            cur[sec]["DecodedCount"], sent[sec], lo, ", the %d-octet one must arrive cut" % hi if hi else "")))
        elif sockets_ok:
            time.sleep(0.3)       # no counters to poll: the templates get a moment, the cache files are judged by existence only

        # ---- stop
        t_stop = time.time()
        proc.send_signal(signal.SIGTERM)
        try:
            rc = proc.wait(timeout=25)
        except subprocess.TimeoutExpired:
            proc.kill()
            proc.wait()
            rc = "timeout"
        lat = time.time() - t_stop
        errf.close()
        lg = logs()
        sample.update({"exit": rc, "latency_s": round(lat, 2)})
        if any(w in lg for w in ("panic:", "fatal error")):
            i = max(lg.find("panic:"), lg.find("fatal error"))
            return "crashed", "fail:crash the collector crashed: " + lg[max(0, i - 100):i + 500].replace("\n", " | "), d.sample(True)
        if mism and rc != 0:
            # a setting already seen to differ explains more than the way the stop went wrong
            return "mismatch " + mism[0][0], verdict() + " [and the stop: %s]" % ("no exit within 25 s of SIGTERM" if rc == "timeout" else "exit status %s" % rc), d.sample(True)
        if rc == "timeout":
            return "exit=timeout", "fail:latency no exit within 25 s of SIGTERM", d.sample(True)
        if rc != 0:
            return "exit=%s" % rc, "fail:exit status %s after SIGTERM: %s" % (rc, lg[-300:].replace("\n", " | ")), d.sample(True)

        # ---- log file, lines that one value of a boolean produces
        welcome = "Welcome to vFlow"
        if E["log-file"] == "":
            if welcome not in stderr_text():
                where = [p for p in log_candidates if os.path.exists(p) and welcome in open(p, errors="replace").read()]
                mism.append(("log-file", "logs to %s" % (where[0] if where else "neither standard error nor a file named by any source")))
        else:
            try:
                in_file = welcome in open(E["log-file"], errors="replace").read()
            except OSError:
                in_file = False
            if not in_file:
                where = [p for p in log_candidates if p != E["log-file"] and os.path.exists(p) and welcome in open(p, errors="replace").read()]
                mism.append(("log-file", "logs to %s" % (where[0] if where else "standard error" if welcome in stderr_text() else "nowhere")))
        n_on = sum(1 for p in PNAMES if d.proto(p)["enabled"])
        n_dyn = sum(lg.count(p[5]) for p in PROTOS)
        if n_dyn != (0 if E["dynamic-workers"] else n_on):
            mism.append(("dynamic-workers", "reported %d of %d listeners without dynamic workers" % (n_dyn, n_on)))
        started_stats = "restful" if "starting stats http server" in lg else "prometheus" if "starting prometheus http server" in lg else None
        if started_stats != (E["stats-format"] if E["stats-enabled"] else None) and not any(m[0].startswith("stats-") for m in mism):
            mism.append(("stats-enabled" if (started_stats is None) == E["stats-enabled"] else "stats-format",
                         "started %s" % ("the %s statistics server" % started_stats if started_stats else "no statistics server")))
        if "producer message queue has been disabled" not in lg:
            mism.append(("producer-enabled", "did not disable the producer"))
        if "RPC has been disabled" in lg or "ipfix RPC enabled" in lg:
            mism.append(("ipfix-rpc-enabled", "started the IPFIX RPC discovery"))
        for p, _, _, run_line, off_line, _ in PROTOS:
            if (off_line in lg) == d.proto(p)["enabled"] and not any(m[0].startswith(p + "-") for m in mism):
                mism.append((p + "-enabled", "%s" % ("reported it disabled" if d.proto(p)["enabled"] else "did not report it disabled")))

        # ---- template cache files
        for p in ("ipfix", "netflow9"):
            pp = d.proto(p)
            got = cache_templates(pp["cache"])
            # other values some source gave for the path: a file there is evidence when it lies in this cycle's own directory, or
            # (the default under /tmp, which any process may write: only named in the message, never the reason of a verdict) when
            # it was written after the start
            cands = [q for q in sorted(set([v for v in d.prov[p + "-tpl-cache-file"].values()] + [str(d.twice.get(p + "-tpl-cache-file"))])) if q != pp["cache"] and os.path.exists(q)]
            others = [q for q in cands if q.startswith(wdir + "/")]
            hint = [q for q in cands if q not in others and os.path.getmtime(q) >= t_start]
            if not pp["enabled"]:
                if got is not None or others:
                    mism.append((p + "-enabled", "wrote the template cache file %s" % (others[0] if others else pp["cache"])))
                continue
            if got is None:
                mism.append((p + "-tpl-cache-file", ("saved its templates to %s" % others[0]) if others else "saved no template cache file there" +
                             (" (%s was written meanwhile)" % hint[0] if hint else "")))
            elif got == "bad":
                mism.append((p + "-tpl-cache-file", "left a file there that is not a template cache document"))
            elif probes_ok and p in tplp and not any(m[0] == p + "-udp-size" for m in mism):
                lo, hi = tplp[p]
                if 256 not in got or 300 not in got or 301 in got:
                    mism.append((p + "-udp-size", "saved the templates %s (256 and the %d-octet announcement 300 must be there, the %d-octet announcement 301 must have arrived cut)" % (sorted(got), lo, hi)))
        if mism:
            return "mismatch " + mism[0][0], verdict(), d.sample(True)
        if skipped:
            return skipped, "", sample
        sample["probes"] = probes_ok
        return "settings-as-documented", "ok", sample
    finally:
        if proc.poll() is None:
            proc.kill()
            proc.wait()
        if not errf.closed:
            errf.close()
        shutil.rmtree(wdir, ignore_errors=True)


# ---------------------------------------------------------------- a value that cannot be parsed

ERROR_CLASSES = ["env-int", "env-bool", "flag-int", "flag-bool", "flag-unknown", "flag-no-value", "flag-documented-spelling", "help",
                 "flag-bool-two-words", "stray-word"]


def error_cycle(n, seed, binary):
    """a start that must fail: (impl_line, verdict, sample). On top of a small valid configuration (fresh ports, private
    files) one source carries a value that cannot be parsed; half of the time a higher source gives a valid value for the
    same key (the start must fail all the same: every source is read)"""
    rng = random.Random(seed * 1000003 + n * 104729 + 3)
    wdir = os.path.join(C.WORK, "e2e-settings-err-%d-%d-%d" % (os.getpid(), seed, n))
    shutil.rmtree(wdir, ignore_errors=True)
    os.makedirs(wdir)
    cls = ERROR_CLASSES[n % len(ERROR_CLASSES)]
    udp_ports, tcp_ports = fresh_ports(4, 1)
    args = ["-config", os.path.join(wdir, "absent.conf"), "-pid-file", os.path.join(wdir, "pid"),
            "-stats-http-port", str(tcp_ports[0]), "-stats-http-addr", "127.0.0.1", "-producer-enabled=false", "-ipfix-rpc-enabled=false",
            "-ipfix-tpl-cache-file", os.path.join(wdir, "i.cache"), "-netflow9-tpl-cache-file", os.path.join(wdir, "n.cache")]
    for p, port in zip(PNAMES, udp_ports):
        args += ["-%s-port" % p, str(port)]
    env = {k: v for k, v in os.environ.items() if not k.upper().startswith("VFLOW_")}
    ints = [k for k in KEYS if k.kind == "i"]
    bools = [k for k in KEYS if k.kind == "b"]
    want_rc, must_name = 2, None
    if cls == "env-int":
        k, bad = rng.choice(ints), rng.choice(["abc", "12x", "yes", " 1", "1.5", "0x10"])
        env[k.env] = bad
        if rng.random() < 0.5 and not k.role.startswith("port:"):
            args += ["-" + k.flag, "7"]
        want_rc, must_name, what = 1, ['"%s"' % bad, k.env, k.yaml], "%s=%r in the environment" % (k.env, bad)
    elif cls == "env-bool":
        k, bad = rng.choice(bools), rng.choice(["abc", "yes", "no", "2", "on", " true"])
        env[k.env] = bad
        if rng.random() < 0.5 and k.role not in ("producer", "rpc"):
            args += ["-%s=true" % k.flag]
        want_rc, must_name, what = 1, ['"%s"' % bad, k.env, k.yaml], "%s=%r in the environment" % (k.env, bad)
    elif cls == "flag-int":
        k, bad = rng.choice([k for k in ints if not k.role.startswith("port:")]), rng.choice(["abc", "12x", "1.5", ""])
        args += ["-" + k.flag, bad] if rng.random() < 0.5 else ["-%s=%s" % (k.flag, bad)]
        must_name, what = ["-" + k.flag], "-%s %r on the command line" % (k.flag, bad)
    elif cls == "flag-bool":
        k, bad = rng.choice([k for k in bools if k.role not in ("producer", "rpc")]), rng.choice(["maybe", "yes", "2", ""])
        args += ["-%s=%s" % (k.flag, bad)]
        must_name, what = ["-" + k.flag], "-%s=%s on the command line" % (k.flag, bad)
    elif cls == "flag-unknown":
        args.insert(rng.randrange(0, len(args), 2) if False else 0, "-no-such-flag")
        must_name, what = ["-no-such-flag"], "-no-such-flag on the command line"
    elif cls == "flag-no-value":
        k = rng.choice([k for k in KEYS if k.kind != "b" and not k.must])
        args += ["-" + k.flag]
        must_name, what = ["-" + k.flag], "-%s as the last word, without its value" % k.flag
    elif cls == "flag-documented-spelling":
        # docs/config.md: "-key value"; three keys are registered under another spelling (recorded in DESIGN §6 C17): the
        # documented spelling is refused, it is never silently ignored
        k = rng.choice([k for k in KEYS if k.flag != k.yaml])
        args += ["-" + k.yaml, "1000"]
        must_name, what = ["-" + k.yaml], "-%s 1000 (the documented spelling of -%s)" % (k.yaml, k.flag)
    elif cls in ("flag-bool-two-words", "stray-word"):
        # F31: a word that is neither a flag nor the value of one. docs/config.md writes `-key value` for every key; for a boolean
        # flag package flag never takes the next word, and its first positional argument ends the parsing: what stands behind
        # it was silently dropped. The collector must refuse such a command line (status 2, a message quoting the word) — it
        # takes no positional arguments at all. The word stands behind the ports and files of this cycle, a flag follows it
        # (a collector that starts all the same does so on this cycle's private ports and files).
        if cls == "flag-bool-two-words":
            k = rng.choice([k for k in bools if k.role not in ("producer", "rpc")])
            w = rng.choice(["true", "false", "1", "0", "t", "f", "T", "F", "TRUE", "FALSE", "True", "False"])
            args += [rng.choice(["-", "--"]) + k.flag, w]
            what = "-%s %s (a boolean in the documented `-key value` form) followed by another flag" % (k.flag, w)
        else:
            w = rng.choice(["stray", "vflow.conf", "7000", "start", "-", "--"])
            args += [w]
            what = "the stray word %r followed by another flag" % w
        tail = ["-%s-workers" % rng.choice(PNAMES), "7"]
        args += tail
        must_name = ['"%s"' % (tail[0] if w == "--" else w)]
    else:
        args.append(rng.choice(["-h", "-help", "--help"]))
        want_rc, must_name, what = 0, ["-ipfix-port", "-config"], args[-1]
    sample = {"class": cls, "given": what}
    errpath = os.path.join(wdir, "stderr.log")
    errf = open(errpath, "wb")
    proc = subprocess.Popen([binary] + args, stdout=errf, stderr=errf, cwd=wdir, env=env)
    try:
        t0 = time.time()
        started = False
        while proc.poll() is None and time.time() - t0 < 30:
            lg = open(errpath, "rb").read()
            snap = proc_sockets(proc.pid)
            if b"is running (UDP" in lg or (snap and (snap[0] or snap[1])):
                started = True
                break
            time.sleep(0.02)
        rc = proc.poll()
        if rc is None and not started:
            return "skipped:slow-start", "", sample          # neither ended nor started within 30 s: nothing can be said
        if rc is None:
            proc.kill()
            proc.wait()
        errf.close()
        lg = open(errpath, "rb").read().decode("utf-8", "replace")
        if any(w in lg for w in ("panic:", "fatal error")):
            i = max(lg.find("panic:"), lg.find("fatal error"))
            return "crashed", "fail:crash the collector crashed on %s: %s" % (what, lg[max(0, i - 100):i + 400].replace("\n", " | ")), sample
        if started:
            return "started", "fail:parse-error %s: the collector started (it must end with status %d)" % (what, want_rc), sample
        if rc != want_rc:
            return "exit=%s" % rc, "fail:parse-error %s: the collector ended with status %s, not %d: %s" % (what, rc, want_rc, lg[-200:].replace("\n", " | ")), sample
        if not any(w in lg for w in must_name):
            return "exit=%s unnamed" % rc, "fail:parse-error %s: ended with status %d but its message names neither the key nor the value: %s" % (what, rc, lg[-200:].replace("\n", " | ")), sample
        return "refused exit=%d %s" % (rc, cls), "ok", sample
    finally:
        if proc.poll() is None:
            proc.kill()
            proc.wait()
        if not errf.closed:
            errf.close()
        shutil.rmtree(wdir, ignore_errors=True)


# ---------------------------------------------------------------- the extra of C17

def settings_cycles(pid, tier, seed):
    r = e2e.E2EResult()
    r.name = KIND
    ok, binary, err = e2e.build_binary()
    if not ok:
        r.oracle_fail.append({"kind": KIND, "seed": seed, "session": ["build"], "verdict": "fail:build vflow binary does not build: " + err[-300:], "impl": ""})
        r.summary = {"built": False}
        return r
    n, n_err = (8, len(ERROR_CLASSES)) if tier == "quick" else (400, 10 * len(ERROR_CLASSES))
    import concurrent.futures as cf
    agg = {"provided": {s: 0 for s in SRC}, "decided_by": {s: 0 for s in ("cli", "file", "env", "default")}, "config_flag": {}, "stats": {},
           "probes_counted": 0, "cpu_cap_observed": 0}
    lat = []
    confirmed = set()

    def collect(tag, fn, futs):
        for i, f in enumerate(futs):
            line, verdict, sample = f.result()
            # a finding must reproduce: the same cycle is run again, alone, up to two more times (every observation waits for
            # the collector, and the machine may be loaded); a crash is reported as it is
            # (once a finding about a key has reproduced, further cycles that report the same key add nothing and are taken as they are)
            cls = " ".join(verdict.split(" ")[:2])
            if verdict.startswith("fail") and not verdict.startswith("fail:crash") and cls not in confirmed:
                for _ in range(2):
                    line2, verdict2, sample2 = fn(i, seed, binary)
                    if not verdict2.startswith("fail"):
                        r.stats["unconfirmed-once"] = r.stats.get("unconfirmed-once", 0) + 1
                        line, verdict, sample = line2, verdict2, sample2
                        break
                else:
                    confirmed.add(cls)
            r.evaluations += 1
            case = "%s %d seed %d %s" % (tag, i, seed, json.dumps(sample))
            r.stats[line] = r.stats.get(line, 0) + 1
            if verdict == "ok":
                r.oracle_ok += 1
                r.distinct.add(case)
                if "latency_s" in sample:
                    lat.append(sample["latency_s"])
            elif verdict.startswith("fail"):
                r.oracle_fail.append({"kind": KIND, "seed": seed, "session": [case], "verdict": verdict, "impl": line})
            if tag == "settings-cycle" and "provided" in sample:
                for s in SRC:
                    agg["provided"][s] += sample["provided"][s]
                for s, v in sample["decided_by"].items():
                    agg["decided_by"][s] += v
                agg["config_flag"][sample["config_flag"]] = agg["config_flag"].get(sample["config_flag"], 0) + 1
                agg["stats"][sample["stats"]] = agg["stats"].get(sample["stats"], 0) + 1
                agg["probes_counted"] += 1 if sample.get("probes") else 0
                agg["cpu_cap_observed"] += 1 if sample.get("cpu_cap_observed") else 0
            if len(r.samples) < 3 and verdict == "ok":
                r.samples.append({"case": case, "impl": line})

    with cf.ThreadPoolExecutor(max_workers=8 if tier == "quick" else 12) as ex:
        fs = [ex.submit(settings_cycle, i, seed, binary) for i in range(n)]
        fe = [ex.submit(error_cycle, i, seed, binary) for i in range(n_err)]
        collect("settings-cycle", settings_cycle, fs)
        collect("settings-error-cycle", error_cycle, fe)
    r.summary = {"cycles": n, "parse_error_cycles": n_err, "keys_per_cycle": len(KEYS), "ok": r.oracle_ok, "failed": len(r.oracle_fail),
                 "skipped": {k: v for k, v in r.stats.items() if k.startswith("skipped:")},
                 "key_source_pairs_provided": agg["provided"], "keys_decided_by": agg["decided_by"], "config_flag_spellings": agg["config_flag"],
                 "statistics_server": agg["stats"], "cycles_with_every_probe_counted": agg["probes_counted"], "cycles_with_GOMAXPROCS_observed": agg["cpu_cap_observed"],
                 "max_exit_latency_s": max(lat) if lat else None, "distribution": r.stats}
    return r


def replay_cycle(tag, n, seed, binary):
    return (settings_cycle if tag == "settings-cycle" else error_cycle)(n, seed, binary)


if __name__ == "__main__":
    # python3 e2e_e2esettings.py [draw|run|err] <n> [seed]: show the draws / run single cycles by hand
    what, cnt, seed = sys.argv[1], int(sys.argv[2]), int(sys.argv[3]) if len(sys.argv) > 3 else 1
    if what == "draw":
        for i in range(cnt):
            u, t = fresh_ports(18, 5)
            d = Draw(i, seed, "/W", u, t)
            print(json.dumps(d.sample(True), indent=1))
            for k in KEYS:
                print("  %-26s %s" % (k.yaml, d.describe(k.yaml)))
    else:
        ok, binary, err = e2e.build_binary()
        for i in range(cnt):
            t0 = time.time()
            res = (settings_cycle if what == "run" else error_cycle)(i, seed, binary)
            print(i, round(time.time() - t0, 2), res[0], "|", res[1][:700], "|", json.dumps(res[2])[:300])
