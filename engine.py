"""Generic per-property flow (see check.py docstring and DESIGN.md §2.4)."""
import os, re, json, time, subprocess
import check as C

ALLOWED_AXIOMS = {"propext", "Classical.choice", "Quot.sound"}
FORBIDDEN = re.compile(r"\b(sorry|admit|native_decide|bv_decide|implemented_by)\b|^\s*axiom\s|\bunsafe\s|maxHeartbeats\s+0")


def strip_comments(src):
    src = re.sub(r"/-.*?-/", "", src, flags=re.S)
    return "\n".join(l.split("--")[0] for l in src.split("\n"))


def grep_forbidden(modules):
    hits = []
    for m in modules:
        p = os.path.join(C.LEAN, m.replace(".", "/") + ".lean")
        if not os.path.exists(p):
            continue
        for i, l in enumerate(strip_comments(open(p).read()).split("\n")):
            if FORBIDDEN.search(l):
                hits.append("%s:%d: %s" % (m, i + 1, l.strip()[:120]))
    return hits


def theorem_names(module):
    """fully qualified names of the theorems declared in a module file."""
    p = os.path.join(C.LEAN, module.replace(".", "/") + ".lean")
    names, ns = [], []
    if not os.path.exists(p):
        return names
    for line in strip_comments(open(p).read()).split("\n"):
        m = re.match(r"\s*namespace\s+([\w.]+)", line)
        if m:
            ns.append(m.group(1))
            continue
        m = re.match(r"\s*end\s+([\w.]+)\s*$", line)
        if m and ns and ns[-1] == m.group(1):
            ns.pop()
            continue
        m = re.match(r"\s*(?:private\s+|protected\s+)?(?:theorem|lemma)\s+([^\s:(\[{]+)", line)
        if m:
            names.append(".".join(ns + [m.group(1)]))
    return names


def audit_axioms(pid, module):
    """#print axioms on every theorem of the property module; returns (ok, report, n)."""
    names = theorem_names(module)
    if not names:
        return True, "no theorems", 0
    src = "import %s\n" % module + "".join("#print axioms %s\n" % n for n in names)
    os.makedirs(C.WORK, exist_ok=True)
    f = os.path.join(C.WORK, "Audit_%s.lean" % pid)
    open(f, "w").write(src)
    rc, out, err = C.sh(["lake", "env", "lean", f], cwd=C.LEAN)
    txt = out + err
    bad = []
    used = set()
    for m in re.finditer(r"'([^']+)' depends on axioms: \[([^\]]*)\]", txt):
        ax = {a.strip() for a in m.group(2).replace("\n", " ").split(",") if a.strip()}
        used |= ax
        if not ax <= ALLOWED_AXIOMS:
            bad.append("%s: %s" % (m.group(1), sorted(ax - ALLOWED_AXIOMS)))
    if rc != 0:
        bad.append("audit file failed to elaborate: " + txt[-300:])
    return not bad, {"theorems": len(names), "axioms_used": sorted(used), "offending": bad}, len(names)


def first_errors(buildlog, k=6):
    errs = [l for l in buildlog.split("\n") if re.search(r"error:|✖|failed", l)]
    return errs[:k]


def run_property(pid, spec, tier, seed, t0):
    quick = tier == "quick"
    broken = []          # names of proof obligations / correspondences that no longer check
    notes = []
    module = spec.get("module", "Vflow.Props." + pid)
    closure = C.module_closure(module)

    ok, msg = C.prepare()
    harness_ok = ok
    if not ok:
        broken.append("prepare: " + msg.strip().split("\n")[0][:300])
        notes.append(msg[-1500:])

    # ---- proofs
    pok, plog = C.lake_build([module])
    if not pok:
        errs = first_errors(plog)
        broken.append("lake build %s: %s" % (module, " | ".join(e.strip()[:200] for e in errs[:3])))
        notes.append("\n".join(errs))
    dok, dlog = C.lake_build(["vfmodel"])
    model_ok = dok
    if not dok:
        broken.append("lake build vfmodel (model driver): " + " | ".join(e.strip()[:200] for e in first_errors(dlog)[:2]))
    obligations, _ = C.count_obligations(closure)
    discharged = obligations if pok else 0
    if not pok:
        # modules of the closure that did build still count as discharged
        good = 0
        for m in closure:
            if m == module:
                continue
            if os.path.exists(os.path.join(C.LEAN, ".lake", "build", "lib", "lean", m.replace(".", "/") + ".olean")) and \
               not re.search(r"✖.*\b%s\b" % re.escape(m), plog):
                good += C.count_obligations([m])[0]
        discharged = good
    forb = grep_forbidden(closure)
    if forb:
        broken.append("forbidden construct in proof sources: " + "; ".join(forb[:3]))
    audit = None
    if pok:
        aok, audit, _ = audit_axioms(pid, module)
        if not aok:
            broken.append("axiom audit: " + json.dumps(audit["offending"])[:300])
    checker = "cd lean && lake build %s && lake env lean .work/Audit_%s.lean (#print axioms)" % (module, pid)
    if pok and not quick and spec.get("leanchecker", True):
        rc, out, err = C.sh(["lake", "env", "leanchecker", module], cwd=C.LEAN)
        checker += " && lake env leanchecker " + module
        if rc != 0:
            broken.append("leanchecker %s failed: %s" % (module, (out + err)[-200:]))

    # ---- correspondence + oracle
    tot = C.CorrResult()
    per_kind = {}
    if harness_ok:
        for c in spec.get("corr", []):
            kind = c["kind"]
            if "runner" in c:
                C.RUNNERS[kind] = c["runner"]
            n = c["quick"] if quick else c["thorough"]
            env = dict(c.get("env") or {}, VERIF_PROP=pid)   # the harness names a recorded finding only in its own property's run
            # a second entry of the same kind (another environment) carries a label and its own seed offset
            label = c.get("label", kind)
            r = C.run_corpus(pid, kind, compare_model=model_ok) if label == kind else C.CorrResult()
            r.merge(C.run_corr(kind, seed + c.get("seed_offset", 0), n, compare_model=model_ok and c.get("model", True), extra_env=env))
            per_kind[label] = {"evaluations": r.evaluations, "compared_with_model": r.compared,
                              "disagreements": len(r.disagreements), "oracle_ok": r.oracle_ok,
                              "oracle_fail": len(r.oracle_fail), "hangs": r.hangs,
                              "distribution": dict(sorted(r.stats.items(), key=lambda kv: -kv[1])[:25])}
            tot.merge(r)
        for ex in spec.get("extra", []):
            r = ex(pid, tier, seed)
            per_kind[r.name] = r.summary
            tot.merge(r)

    # ---- a timeout / resource verdict alone is never reported: the same session must fail again, three times,
    #      in isolation, with a 10x longer watchdog (a loaded machine must not raise a false alarm)
    transient = 0
    confirmed = []
    dropped = set()
    confirmed_classes, reruns, surplus = set(), 0, 0
    for f in tot.oracle_fail:
        v = f.get("verdict", "")
        if f.get("kind", "").startswith("e2e") or not (v.startswith("fail:hang") or v.startswith("fail:process died") or v.startswith("fail:alloc")):
            confirmed.append(f)
            continue
        # at most five such cases are re-run (each costs up to 3 x 10 s); once one is confirmed the others of its class
        # add nothing to the verdict and are dropped unexamined, so a change that makes hundreds of cases hang is
        # reported in minutes, not hours
        cls = C.verdict_class(v)
        if cls in confirmed_classes or reruns >= 5:
            dropped.add((f["kind"], f["session"][-1]))
            surplus += 1
            continue
        reruns += 1
        again = 0
        for _ in range(3):
            try:
                go = C.run_go(f["kind"], f["session"], watchdog_ms=10000, extra_env=f.get("env"))
                if go[-1] is not None and go[-1][1].startswith("fail"):
                    again += 1
                else:
                    break
            except Exception:
                again += 1
        if again == 3:
            confirmed.append(f)
            confirmed_classes.add(cls)
        else:
            transient += 1
            dropped.add((f["kind"], f["session"][-1]))
    tot.oracle_fail = confirmed
    # the model naturally differs from an implementation line that is only a timeout artefact: drop those too
    tot.disagreements = [d for d in tot.disagreements if (d["kind"], d["session"][-1]) not in dropped]

    # a disagreement between the model and an implementation that runs real goroutines, sockets and timers (the hook
    # kinds) must reproduce: the same session is run again alone, up to three times; if the implementation then
    # prints what the model prints, its first output was a scheduling artefact of a loaded machine, not a difference
    # (the property oracle has judged every run on its own anyway). Deterministic kinds always reproduce.
    transient_dis = 0
    if 0 < len(tot.disagreements) <= 20:
        kept = []
        for d in tot.disagreements:
            same = 0
            try:
                for _ in range(3):
                    go = C.run_go(d["kind"], d["session"], watchdog_ms=10000, extra_env=d.get("env"))
                    if go[-1] is not None and go[-1][0] == d["model"]:
                        same += 1
                        break
            except Exception:
                pass
            if same:
                transient_dis += 1
            else:
                kept.append(d)
        tot.disagreements = kept
    if tot.disagreements:
        d = tot.disagreements[0]
        broken.append("correspondence %s: model and implementation differ on %d case(s), first: %s"
                      % (d["kind"], len(tot.disagreements), d["session"][-1][:160]))

    # ---- decide
    fails = list(tot.oracle_fail)
    known_hits, new_fails = {}, []
    for f in fails:
        k = C.match_known(pid, f)
        if k:
            known_hits.setdefault(k["id"], (k, f))
        else:
            new_fails.append(f)

    # search mode: something is broken but the standard budget found no failing input
    searched = 0
    if broken and not new_fails and harness_ok:
        for c in spec.get("corr", []):
            n = (c["quick"] if quick else c["thorough"]) * spec.get("search_factor", 3)
            r = C.run_corr(c["kind"], seed + 7919, n, compare_model=False, extra_env=dict(c.get("search_env", c.get("env")) or {}, VERIF_PROP=pid))
            searched += r.evaluations
            for f in r.oracle_fail:
                if not C.match_known(pid, f):
                    new_fails.append(f)
            if new_fails:
                break

    # known findings listed for this property are re-demonstrated (their matcher must still hit
    # when the corpus holds their witness); print one line each
    for kid, (k, f) in known_hits.items():
        C.log("KNOWN-FINDING: property=%s %s" % (pid, k["what"]))

    violations = 0
    replay = None
    if new_fails:
        f = new_fails[0]
        sess = f["session"]
        try:
            if len(sess) > 2:
                want = C.verdict_class(f["verdict"])
                sess = C.shrink_session(f["kind"], sess, lambda s: C.fails_again(f["kind"], s, want, f["impl"], f.get("env")))
        except Exception as e:  # shrinking is best effort
            notes.append("shrink failed: %r" % e)
        replay = C.write_replay(pid, seed, {"property": pid, "kind": f["kind"], "session": sess,
                                            "oracle_verdict": f["verdict"], "impl_output": f["impl"], "env": f.get("env"),
                                            "broken": broken, "failing_cases_found": len(new_fails)})
        violations = len(new_fails)
        C.log("VIOLATION property=%s replay=%s" % (pid, replay))
    elif broken:
        payload = {"property": pid, "no_failing_input_found": True, "no_longer_checks": broken,
                   "searched_cases": searched + tot.evaluations, "notes": notes}
        if tot.disagreements:
            d = tot.disagreements[0]
            payload.update({"kind": d["kind"], "session": d["session"], "impl_output": d["impl"], "model_output": d["model"], "env": d.get("env")})
        replay = C.write_replay(pid, seed, payload)
        violations = 1
        C.log("VIOLATION property=%s replay=%s no-failing-input-found" % (pid, replay))

    cov = {
        "obligations": max(obligations, 1), "discharged": discharged,
        "checker_cmd": checker, "trusted_base": C.TRUSTED + spec.get("trusted", []),
        "proof_modules": closure, "axiom_audit": audit,
        "evaluations": tot.evaluations, "distinct_nontrivial": len(tot.distinct),
        "rule": spec.get("rule", "cases from the structured generators (DESIGN.md §5); non-trivial = the implementation "
                         "produced a non-error result; distinct = distinct case line (md5)"),
        "samples": (tot.samples[:4] or [{"obligation": n} for n in theorem_names(module)[:4]]),
        "compared_with_model": tot.compared, "disagreements": len(tot.disagreements),
        "oracle_ok": tot.oracle_ok, "oracle_fail": len(fails), "known_findings_hit": sorted(known_hits),
        "per_kind": per_kind, "broken": broken, "search_mode_cases": searched,
        "transient_timeouts_not_confirmed": transient, "timeout_cases_beyond_the_first_confirmed": surplus, "transient_disagreements_not_reproduced": transient_dis,
    }
    if spec.get("exhaustive"):
        cov["exhaustive"] = True
    if not quick and harness_ok and os.environ.get("VERIF_NO_CODECOV") != "1":
        # evidence only (never a verdict): which statements of the anchored Go files this property's case streams reach
        try:
            import codecov
            cov["anchored_code_coverage"] = codecov.measure(pid, spec, seed)
        except Exception as e:
            cov["anchored_code_coverage"] = {"error": repr(e)[:300]}
    C.write_evidence(pid, tier, seed, t0, cov, violations, spec.get("assumptions", []))
    C.log("%s %s: obligations %d/%d, cases %d (compared %d, disagreements %d), oracle ok %d fail %d, %.1fs"
          % (pid, tier, discharged, obligations, tot.evaluations, tot.compared, len(tot.disagreements),
             tot.oracle_ok, len(fails), time.time() - t0))
    return 1 if violations else 0
