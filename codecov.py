"""Statement coverage of the property's anchored Go files by this run's correspondence cases (thorough tier).

Evidence only: it never contributes to a verdict.  The harness binary is rebuilt with `go build -cover` over every
package of the repository, each correspondence kind of the property re-runs its quick-size case stream under it
(hook kinds: `go test -cover -coverprofile`), the profiles are merged and the blocks of the files named in the
property's `anchors.files` are reported: statements, covered statements, and the line ranges no case reached.
An uncovered block is a pointer for the next generator widening or audit, not a failure."""
import json, os, re, shutil, subprocess, tempfile
import check as C

PKGS = "all"


def _anchor_files(pid):
    for l in open(os.path.join(C.ROOT, "properties.jsonl")):
        d = json.loads(l)
        if d["id"] == pid:
            return [f for f in d["anchors"]["files"] if f.endswith(".go")]
    return []


def _parse(profile, blocks):
    for l in open(profile, errors="replace"):
        m = re.match(r"(.+):(\d+)\.(\d+),(\d+)\.(\d+) (\d+) (\d+)$", l.strip())
        if not m:
            continue
        f = m.group(1)
        if "github.com/EdgeCast/vflow/" in f:
            f = f.split("github.com/EdgeCast/vflow/", 1)[1]
        key = (f, int(m.group(2)), int(m.group(4)), int(m.group(3)), int(m.group(5)))
        n, c = int(m.group(6)), int(m.group(7))
        old = blocks.get(key)
        blocks[key] = (n, max(c, old[1]) if old else c)


def measure(pid, spec, seed, budget_s=600):
    files = _anchor_files(pid)
    if not files:
        return {"note": "no Go file among the property's anchors"}
    tmp = tempfile.mkdtemp(prefix="vfcov-", dir=C.WORK if os.path.isdir(C.WORK) else None)
    blocks, ran, skipped = {}, [], []
    try:
        cover_bin = os.path.join(tmp, "corr.cover")
        rc, out, err = C.sh(["go", "build", "-tags", "verif", "-cover", "-coverpkg=" + PKGS, "-o", cover_bin, "./cmd/corr"], cwd=C.GO, env=C.GOENV)
        have_bin = rc == 0
        import time
        t0 = time.time()
        for i, c in enumerate(spec.get("corr", [])):
            if time.time() - t0 > budget_s:
                skipped.append(c.get("label") or c["kind"])
                continue
            kind, n = c["kind"], c.get("quick", 200)
            label = c.get("label") or kind
            env = dict(C.GOENV, **dict(c.get("env") or {}, VERIF_PROP=pid))
            try:
                lines = C.gen_cases(kind, (seed + c.get("seed_offset", 0)) * 1000 + 7, n, dict(c.get("env") or {}, VERIF_PROP=pid))
            except Exception as e:
                skipped.append("%s (%r)" % (label, e))
                continue
            chunk = "\n".join(lines) + "\n"
            rn = c.get("runner")
            prof = os.path.join(tmp, "p%d.txt" % i)
            if rn is None:
                if not have_bin:
                    skipped.append(label + " (cover build failed)")
                    continue
                cd = os.path.join(tmp, "cd%d" % i)
                os.makedirs(cd)
                subprocess.run(["bash", "-c", "ulimit -v 12000000; exec %s run %s" % (cover_bin, kind)], input=chunk, capture_output=True,
                               text=True, errors="replace", env=dict(env, GOCOVERDIR=cd), timeout=1800)
                C.sh(["go", "tool", "covdata", "textfmt", "-i=" + cd, "-o=" + prof], cwd=C.GO, env=C.GOENV)
            else:
                fin, fout = os.path.join(tmp, "in%d" % i), os.path.join(tmp, "out%d" % i)
                open(fin, "w").write(chunk)
                cmd = ["go", "test", "-tags", "verif", "-vet=off", "-count=1", "-run", "^%s$" % rn["test"], "-cover", "-coverpkg=" + PKGS,
                       "-coverprofile=" + prof, "-timeout", rn.get("timeout", "20m"), rn["pkg"]]
                subprocess.run(cmd, cwd=C.REPO, env=dict(env, VERIF_IN=fin, VERIF_OUT=fout, VERIF_KIND=kind), capture_output=True, text=True, errors="replace")
            if os.path.exists(prof):
                _parse(prof, blocks)
                ran.append("%s (%d cases)" % (label, len(lines)))
            else:
                skipped.append(label + " (no profile)")
        res = {}
        for f in files:
            bl = sorted(k for k in blocks if k[0] == f)
            if not bl:
                res[f] = {"statements": 0, "note": "not compiled into any harness of this property's kinds"}
                continue
            st = sum(blocks[k][0] for k in bl)
            cv = sum(blocks[k][0] for k in bl if blocks[k][1] > 0)
            unc, cur = [], None
            for k in bl:
                if blocks[k][1] > 0 or blocks[k][0] == 0:
                    continue
                if cur and k[1] <= cur[1] + 1:
                    cur[1] = max(cur[1], k[2])
                else:
                    cur = [k[1], k[2]]
                    unc.append(cur)
            res[f] = {"statements": st, "covered": cv, "percent": round(100.0 * cv / st, 1) if st else None,
                      "uncovered_lines": ["%d-%d" % (a, b) if a != b else str(a) for a, b in unc][:60]}
        return {"how": "go build / go test -cover -coverpkg=all; every correspondence kind of the property re-runs its quick-size stream under it; statement blocks of the property's anchored Go files (the end-to-end cycles of the real binary and the search mode are not measured)",
                "kinds_run": ran, "kinds_skipped": skipped, "files": res}
    finally:
        shutil.rmtree(tmp, ignore_errors=True)
