"""End-to-end TRAFFIC cycles of the built vflow binary (C01, C02, C13): the observation points of these properties that
are on the running collector — process liveness / exit status, RSS, the /flow statistics API and the lines at the
message-queue sink — watched on the unmodified binary, not inside `go test`.

One cycle (traffic_cycle):
  * a TCP sink of the harness is started, then the real binary with all four listeners, the producer enabled
    (`-mqueue rawSocket`, mq.conf in the cycle's private configuration directory pointing at the sink), fresh template
    cache files, W workers per protocol, read buffers of 1500 or 9000 octets;
  * streams of the framework's own generators (`corr gen ipfix|nf9|nf5|sflow`: mixed well-formed / malformed, hostile
    templates) are sent to the four UDP ports. Every session of the IPFIX / NetFlow v9 streams keeps its order, and every
    (session, exporter address of the case line) gets a loopback source address of its own (127.a.b.c), so sessions do
    not share template-cache entries;
  * the per-datagram expectation comes from the real decoder packages in-process (`corr e2eref`: class x / t / m / d,
    solo JSON, whether the datagram changed the template cache, zero-length field specifiers in the cache), replayed in
    order against one cache;
  * worker order (finding K5) is kept out of the expectation: the datagrams are sent in phases — phase p holds the p-th
    datagram of every session, i.e. datagrams of pairwise different exporters — and the next phase starts only when the
    collector's own counters say that every datagram of the phase has been received (UDPCount) and every one that counts
    as decoded has been decoded (DecodedCount; it is incremented after Decode returns, so the templates are in the cache).
    A datagram that changes the cache and does NOT count as decoded (template set in front of a fatal error) cannot be
    waited for: the rest of its session is not sent;
  * sending is paced by the collector's own UDPCount (a chunk is sent when the previous one has been counted), so the
    socket buffer cannot overflow; a cycle in which UDPCount stays short and the kernel reports drops for the socket gives
    no verdict;
  * thorough tier: behind everything else a burst at full speed (half as many datagrams again, drawn from the stream's
    datagrams that leave the template cache alone and re-classified by the reference in that position). Loss is expected
    there (socket buffer, 1000-slot queues), so only the halves of the demands that survive loss are made.

Demands, by property (each finding carries the property it belongs to):
  C13  per protocol at quiescence UDPCount = datagrams sent, DecodedCount = datagrams the reference counts as decoded,
       the multiset of lines at the sink = the multiset of reference payloads (each once, none invented), and during
       the first phase, which is sent one protocol at a time, no counter of another protocol moves.
  C01  no panic / fatal error / runtime error on stderr, the process is alive after the stream, answers /flow, still
       decodes (fresh template + data record for IPFIX and NetFlow v9, a NetFlow v5 and an sFlow datagram: DecodedCount
       moves and the four JSON lines arrive at the sink), and SIGTERM ends it with status 0.
  C02  VmHWM of the process after the stream stays under a bound that depends on the configuration only, the bytes the
       collector itself reports as allocated (/sys MemTotalAlloc) stay under a bound linear in the octets sent (with the
       zero-length term of finding K4 named `fail:amplification`), no stall, and the liveness probes are answered within
       PROBE_LATENCY_S.

No verdict (statistic `skipped:<reason>`): the binary could not be started, the statistics API did not answer, datagrams
were lost on the way in, the reference could not be computed.
"""
import json, os, random, re, shutil, signal, socket, struct, subprocess, threading, time, urllib.request
import check as C
import e2e

PROTOS = ["ipfix", "nf9", "nf5", "sflow"]
PORT_IDX = {"ipfix": 0, "sflow": 1, "nf5": 2, "nf9": 3}          # index into Vflow.ports
STAT = {"ipfix": "IPFIX", "nf9": "NetflowV9", "nf5": "NetflowV5", "sflow": "SFlow"}
PROP_OF = {"crash": "C01", "exit": "C01", "stderr": "C01", "probe": "C01",
           "rss": "C02", "alloc": "C02", "amplification": "C02", "stall": "C02", "latency": "C02",
           "count": "C13", "missing": "C13", "invented": "C13", "duplicate": "C13", "cross": "C13"}
# classes that are ALSO findings of other properties observed at the same point ("lines received by the message-queue sink"):
# C14 — every message handed to the producer arrives once, unmodified, in a line of its own, also when all four protocols'
# producers run side by side (seed C14-h: one RawSocket shared by the four producers); C05 — what arrives is the published JSON
ALSO = {"invented": ("C14", "C05"), "duplicate": ("C14",), "missing": ("C14",)}
# verdict classes that depend on elapsed time or on the load of the machine: they are reported only when the cycle, run
# again alone, fails in the same class twice more
TIMED = ("stall", "latency", "missing", "count-short", "probe", "rss", "alloc", "amplification")
# verdict classes that one datagram of ANOTHER process could cause (the machine is shared: a sender of another check whose
# collector has just released the port the kernel then gave to ours): a counter beyond what was sent, a line that is no payload of
# ours. They are reported when the cycle, run again alone on fresh ports, shows a finding of these classes once more (a defect of
# the collector on this stream does; a stray datagram does not). A crash, an exit status, a duplicate need no confirmation
STRAY = ("count", "invented", "cross")

NO_PROGRESS_S = 10.0          # no counter moved for this long while something is outstanding
PROBE_LATENCY_S = 5.0
# C02 bounds (measured on the unchanged tree, see DESIGN.md §6 C02 *End-to-end*): resident memory
RSS_FLOOR_KB = 200 * 1024
# allocation volume the collector reports itself: fixed part + per datagram + per octet
ALLOC_BASE = 8 << 20
ALLOC_PER_DGRAM = 8192
ALLOC_PER_OCTET = 100
ALLOC_PER_POLL = 8192          # every /flow or /sys request of the harness allocates about 3.5 kB in the collector
ALLOC_PER_SECOND = 65536       # the idle collector: 6 kB/s (read deadlines, pool refills)
# finding K4: decoded fields beyond the octets of their datagram (records x zero-length specifiers; C02 *_fields_linear).
# What the collector may spend on each of them before the excess is no longer explained by K4
ALLOC_PER_EXTRA_FIELD = 1024


class Sink:
    """the TCP server the collector's rawSocket producers connect to (one connection per protocol): every line received,
    with the connection it came on"""

    def __init__(self):
        self.srv = socket.socket(socket.AF_INET, socket.SOCK_STREAM)
        self.srv.bind(("127.0.0.1", 0))
        self.srv.listen(16)
        self.port = self.srv.getsockname()[1]
        self.lines = []           # (connection number, line without the newline)
        self.lock = threading.Lock()
        self.conns = {}
        self.closed_conns = 0
        self.stop = False
        self.error = None
        self.th = threading.Thread(target=self._run, daemon=True)
        self.th.start()

    def _run(self):
        # epoll, not select(): a run holds far more than 1024 descriptors (twelve cycles, a socket per exporter address)
        import selectors
        sel = selectors.DefaultSelector()
        sel.register(self.srv, selectors.EVENT_READ)
        nconn = 0
        try:
            while not self.stop:
                for key, _ in sel.select(timeout=0.05):
                    s = key.fileobj
                    if s is self.srv:
                        try:
                            c, _ = self.srv.accept()
                        except OSError:
                            continue
                        self.conns[c] = [nconn, b""]
                        sel.register(c, selectors.EVENT_READ)
                        nconn += 1
                        continue
                    try:
                        data = s.recv(1 << 20)
                    except OSError:
                        data = b""
                    st = self.conns[s]
                    if not data:
                        sel.unregister(s)
                        del self.conns[s]
                        s.close()
                        self.closed_conns += 1
                        continue
                    buf = st[1] + data
                    if b"\n" in buf:
                        parts = buf.split(b"\n")
                        st[1] = parts.pop()
                        with self.lock:
                            self.lines += [(st[0], p) for p in parts]
                    else:
                        st[1] = buf
        except Exception as e:          # the harness's own failure: the cycle gives no verdict (Cycle.no_progress)
            self.error = repr(e)
        finally:
            sel.close()

    def count(self):
        with self.lock:
            return len(self.lines)

    def snapshot(self):
        with self.lock:
            return list(self.lines)

    def close(self):
        self.stop = True
        self.th.join(timeout=2)
        for c in list(self.conns):
            try:
                c.close()
            except OSError:
                pass
        self.srv.close()


COLTIME = re.compile(rb'"ColTime":\d+\}$')


def norm_line(b):
    """a line of the sink as the reference prints it: sFlow's collection time (wall clock) set to 0"""
    return COLTIME.sub(b'"ColTime":0}', b)


def udp6_socket_state(port):
    """(octets waiting in the receive queue, datagrams the kernel dropped) of the UDP socket bound to `port`, from
    /proc/net/udp6 and /proc/net/udp; None when it cannot be told"""
    want = ":%04X" % port
    for fn in ("/proc/net/udp6", "/proc/net/udp"):
        try:
            for l in open(fn).read().split("\n")[1:]:
                f = l.split()
                if len(f) >= 13 and f[1].endswith(want):
                    return int(f[4].split(":")[1], 16), int(f[-1])
        except (OSError, ValueError):
            pass
    return None


def proc_status_kb(pid, key):
    try:
        for l in open("/proc/%d/status" % pid):
            if l.startswith(key + ":"):
                return int(l.split()[1])
    except (OSError, ValueError, IndexError):
        pass
    return None


def sys_stats(vf):
    try:
        return json.loads(urllib.request.urlopen("http://127.0.0.1:%d/sys" % vf.ports[4], timeout=2).read())
    except Exception:
        return None


def exporter_ip(k):
    """the k-th loopback source address of a cycle (127.a.b.c, never 127.0.0.1)"""
    k += 2
    return "127.%d.%d.%d" % ((k // 62500) % 120, (k // 250) % 250, 2 + k % 250)


def mapped_hex(ip):
    """the octets of raddr.IP the dual-stack listener reports for an IPv4 exporter"""
    return (bytes(10) + b"\xff\xff" + bytes(int(x) for x in ip.split("."))).hex()


def sflow_probe(rng):
    """an sFlow v5 datagram with one counter sample holding one generic interface counter record"""
    rec = struct.pack(">II", 1, 88) + bytes(rng.randrange(256) for _ in range(88))
    smp = struct.pack(">III", rng.randrange(1 << 32), 7, 1) + rec
    return struct.pack(">II4sIIII", 5, 1, bytes([10, 0, 0, 1]), 0, rng.randrange(1 << 32), 1000, 1) + struct.pack(">II", 2, len(smp)) + smp


class Item:
    __slots__ = ("proto", "sess", "idx", "ip", "dg", "phase", "cls", "z", "chg", "payload", "part", "fields")

    def __init__(self, proto, sess, idx, ip, dg):
        self.proto, self.sess, self.idx, self.ip, self.dg = proto, sess, idx, ip, dg
        self.phase, self.cls, self.z, self.chg, self.payload, self.part, self.fields = 0, "?", 0, 0, None, "stream", 0


def build_stream(seed, n, per_proto):
    """the datagrams of cycle n: for every protocol the first per_proto[proto] datagrams of the generator's stream,
    as Items in session order; `restart` lines (a restart of the decoder on its saved cache) are not played"""
    items, nexp = [], 0
    for pi, proto in enumerate(PROTOS):
        want = per_proto[proto]
        if want <= 0:
            continue
        lines = C.gen_cases(proto, (seed * 1000003 + n * 97 + pi) % (1 << 31), int(want * 1.35) + 8)
        sess, idx, addr_ip, got = -1, 0, {}, 0
        for l in lines:
            l = l.split("\t")[0]
            if l == "new":
                sess, idx, addr_ip = sess + 1, 0, {}
                continue
            f = l.split(" ")
            if f[0] != proto or len(f) != 3 or f[2] == "-" or not f[2]:
                continue
            if proto in ("nf5", "sflow"):
                sess, idx, addr_ip = sess + 1, 0, {}        # no state: every datagram is a session of its own
            key = f[1] if proto != "sflow" else "-"
            if key not in addr_ip:
                addr_ip[key] = exporter_ip(nexp)
                nexp += 1
            items.append(Item(proto, max(sess, 0), idx, addr_ip[key], bytes.fromhex(f[2])))
            idx += 1
            got += 1
            if got >= want:
                break
    return items, nexp


def reference(items, udp_size):
    """fills cls / z / chg / payload of the items, replayed in the given order by the real decoders (corr e2eref).
    Returns None, or the reason why the reference could not be computed"""
    inp = "".join("%s %s %s\n" % (it.proto, mapped_hex(it.ip), it.dg.hex() or "-") for it in items)
    try:
        p = subprocess.run(["bash", "-c", 'ulimit -v 16000000; exec "$0" "$@"', C.CORR, "e2eref", str(udp_size)],
                           input=inp.encode(), capture_output=True, env=C.GOENV, timeout=600)
    except subprocess.TimeoutExpired:
        return "timeout"
    out = p.stdout.split(b"\n")
    if out and out[-1] == b"":
        out.pop()
    if p.returncode not in (0, 3) or len(out) < (len(items) if p.returncode == 0 else 1):
        return "rc=%s %s" % (p.returncode, p.stderr.decode("utf-8", "replace")[-200:])
    for it, l in zip(items, out):
        f = l.split(b"\t", 4)
        if len(f) != 5:
            return "bad line %r" % l[:80]
        it.cls, it.z, it.chg, it.fields = f[0].decode(), int(f[1]), int(f[2]), int(f[3])
        it.payload = f[4] if it.cls == "d" else None
    for it in items[len(out):]:
        it.cls = "?"
    return None


def counts_as_decoded(it):
    return it.cls in ("t", "m", "d")


def extra_fields(it, udp_size):
    """the K4 term of one datagram: decoded fields that no octet of the datagram pays for. A datagram that yields no
    message (class x) may have decoded records before its fatal error: bounded by octets x z (C02 *_fields_linear)"""
    if it.proto not in ("ipfix", "nf9"):
        return 0
    octets = min(len(it.dg), udp_size)
    if it.cls in ("x", "p", "h"):
        return octets * it.z
    return max(0, it.fields - octets)


class Abort(Exception):
    """the cycle ends here: `skip` (no verdict, reason) or findings already recorded"""

    def __init__(self, skip=None):
        Exception.__init__(self, skip or "finding")
        self.skip = skip


class Cycle:
    def __init__(self, n, seed, binary, params):
        self.n, self.seed, self.binary = n, seed, binary
        self.rng = random.Random(seed * 1000003 + n * 7919 + 11)
        p = dict(params or {})
        w, u = self.rng.choice([1, 2, 4, 4, 8, 16, 64]), self.rng.choice([1500, 1500, 9000])     # drawn in any case: a replay names them
        self.workers = int(p.get("workers") or w)
        self.udp_size = int(p.get("udp_size") or u)
        self.dg = int(p.get("dg") or 300)
        self.burst = int(p.get("burst") or 0)
        self.sample = {"workers": self.workers, "udp_size": self.udp_size, "dg": self.dg, "burst": self.burst}
        self.findings = []          # (class, text)
        self.sent = {p: 0 for p in PROTOS}
        self.want_dec = {p: 0 for p in PROTOS}
        # the lines at the sink: `must` = payloads of the datagrams sent in the paced part (each arrives exactly as often), `may` =
        # payloads of the burst (each arrives at most as often); `got` = what has arrived, taken over from the sink line by line
        self.must, self.may, self.got = {}, {}, {}
        self.must_total = self.have_must = self.seen = 0
        self.vf = self.sink = None
        self.peak_queue = 0
        self.polls = 0
        self.when = "while the stream was being sent"

    # ------------------------------------------------------------------ helpers
    def fail(self, cls, text):
        self.findings.append((cls, text))

    def stats(self):
        """/flow of the collector, or Abort: a dead process is a finding, an unreachable API no verdict"""
        t0 = time.time()
        k = 0
        while True:
            self.polls += 1
            st = self.vf.stats()
            if isinstance(st, dict) and all(isinstance(st.get(STAT[p]), dict) for p in PROTOS):
                for p in PROTOS:
                    for key in ("UDPCount", "DecodedCount"):
                        if not isinstance(st[STAT[p]].get(key), int):
                            self.fail("count", "the /flow document has no integer %s for %s: %s" % (key, STAT[p], json.dumps(st[STAT[p]])[:200]))
                            raise Abort()
                return st
            if self.vf.proc.poll() is not None:
                self.died(self.when)
            k += 1
            # alive but silent: keep asking for NO_PROGRESS_S more (a loaded machine), then no verdict
            if k >= 3 and time.time() - t0 > NO_PROGRESS_S:
                raise Abort("no-stats")
            time.sleep(0.05 if k < 3 else 0.2)

    def died(self, when):
        rc = self.vf.proc.wait()
        try:
            self.vf.errf.close()
        except Exception:
            pass
        lg = self.vf.log()
        i = max(lg.find("panic:"), lg.find("fatal error"), lg.find("runtime error"))
        tail = lg[max(0, i - 100):i + 500] if i >= 0 else lg[-400:]
        self.sample["exit"] = rc
        self.fail("crash", "the collector died %s (exit status %s): %s" % (when, rc, tail.replace("\n", " | ")))
        raise Abort()

    def counters(self, st):
        return {p: (st[STAT[p]]["UDPCount"], st[STAT[p]]["DecodedCount"]) for p in PROTOS}

    def absorb(self):
        """take over the lines that have arrived at the sink since the last call: a line that is the payload of no datagram sent is
        `invented`, one that arrived more often than datagrams with this payload were sent `duplicate` (wrong whatever happens next)"""
        with self.sink.lock:
            new = self.sink.lines[self.seen:]
        self.seen += len(new)
        for _, l in new:
            l = norm_line(l)
            g = self.got[l] = self.got.get(l, 0) + 1
            m = self.must.get(l, 0)
            if g <= m:
                self.have_must += 1
            elif g > m + self.may.get(l, 0):
                if m + self.may.get(l, 0) == 0:
                    self.fail("invented", "a line at the sink is the payload of no datagram sent (%d octets): %s" % (len(l), l[:300].decode("utf-8", "replace")))
                else:
                    self.fail("duplicate", "a payload arrived %d times at the sink, %d datagram(s) with this payload were sent: %s"
                              % (g, m + self.may.get(l, 0), l[:300].decode("utf-8", "replace")))
                raise Abort()

    def missing(self):
        """a payload of the paced part that has not arrived (None when all have)"""
        for l, e in self.must.items():
            if self.got.get(l, 0) < e:
                return "the payload of a decodable datagram did not arrive at the sink (%d of %d; the 1000-slot queue cannot have been full): %s" % (
                    self.got.get(l, 0), e, l[:300].decode("utf-8", "replace"))
        return None

    def outstanding(self, st, lines=True):
        """what the collector still owes: [(protocol, what, have, want)]"""
        out = []
        for p in PROTOS:
            u, d = st[STAT[p]]["UDPCount"], st[STAT[p]]["DecodedCount"]
            if u < self.sent[p]:
                out.append((p, "UDPCount", u, self.sent[p]))
            if d < self.want_dec[p]:
                out.append((p, "DecodedCount", d, self.want_dec[p]))
        if lines and self.have_must < self.must_total:
            out.append(("sink", "lines", self.have_must, self.must_total))
        return out

    def excess(self, st):
        """a counter beyond what the datagrams sent so far can account for: wrong whatever happens next"""
        for p in PROTOS:
            u, d = st[STAT[p]]["UDPCount"], st[STAT[p]]["DecodedCount"]
            if self.sent[p] == 0 and (u or d):
                self.fail("cross", "nothing has been sent to the %s port yet (sent so far: %s): its counters show UDPCount=%d DecodedCount=%d"
                          % (p, ", ".join("%s %d" % (q, self.sent[q]) for q in PROTOS if self.sent[q]), u, d))
                continue
            if u > self.sent[p]:
                self.fail("count", "%s UDPCount = %d after %d datagrams were sent to its port" % (STAT[p], u, self.sent[p]))
            if d > self.want_dec[p]:
                self.fail("count", "%s DecodedCount = %d, but of the %d datagrams sent to its port only %d decode successfully "
                          "(reference: the real decoder in-process, same order)" % (STAT[p], d, self.sent[p], self.want_dec[p]))
        if self.findings:
            raise Abort()
        self.absorb()

    def wait_quiet(self, what, lines=True, only_received=False):
        """poll until nothing is outstanding (only_received: until every datagram sent has been counted as received).
        No progress for NO_PROGRESS_S: loss (no verdict), stall or a short counter"""
        last, t_prog = None, time.time()
        while True:
            st = self.stats()
            self.excess(st)
            for p in PROTOS:
                self.peak_queue = max(self.peak_queue, st[STAT[p]].get("UDPQueue", 0))
            out = self.outstanding(st, lines)
            if only_received:
                out = [o for o in out if o[1] == "UDPCount"]
            if not out:
                return st
            cur = (self.counters(st), self.seen)
            if cur != last:
                last, t_prog = cur, time.time()
            elif time.time() - t_prog > NO_PROGRESS_S:
                self.no_progress(st, out, what)
            time.sleep(0.002 if only_received else 0.004)

    def queued(self, st):
        """datagrams / messages waiting inside the collector or in front of it"""
        q = []
        for p in PROTOS:
            ks = udp6_socket_state(self.vf.ports[PORT_IDX[p]])
            uq, mq = st[STAT[p]].get("UDPQueue", 0), st[STAT[p]].get("MessageQueue", 0)
            if uq > 0 or mq > 0 or (ks and ks[0] > 0):
                q.append("%s: %d in the UDP queue, %d in the message queue, %d octets in the socket" % (STAT[p], uq, mq, ks[0] if ks else -1))
        return q

    def no_progress(self, st, out, what):
        p, name, have, want = out[0]
        if name == "UDPCount":
            ks = udp6_socket_state(self.vf.ports[PORT_IDX[p]])
            if ks is None or ks[1] > 0:
                raise Abort("lost:%s" % p)          # the kernel dropped datagrams (or cannot say): no verdict
        queued = self.queued(st)
        txt = "%s %s = %d, expected %d, unchanged for %.0f s %s" % (STAT.get(p, p), name, have, want, NO_PROGRESS_S, what)
        if queued:
            self.fail("stall", "no progress of UDPCount / DecodedCount for %.0f s while datagrams are queued (%s); %s" % (NO_PROGRESS_S, "; ".join(queued), txt))
        elif name == "lines":
            if self.sink.error or not self.sink.th.is_alive():
                raise Abort("sink-failed")          # the harness's sink thread has ended: no verdict
            m = self.missing() or txt
            # what the collector logged about the exporter of the missing payload
            ag = re.search(r'"AgentID":"([0-9.]+)"', m)
            said = [l[-160:] for l in self.vf.log().split("\n") if ag and (ag.group(1) + " ") in l][:4]
            self.fail("missing", "(%d of %d lines after %.0f s without progress %s) %s%s" % (have, want, NO_PROGRESS_S, what, m,
                                                                                         (" -- collector log: " + " | ".join(said)) if said else ""))
        else:
            self.fail("count-short", txt + (" (the kernel reports no drop for the socket and its receive queue is empty)" if name == "UDPCount" else
                                            " (reference: the real decoder in-process, same order)"))
        raise Abort()

    def send(self, items, paced=True):
        """send the items. paced: a chunk per protocol, the next one when the collector has counted the previous one (so the
        socket buffer cannot overflow); their payloads must arrive. Not paced (the burst): at full speed, loss is expected,
        their payloads may arrive"""
        by = {p: [it for it in items if it.proto == p] for p in PROTOS}
        pos = {p: 0 for p in PROTOS}
        socks = {}
        try:
            while any(pos[p] < len(by[p]) for p in PROTOS):
                for p in PROTOS:
                    budget = 65536 if paced else 1
                    while pos[p] < len(by[p]) and budget > 0:
                        it = by[p][pos[p]]
                        s = socks.get(it.ip)
                        if s is None:
                            if len(socks) >= 128:           # a socket per exporter address, but not thousands of them at a time
                                for x in socks.values():
                                    x.close()
                                socks.clear()
                            s = socks[it.ip] = socket.socket(socket.AF_INET, socket.SOCK_DGRAM)
                            s.bind((it.ip, 0))
                        if it.cls == "d":
                            if paced:
                                self.must[it.payload] = self.must.get(it.payload, 0) + 1
                                self.must_total += 1
                            else:
                                self.may[it.payload] = self.may.get(it.payload, 0) + 1
                        try:
                            s.sendto(it.dg, ("127.0.0.1", self.vf.ports[PORT_IDX[p]]))
                        except OSError as e:
                            raise Abort("send-failed:%s" % e.__class__.__name__)
                        pos[p] += 1
                        if paced:
                            self.sent[p] += 1
                            if counts_as_decoded(it):
                                self.want_dec[p] += 1
                        budget -= len(it.dg) + 1280
                if paced:
                    self.wait_quiet(self.when, only_received=True)
        finally:
            for s in socks.values():
                s.close()

    # ------------------------------------------------------------------ the cycle
    def run(self):
        wdir = os.path.join(C.WORK, "e2e-traffic-%d-%d-%d" % (os.getpid(), self.seed, self.n))
        shutil.rmtree(wdir, ignore_errors=True)
        os.makedirs(wdir)
        self.sink = Sink()
        try:
            try:
                self.body(wdir)
            except Abort as a:
                if a.skip:
                    return "skipped:" + a.skip, [], self.sample
            except Exception as e:
                # an error of the harness itself (generator, sockets, files): no verdict, and visible in the evidence
                import traceback
                return "skipped:harness-error", [], dict(self.sample, harness_error=traceback.format_exc()[-600:])
            return ("ok" if not self.findings else "failed"), self.findings, self.sample
        finally:
            if self.vf and self.vf.proc and self.vf.proc.poll() is None:
                self.vf.proc.kill()
                self.vf.proc.wait()
            self.sink.close()
            shutil.rmtree(wdir, ignore_errors=True)

    def prepare_stream(self):
        """the datagrams of the cycle with their reference results: (items of the paced part, template probes, data probes, burst)"""
        rng = self.rng
        share = {"ipfix": 0.34, "nf9": 0.33, "nf5": 0.16, "sflow": 0.17}
        items, nexp = build_stream(self.seed, self.n, {p: int(self.dg * share[p]) for p in PROTOS})
        # the probes of C01 / C02 (sent after the stream): fresh exporters, a template and a data record per template protocol
        fields = e2e.tpl_fields(rng)
        pip = [exporter_ip(nexp + i) for i in range(4)]
        probes_t = [Item("ipfix", -1, 0, pip[0], e2e.ipfix_msg([e2e.tpl_set("ipfix", 400, fields)], 1)),
                    Item("nf9", -1, 0, pip[1], e2e.v9_msg([e2e.tpl_set("nf9", 400, fields)], 1))]
        probes_d = [Item("ipfix", -1, 1, pip[0], e2e.ipfix_msg([e2e.data_set(400, fields, rng, 2, 0)], 2)),
                    Item("nf9", -1, 1, pip[1], e2e.v9_msg([e2e.data_set(400, fields, rng, 2, 0)], 2)),
                    Item("nf5", -1, 0, pip[2], e2e.v5_msg(rng.choice([1, 3, 30]))),
                    Item("sflow", -1, 0, pip[3], sflow_probe(rng))]
        probes = probes_t + probes_d
        for it in probes:
            it.part = "probe"
        err = reference(items + probes, self.udp_size)
        if err:
            raise Abort("reference:" + err[:60])
        if [it.cls for it in probes] != ["t", "t", "d", "d", "d", "d"]:
            raise Abort("reference:probes classed %s" % "".join(it.cls for it in probes))
        # a session ends behind a datagram whose completion cannot be observed (it changed the cache and does not count as
        # decoded) or on which the reference itself panicked / hung (the collector is expected to die there)
        keep, cut = [], set()
        for it in items:
            k = (it.proto, it.sess)
            if k in cut or it.cls == "?":
                continue
            keep.append(it)
            if (it.cls == "x" and it.chg) or it.cls in ("p", "h"):
                cut.add(k)
        items = keep
        burst = []
        if self.burst:
            # the burst: datagrams of the stream again, at full speed, behind everything else. Only datagrams that leave the template
            # cache alone, so that what each of them yields does not depend on the order in which the workers take them: the reference
            # replays [stream, probes, burst] and whatever changed the cache in the burst position is taken out and the replay repeated
            cands = [it for it in items if not it.chg and (it.proto, it.sess) not in cut and it.cls in ("x", "t", "m", "d")]
            burst = [Item(c.proto, -2, j, c.ip, c.dg) for j, c in enumerate(rng.choices(cands, k=self.dg // 2))] if cands else []
            for it in burst:
                it.part = "burst"
            first = [(it.cls, it.payload) for it in items + probes]
            for attempt in range(5):
                err = reference(items + probes + burst, self.udp_size)
                if err:
                    raise Abort("reference:" + err[:60])
                if [(it.cls, it.payload) for it in items + probes] != first:
                    raise Abort("reference:second replay differs")
                if not any(it.chg or it.cls not in ("x", "t", "m", "d") for it in burst):
                    break
                burst = [it for it in burst if not it.chg and it.cls in ("x", "t", "m", "d")]
            else:
                burst = []
        nph = max([it.idx for it in items] + [0]) + 1
        for j, it in enumerate(items):
            it.phase = it.idx if it.proto in ("ipfix", "nf9") else j % nph
        dist = {}
        for it in items + burst:
            k = ("burst:" if it.part == "burst" else "") + it.proto + "/" + it.cls
            dist[k] = dist.get(k, 0) + 1
        self.sample.update({"datagrams": len(items), "phases": nph, "classes": dist, "zero_length_specs_max": max([it.z for it in items] + [0]),
                            "octets": sum(len(it.dg) for it in items), "burst_datagrams": len(burst)})
        return items, probes_t, probes_d, burst

    def memory(self, vf, items, sys0, t_stream, what):
        """C02: resident memory (high-water mark) and the allocation volume the collector reports, against bounds that depend on the
        configuration and on the octets sent. An excess is finding K4 (`fail:amplification`) only as far as the zero-length term explains
        it: the reference counted k4_fields decoded fields beyond the octets of their datagrams; anything above is an ordinary violation"""
        hwm = proc_status_kb(vf.proc.pid, "VmHWM")
        sys1 = sys_stats(vf)
        self.polls += 1
        nworkers = 4 * self.workers
        octets = sum(len(it.dg) for it in items)
        zmax = max([it.z for it in items] + [0])
        k4_fields = sum(extra_fields(it, self.udp_size) for it in items)
        k4_alloc = ALLOC_PER_EXTRA_FIELD * k4_fields
        k4_txt = ("; the stream installs templates with up to %d zero-length field specifiers: %d decoded fields consume no octet of "
                  "their datagram (K4), allowance %d bytes" % (zmax, k4_fields, k4_alloc)) if k4_fields else ""
        rss_bound = RSS_FLOOR_KB + (4 * 1000 + 2 * nworkers) * self.udp_size // 1024
        self.sample.update({"vmhwm_kb": hwm, "vmhwm_bound_kb": rss_bound, "k4_extra_fields": k4_fields})
        if hwm is not None and hwm > rss_bound:
            self.fail("amplification" if hwm <= rss_bound + k4_alloc // 1024 else "rss",
                      "VmHWM of the collector is %d kB %s (%d datagrams, %d octets); bound for %d workers and read buffers of %d octets: %d kB%s"
                      % (hwm, what, len(items), octets, nworkers, self.udp_size, rss_bound, k4_txt))
        if sys0 and sys1:
            alloc = sys1["MemTotalAlloc"] - sys0["MemTotalAlloc"]
            lin = (ALLOC_BASE + sum(ALLOC_PER_DGRAM + ALLOC_PER_OCTET * min(len(it.dg), self.udp_size) for it in items)
                   + ALLOC_PER_POLL * (self.polls + 2) + int(ALLOC_PER_SECOND * (time.time() - t_stream + 1)))
            self.sample.update({"total_alloc": alloc, "total_alloc_bound": lin})
            if alloc > lin:
                self.fail("amplification" if alloc <= lin + k4_alloc else "alloc",
                          "the collector reports %d bytes allocated (/sys MemTotalAlloc) %s (%d datagrams of %d octets in all); linear bound %d%s"
                          % (alloc, what, len(items), octets, lin, k4_txt))
        if self.findings:
            raise Abort()

    def body(self, wdir):
        items, probes_t, probes_d, burst = self.prepare_stream()
        nph = self.sample["phases"]

        # ---- the collector
        open(os.path.join(wdir, "mq.conf"), "w").write("url: 127.0.0.1:%d\nprotocol: tcp\nretry-max: 2\n" % self.sink.port)
        w = str(self.workers)
        extra = ["-producer-enabled=true", "-mqueue", "rawSocket", "-mqueue-conf", "mq.conf", "-verbose=false",
                 "-ipfix-workers", w, "-netflow9-workers", w, "-netflow5-workers", w, "-sflow-workers", w,
                 "-ipfix-max-udp-size", str(self.udp_size), "-netflow9-max-udp-size", str(self.udp_size),
                 "-netflow5-max-udp-size", str(self.udp_size), "-sflow-max-udp-size", str(self.udp_size)]
        self.vf = vf = e2e.Vflow(wdir, e2e.free_ports(5), self.binary, workers=self.workers, extra_args=extra)
        st0 = vf.start()
        if st0 == "crash":
            self.fail("crash", "the collector crashed while starting: " + vf.log()[-300:].replace("\n", " | "))
            raise Abort()
        if not st0:
            raise Abort("not-started")
        t0 = time.time()
        while vf.stats() is None:
            if vf.proc.poll() is not None:
                if "address already in use" in vf.log():
                    raise Abort("not-started")      # the statistics port was taken by another process meanwhile
                self.died("right after the start")
            if time.time() - t0 > NO_PROGRESS_S:
                raise Abort("no-stats")
            time.sleep(0.02)
        sys0 = sys_stats(vf)
        t_stream = time.time()

        # ---- phase 0, one protocol at a time: no counter of another protocol moves (C13)
        for p in PROTOS:
            before = self.counters(self.stats())
            self.send([it for it in items if it.phase == 0 and it.proto == p])
            self.wait_quiet("after phase 0 of " + p, lines=False)
            time.sleep(0.01)
            after = self.counters(self.stats())
            for q in PROTOS:
                if q != p and after[q] != before[q]:
                    self.fail("cross", "%d datagrams sent to the %s port only: the %s counters moved from UDPCount=%d DecodedCount=%d to UDPCount=%d "
                              "DecodedCount=%d" % (sum(1 for it in items if it.phase == 0 and it.proto == p), p, STAT[q],
                                                   before[q][0], before[q][1], after[q][0], after[q][1]))
            if self.findings:
                raise Abort()
        # ---- the other phases, all protocols at once
        for ph in range(1, nph):
            self.send([it for it in items if it.phase == ph])
            self.wait_quiet("after phase %d" % ph, lines=False)
        self.wait_quiet("at the end of the stream")
        # quiescence: the counters and the sink are where they must be; nothing may move any more
        time.sleep(0.05)
        self.excess(self.stats())
        self.sample.update({"sent": dict(self.sent), "decoded": dict(self.want_dec), "published": self.must_total,
                            "stream_s": round(time.time() - t_stream, 2), "udp_queue_peak": self.peak_queue})

        # ---- C02: memory after the stream
        self.memory(vf, items, sys0, t_stream, "after the stream")

        # ---- C01 / C02: still alive, still decoding
        self.when = "after the stream, while the probes were being sent"
        t_probe = time.time()
        try:
            self.send(probes_t)
            self.wait_quiet("after the probe templates", lines=False)
            self.send(probes_d)
            self.wait_quiet("after the probe datagrams (fresh template + data record, NetFlow v5, sFlow)")
        except Abort as a:
            if not a.skip:
                # whatever did not come back after the stream is reported as the probe's failure
                self.findings = [("probe", "after the stream the collector no longer decodes: " + t) if c in ("count-short", "missing", "stall") else (c, t)
                                 for c, t in self.findings]
            raise
        lat = time.time() - t_probe
        self.sample["probe_latency_s"] = round(lat, 3)
        if lat > PROBE_LATENCY_S:
            self.fail("latency", "the probes sent after the stream were decoded and published after %.1f s (bound %.0f s)" % (lat, PROBE_LATENCY_S))
            raise Abort()

        # ---- thorough tier: a burst at full speed. Loss is expected (socket buffer, 1000-slot queues): only the halves of the
        #      demands that survive loss are made
        if burst:
            self.burst_phase(vf, burst)
            self.memory(vf, items + burst, sys0, t_stream, "after the stream and the burst")

        # ---- C01: stderr, SIGTERM, exit status
        rc, lat_exit = vf.stop(signal.SIGTERM)
        log = vf.log()
        self.sample.update({"exit": rc, "exit_latency_s": round(lat_exit, 2)})
        bad = [wd for wd in ("panic:", "fatal error", "runtime error", "DATA RACE") if wd in log]
        if bad:
            i = log.find(bad[0])
            self.fail("stderr", "the collector logged %r: %s" % (bad[0], log[max(0, i - 100):i + 400].replace("\n", " | ")))
        if rc != 0:
            self.fail("exit", "SIGTERM after the stream: exit status %s (%.1f s): %s" % (rc, lat_exit, log[-300:].replace("\n", " | ")))
        # nothing may arrive at the sink after the last check either (a late duplicate)
        time.sleep(0.02)
        self.absorb()
        m = self.missing()
        if m:
            self.fail("missing", m)

    def burst_phase(self, vf, burst):
        self.when = "during the burst"
        n = {p: sum(1 for it in burst if it.proto == p) for p in PROTOS}
        cnt = {p: sum(1 for it in burst if it.proto == p and counts_as_decoded(it)) for p in PROTOS}
        base = self.counters(self.stats())
        t0 = time.time()
        self.send(burst, paced=False)
        last, t_prog = None, time.time()
        while True:
            st = self.stats()
            self.absorb()
            cur = self.counters(st)
            short = None
            for p in PROTOS:
                u, d = cur[p][0] - base[p][0], cur[p][1] - base[p][1]
                self.peak_queue = max(self.peak_queue, st[STAT[p]].get("UDPQueue", 0))
                if u > n[p]:
                    self.fail("count", "%s UDPCount moved by %d during a burst of %d datagrams to its port" % (STAT[p], u, n[p]))
                if d > cnt[p] or d > u:
                    self.fail("count", "%s DecodedCount moved by %d during a burst of %d datagrams to its port, %d of them received (UDPCount), "
                              "%d of them decodable (reference)" % (STAT[p], d, n[p], u, cnt[p]))
                if d < u - (n[p] - cnt[p]):
                    short = "%s DecodedCount moved by %d during the burst: %d datagrams were received (UDPCount) and only %d of the %d sent do not decode" % (
                        STAT[p], d, u, n[p] - cnt[p], n[p])
            if self.findings:
                raise Abort()
            if (cur, self.seen) != last:
                last, t_prog = (cur, self.seen), time.time()
            else:
                idle = time.time() - t_prog
                if idle > 0.3:
                    queued = self.queued(st)
                    if not queued and not short:
                        break
                    if idle > NO_PROGRESS_S:
                        if queued:
                            self.fail("stall", "no progress of UDPCount / DecodedCount for %.0f s after the burst while datagrams are queued (%s)" % (NO_PROGRESS_S, "; ".join(queued)))
                        else:
                            self.fail("count-short", short + " (no counter has moved for %.0f s, nothing is queued)" % NO_PROGRESS_S)
                        raise Abort()
            time.sleep(0.01)
        cur = self.counters(self.stats())
        self.sample.update({"burst_sent": n, "burst_received": {p: cur[p][0] - base[p][0] for p in PROTOS},
                            "burst_decoded": {p: cur[p][1] - base[p][1] for p in PROTOS}, "burst_s": round(time.time() - t0, 2),
                            "burst_published": sum(max(0, g - self.must.get(l, 0)) for l, g in self.got.items())})


def traffic_cycle(n, seed, binary, params=None):
    """one traffic cycle; returns (outcome, findings, sample): outcome `ok`, `failed` or `skipped:<reason>`;
    findings = [(class, text)], class as in PROP_OF"""
    return Cycle(n, seed, binary, params).run()


# ---------------------------------------------------------------------- runs shared by the three properties

_RUNS = {}
_RUNS_LOCK = threading.Lock()


def tier_params(tier):
    return {"dg": 300, "burst": 0} if tier == "quick" else {"dg": 2000, "burst": 1}


def run_cycles(tier, seed):
    """all cycles of a tier, once per (tier, seed) and process: [(n, params, outcome, findings, sample, reruns)]"""
    with _RUNS_LOCK:
        if (tier, seed) in _RUNS:
            return _RUNS[(tier, seed)]
        ok, binary, err = e2e.build_binary()
        if not ok:
            _RUNS[(tier, seed)] = {"built": False, "err": err, "cycles": []}
            return _RUNS[(tier, seed)]
        ncyc, par = (6, 6) if tier == "quick" else (200, 12)
        import concurrent.futures as cf
        out = []
        t0 = time.time()
        with cf.ThreadPoolExecutor(max_workers=par) as ex:
            forced = [{"workers": 1, "udp_size": 1500}, {"workers": 4, "udp_size": 9000}, {"workers": 64, "udp_size": 1500}]
            jobs = []
            for i in range(ncyc):
                params = dict(tier_params(tier), **(forced[i] if i < len(forced) else {}))
                jobs.append((i, params, ex.submit(traffic_cycle, i, seed, binary, params)))
            results = [(i, params) + tuple(f.result()) for i, params, f in jobs]
        # a verdict that depends on elapsed time or on the load of the machine must reproduce: when all cycles have ended, the same
        # cycle is run again, alone, up to twice; the verdict stands only if it shows both times (a real stall, leak or loss of a
        # message does so every time). What the re-run shows instead is not reported either: `skipped:not-reproduced`
        confirmed = set()       # once a class has reproduced for one cycle the other cycles of that class are not run again
        for i, params, outcome, findings, sample in results:
            reruns = 0
            if findings and all(c in TIMED for c, _ in findings) and findings[0][0] not in confirmed:
                cls0 = findings[0][0]
                for _ in range(2):
                    reruns += 1
                    o2, f2, s2 = traffic_cycle(i, seed, binary, params)
                    if not any(c == cls0 for c, _ in f2):
                        outcome, findings, sample = "skipped:not-reproduced", [], dict(s2, first_verdict="fail:%s %s" % (cls0, findings[0][1][:700]))
                        break
                else:
                    confirmed.add(cls0)
            elif findings and all(c in STRAY for c, _ in findings) and findings[0][0] not in confirmed:
                reruns += 1
                o2, f2, s2 = traffic_cycle(i, seed, binary, params)
                if any(c in STRAY for c, _ in f2):
                    confirmed.add(findings[0][0])
                else:
                    outcome, findings, sample = "skipped:not-reproduced", [], dict(s2, first_verdict="fail:%s %s" % (findings[0][0], findings[0][1][:700]))
            out.append((i, params, outcome, findings, sample, reruns))
        _RUNS[(tier, seed)] = {"built": True, "cycles": out, "wall_s": round(time.time() - t0, 1)}
        return _RUNS[(tier, seed)]


DEMANDS = {
    "C01": "after the stream: alive, answers /flow, decodes a fresh template + data record (IPFIX, NetFlow v9), a NetFlow v5 and an sFlow "
           "datagram (DecodedCount moves, the four JSON lines arrive at the sink), stderr free of panic / fatal error / runtime error, SIGTERM -> exit status 0",
    "C02": "VmHWM after the stream (thorough: and after the burst) <= 200 MB + (4 x 1000 queue slots + 2 x workers) x read-buffer size; /sys "
           "MemTotalAlloc delta <= 8 MiB + 8 KiB per datagram + 100 B per octet + 8 KiB per statistics request + 64 KiB/s; an excess is K4 "
           "fail:amplification only as far as the decoded fields that consume no octet (k4_extra_fields, counted by the reference) explain it at "
           "1 KiB each, else fail:rss / fail:alloc; no counter standstill of 10 s with datagrams queued (fail:stall); probes answered within "
           "5 s (fail:latency); time / memory verdicts must reproduce twice when the cycle is run again alone",
    "C14": "the raw-socket producers of all four protocols run side by side against one sink (no fault injected): the multiset of lines at the sink = "
           "the multiset of reference payloads — no line that is not a handed-over message, none twice, none missing",
    "C05": "every line at the sink is a reference payload: the published JSON of one datagram, byte for byte",
    "C13": "per protocol at quiescence UDPCount = datagrams sent, DecodedCount = datagrams the in-process reference counts as decoded, lines at "
           "the sink = reference payloads as multisets (none invented, none twice, none missing); phase 0 one protocol at a time: no counter of "
           "another protocol moves; thorough, burst at full speed (loss expected): UDPCount moves by <= sent, DecodedCount by <= min(received, "
           "decodable sent) and >= received - undecodable sent, every line is a reference payload, at most as often as sent",
}


def traffic_cycles(pid, tier, seed):
    """the `extra` of C01 / C02 / C13: the findings of the shared run that belong to property `pid`"""
    r = e2e.E2EResult()
    r.name = "e2e-traffic"
    run = run_cycles(tier, seed)
    if not run["built"]:
        r.oracle_fail.append({"kind": "e2e-traffic", "seed": seed, "session": ["build"], "verdict": "fail:build vflow binary does not build: " + run["err"][-300:], "impl": ""})
        r.summary = {"built": False}
        return r
    agg = {"datagrams": 0, "octets": 0, "published": 0, "burst_datagrams": 0, "burst_published": 0, "k4_extra_fields": 0, "vmhwm_kb_max": 0, "total_alloc_max": 0, "alloc_share_of_bound_max": 0.0,
           "probe_latency_s_max": 0.0, "stream_s_max": 0.0, "udp_queue_peak": 0, "reruns": 0, "classes": {}, "sent": {p: 0 for p in PROTOS},
           "decoded": {p: 0 for p in PROTOS}}
    for i, params, outcome, findings, sample, reruns in run["cycles"]:
        def owns(c):
            k = c.split("-")[0]
            return PROP_OF.get(k, "C01") == pid or pid in ALSO.get(k, ())
        mine = [(c, t) for c, t in findings if owns(c)]
        other = [c for c, t in findings if not owns(c)]
        r.evaluations += 1
        agg["reruns"] += reruns
        case = "traffic-cycle %d seed %d %s" % (i, seed, json.dumps(dict(params, **{k: v for k, v in sample.items() if k not in params})))
        if mine:
            line = "fail:" + mine[0][0]
            r.oracle_fail.append({"kind": "e2e-traffic", "seed": seed, "session": [case], "verdict": "fail:%s %s" % mine[0], "impl": line})
        elif outcome.startswith("skipped"):
            line = outcome
        elif other:
            # the cycle ended early with a finding of another property: what this property demands was not observed
            line = "skipped:ended-by-%s" % other[0]
        else:
            line = "ok"
            r.oracle_ok += 1
            r.distinct.add(case)
        r.stats[line] = r.stats.get(line, 0) + 1
        if len(r.samples) < 3:
            r.samples.append({"case": case[:600], "impl": line})
        for k in ("datagrams", "octets", "published", "burst_datagrams", "burst_published", "k4_extra_fields"):
            agg[k] += sample.get(k) or 0
        for k in ("burst_sent", "burst_received", "burst_decoded"):
            if sample.get(k):
                agg.setdefault(k, {p: 0 for p in PROTOS})
                for p in PROTOS:
                    agg[k][p] += sample[k].get(p, 0)
        for k, src in (("vmhwm_kb_max", "vmhwm_kb"), ("total_alloc_max", "total_alloc"), ("probe_latency_s_max", "probe_latency_s"),
                       ("stream_s_max", "stream_s"), ("udp_queue_peak", "udp_queue_peak")):
            agg[k] = max(agg[k], sample.get(src) or 0)
        if sample.get("total_alloc") and sample.get("total_alloc_bound"):
            agg["alloc_share_of_bound_max"] = max(agg["alloc_share_of_bound_max"], round(sample["total_alloc"] / sample["total_alloc_bound"], 3))
        for k, v in (sample.get("classes") or {}).items():
            agg["classes"][k] = agg["classes"].get(k, 0) + v
        for p in PROTOS:
            agg["sent"][p] += (sample.get("sent") or {}).get(p, 0)
            agg["decoded"][p] += (sample.get("decoded") or {}).get(p, 0)
    r.summary = dict(agg, cycles=len(run["cycles"]), ok=r.oracle_ok, failed=len(r.oracle_fail), distribution=r.stats,
                     demanded=DEMANDS[pid], wall_s=run.get("wall_s"))
    return r


def replay(n, seed, sample, pid):
    """re-run one traffic cycle (called by e2e.replay); prints what it found, returns 1 when a finding of `pid` (any
    property when pid is None) shows again"""
    ok, binary, err = e2e.build_binary()
    if not ok:
        print("build failed:", err[-300:])
        return 2
    params = {k: sample[k] for k in ("workers", "udp_size", "dg", "burst") if k in sample}
    outcome, findings, s2 = traffic_cycle(n, seed, binary, params)
    print("cycle  : traffic-cycle %d seed %d %s" % (n, seed, json.dumps(params)))
    print(" result:", outcome)
    for c, t in findings:
        print("  [%s] fail:%s %s" % (PROP_OF.get(c.split("-")[0], "C01"), c, t[:600]))
    print(" sample:", json.dumps(s2))
    hit = [c for c, t in findings if pid is None or PROP_OF.get(c.split("-")[0], "C01") == pid]
    return 1 if hit else 0


if __name__ == "__main__":
    import sys
    ok, binary, err = e2e.build_binary()
    print(ok, err[-300:])
    for i in range(int(sys.argv[1]) if len(sys.argv) > 1 else 3):
        t0 = time.time()
        res = traffic_cycle(i, int(os.environ.get("VERIF_SEED", "1")), binary, {"dg": int(os.environ.get("DG", "300")), "burst": int(os.environ.get("BURST", "0"))})
        print(round(time.time() - t0, 2), res[0], res[1], json.dumps(res[2]))
