#!/usr/bin/env python3
"""Regenerates MANIFEST.json from props.py (claimed checks) + the list of all property ids."""
import json, os, subprocess
from props import PROPS, META

# the hook commits are read from the repository's history (every commit whose subject starts with "verif hook:"), oldest
# first; hooks.json is the committed copy for a tree without git history
try:
    out = subprocess.check_output(["git", "-C", os.environ.get("VERIF_REPO", "/repo"), "log", "--reverse", "--format=%h",
                                   "--grep=^verif hook"], text=True, stderr=subprocess.DEVNULL).split()
    if out:
        json.dump({"source_commits": out}, open("hooks.json", "w"), indent=1)
except Exception:
    pass
ids = [json.loads(l)["id"] for l in open("properties.jsonl")]
checks, na = [], []
for i in ids:
    if i in PROPS:
        m = META[i]
        checks.append({
            "property_id": i,
            "quick_cmd": "./check.sh %s quick" % i,
            "thorough_cmd": "./check.sh %s thorough" % i,
            "evidence_file": "/verif/evidence/%s.json" % i,
            "replay_cmd_template": "./check.sh %s --replay {path}" % i,
            "engine": "lean-model+correspondence",
            "level_claimed": {"category": "proof", "text": m["text"], "design_ref": m["ref"]},
            "level_note": m["note"],
            "technique": m["technique"],
        })
    else:
        na.append({"property_id": i, "reason": META.get(i, {}).get("na", "check not built yet in this round (planned in DESIGN.md §6); not claimed until it runs")})
man = {
    "version": 1,
    "setup_cmd": "./setup.sh",
    "hooks": {"guard": "verif", "enable": "go build/test -tags verif (harness module /verif/go with replace => /repo)",
              "baseline_off_cmd": "cd /repo && go test -vet=off -count=1 ./...",
              "source_commits": json.load(open("hooks.json"))["source_commits"], "add_only": True},
    "engines": [{"name": "lean-model+correspondence", "path": "/verif/check.py",
                 "serves_properties": [c["property_id"] for c in checks],
                 "kind_free_text": "Lean 4 theorems about an executable model (lean/Vflow), facts regenerated from the Go AST (go/cmd/factgen), differential correspondence model-vs-real-code (go/cmd/corr + lean driver vfmodel), model-independent property oracles"}],
    "checks": checks,
    "not_applicable": na,
    "notes": "See DESIGN.md. Fix commits and known findings: known_findings.json.",
}
json.dump(man, open("MANIFEST.json", "w"), indent=1)
print("claimed", len(checks), "not claimed", len(na))
