#!/bin/bash
# Builds the framework offline from files on disk: harness, factgen output, Lean library + driver.
set -e
cd "$(dirname "$0")"
export PATH="$PATH:/opt/veriftools/lean/bin"
export GOFLAGS=-mod=mod GOPROXY=off GOSUMDB=off GOTOOLCHAIN=local
mkdir -p .work/bin lean/Vflow/Gen
REPO=${VERIF_REPO:-/repo}
cp $REPO/go.sum go/go.sum
sed -i "s#^replace github.com/EdgeCast/vflow => .*#replace github.com/EdgeCast/vflow => $REPO#" go/go.mod
(cd go && go build -o ../.work/bin/factgen ./cmd/factgen && go build -tags verif -o ../.work/bin/corr ./cmd/corr)
.work/bin/factgen $REPO lean/Vflow/Gen
(cd lean && lake build Vflow vfmodel 2>&1 | grep -v '^✔' | tail -20)
echo setup done
