#!/usr/bin/env python3
"""vflow verification driver:  ./check.sh <Cxx> quick|thorough  |  ./check.sh <Cxx> --replay <file>

For one property it
  1. regenerates the Lean facts from /repo's current Go source (factgen) and rebuilds the
     harness against /repo's working tree with -tags verif,
  2. builds the property's Lean module (the proof obligations, incl. those over generated facts),
  3. runs the correspondence (model driver vs real code on the same generated cases) and the
     model-independent property oracle on the implementation's own output,
  4. decides: oracle failure => VIOLATION with the failing case as replay; broken proof or
     disagreement => search for a failing input, VIOLATION (with `no-failing-input-found` if none),
  5. writes evidence/<id>.json.
Known findings (known_findings.json) are matched per failing case and printed as KNOWN-FINDING.
"""
import json, os, sys, subprocess, time, re, hashlib, shutil, concurrent.futures as cf

ROOT = os.path.dirname(os.path.abspath(__file__))
LEAN = os.path.join(ROOT, "lean")
GO = os.path.join(ROOT, "go")
WORK = os.path.join(ROOT, ".work")
BIN = os.path.join(WORK, "bin")
REPO = os.environ.get("VERIF_REPO", "/repo")
MODEL = os.path.join(LEAN, ".lake", "build", "bin", "vfmodel")
CORR = os.path.join(BIN, "corr")
NCPU = os.cpu_count() or 4

GOENV = dict(os.environ, GOFLAGS="-mod=mod", GOPROXY="off", GOSUMDB="off", GOTOOLCHAIN="local",
             CGO_ENABLED=os.environ.get("CGO_ENABLED", "1"))

TRUSTED = [
    "Lean 4 kernel (lake build; leanchecker re-check in the thorough tier)",
    "axioms: at most propext, Classical.choice, Quot.sound (Audit.lean, thorough tier)",
    "factgen (go/ast translator) for the regenerated facts",
    "the correspondence harness (generators, canonicalisation, property oracles)",
    "Go runtime/library semantics as transcribed in the hand-written model",
]


def sh(cmd, cwd=None, env=None, timeout=None, input=None):
    p = subprocess.run(cmd, cwd=cwd, env=env, timeout=timeout, input=input, capture_output=True, text=True)
    return p.returncode, p.stdout, p.stderr


def log(*a):
    print(*a, flush=True)


# ---------------------------------------------------------------- preparation

def prepare(need_go=True):
    """factgen + harness build against /repo's current tree. Returns (ok, message)."""
    os.makedirs(BIN, exist_ok=True)
    shutil.copyfile(os.path.join(REPO, "go.sum"), os.path.join(GO, "go.sum"))
    gomod = "module verif\n\ngo 1.15\n\nrequire github.com/EdgeCast/vflow v0.0.0\n\nreplace github.com/EdgeCast/vflow => %s\n" % REPO
    if open(os.path.join(GO, "go.mod")).read() != gomod:
        open(os.path.join(GO, "go.mod"), "w").write(gomod)
    t0 = time.time()
    rc, out, err = sh(["go", "build", "-o", os.path.join(BIN, "factgen"), "./cmd/factgen"], cwd=GO, env=GOENV)
    if rc != 0:
        return False, "factgen build failed:\n" + err
    gen_dir = os.path.join(LEAN, "Vflow", "Gen")
    rc, out, err = sh([os.path.join(BIN, "factgen"), REPO, gen_dir], env=GOENV)
    if rc != 0:
        return False, "factgen failed:\n" + out + err
    if need_go:
        rc, out, err = sh(["go", "build", "-tags", "verif", "-o", CORR, "./cmd/corr"], cwd=GO, env=GOENV)
        if rc != 0:
            return False, "harness build against /repo failed:\n" + err
    return True, "prepared in %.1fs" % (time.time() - t0)


def lake_build(targets):
    """Build Lean targets. Returns (ok, log)."""
    rc, out, err = sh(["lake", "build"] + targets, cwd=LEAN)
    return rc == 0, out + err


def count_obligations(modules):
    """theorems/examples/lemmas in the listed module files (textual count)."""
    n = 0
    names = []
    for m in modules:
        p = os.path.join(LEAN, m.replace(".", "/") + ".lean")
        if not os.path.exists(p):
            continue
        for line in open(p):
            mm = re.match(r"\s*(?:private\s+|protected\s+)?(theorem|lemma|example)\b\s*([^\s:(\[{]*)", line)
            if mm:
                n += 1
                if mm.group(1) != "example" and mm.group(2):
                    names.append(mm.group(2))
    return n, names


def module_closure(mod):
    """Vflow.* modules imported (transitively) by mod."""
    seen, todo = [], [mod]
    while todo:
        m = todo.pop()
        if m in seen:
            continue
        p = os.path.join(LEAN, m.replace(".", "/") + ".lean")
        if not os.path.exists(p):
            continue
        seen.append(m)
        for line in open(p):
            mm = re.match(r"import\s+(Vflow\.[\w.]+)", line)
            if mm:
                todo.append(mm.group(1))
    return seen


# ---------------------------------------------------------------- correspondence

RUNNERS = {}   # kind -> {"pkg": "./vflow", "test": "TestVerifX", "race": bool}: cases run by a verif-tagged test in /repo


def exec_lines(kind, chunk, env):
    """one process over the chunk of case lines: (returncode, stdout, stderr)."""
    rn = RUNNERS.get(kind)
    if rn is None:
        p = subprocess.run(["bash", "-c", "ulimit -v 8000000; exec %s run %s" % (CORR, kind)], input=chunk,
                           capture_output=True, text=True, errors="replace", env=env)
        return p.returncode, p.stdout, p.stderr
    os.makedirs(WORK, exist_ok=True)
    tag = "%s-%d-%d" % (kind, os.getpid(), abs(hash(chunk)) % 10**9)
    fin, fout = os.path.join(WORK, tag + ".in"), os.path.join(WORK, tag + ".out")
    open(fin, "w").write(chunk)
    if os.path.exists(fout):
        os.remove(fout)
    e = dict(env, VERIF_IN=fin, VERIF_OUT=fout, VERIF_KIND=kind)
    cmd = ["go", "test", "-tags", "verif", "-vet=off", "-count=1", "-run", "^%s$" % rn["test"]]
    if rn.get("race"):
        cmd.append("-race")
    cmd += ["-timeout", rn.get("timeout", "20m"), rn["pkg"]]
    p = subprocess.run(cmd, cwd=REPO, env=e, capture_output=True, text=True, errors="replace")
    out = open(fout, errors="replace").read() if os.path.exists(fout) else ""
    for f in (fin, fout):
        if os.path.exists(f):
            os.remove(f)
    txt = p.stdout + p.stderr
    # a crashed test binary prints pages of goroutine stacks: keep the lines that say why it died first
    key = [l.strip() for l in txt.split("\n") if re.match(r"\s*(fatal error: |panic: |WARNING: DATA RACE|--- FAIL)", l)]
    return p.returncode, out, ("; ".join(dict.fromkeys(key))[:400] + "\n" if key else "") + txt[-3000:]


def run_go(kind, lines, watchdog_ms=None, extra_env=None):
    """Run the real code on case lines; restart after hangs/crashes.
    Returns list of (out, verdict) or None for lines not executed."""
    res = [None] * len(lines)
    env = dict(GOENV)
    if watchdog_ms:
        env["VERIF_WATCHDOG_MS"] = str(watchdog_ms)
    if extra_env:
        env.update(extra_env)
    start = 0
    guard = 0
    while start < len(lines) and guard < 400:
        guard += 1
        chunk = "\n".join(lines[start:]) + "\n"
        p = type("P", (), {})()
        p.returncode, p.stdout, p.stderr = exec_lines(kind, chunk, env)
        outs = p.stdout.split("\n")
        if outs and outs[-1] == "":
            outs.pop()
        for j, o in enumerate(outs):
            if start + j >= len(lines):
                break
            a, _, b = o.partition("\t")
            res[start + j] = (a, b)
        if p.returncode == 0 and len(outs) >= len(lines) - start:
            break
        # hang (3) or crash: the line after the last printed one is the culprit when crashed
        last = start + len(outs) - 1
        if p.returncode != 3:
            bad = start + len(outs)
            if bad < len(lines):
                msg = (p.stderr.strip().split("\n") or ["?"])[0][:300]
                res[bad] = ("panic", "fail:process died (rc=%d): %s" % (p.returncode, msg))
                last = bad
        # resume at the next session start after `last` (or the next line when there are no sessions)
        nxt = None
        for j in range(last + 1, len(lines)):
            if lines[j].startswith("new"):
                nxt = j
                break
        if nxt is None:
            has_sessions = any(l.startswith("new") for l in lines)
            nxt = len(lines) if has_sessions else last + 1
        start = nxt
    return res


def run_model(lines):
    p = subprocess.run([MODEL], input="\n".join(l.split("\t")[0] for l in lines) + "\n", capture_output=True, text=True, errors="replace")
    outs = p.stdout.split("\n")
    if outs and outs[-1] == "":
        outs.pop()
    if len(outs) < len(lines):
        outs += ["<model-died: %s>" % p.stderr.strip()[:200]] * (len(lines) - len(outs))
    return outs


GEN_PANICS = []


def gen_cases(kind, seed, n, extra_env=None):
    env = dict(GOENV)
    if extra_env:
        env.update(extra_env)
    rc, out, err = sh([CORR, "gen", kind, str(seed), str(n)], env=env)
    if rc != 0:
        raise RuntimeError("corr gen %s failed: %s" % (kind, err))
    # a generator that classifies its datagrams with the real decoders reports a decoder panic instead of dying
    for l in err.split("\n"):
        if l.startswith("GENPANIC\t"):
            f = l.split("\t")
            if len(f) >= 4:
                GEN_PANICS.append({"kind": f[1], "session": [f[2]], "impl": "panic", "env": extra_env,
                                   "verdict": "fail:panic the real decoder panicked while the generator classified this datagram: " + f[3][:300]})
    lines = out.split("\n")
    if lines and lines[-1] == "":
        lines.pop()
    return lines


def session_of(lines, i):
    """the lines of the session containing index i (from its `new` line up to i)."""
    s = i
    while s > 0 and not lines[s].startswith("new"):
        s -= 1
    if not lines[s].startswith("new"):
        return [lines[i]]
    return lines[s:i + 1]


class CorrResult:
    def __init__(self):
        self.evaluations = 0
        self.compared = 0
        self.disagreements = []   # dicts: kind, session(lines), go, model
        self.oracle_fail = []     # dicts: kind, session(lines), verdict, go
        self.hangs = 0
        self.stats = {}
        self.distinct = set()
        self.samples = []
        self.oracle_ok = 0

    def merge(self, o):
        self.evaluations += o.evaluations
        self.compared += o.compared
        self.disagreements += o.disagreements
        self.oracle_fail += o.oracle_fail
        self.hangs += o.hangs
        self.oracle_ok += o.oracle_ok
        for k, v in o.stats.items():
            self.stats[k] = self.stats.get(k, 0) + v
        self.distinct |= o.distinct
        self.samples += o.samples[:2]


def classify_out(out):
    """coarse class of an implementation output line, for the input-distribution report."""
    f = out.split(" ")
    head = f[0]
    if head in ("nil", "err") and len(f) > 1:
        return head + " " + f[1]
    if head.isdigit():
        return "entry"
    if head == "msg":
        return "msg " + ("norecs" if out.rstrip().endswith("recs=") or " recs= " in out else "recs")
    return head[:24] if len(head) < 24 else "data"


def nontrivial(line, out):
    """a case is non-trivial when the implementation produced a non-error, non-empty result."""
    h = out.split(" ")[0]
    return h not in ("nil", "err", "panic", "fuel", "bad-op", "new", "")


def corr_shard(kind, seed, n, compare_model=True, extra_env=None, lines=None):
    r = CorrResult()
    if lines is None:
        del GEN_PANICS[:]
        try:
            lines = gen_cases(kind, seed, n, extra_env)
        except RuntimeError as e:
            # generators that build their expectations with the real code (pipeline, e2eref, …) check their own
            # assumptions about it (e.g. "a data-phase datagram does not change the template cache"); when the code under
            # test breaks one of them the generator stops: that is a finding about the code, replayable by generating again
            msg = str(e)
            key = [l for l in msg.split("\n") if l.startswith("panic:") or "corr gen" in l]
            r.evaluations += 1
            r.oracle_fail.append({"kind": kind, "seed": seed, "session": ["gen %s %d %d" % (kind, seed, n)], "impl": "generator stopped", "env": extra_env,
                                  "verdict": "fail:generator the case generator, which runs the real code to build its expectations, stopped on its own consistency check: "
                                             + " | ".join(key)[:400]})
            return r
        for g in GEN_PANICS[:3]:
            r.oracle_fail.append(dict(g, seed=seed))
    go = run_go(kind, lines, extra_env=extra_env)
    model = run_model(lines) if compare_model else None
    for i, l in enumerate(lines):
        if go[i] is None or l.startswith("new"):
            continue
        out, verdict = go[i]
        r.evaluations += 1
        c = classify_out(out)
        r.stats[c] = r.stats.get(c, 0) + 1
        if nontrivial(l, out):
            r.distinct.add(hashlib.md5(l.split("\t")[0].encode()).hexdigest())
        if len(r.samples) < 3 and nontrivial(l, out):
            r.samples.append({"case": l.split("\t")[0][:400], "impl": out[:400]})
        if out == "fuel":
            r.hangs += 1
        if verdict.startswith("fail"):
            r.oracle_fail.append({"kind": kind, "seed": seed, "session": session_of(lines, i), "verdict": verdict, "impl": out, "env": extra_env})
        elif verdict.startswith("ok"):
            r.oracle_ok += 1
        if compare_model:
            r.compared += 1
            if model[i] != out:
                r.disagreements.append({"kind": kind, "seed": seed, "session": session_of(lines, i), "impl": out, "model": model[i], "env": extra_env})
    return r


def run_corr(kind, seed, n, shards=None, compare_model=True, extra_env=None):
    shards = shards or min(NCPU, max(1, n // 200))
    per = max(1, n // shards)
    tot = CorrResult()
    with cf.ThreadPoolExecutor(max_workers=shards) as ex:
        futs = [ex.submit(corr_shard, kind, seed * 1000 + i, per, compare_model, extra_env) for i in range(shards)]
        for f in futs:
            tot.merge(f.result())
    return tot


def run_corpus(pid, kind, compare_model=True, extra_env=None):
    """minimised past failures / seeded witnesses: corpus/<pid>/<kind>--<name>.txt, run first."""
    d = os.path.join(ROOT, "corpus", pid)
    tot = CorrResult()
    if not os.path.isdir(d):
        return tot
    for fn in sorted(os.listdir(d)):
        if fn.startswith(kind + "--") and fn.endswith(".txt"):
            lines = [l.rstrip("\n") for l in open(os.path.join(d, fn)) if l.strip() and not l.startswith("#")]
            tot.merge(corr_shard(kind, 0, 0, compare_model, dict(extra_env or {}, VERIF_PROP=pid), lines))
    return tot


# ---------------------------------------------------------------- known findings

def load_known():
    p = os.path.join(ROOT, "known_findings.json")
    if not os.path.exists(p):
        return []
    return json.load(open(p)).get("findings", [])


def match_known(pid, fail):
    """a failing case is a known finding only if an entry with status 'finding' for this property
    matches by its matcher (regex on the oracle verdict + optional regex on the case line)."""
    for k in load_known():
        if k.get("property") != pid or k.get("status") != "finding":
            continue
        m = k.get("match", {})
        if "verdict_re" in m and not re.search(m["verdict_re"], fail.get("verdict", "")):
            continue
        if "case_re" in m and not any(re.search(m["case_re"], l) for l in fail.get("session", [])):
            continue
        return k
    return None


# ---------------------------------------------------------------- shrinking

def shrink_session(kind, session, still_fails, budget=60):
    """drop whole lines, then nothing finer here (kind-specific shrinkers live in the harness)."""
    cur = list(session)
    tries = 0
    i = 0
    while i < len(cur) - 1 and tries < budget:
        if cur[i].startswith("new"):
            i += 1
            continue
        cand = cur[:i] + cur[i + 1:]
        tries += 1
        if still_fails(cand):
            cur = cand
        else:
            i += 1
    return cur


def verdict_class(v):
    """first word(s) of a verdict: `fail:roundtrip`, `fail:panic`, …"""
    return v.split(" ")[0]


def gen_fails(line, env=None):
    """`gen <kind> <seed> <n>`: does the generator still stop?"""
    f = line.split()
    try:
        gen_cases(f[1], int(f[2]), int(f[3]), env)
        return False
    except RuntimeError:
        return True


def fails_again(kind, session, want=None, want_out=None, env=None):
    """the last line of the session still fails — in the same way (same verdict class, same implementation output)"""
    if session and session[-1].startswith("gen "):
        return gen_fails(session[-1], env)
    go = run_go(kind, session, extra_env=env)
    if go[-1] is None or not go[-1][1].startswith("fail"):
        return False
    if want_out is not None and go[-1][0] != want_out:
        return False
    return want is None or verdict_class(go[-1][1]) == want


# ---------------------------------------------------------------- evidence / verdict

def write_evidence(pid, tier, seed, t0, cov, violations, assumptions):
    os.makedirs(os.path.join(ROOT, "evidence"), exist_ok=True)
    ev = {"property_id": pid, "tier": tier, "seed": seed, "level": "proof", "coverage": cov,
          "assumptions": assumptions, "wall_s": round(time.time() - t0, 2), "violations": violations}
    with open(os.path.join(ROOT, "evidence", pid + ".json"), "w") as f:
        json.dump(ev, f, indent=1)


def write_replay(pid, seed, payload):
    os.makedirs(os.path.join(ROOT, "replays"), exist_ok=True)
    n = 0
    while True:
        p = os.path.join(ROOT, "replays", "%s-%d-%d.json" % (pid, seed, n))
        if not os.path.exists(p):
            break
        n += 1
    with open(p, "w") as f:
        json.dump(payload, f, indent=1)
    return p


def do_replay(path):
    d = json.load(open(path))
    if "session" not in d:
        print(json.dumps(d, indent=1))
        return 0
    ok, msg = prepare()
    if not ok:
        print(msg)
        return 2
    if str(d.get("kind", "")).startswith("e2e"):
        import e2e
        return e2e.replay(d)
    lake_build(["vfmodel"])
    from props import PROPS  # cases of runner kinds are replayed by their verif-tagged test
    for c in PROPS.get(d.get("property"), {}).get("corr", []):
        if "runner" in c:
            RUNNERS[c["kind"]] = c["runner"]
    lines = d["session"]
    if lines and lines[-1].startswith("gen "):
        bad = gen_fails(lines[-1], d.get("env"))
        print("case :", lines[-1])
        print(" the generator", "stops again on its consistency check" if bad else "runs to the end")
        return 1 if bad else 0
    go = run_go(d["kind"], lines, extra_env=d.get("env"))
    model = run_model(lines)
    for i, l in enumerate(lines):
        print("case :", l[:300])
        print(" impl :", go[i])
        print(" model:", model[i][:300])
    return 1 if go[-1] and go[-1][1].startswith("fail") else 0


def main():
    from props import PROPS  # property registry
    if len(sys.argv) < 3:
        print(__doc__)
        return 2
    pid = sys.argv[1]
    if sys.argv[2] == "--replay":
        for c in PROPS.get(pid, {}).get("corr", []):   # cases of runner kinds are replayed by their hook test
            if "runner" in c:
                RUNNERS[c["kind"]] = c["runner"]
        return do_replay(sys.argv[3])
    tier = sys.argv[2] if sys.argv[2] in ("quick", "thorough") else os.environ.get("VERIF_TIER", "quick")
    seed = int(os.environ.get("VERIF_SEED", "1"))
    spec = PROPS[pid]
    t0 = time.time()
    from engine import run_property
    return run_property(pid, spec, tier, seed, t0)


if __name__ == "__main__":
    sys.exit(main())
