import Vflow.Props.C19
import Vflow.Props.C12
import Vflow.Props.C13
