import Vflow.Props.C19
import Vflow.Props.C14
