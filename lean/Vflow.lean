import Vflow.Props.C19
import Vflow.Props.C14
import Vflow.Props.C10
