import Vflow.Props.C19
