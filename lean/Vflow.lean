import Vflow.Props.C19
import Vflow.Props.C02Flow
import Vflow.Props.C03
import Vflow.Props.C06
