import Vflow.Props.C19
import Vflow.Props.C16
import Vflow.Props.C17
