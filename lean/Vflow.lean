import Vflow.Props.C01Sflow
import Vflow.Props.C02Sflow
import Vflow.Props.C04
import Vflow.Props.C07
import Vflow.Props.C11
import Vflow.Props.C18
import Vflow.Props.C19
import Vflow.Props.C20
