import Vflow.Model.Flow
import Vflow.Model.Text
import Vflow.Model.JsonOut
/-!
# Model of the template-cache file: `MemCache.Dump` and `GetCache` (after the F9 repair)

`dumpJson` renders the cache exactly as `json.Marshal(memCacheDisk{m, shardNo})` does (32 shards in
order, each `{"Templates":{…}}` with that shard's key texts — since the K1 repair `map[string]Data`: the hex text of
address and template id for entries learnt by decoding, any string for entries that came from a file — in *string*
order, escaped as `encoding/json` escapes a string (`escString`), nil slices as `null`; the timestamp is canonicalised
to 0 on both sides of the correspondence).
`Doc` is what `json.Unmarshal` can produce for `memCacheDisk` (absent / null shards, null maps);
`loadDoc` is the validation `GetCache` applies to it.  The reflection-driven binding of octets to
`Doc` is library code and is not modelled: the harness obtains the `Doc` from `encoding/json` itself.
-/
namespace Vflow.CacheFile
open Vflow

def shardNo : Nat := 32

/-- one shard of the document: `none` = JSON null / absent pointer; `some none` = shard without a
`Templates` map (nil map); `some (some l)` = the entries (key text as `json.Unmarshal` read it, template) in
document order (later duplicates win) -/
abbrev DocShard := Option (Option (List (Bytes × Template)))

structure Doc where
  shardNo : Int
  shards : List DocShard
deriving Repr

/-- a cache is *usable* when every shard and map the decoder will touch exists -/
def docUsable (d : Doc) : Bool :=
  d.shardNo == 32 && d.shards.length == 32 && d.shards.all (fun s => match s with | some (some _) => true | _ => false)

/-- the entries of the `i`-th shard of a document, each under (its shard, its key text) -/
def shardEntries (i : Nat) : DocShard → List (CKey × Template)
  | some (some l) => l.map fun e => ((i, e.1), e.2)
  | _ => []

def docEntriesFrom (i : Nat) : List DocShard → List (CKey × Template)
  | [] => []
  | s :: ss => shardEntries i s ++ docEntriesFrom (i + 1) ss

/-- entries of a usable document, flattened (later entries of a shard override earlier ones with the same key): an
entry stays in the shard the document has it in, whatever its key text — `GetCache` uses the decoded maps as they are -/
def docEntries (d : Doc) : List (CKey × Template) := docEntriesFrom 0 d.shards

def insertKey (c : Cache) (k : CKey) (t : Template) : Cache := (k, t) :: c.filter (fun e => e.1 ≠ k)

/-- `GetCache` on a parsed document: the document's cache if it is usable, a fresh cache otherwise.
(`none` = file unreadable, or its content rejected by `json.Unmarshal`.) -/
def loadDoc : Option Doc → Cache
  | none => []
  | some d => if docUsable d then (docEntries d).foldl (fun c e => insertKey c e.1 e.2) [] else []

/-! ## Dump -/

def kw (s : Bytes) : Bytes := 34 :: s ++ [34, 58]

/-- `{"ElementID":i,"Length":l,"EnterpriseNo":e}` (IPFIX) / without EnterpriseNo (v9) -/
def specJson (ipfix : Bool) (s : Spec) : Bytes :=
  [123] ++ kw (str "ElementID") ++ natDigits s.id ++ [44] ++ kw (str "Length") ++ natDigits s.len ++
    (if ipfix then [44] ++ kw (str "EnterpriseNo") ++ natDigits s.ent else []) ++ [125]

def specsJson (ipfix : Bool) : List Spec → Bytes
  | [] => str "null"
  | l => [91] ++ joinSep 44 (l.map (specJson ipfix)) ++ [93]

def templateJson (ipfix : Bool) (t : Template) : Bytes :=
  [123] ++ kw (str "TemplateID") ++ natDigits t.tid ++ [44] ++ kw (str "FieldCount") ++ natDigits t.cnt ++ [44] ++
    kw (str "FieldSpecifiers") ++ specsJson ipfix t.fields ++ [44] ++ kw (str "ScopeFieldCount") ++ natDigits t.scnt ++ [44] ++
    kw (str "ScopeFieldSpecifiers") ++ specsJson ipfix t.scope ++ [125]

def entryJson (ipfix : Bool) (e : CKey × Template) : Bytes :=
  34 :: escString e.1.2 ++ [34, 58] ++ [123] ++ kw (str "Template") ++ templateJson ipfix e.2 ++ [44] ++
    kw (str "Timestamp") ++ [48] ++ [125]

/-- lexicographic order on octet strings (encoding/json sorts map keys as strings, before escaping them) -/
def bytesLt : Bytes → Bytes → Bool
  | [], [] => false
  | [], _ => true
  | _, [] => false
  | a :: as, b :: bs => a < b || (a == b && bytesLt as bs)

def insertSorted (e : CKey × Template) : List (CKey × Template) → List (CKey × Template)
  | [] => [e]
  | x :: xs => if bytesLt e.1.2 x.1.2 then e :: x :: xs else x :: insertSorted e xs

def sortEntries (l : List (CKey × Template)) : List (CKey × Template) := l.foldr insertSorted []

def shardJson (ipfix : Bool) (c : Cache) (i : Nat) : Bytes :=
  [123] ++ kw (str "Templates") ++ [123] ++
    joinSep 44 ((sortEntries (c.filter fun e => e.1.1 = i)).map (entryJson ipfix)) ++ [125, 125]

/-- `json.Marshal(memCacheDisk{m, 32})` with timestamps zeroed -/
def dumpJson (ipfix : Bool) (c : Cache) : Bytes :=
  [123] ++ kw (str "Cache") ++ [91] ++ joinSep 44 ((List.range 32).map (shardJson ipfix c)) ++ [93, 44] ++
    kw (str "ShardNo") ++ str "32" ++ [125]

/-! ## Dump with the timestamps that are really written

`Dump` writes `"Timestamp":<time.Now().Unix() at the last insert>` (an `int64`) for every entry; the
correspondence canonicalises it to 0, which is why `dumpJson` prints `0`.  `dumpJsonTs` is the same file with
an arbitrary timestamp per entry (`ts key`, any integer — a clock before 1970 gives a negative one): the
crash-point theorems of C11 are about these files.  `dumpJsonTs_zero` (in `Vflow.Proofs.JsonPrefix`):
`dumpJson ipfix c = dumpJsonTs ipfix (fun _ => 0) c`. -/

def entryJsonTs (ipfix : Bool) (ts : CKey → Int) (e : CKey × Template) : Bytes :=
  34 :: escString e.1.2 ++ [34, 58] ++ [123] ++ kw (str "Template") ++ templateJson ipfix e.2 ++ [44] ++
    kw (str "Timestamp") ++ intDigits (ts e.1) ++ [125]

def shardJsonTs (ipfix : Bool) (ts : CKey → Int) (c : Cache) (i : Nat) : Bytes :=
  [123] ++ kw (str "Templates") ++ [123] ++
    joinSep 44 ((sortEntries (c.filter fun e => e.1.1 = i)).map (entryJsonTs ipfix ts)) ++ [125, 125]

/-- `json.Marshal(memCacheDisk{m, 32})` where the entry with key `k` carries the timestamp `ts k` -/
def dumpJsonTs (ipfix : Bool) (ts : CKey → Int) (c : Cache) : Bytes :=
  [123] ++ kw (str "Cache") ++ [91] ++ joinSep 44 ((List.range 32).map (shardJsonTs ipfix ts c)) ++ [93, 44] ++
    kw (str "ShardNo") ++ str "32" ++ [125]

/-- the document `json.Unmarshal` produces for a dump (`docOf`): used to state save/load identity -/
def docOf (c : Cache) : Doc :=
  ⟨32, (List.range 32).map fun i => some (some ((sortEntries (c.filter fun e => e.1.1 = i)).map fun e => (e.1.2, e.2)))⟩

end Vflow.CacheFile
