import Vflow.Model.Packet
/-!
# Model of `sflow/*.go` — `SFDecoder.SFDecode`

The Go decoder reads from a `bytes.Reader` through `encoding/binary.Read` (= `io.ReadFull`),
`Reader.Read` and `Reader.Seek(n, 1)`.  The reader state is modelled by the *remaining octets*
`s[i:]` (empty when the position has been seeked past the end):

* `full n`    — `binary.Read` of `n` octets: all of them or an error (`n = 0` always succeeds);
* `rawRead n` — `Reader.Read(buf[0:n])`: EOF iff nothing is left (even for `n = 0`), otherwise
                copies what is there and leaves the rest of `buf` zero;
* `List.drop n` — `Seek(n, 1)` (never fails for an unsigned offset; may run past the end).

The three loops (samples, flow records, counter records) are instances of `loopN`, which
carries explicit fuel; `Res.fuel` is the model's image of unbounded work.

The model describes the code after the `fix:` commits F5 (extended-router length validated),
F6 (`DstPriority` stored), F14 (enterprise-specific samples skipped by their declared length) and F19:
a sampled header the dissector rejects leaves its record out instead of failing the datagram (F19a; an
empty header is not read at all), the flow sample keeps the 24-bit source id index (F19b), an
extended-router record of a length other than 16 / 28 is skipped by its declared length (F19d); and F33: a
raw-header record is reported as `sflow.RawHeader` — its own four words (header protocol, frame length,
stripped, header length) and, embedded, the packet the sampled octets dissect to (absent when the dissector
rejects them: the four words are still the record).
Core Lean only.
-/
namespace Vflow.Sflow
open Vflow Vflow.Packet

/-! ## reader operations -/

/-- `binary.Read` of `n` octets -/
def full (n : Nat) (bs : Bytes) : Option (Bytes × Bytes) :=
  if bs.length < n then none else some (bs.take n, bs.drop n)

/-- `read(r, &x)` with `x uint32` -/
def u32 (bs : Bytes) : Option (Nat × Bytes) :=
  match full 4 bs with
  | none => none
  | some (b, r) => some (beN b, r)

/-- `bytes.Reader.Read` into a fresh buffer of `n` octets -/
def rawRead (n : Nat) (bs : Bytes) : Option (Bytes × Bytes) :=
  if bs.length = 0 then none
  else some (bs.take n ++ List.replicate (n - (bs.take n).length) 0, bs.drop n)

/-- a sequence of big-endian reads of the given widths (`for _, f := range fields { read(r, f) }`) -/
def readFields : List Nat → Bytes → Option (List Nat × Bytes)
  | [], bs => some ([], bs)
  | w :: ws, bs =>
    match full w bs with
    | none => none
    | some (b, r) =>
      match readFields ws r with
      | none => none
      | some (vs, r') => some (beN b :: vs, r')

/-- `for i := 0; i < n; i++ { step }`, collecting what the steps produce; any failure aborts.
The first argument is fuel. -/
def loopN {α : Type} (step : Bytes → Res (α × Bytes)) : Nat → Nat → Bytes → Res (List α × Bytes)
  | _, 0, bs => .ok ([], bs)
  | 0, _ + 1, _ => .fuel
  | fuel + 1, n + 1, bs =>
    match step bs with
    | .ok (a, r) =>
      match loopN step fuel n r with
      | .ok (as, r') => .ok (a :: as, r')
      | .err e => .err e
      | .panic => .panic
      | .fuel => .fuel
    | .err e => .err e
    | .panic => .panic
    | .fuel => .fuel

/-! ## layouts of the counter records: (JSON name, width in octets), in read order -/

abbrev Layout := List (String × Nat)
def widths (l : Layout) : List Nat := l.map (·.2)

def genIntLayout : Layout :=
  [("Index",4),("Type",4),("Speed",8),("Direction",4),("Status",4),("InOctets",8),("InUnicastPackets",4),
   ("InMulticastPackets",4),("InBroadcastPackets",4),("InDiscards",4),("InErrors",4),("InUnknownProtocols",4),
   ("OutOctets",8),("OutUnicastPackets",4),("OutMulticastPackets",4),("OutBroadcastPackets",4),("OutDiscards",4),
   ("OutErrors",4),("PromiscuousMode",4)]
def ethIntLayout : Layout :=
  [("AlignmentErrors",4),("FCSErrors",4),("SingleCollisionFrames",4),("MultipleCollisionFrames",4),
   ("SQETestErrors",4),("DeferredTransmissions",4),("LateCollisions",4),("ExcessiveCollisions",4),
   ("InternalMACTransmitErrors",4),("CarrierSenseErrors",4),("FrameTooLongs",4),("InternalMACReceiveErrors",4),
   ("SymbolErrors",4)]
def trIntLayout : Layout :=
  [("LineErrors",4),("BurstErrors",4),("ACErrors",4),("AbortTransErrors",4),("InternalErrors",4),
   ("LostFrameErrors",4),("ReceiveCongestions",4),("FrameCopiedErrors",4),("TokenErrors",4),("SoftErrors",4),
   ("HardErrors",4),("SignalLoss",4),("TransmitBeacons",4),("Recoverys",4),("LobeWires",4),("Removes",4),
   ("Singles",4),("FreqErrors",4)]
def vgIntLayout : Layout :=
  [("InHighPriorityFrames",4),("InHighPriorityOctets",8),("InNormPriorityFrames",4),("InNormPriorityOctets",8),
   ("InIPMErrors",4),("InOversizeFrameErrors",4),("InDataErrors",4),("InNullAddressedFrames",4),
   ("OutHighPriorityFrames",4),("OutHighPriorityOctets",8),("TransitionIntoTrainings",4),
   ("HCInHighPriorityOctets",8),("HCInNormPriorityOctets",8),("HCOutHighPriorityOctets",8)]
def vlanLayout : Layout :=
  [("ID",4),("Octets",8),("UnicastPackets",4),("MulticastPackets",4),("BroadcastPackets",4),("Discards",4)]
def procLayout : Layout :=
  [("CPU5s",4),("CPU1m",4),("CPU5m",4),("TotalMemory",8),("FreeMemory",8)]

/-- the `switch rTypeFormat` of `decodeFlowCounter` -/
def counterLayout (fmt : Nat) : Option Layout :=
  if fmt = 1 then some genIntLayout
  else if fmt = 2 then some ethIntLayout
  else if fmt = 3 then some trIntLayout
  else if fmt = 4 then some vgIntLayout
  else if fmt = 5 then some vlanLayout
  else if fmt = 1001 then some procLayout
  else none

/-! ## decoded structures -/

structure ExtSwitch where
  srcVlan : Nat
  srcPriority : Nat
  dstVlan : Nat
  dstPriority : Nat
deriving DecidableEq, Repr

structure ExtRouter where
  nextHop : Bytes
  srcMask : Nat
  dstMask : Nat
deriving DecidableEq, Repr

/-- `sflow.RawHeader` (F33): what a raw packet header record is reported as — the four words of the record as
read from the wire and the embedded `*packet.Packet` (`none` = nil: the dissector rejected the sampled octets) -/
structure RawHeader where
  protocol : Nat
  frameLength : Nat
  stripped : Nat
  headerLength : Nat
  pkt : Option Pkt
deriving DecidableEq, Repr

/-- what one iteration of the flow-record loop stores -/
inductive FlowRec where
  | raw (h : RawHeader)
  | sw (s : ExtSwitch)
  | rtr (r : ExtRouter)
deriving DecidableEq, Repr

/-- `FlowSample.Records` (a map with at most the keys ExtRouter, ExtSwitch, RawHeader) -/
structure FlowRecs where
  raw : Option RawHeader := none
  sw : Option ExtSwitch := none
  rtr : Option ExtRouter := none
deriving DecidableEq, Repr

/-- `fs.Records[key] = d` -/
def FlowRecs.put (m : FlowRecs) : Option FlowRec → FlowRecs
  | none => m
  | some (.raw p) => { m with raw := some p }
  | some (.sw s) => { m with sw := some s }
  | some (.rtr r) => { m with rtr := some r }

def FlowRecs.ofList (l : List (Option FlowRec)) : FlowRecs := l.foldl FlowRecs.put {}

structure FlowSample where
  seqNo : Nat
  sourceID : Nat
  sourceIDIdx : Nat
  samplingRate : Nat
  samplePool : Nat
  drops : Nat
  input : Nat
  output : Nat
  recordsNo : Nat
  recs : FlowRecs
deriving DecidableEq, Repr

/-- `CounterSample.Records`: per supported format the field values in layout order -/
structure CounterRecs where
  genInt : Option (List Nat) := none
  ethInt : Option (List Nat) := none
  trInt : Option (List Nat) := none
  vgInt : Option (List Nat) := none
  vlan : Option (List Nat) := none
  proc : Option (List Nat) := none
deriving DecidableEq, Repr

/-- `cs.Records[key] = d` for a record of format `fmt` -/
def CounterRecs.put (m : CounterRecs) : Option (Nat × List Nat) → CounterRecs
  | none => m
  | some (fmt, vs) =>
    if fmt = 1 then { m with genInt := some vs }
    else if fmt = 2 then { m with ethInt := some vs }
    else if fmt = 3 then { m with trInt := some vs }
    else if fmt = 4 then { m with vgInt := some vs }
    else if fmt = 5 then { m with vlan := some vs }
    else if fmt = 1001 then { m with proc := some vs }
    else m

def CounterRecs.ofList (l : List (Option (Nat × List Nat))) : CounterRecs := l.foldl CounterRecs.put {}

structure CounterSample where
  seqNo : Nat
  sourceIDType : Nat
  sourceIDIdx : Nat
  recordsNo : Nat
  recs : CounterRecs
deriving DecidableEq, Repr

/-- what one iteration of the sample loop appends -/
inductive Sample where
  | flow (s : FlowSample)
  | counter (c : CounterSample)
deriving DecidableEq, Repr

def Sample.flow? : Sample → Option FlowSample
  | .flow s => some s
  | _ => none
def Sample.counter? : Sample → Option CounterSample
  | .counter c => some c
  | _ => none
/-- the sFlow sample type that produced the item -/
def Sample.type : Sample → Nat
  | .flow _ => 1
  | .counter _ => 2

/-- `SFDatagram` without `ColTime` -/
structure Datagram where
  version : Nat
  ipVersion : Nat
  agentSubID : Nat
  seqNo : Nat
  sysUpTime : Nat
  samplesNo : Nat
  samples : List FlowSample
  counters : List CounterSample
  ip : Bytes
deriving DecidableEq, Repr

/-! ## flow sample -/

/-- `if len(sh.Header) > 0 { r.Read(sh.Header) }` (F19a repair): an empty buffer is not read — at the
end of the datagram `bytes.Reader.Read` reports `io.EOF` even for it -/
def readHdr (n : Nat) (bs : Bytes) : Option (Bytes × Bytes) :=
  if n = 0 then some ([], bs) else rawRead n bs

/-- `decodeSampledHeader` = `SampledHeader.unmarshal` + `Packet.Decoder` (after the F19a and F33 repairs): the
record is consumed (four words, header octets, XDR padding) before the dissector runs; the result carries the
four words as read (F33: they used to be dropped) and the dissector's packet — a dissector *error* yields no
packet (`pkt := none`, the embedded pointer stays nil) and no error.  Read errors stay errors. -/
def decodeSampledHeader (bs : Bytes) : Res (RawHeader × Bytes) :=
  match readFields [4, 4, 4, 4] bs with
  | some ([proto, frameLen, stripped, hl], r) =>
    if hl > 1500 then .err .hdrLen else
    match readHdr (hl + (4 - hl % 4) % 4) r with         -- make([]byte, HeaderLength+tmp); r.Read
    | none => .err .eof
    | some (buf, r') =>
      match slice? buf 0 hl with                          -- sh.Header[:sh.HeaderLength]
      | .ok hdr =>
        match dissect hdr proto with
        | .ok p => .ok (⟨proto, frameLen, stripped, hl, some p⟩, r')   -- rh.Packet = d
        | .err _ => .ok (⟨proto, frameLen, stripped, hl, none⟩, r')    -- rh.Packet stays nil
        | .panic => .panic
        | .fuel => .fuel
      | .err e => .err e
      | .panic => .panic
      | .fuel => .fuel
  | _ => .err .eof

/-- `ExtSwitchData.unmarshal` (after the F6 repair) -/
def decodeExtSwitch (bs : Bytes) : Res (ExtSwitch × Bytes) :=
  match readFields [4, 4, 4, 4] bs with
  | some ([a, b, c, d], r) => .ok (⟨a, b, c, d⟩, r)
  | _ => .err .eof

/-- `ExtRouterData.unmarshal(r, l)` (after the F5 repair: only the two lengths of the
specification are accepted, so `make([]byte, l-8)` is 8 or 20 octets and `buff[4:]` is in range; since
the F19d repair the record loop calls it with these two lengths only) -/
def decodeExtRouter (l : Nat) (bs : Bytes) : Res (ExtRouter × Bytes) :=
  if l ≠ 16 ∧ l ≠ 28 then .err .rtrLen else
  match full (l - 8) bs with
  | none => .err .eof
  | some (buf, r) =>
    match from? buf 4 with                                 -- er.NextHop = buff[4:]
    | .ok hop =>
      match readFields [4, 4] r with
      | some ([sm, dm], r') => .ok (⟨hop, sm, dm⟩, r')
      | _ => .err .eof
    | .err e => .err e
    | .panic => .panic
    | .fuel => .fuel

/-- map the value of a step -/
def Res.mapFst {α β : Type} (f : α → β) : Res (α × Bytes) → Res (β × Bytes)
  | .ok (a, r) => .ok (f a, r)
  | .err e => .err e
  | .panic => .panic
  | .fuel => .fuel

/-- one iteration of the record loop of `decodeFlowSample` -/
def flowRecord (bs : Bytes) : Res (Option FlowRec × Bytes) :=
  match u32 bs with
  | none => .err .eof
  | some (fmt, r1) =>
    match u32 r1 with
    | none => .err .eof
    | some (len, r2) =>
      if fmt = 1 then (decodeSampledHeader r2).mapFst (fun h => some (.raw h))      -- Records["RawHeader"] = d
      else if fmt = 1001 then (decodeExtSwitch r2).mapFst (fun s => some (.sw s))
      else if fmt = 1002 then
        if len ≠ 16 ∧ len ≠ 28 then .ok (none, r2.drop len)   -- F19d: r.Seek(int64(rTypeLength), 1); continue
        else (decodeExtRouter len r2).mapFst (fun x => some (.rtr x))
      else .ok (none, r2.drop len)                        -- r.Seek(int64(rTypeLength), 1)

/-- `decodeFlowSample` (after the F19b repair: the three octets after the source id type are read into
`SourceIDIdx`, as `decodeFlowCounter` does) -/
def decodeFlowSample (bs : Bytes) : Res (FlowSample × Bytes) :=
  match readFields [4, 1, 3, 4, 4, 4, 4, 4, 4] bs with
  | some ([seq, sid, idx, rate, pool, drops, inp, out, n], r1) =>
    match loopN flowRecord (r1.length + 1) n r1 with
    | .ok (items, r2) => .ok (⟨seq, sid, idx, rate, pool, drops, inp, out, n, FlowRecs.ofList items⟩, r2)
    | .err e => .err e
    | .panic => .panic
    | .fuel => .fuel
  | _ => .err .eof

/-! ## counter sample -/

/-- one iteration of the record loop of `decodeFlowCounter` -/
def counterRecord (bs : Bytes) : Res (Option (Nat × List Nat) × Bytes) :=
  match u32 bs with
  | none => .err .eof
  | some (fmt, r1) =>
    match u32 r1 with
    | none => .err .eof
    | some (len, r2) =>
      match counterLayout fmt with
      | none => .ok (none, r2.drop len)
      | some l =>
        match readFields (widths l) r2 with
        | none => .err .eof
        | some (vs, r3) => .ok (some (fmt, vs), r3)

/-- `decodeFlowCounter` -/
def decodeCounterSample (bs : Bytes) : Res (CounterSample × Bytes) :=
  match readFields [4, 1, 3, 4] bs with
  | some ([seq, ty, idx, n], r1) =>
    match loopN counterRecord (r1.length + 1) n r1 with
    | .ok (items, r2) => .ok (⟨seq, ty, idx, n, CounterRecs.ofList items⟩, r2)
    | .err e => .err e
    | .panic => .panic
    | .fuel => .fuel
  | _ => .err .eof

/-! ## datagram -/

/-- `getSampleInfo` (after the F14 repair): `(enterprise, format, length)` -/
def sampleInfo (bs : Bytes) : Res ((Nat × Nat × Nat) × Bytes) :=
  match u32 bs with
  | none => .err .eof
  | some (ty, r1) =>
    match u32 r1 with
    | none => .err .noLen
    | some (len, r2) => .ok ((ty / 4096, ty % 4096, len), r2)

/-- one iteration of the sample loop of `SFDecode` with type filter `f` -/
def sampleStep (f : List Nat) (bs : Bytes) : Res (Option Sample × Bytes) :=
  match sampleInfo bs with
  | .ok ((ent, fmt, len), r) =>
    if ent ≠ 0 then .ok (none, r.drop len)                -- not standard sFlow data: skipped by its length
    else if fmt ∈ f then .ok (none, r.drop len)           -- isFilterMatch
    else if fmt = 1 then (decodeFlowSample r).mapFst (fun s => some (.flow s))
    else if fmt = 2 then (decodeCounterSample r).mapFst (fun c => some (.counter c))
    else .ok (none, r.drop len)
  | .err e => .err e
  | .panic => .panic
  | .fuel => .fuel

/-- the fixed part of the datagram: `sfHeaderDecode` -/
structure Header where
  version : Nat
  ipVersion : Nat
  ip : Bytes
  agentSubID : Nat
  seqNo : Nat
  sysUpTime : Nat
  samplesNo : Nat
deriving DecidableEq, Repr

def decodeHeader (bs : Bytes) : Res (Header × Bytes) :=
  match u32 bs with
  | none => .err .eof
  | some (ver, r1) =>
    if ver ≠ 5 then .err .version else
    match u32 r1 with
    | none => .err .eof
    | some (ipv, r2) =>
      match rawRead (if ipv = 2 then 16 else 4) r2 with
      | none => .err .eof
      | some (ip, r3) =>
        match readFields [4, 4, 4, 4] r3 with
        | some ([sub, seq, up, n], r4) => .ok (⟨ver, ipv, ip, sub, seq, up, n⟩, r4)
        | _ => .err .eof

def mkDatagram (h : Header) (items : List (Option Sample)) : Datagram :=
  { version := h.version, ipVersion := h.ipVersion, agentSubID := h.agentSubID, seqNo := h.seqNo,
    sysUpTime := h.sysUpTime, samplesNo := h.samplesNo,
    samples := items.filterMap (fun o => o.bind Sample.flow?),
    counters := items.filterMap (fun o => o.bind Sample.counter?),
    ip := h.ip }

/-- `SFDecoder{filter: f}.SFDecode()` on the datagram `bs`; a Go error (with or without a partial
datagram) is `err`, because the caller drops the datagram on any error -/
def decode (f : List Nat) (bs : Bytes) : Res Datagram :=
  match decodeHeader bs with
  | .ok (h, r) =>
    match loopN (sampleStep f) (bs.length + 1) h.samplesNo r with
    | .ok (items, _) => .ok (mkDatagram h items)
    | .err e => .err e
    | .panic => .panic
    | .fuel => .fuel
  | .err e => .err e
  | .panic => .panic
  | .fuel => .fuel

end Vflow.Sflow
