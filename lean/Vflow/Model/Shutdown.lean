/-!
# Model of the stop protocol of one protocol pipeline (`run()` read loop vs `shutdown()`) and of `main`

Steps are the statements of the Go functions (extracted by factgen into `Vflow.Gen.ShutdownIR`):
the statements of `shutdown()`, the body of the read loop, and the statements of `run()` that follow
the loop (since the F21 repair: `close(queue)` — the read loop, the only sender, closes its queue
itself once it has left the loop; `shutdown()` no longer does), and — since the F27 repair — the statements of
`run()` BEFORE the loop that touch the template cache: `mCache = GetCache(file)` (`loadCache`: reading and parsing the
file of the previous run, which takes as long as the file is large) and the atomic store of the "loaded" flag
(`markLoaded`) that the guarded dump of `shutdown()` (`dumpIfLoaded`) tests.  `run()` and `shutdown()` are started by
different statements of `main` with only the signal in between, so the shutdown goroutine can run any number of its
steps before the reader has executed the first of its own: a `dump` of the still-nil cache rewrites the file of the
previous run as an empty one (`wiped`).
The interleaving model: the reader and the shutdown goroutine run their programs concurrently; a
step is atomic.  Closing the queue a second time, or sending on it once it is closed, panics (Go
semantics of `close` / `ch <- v`); both are recorded in `panicked`.

Time enters only through two *optional* assumptions (`Assume`), encoded as enabledness:
* `deadlines`: `sleep1s` finishes only when no read armed before `stop` was set is still pending
  (the read deadline is 1 s and was armed earlier than the sleep started).  A process that does not
  run for a while (SIGSTOP, VM pause, cgroup freeze) breaks this: with `deadlines := false` the
  sleep may end at any moment.
* `handoff` (hypothesis `H` of the design): the reader, once `ReadFromUDP` has returned a datagram,
  enqueues it before the shutdown goroutine reaches a `close(queue)` of its own.  It matters only for
  a `shutdown()` that closes the queue (the program before the F21 repair, kept in `Props/C15` as a
  regression witness): without it a send on the closed channel is reachable there.
-/
namespace Vflow.Shutdown

/-- statements of `shutdown()` -/
inductive SStep where
  | guardEnabled | setStop | log | sleep1s | dump | closeConn | closeQueue
  | dumpIfLoaded   -- `if atomic.LoadInt32(&loaded) == 1 { cache.Dump(file) }` (F27 repair)
  | unrecognised (go : String)
deriving Repr, DecidableEq

/-- statements of the read loop, and of `run()` after the loop and (those that touch the template cache) before it -/
inductive RStep where
  | whileNotStop | getBuf | deadline1s | read | onErrorContinue | countUDP | enqueue
  | closeQueue | log
  | loadCache      -- `cache = GetCache(file)`: the package-level cache variable is assigned the loaded templates
  | markLoaded     -- `atomic.StoreInt32(&loaded, 1)`
  | spawnRPC       -- `go ipfix.RPC(cache, …)`: hands the loaded cache to the RPC goroutine
  | unrecognised (go : String)
deriving Repr, DecidableEq

/-- the statements of `main` -/
inductive MStep where
  | notifySigintSigterm | loadElements | spawnRunsCounted | spawnStats | awaitSignal | spawnShutdownsCounted | waitAll
  | loadElementsIf (opts : List String) -- `if opts.A || opts.B … { LoadExtElements }`: the load under a guard (F34)
  | makeSignalChan (cap : Nat) -- `signalCh = make(chan os.Signal, cap)` (in `main`'s declaration block)
  | getOptions     -- `opts = GetOptions()`: flags, configuration file, pid-file test (may fork `kill -0`), pid-file write (F32)
  | setUp          -- a statement that synchronises with nothing (`runtime.GOMAXPROCS`, `logger = …`, a log line, `protos := …`)
  | unrecognised (go : String)
deriving Repr, DecidableEq

/-- the stop protocol of one listener: the statements of `shutdown()`, the statements of `run()` before the read
loop that touch the template cache, and the statements of `run()` after the loop (the loop body itself is fixed:
`Props/C15.gen_read_loops`) -/
structure Prog where
  shutdown : List SStep
  beforeLoop : List RStep
  afterLoop : List RStep
deriving Repr, DecidableEq

/-- the optional timing assumptions (see the module comment) -/
structure Assume where
  handoff : Bool
  deadlines : Bool
deriving Repr, DecidableEq

/-- no assumption at all: every interleaving of the atomic steps -/
def Assume.none : Assume := ⟨false, false⟩
/-- the four combinations -/
def Assume.all : List Assume := [⟨false, false⟩, ⟨false, true⟩, ⟨true, false⟩, ⟨true, true⟩]

/-- reader program counter -/
inductive RPc where
  | starting (k : Nat) -- `run()` has been started; about to execute statement `k` of `beforeLoop`
  | atCheck      -- about to evaluate `!stop`
  | inRead       -- deadline armed, blocked in ReadFromUDP
  | havePacket   -- read returned a datagram; about to count and enqueue it
  | leaving (k : Nat) -- left the loop; about to execute statement `k` of `afterLoop`
  | exited       -- `run()` has returned
deriving Repr, DecidableEq

structure St where
  rpc : RPc := .starting 0
  stop : Bool := false
  spc : Nat := 0            -- index into the shutdown program
  closed : Bool := false    -- queue closed
  connClosed : Bool := false
  dumped : Bool := false
  dumpedAfterStop : Bool := true
  panicked : Bool := false  -- a send on the closed queue, or a second close, happened
  readsAfterStop : Nat := 0 -- reads completed since stop was set (ghost)
  cacheSet : Bool := false  -- the cache variable holds the templates loaded from the file (before: nil)
  loadedFlag : Bool := false -- the atomic "loaded" flag
  wiped : Bool := false     -- a dump of the nil cache has replaced the file of the previous run by an empty one (ghost)
  dumpSkipped : Bool := false -- the guarded dump found the flag unset and left the file as it was (ghost)
  everRead : Bool := false  -- the read loop has armed a read at least once in this run (ghost)
deriving Repr, DecidableEq

/-- reader steps enabled in `s` -/
def readerSteps (p : Prog) (s : St) : List St :=
  match s.rpc with
  | .starting k =>
    match p.beforeLoop[k]? with
    | none => [{ s with rpc := .atCheck }]
    | some .loadCache => [{ s with rpc := .starting (k + 1), cacheSet := true }]
    | some .markLoaded => [{ s with rpc := .starting (k + 1), loadedFlag := true }]
    | some _ => [{ s with rpc := .starting (k + 1) }]
  | .atCheck => [if s.stop then { s with rpc := .leaving 0 } else { s with rpc := .inRead, everRead := true }]
  | .inRead =>
    -- timeout / error → back to the check; a datagram → hand-off (unless the socket was closed)
    let back : St := { s with rpc := .atCheck, readsAfterStop := if s.stop then s.readsAfterStop + 1 else s.readsAfterStop }
    let pkt : St := { s with rpc := .havePacket, readsAfterStop := if s.stop then s.readsAfterStop + 1 else s.readsAfterStop }
    if s.connClosed then [back] else [back, pkt]
  | .havePacket => [{ s with rpc := .atCheck, panicked := s.panicked || s.closed }]
  | .leaving k =>
    match p.afterLoop[k]? with
    | none => [{ s with rpc := .exited }]
    | some .closeQueue => [{ s with rpc := .leaving (k + 1), closed := true, panicked := s.panicked || s.closed }]
    | some _ => [{ s with rpc := .leaving (k + 1) }]
  | .exited => []

/-- the reader has left its loop for good (it will not send again) -/
def St.pastLoop (s : St) : Bool :=
  match s.rpc with
  | .leaving _ | .exited => true
  | _ => false

/-- the shutdown step at `s.spc`, if enabled under the assumptions `a` -/
def shutdownSteps (p : Prog) (a : Assume) (s : St) : List St :=
  match p.shutdown[s.spc]? with
  | none => []
  | some .setStop => [{ s with stop := true, spc := s.spc + 1 }]
  | some .sleep1s =>
    if a.deadlines ∧ s.rpc = .inRead ∧ s.readsAfterStop = 0 ∧ ¬ s.connClosed then [] else [{ s with spc := s.spc + 1 }]
  | some .dump => [{ s with dumped := true, dumpedAfterStop := s.stop, wiped := s.wiped || !s.cacheSet, spc := s.spc + 1 }]
  | some .dumpIfLoaded =>
    if s.loadedFlag then [{ s with dumped := true, dumpedAfterStop := s.stop, wiped := s.wiped || !s.cacheSet, spc := s.spc + 1 }]
    else [{ s with dumpSkipped := true, spc := s.spc + 1 }]
  | some .closeConn => [{ s with connClosed := true, spc := s.spc + 1 }]
  | some .closeQueue =>
    if a.handoff ∧ s.rpc = .havePacket then [] else [{ s with closed := true, panicked := s.panicked || s.closed, spc := s.spc + 1 }]
  | some _ => [{ s with spc := s.spc + 1 }]

def next (p : Prog) (a : Assume) (s : St) : List St := readerSteps p s ++ shutdownSteps p a s

/-- breadth-first closure under `next`, at most `fuel` rounds: `seen` = the states found so far, `frontier` = those
found in the last round (only they can have successors not seen yet). That nothing is missed is not taken on
trust: `closedUnderNext` re-checks the result against `next`. -/
def reach (p : Prog) (a : Assume) : Nat → List St → List St → List St
  | 0, seen, _ => seen
  | fuel + 1, seen, frontier =>
    let new := ((frontier.flatMap (next p a)).filter (fun s => !seen.contains s)).eraseDups
    if new.isEmpty then seen else reach p a fuel (seen ++ new) new

/-- all states reachable from the initial state by any interleaving -/
def reachable (p : Prog) (a : Assume) : List St := reach p a 64 [{}] [{}]

/-- the fixed point was reached (no new state in one more round) -/
def closedUnderNext (p : Prog) (a : Assume) : Bool :=
  (reachable p a).all fun s => (next p a s).all fun t => (reachable p a).contains t

end Vflow.Shutdown
