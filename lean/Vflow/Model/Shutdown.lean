/-!
# Model of the stop protocol of one protocol pipeline (`run()` read loop vs `shutdown()`) and of `main`

Steps are the statements of the Go functions (extracted by factgen into `Vflow.Gen.ShutdownIR`).
The interleaving model: the reader and the shutdown goroutine run their programs concurrently; a
step is atomic.  Time enters through two facts about the 1 s constants, encoded as *enabledness*:
* `sleep1s` finishes only when no read armed before `stop` was set is still pending (the read
  deadline is 1 s and was armed earlier than the sleep started);
* hypothesis `H` (`handoffBeforeClose`): the reader, once `ReadFromUDP` has returned a datagram,
  enqueues it before the shutdown goroutine reaches `close(queue)` (i.e. it is not descheduled for
  longer than the dump and the log line take).  Without `H` a send on the closed channel is reachable.
-/
namespace Vflow.Shutdown

/-- statements of `shutdown()` -/
inductive SStep where
  | guardEnabled | setStop | log | sleep1s | dump | closeConn | closeQueue
  | unrecognised (go : String)
deriving Repr, DecidableEq

/-- statements of the read loop -/
inductive RStep where
  | whileNotStop | getBuf | deadline1s | read | onErrorContinue | countUDP | enqueue
  | unrecognised (go : String)
deriving Repr, DecidableEq

/-- synchronisation-relevant statements of `main` -/
inductive MStep where
  | notifySigintSigterm | loadElements | spawnRunsCounted | spawnStats | awaitSignal | spawnShutdownsCounted | waitAll
  | unrecognised (go : String)
deriving Repr, DecidableEq

/-- reader program counter -/
inductive RPc where
  | atCheck      -- about to evaluate `!stop`
  | inRead       -- deadline armed, blocked in ReadFromUDP
  | havePacket   -- read returned a datagram; about to count and enqueue it
  | exited
deriving Repr, DecidableEq

structure St where
  rpc : RPc := .atCheck
  stop : Bool := false
  spc : Nat := 0            -- index into the shutdown program
  closed : Bool := false    -- queue closed
  connClosed : Bool := false
  dumped : Bool := false
  dumpedAfterStop : Bool := true
  panicked : Bool := false  -- a send on the closed queue happened
  readsAfterStop : Nat := 0 -- reads completed since stop was set (ghost)
deriving Repr, DecidableEq

/-- reader steps enabled in `s` -/
def readerSteps (s : St) : List St :=
  match s.rpc with
  | .atCheck => [if s.stop then { s with rpc := .exited } else { s with rpc := .inRead }]
  | .inRead =>
    -- timeout / error → back to the check; a datagram → hand-off (unless the socket was closed)
    let back : St := { s with rpc := .atCheck, readsAfterStop := if s.stop then s.readsAfterStop + 1 else s.readsAfterStop }
    let pkt : St := { s with rpc := .havePacket, readsAfterStop := if s.stop then s.readsAfterStop + 1 else s.readsAfterStop }
    if s.connClosed then [back] else [back, pkt]
  | .havePacket => [{ s with rpc := .atCheck, panicked := s.panicked || s.closed }]
  | .exited => []

/-- the shutdown step at `s.spc`, if enabled (`h` = hypothesis H is imposed) -/
def shutdownSteps (prog : List SStep) (h : Bool) (s : St) : List St :=
  match prog[s.spc]? with
  | none => []
  | some .setStop => [{ s with stop := true, spc := s.spc + 1 }]
  | some .sleep1s => if s.rpc = .inRead ∧ s.readsAfterStop = 0 ∧ ¬ s.connClosed then [] else [{ s with spc := s.spc + 1 }]
  | some .dump => [{ s with dumped := true, dumpedAfterStop := s.stop, spc := s.spc + 1 }]
  | some .closeConn => [{ s with connClosed := true, spc := s.spc + 1 }]
  | some .closeQueue => if h ∧ s.rpc = .havePacket then [] else [{ s with closed := true, spc := s.spc + 1 }]
  | some _ => [{ s with spc := s.spc + 1 }]

def next (prog : List SStep) (h : Bool) (s : St) : List St := readerSteps s ++ shutdownSteps prog h s

/-- breadth-first closure under `next`, `fuel` rounds -/
def reach (prog : List SStep) (h : Bool) : Nat → List St → List St
  | 0, seen => seen
  | fuel + 1, seen =>
    let new := (seen.flatMap (next prog h)).filter (fun s => !seen.contains s)
    if new.isEmpty then seen else reach prog h fuel (seen ++ new.eraseDups)

/-- all states reachable from the initial state by any interleaving -/
def reachable (prog : List SStep) (h : Bool) : List St := reach prog h 64 [{}]

/-- the fixed point was reached (no new state in one more round) -/
def closedUnderNext (prog : List SStep) (h : Bool) : Bool :=
  (reachable prog h).all fun s => (next prog h s).all fun t => (reachable prog h).contains t

end Vflow.Shutdown
