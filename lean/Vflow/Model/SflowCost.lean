import Vflow.Model.Sflow
/-!
# Allocation-instrumented twin of the sFlow decoder (C02)

Units: `n` for every `make([]byte, n)` whose size comes from the wire (sampled header incl. padding,
extended-router buffer, agent address), and 1 or 2 for the fixed-size objects of a step (structs, maps,
the per-read scratch of `encoding/binary`).  The twin follows the control flow of the model step by step
(`loopCost` charges every iteration that is *executed*, successful or not).
-/
namespace Vflow.Sflow
open Vflow

/-- units of a loop: the units of every executed step -/
def loopCost {α : Type} (stepCost : Bytes → Nat) (step : Bytes → Res (α × Bytes)) : Nat → Nat → Bytes → Nat
  | _, 0, _ => 0
  | 0, _ + 1, _ => 0
  | fuel + 1, n + 1, bs =>
    stepCost bs + match step bs with
      | .ok (_, r) => loopCost stepCost step fuel n r
      | _ => 0

/-- `make([]byte, HeaderLength+tmp)` of `SampledHeader.unmarshal` (only reached when the four words
were read and the length passed the 1500 cap) -/
def hdrCost (bs : Bytes) : Nat :=
  match readFields [4, 4, 4, 4] bs with
  | some ([_, _, _, hl], _) => if hl > 1500 then 0 else hl + (4 - hl % 4) % 4
  | _ => 0

def flowRecordCost (bs : Bytes) : Nat :=
  match u32 bs with
  | none => 1
  | some (fmt, r1) =>
    match u32 r1 with
    | none => 1
    | some (len, r2) =>
      if fmt = 1 then 2 + hdrCost r2
      else if fmt = 1001 then 2
      else if fmt = 1002 then (if len ≠ 16 ∧ len ≠ 28 then 1 else 2 + (len - 8))   -- skipped (F19d) | make([]byte, l-8)
      else 1

def counterRecordCost (_ : Bytes) : Nat := 2

def flowSampleCost (bs : Bytes) : Nat :=
  3 + match readFields [4, 1, 3, 4, 4, 4, 4, 4, 4] bs with          -- struct, map, the 3-octet index buffer (F19b)
    | some ([_, _, _, _, _, _, _, _, n], r1) => loopCost flowRecordCost flowRecord (r1.length + 1) n r1
    | _ => 0

def counterSampleCost (bs : Bytes) : Nat :=
  2 + match readFields [4, 1, 3, 4] bs with
    | some ([_, _, _, n], r1) => loopCost counterRecordCost counterRecord (r1.length + 1) n r1
    | _ => 0

def sampleStepCost (f : List Nat) (bs : Bytes) : Nat :=
  1 + match sampleInfo bs with
    | .ok ((ent, fmt, _), r) =>
      if ent ≠ 0 then 0 else if fmt ∈ f then 0
      else if fmt = 1 then flowSampleCost r else if fmt = 2 then counterSampleCost r else 0
    | _ => 0

/-- units of one `SFDecode` call: datagram struct and agent buffer, then the sample loop -/
def decodeCost (f : List Nat) (bs : Bytes) : Nat :=
  17 + match decodeHeader bs with
    | .ok (h, r) => loopCost (sampleStepCost f) (sampleStep f) (bs.length + 1) h.samplesNo r
    | _ => 0

end Vflow.Sflow
