import Vflow.Model.Base
/-!
# Number and hex text as octets (`strconv.FormatInt/FormatUint`, `hex.EncodeToString`)

Own definitions (rather than `Nat.repr`) so that the lexical theorems of C05 can be proved about
them; the correspondence checks them against Go's output.
-/
namespace Vflow

/-- decimal digits of a natural number, most significant first (no leading zero; `0` is "0") -/
def natDigits (n : Nat) : Bytes :=
  if n < 10 then [UInt8.ofNat (48 + n)] else natDigits (n / 10) ++ [UInt8.ofNat (48 + n % 10)]
termination_by n
decreasing_by omega

def intDigits (i : Int) : Bytes :=
  if i < 0 then 45 :: natDigits i.natAbs else natDigits i.toNat

/-- lower-case hex digit -/
def hexLower (n : Nat) : UInt8 := if n < 10 then UInt8.ofNat (48 + n) else UInt8.ofNat (87 + n)

/-- lower-case hex digits without leading zeros (`0` is "0") -/
def hexDigits (n : Nat) : Bytes :=
  if n < 16 then [hexLower n] else hexDigits (n / 16) ++ [hexLower (n % 16)]
termination_by n
decreasing_by omega

/-- two hex digits per octet (`hex.EncodeToString`) -/
def hexBytes : Bytes → Bytes
  | [] => []
  | b :: t => hexLower (b.toNat / 16) :: hexLower (b.toNat % 16) :: hexBytes t

/-- join with a separator octet -/
def joinSep (sep : UInt8) : List Bytes → Bytes
  | [] => []
  | [x] => x
  | x :: xs => x ++ [sep] ++ joinSep sep xs

end Vflow
