/-!
# Shapes of the facts `factgen` extracts from `producer/*.go` (consumed by `Vflow.Gen.ProducerFacts`)

Core Lean only. Anything the extractor does not recognise becomes an `unrecognised` value that no
obligation in `Props/C14.lean` accepts (fail closed).
-/
namespace Vflow
namespace Producer

/-- how `RawSocket.inputMsg` puts one message on the wire -/
inductive WriteExpr where
  /-- `fmt.Fprintf(rs.connection, <format>, args…)`; `literal` = the format is a string literal
      (its unquoted text is `format`), otherwise `format` is the Go expression used as format -/
  | fprintf (literal : Bool) (format : String) (args : List String)
  /-- `rs.connection.Write(<arg>)` -/
  | connWrite (arg : String)
  | unrecognised (go : String)
deriving DecidableEq, Repr

/-- statement skeleton of `RawSocket.inputMsg`, in source order -/
inductive RTok where
  | forever            -- `for {`
  | recv               -- `msg, ok = <-mCh`
  | breakIfClosed      -- `if !ok { break }`
  | forCounting        -- `for i := 0; ; i++ {`
  | write              -- the write statement (its expression is `rawWrite`), result in `err`
  | breakIfNil         -- `if err == nil { break }`
  | incErr             -- `*ec++`
  | ifBrokenPipe       -- `if strings.HasSuffix(err.Error(), "broken pipe") {`
  | dial               -- `newConnection, err := net.Dial(rs.config.Protocol, rs.config.URL)` (inner `err`)
  | onDialErrLog       -- `if err != nil { log }`
  | elseSwapConn       -- `else { log; rs.connection = newConnection }`
  | ifRetryExhaustedBreak  -- `if i >= rs.config.MaxRetry { log; break }`
  | elseLogRetry       -- `else { log }`
  | close              -- `}`
  | unrecognised (go : String)
deriving DecidableEq, Repr

/-- what a queue backend hands to its client library -/
inductive PayloadExpr where
  | recvVar                 -- the variable received from the channel itself
  | byteEncoderOfRecvVar    -- `sarama.ByteEncoder(<that variable>)` (a []byte conversion)
  | other (go : String)
deriving DecidableEq, Repr

/-- the write the model `sendOne` assumes: the message is a *value* argument of a literal format
    `%s\n`, or the octets with a newline appended are written directly -/
def writeIsVerbatim : WriteExpr → Bool
  | .fprintf true "%s\n" ["msg"] => true
  | _ => false

/-- the loop structure `sendOne`/`sendAll` mirror -/
def expectedLoop : List RTok :=
  [.forever, .recv, .breakIfClosed,
     .forCounting, .write, .breakIfNil, .incErr,
       .ifBrokenPipe, .dial, .onDialErrLog, .elseSwapConn, .close,
       .ifRetryExhaustedBreak, .elseLogRetry,
     .close,
   .close]

/-! ## The kafka (sarama) send loop: `for { msg, ok = <-mCh; if !ok { break }; <offer> }` -/

/-- how the body of one arm of the `select` ends -/
inductive ArmExit where
  /-- the arm reaches its end: control leaves the `select` -/
  | fallOut
  /-- the arm's last statement is `break <label>` -/
  | breakLabel (label : String)
  /-- any other jump (`break`, `continue`, `return`, `goto`, …): no meaning given, no theorem accepts it -/
  | other (go : String)
deriving DecidableEq, Repr

/-- the body of one arm of the `select` -/
structure KArm where
  /-- `k.logger.Print…(…)` statements -/
  logs : Nat
  /-- `*ec++` statements -/
  incs : Nat
  exit : ArmExit
  /-- statements the extractor does not recognise (Go text); must be empty -/
  junk : List String
deriving DecidableEq, Repr

/-- the statement that offers the message in hand to the client library: a `select` with exactly the
    arms `case k.producer.Input() <- &sarama.ProducerMessage{…}:` (`input`) and
    `case err := <-k.producer.Errors():` (`error`), no `default` -/
inductive Offer where
  /-- the `select` stands directly in the receive loop -/
  | selectOnce (input error : KArm)
  /-- `label: for { select { … } }` — the labelled loop holds nothing but the `select` -/
  | selectLoop (label : String) (input error : KArm)
  | unrecognised (go : String)
deriving DecidableEq, Repr

/-- `KafkaSarama.inputMsg`: its one `for { … }` -/
structure KLoop where
  /-- the loop body begins with `msg, ok = <-mCh` and `if !ok { break }` -/
  recvFirst : Bool
  /-- the statement after those two -/
  offer : Offer
  /-- every other statement of the loop body, and every statement of the function that is not a plain
      `var` declaration, the start-up log line, the loop or `k.producer.Close()` (Go text); must be empty -/
  extra : List String
deriving DecidableEq, Repr

/-- the repaired loop (F20): the select is repeated until `Input()` has accepted the message; every
    error report taken meanwhile is logged and counted once -/
def expectedSaramaLoop : KLoop :=
  { recvFirst := true,
    offer := .selectLoop "offer"
      { logs := 0, incs := 0, exit := .breakLabel "offer", junk := [] }
      { logs := 1, incs := 1, exit := .fallOut, junk := [] },
    extra := [] }

/-- the loop as it was before the F20 repair (`producer/sarama.go` up to 4d10a36): one `select` per
    message; after the error arm control leaves the `select` too, and the next message is received -/
def saramaLoopBeforeF20 : KLoop :=
  { recvFirst := true,
    offer := .selectOnce
      { logs := 0, incs := 0, exit := .fallOut, junk := [] }
      { logs := 1, incs := 1, exit := .fallOut, junk := [] },
    extra := [] }

end Producer
end Vflow
