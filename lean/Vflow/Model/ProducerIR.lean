/-!
# Shapes of the facts `factgen` extracts from `producer/*.go` (consumed by `Vflow.Gen.ProducerFacts`)

Core Lean only. Anything the extractor does not recognise becomes an `unrecognised` value that no
obligation in `Props/C14.lean` accepts (fail closed).
-/
namespace Vflow
namespace Producer

/-- how `RawSocket.inputMsg` puts one message on the wire -/
inductive WriteExpr where
  /-- `fmt.Fprintf(rs.connection, <format>, args…)`; `literal` = the format is a string literal
      (its unquoted text is `format`), otherwise `format` is the Go expression used as format -/
  | fprintf (literal : Bool) (format : String) (args : List String)
  /-- `rs.connection.Write(<arg>)` -/
  | connWrite (arg : String)
  | unrecognised (go : String)
deriving DecidableEq, Repr

/-- statement skeleton of `RawSocket.inputMsg`, in source order -/
inductive RTok where
  | forever            -- `for {`
  | recv               -- `msg, ok = <-mCh`
  | breakIfClosed      -- `if !ok { break }`
  | forCounting        -- `for i := 0; ; i++ {`
  | write              -- the write statement (its expression is `rawWrite`), result in `err`
  | breakIfNil         -- `if err == nil { break }`
  | incErr             -- `*ec++`
  | ifBrokenPipe       -- `if strings.HasSuffix(err.Error(), "broken pipe") {`
  | dial               -- `newConnection, err := net.Dial(rs.config.Protocol, rs.config.URL)` (inner `err`)
  | onDialErrLog       -- `if err != nil { log }`
  | elseSwapConn       -- `else { log; rs.connection = newConnection }`
  | ifRetryExhaustedBreak  -- `if i >= rs.config.MaxRetry { log; break }`
  | elseLogRetry       -- `else { log }`
  | close              -- `}`
  | unrecognised (go : String)
deriving DecidableEq, Repr

/-- what a queue backend hands to its client library -/
inductive PayloadExpr where
  | recvVar                 -- the variable received from the channel itself
  | byteEncoderOfRecvVar    -- `sarama.ByteEncoder(<that variable>)` (a []byte conversion)
  | other (go : String)
deriving DecidableEq, Repr

/-- the write the model `sendOne` assumes: the message is a *value* argument of a literal format
    `%s\n`, or the octets with a newline appended are written directly -/
def writeIsVerbatim : WriteExpr → Bool
  | .fprintf true "%s\n" ["msg"] => true
  | _ => false

/-- the loop structure `sendOne`/`sendAll` mirror -/
def expectedLoop : List RTok :=
  [.forever, .recv, .breakIfClosed,
     .forCounting, .write, .breakIfNil, .incErr,
       .ifBrokenPipe, .dial, .onDialErrLog, .elseSwapConn, .close,
       .ifRetryExhaustedBreak, .elseLogRetry,
     .close,
   .close]

end Producer
end Vflow
