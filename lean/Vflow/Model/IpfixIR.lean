import Vflow.Model.Ipfix
/-!
# A statement-level IR for the functions of `ipfix/decoder.go` and `netflow/v9/decoder.go`, and its Go semantics

`go/cmd/factgen/ipfix_ir.go` translates the two decoders' functions from the Go AST into `Func` values on every run
(`Vflow.Gen.IpfixIR`, `Vflow.Gen.V9IR`): expressions, assignments, `if`, `for`, `range`, `break`, `return`, the type switch on
`nonfatalError`, calls.  What it does not recognise becomes `.unrecognised "<go text>"`, on which the interpreter
yields no result, so that no theorem about the function can be proved.

This file gives the IR Go's meaning, as a total big-step interpreter (`exec`) over

* the reader `Rd` of `Model/Reader.lean` (reader calls are `Rd.step`), and the template cache of `Model/Flow.lean`,
* the locals of the running function: the translator numbers the variables of a function (receiver, parameters, then
  every declaration in source order, Go's scoping resolved by `go/parser`), so the environment is a list of values
  indexed by slot and a renamed local gives the same IR,
* a value universe `V` whose struct values ARE the model's structures (`Spec`, `Template`, `DField`, …); `fieldOf` /
  `setField` say which Go field is which component.

`none` stands for everything that is not a normal Go outcome: an index out of range (Go panics), an `.unrecognised`
node, a type confusion in the IR, a call of a function that is not linked in, or a loop that is still running when
the fuel is used up.  Every `for` loop gets the interpreter's `fuel` as the bound on its iterations (one more test of the
condition than iterations); `range` needs none.

What is NOT modelled: the text of error messages (an error is its class `Err` plus whether it is wrapped in
`nonfatalError{…}`; the format string selects the class through `errClasses`, its arguments are evaluated — they may
index — and dropped); integers are natural numbers: the unsigned types wrap around at their width, `int` is unbounded
above (no `int` of the decoders can approach 2^63: sums of at most 2·65535 16-bit lengths, reader counts); a difference
of two `int`s may be negative (`.neg`: NetFlow v9 computes what is left of a flowset so) and can then only be compared,
converted to `int` and stored; pointers are copy-in / copy-out (the decoder never aliases
the structs it passes by pointer); every `*reader.Reader` is the decoder's one reader.
-/
namespace Vflow.IpfixIR
open Vflow

/-- Go types the translator knows (integer types carry their wrap-around) -/
inductive Ty where
  | u8 | u16 | u32 | int | bool | error | bytes
  /-- `[]error` -/
  | errors
  /-- `TemplateFieldSpecifier`, `[]TemplateFieldSpecifier` -/
  | fieldSpec | fieldSpecs
  | tplHeader | tplRecord | setHeader | msgHeader
  /-- NetFlow v9: `TemplateHeader` (with the two option lengths), `PacketHeader`, `Message` -/
  | tplHeader9 | pktHeader | message9
  /-- `InfoElementEntry`, `FieldType` -/
  | elem
  /-- `interface{}` -/
  | any
  /-- `DecodedField`, `[]DecodedField`, `[][]DecodedField` -/
  | dfield | dfields | dsets
  /-- `Message` (and `*Message`) -/
  | message
  | other (go : String)
deriving DecidableEq, Repr

inductive BinOp where
  | add | sub | band | quo
  | lt | le | gt | ge | eq | ne
  | land | lor
deriving DecidableEq, Repr

inductive Expr where
  | lit (n : Nat)
  | nil
  /-- a local (receiver, parameter, variable) by slot -/
  | var (slot : Nat)
  /-- `e.name` -/
  | field (e : Expr) (name : String)
  /-- `e[i]` -/
  | index (e i : Expr)
  | len (e : Expr)
  /-- `T(e)` for an integer type `T` -/
  | conv (t : Ty) (e : Expr)
  /-- `!e` -/
  | not (e : Expr)
  /-- `a op b`; `t` is the Go type of the operands (what `+`, `-` wrap around at) -/
  | bin (op : BinOp) (t : Ty) (a b : Expr)
  /-- `<reader>.Len()`, `<reader>.ReadCount()` -/
  | rdLen | rdCount
  /-- `d.raddr` ; `d.raddr.String()` -/
  | raddr | raddrString
  /-- `Interpret(&b, t)` -/
  | interpret (b t : Expr)
  /-- `DecodedField{ID: id, Value: val, EnterpriseNo: ent}` -/
  | mkField (id val ent : Expr)
  /-- NetFlow v9 `DecodedField{ID: id, Value: val}` (no enterprise number) -/
  | mkField2 (id val : Expr)
  /-- `T{}` / `new(T)` / the zero value of `var x T` -/
  | zero (t : Ty)
  /-- `append(xs, x)` -/
  | append (xs x : Expr)
  /-- `fmt.Errorf(fmt, args…)`, wrapped in `nonfatalError{…}` or not; `args` is a chain of `.arg` -/
  | errorf (nonfatal : Bool) (fmt : String) (args : Expr)
  /-- argument chain of `errorf`: `.noArgs` or `.arg e rest` -/
  | noArgs | arg (e rest : Expr)
  /-- a package-level error value (`io.ErrUnexpectedEOF`) -/
  | errConst (name : String)
  /-- `combineErrors(es...)` (not translated: it only builds message text; the value is the list of its arguments) -/
  | combine (es : Expr)
  | unrecognised (go : String)
deriving DecidableEq, Repr

/-- assignable places: `_`, or a local with a path of field selections -/
inductive LHS where
  | blank
  | slot (i : Nat) (path : List String)
deriving DecidableEq, Repr

inductive Callee where
  /-- `<reader>.Uint8()`, `.Uint16()`, `.Uint32()`, `.Read(n)`, `.PeekUint16()`: (value, err) -/
  | rdU8 | rdU16 | rdU32 | rdRead | rdPeekU16
  /-- `InfoModel[ElementKey{ent, id}]` in its comma-ok form: (entry, ok) -/
  | infoModel
  /-- `mem.retrieve(id, addr)`: (template, ok) ; `mem.insert(id, addr, tr)` -/
  | retrieve | insert
  /-- a translated function or method -/
  | fn (name : String)
deriving DecidableEq, Repr

/-- an argument: a value, or a place handed over by pointer (pointer receivers, `*Message` parameters) -/
inductive Arg where
  | val (e : Expr)
  | ref (l : LHS)
deriving DecidableEq, Repr

inductive Stmt where
  | skip
  | seq (a b : Stmt)
  /-- `l = e`, `l := e`, `var l = e`, `var l T` (`e` the zero value), `l++` / `l--` / `l += e` (spelled out) -/
  | assign (l : LHS) (e : Expr)
  /-- `rets = callee(args)` (also `:=`, and the expression statement: no `rets`) -/
  | call (rets : List LHS) (c : Callee) (args : List Arg)
  /-- `if init; c { t } else { e }` -/
  | ite (init : Stmt) (c : Expr) (t e : Stmt)
  /-- `for init; c; post { body }` is `seq init (loop c body post)`; `for c { body }` has `post = skip` -/
  | loop (c : Expr) (body post : Stmt)
  /-- `for _, x := range xs { body }` -/
  | range (x : Nat) (xs : Expr) (body : Stmt)
  | brk
  | ret (es : List Expr)
  /-- `switch e.(type) { case nonfatalError: a ; default: b }` -/
  | switchNonfatal (e : Expr) (a b : Stmt)
  /-- `select { case rpcChan <- RPCRequest{…}: default: }`: asks the peers for a template; no effect on this decode -/
  | rpcRequest
  | unrecognised (go : String)
deriving Repr

/-- a block: the statements in order -/
def blk : List Stmt → Stmt
  | [] => .skip
  | s :: ss => .seq s (blk ss)

/-- the statements of a block (used by the proofs to name the parts of a translated body) -/
def Stmt.items : Stmt → List Stmt
  | .skip => []
  | .seq a b => a :: b.items
  | s => [s]

/-- the `i`-th statement of a block -/
def Stmt.nth (s : Stmt) (i : Nat) : Stmt := s.items.getD i (.unrecognised "no such statement")

/-- the body of a loop, the branches and the init statement of an `if` -/
def Stmt.loopBody : Stmt → Stmt
  | .loop _ b _ => b
  | .range _ _ b => b
  | _ => .unrecognised "not a loop"
def Stmt.loopCond : Stmt → Expr
  | .loop c _ _ => c
  | _ => .unrecognised "not a loop"
def Stmt.loopPost : Stmt → Stmt
  | .loop _ _ p => p
  | _ => .unrecognised "not a loop"
def Stmt.thn : Stmt → Stmt
  | .ite _ _ t _ => t
  | .switchNonfatal _ a _ => a
  | _ => .unrecognised "not an if"
def Stmt.els : Stmt → Stmt
  | .ite _ _ _ e => e
  | .switchNonfatal _ _ b => b
  | _ => .unrecognised "not an if"

/-- how the receiver / a parameter reaches the body -/
inductive ParamKind where
  /-- ordinary value parameter: occupies a slot -/
  | val (t : Ty)
  /-- pointer to a struct the function reads and writes: occupies a slot, copied back to the caller at the end -/
  | ref (t : Ty)
  /-- `*Decoder`, `*reader.Reader`, `MemCache`: the decoder state itself, no slot -/
  | ambient (go : String)
deriving DecidableEq, Repr

structure Func where
  /-- receiver (if any) first, then the parameters -/
  params : List ParamKind
  results : List Ty
  /-- number of slots: receiver / parameters that occupy one, then the declared locals -/
  nslots : Nat
  body : Stmt
deriving Repr

/-! ## Values -/

/-- an error value: its class and whether it is a `nonfatalError{…}` -/
structure GErr where
  nonfatal : Bool
  cls : Err
deriving DecidableEq, Repr

/-- `MessageHeader` -/
structure MHdr where
  ver : Nat := 0
  len : Nat := 0
  et : Nat := 0
  sq : Nat := 0
  dom : Nat := 0
deriving DecidableEq, Repr

def MHdr.toHdr (h : MHdr) : Hdr := [h.ver, h.len, h.et, h.sq, h.dom]
def MHdr.ofHdr (h : Hdr) : MHdr := ⟨h.getD 0 0, h.getD 1 0, h.getD 2 0, h.getD 3 0, h.getD 4 0⟩

/-- NetFlow v9 `PacketHeader` -/
structure PHdr where
  ver : Nat := 0
  cnt : Nat := 0
  up : Nat := 0
  secs : Nat := 0
  sq : Nat := 0
  src : Nat := 0
deriving DecidableEq, Repr

def PHdr.toHdr (h : PHdr) : Hdr := [h.ver, h.cnt, h.up, h.secs, h.sq, h.src]
def PHdr.ofHdr (h : Hdr) : PHdr := ⟨h.getD 0 0, h.getD 1 0, h.getD 2 0, h.getD 3 0, h.getD 4 0, h.getD 5 0⟩

inductive V where
  | unset
  | nil
  | int (n : Nat)
  /-- a negative `int`: −k, k ≥ 1 (only a difference of two `int`s can be one) -/
  | neg (k : Nat)
  | bool (b : Bool)
  | bytes (b : Bytes)
  | err (e : GErr)
  | errs (l : List GErr)
  | spec (s : Spec)
  | specs (l : List Spec)
  /-- `TemplateHeader` -/
  | thdr (tid cnt scnt : Nat)
  | tpl (t : Template)
  /-- `SetHeader` -/
  | shdr (id len : Nat)
  | mhdr (h : MHdr)
  /-- `InfoElementEntry`: FieldID, Type -/
  | elem (fid ty : Nat)
  | any (v : Val)
  | dfield (f : DField)
  | drec (l : Record)
  | dsets (l : List Record)
  /-- `Message`: AgentID (the exporter address it is the text of), Header, DataSets -/
  | msg (agent : Bytes) (h : MHdr) (sets : List Record)
  /-- NetFlow v9: `TemplateHeader` (TemplateID, FieldCount, OptionLen, OptionScopeLen), `PacketHeader`, `Message` -/
  | thdr9 (tid cnt olen oslen : Nat)
  | phdr (h : PHdr)
  | msg9 (agent : Bytes) (h : PHdr) (sets : List Record)
deriving DecidableEq, Repr

abbrev Env := List V

/-- the decoder state outside the locals -/
structure St where
  r : Rd
  cache : Cache
deriving Repr

def zero : Ty → Option V
  | .u8 | .u16 | .u32 | .int => some (.int 0)
  | .bool => some (.bool false)
  | .error => some .nil
  | .bytes => some (.bytes [])
  | .errors => some (.errs [])
  | .fieldSpec => some (.spec ⟨0, 0, 0⟩)
  | .fieldSpecs => some (.specs [])
  | .tplHeader => some (.thdr 0 0 0)
  | .tplRecord => some (.tpl ⟨0, 0, 0, [], []⟩)
  | .setHeader => some (.shdr 0 0)
  | .msgHeader => some (.mhdr {})
  | .elem => some (.elem 0 0)
  | .any => some .nil
  | .dfield => none
  | .dfields => some (.drec [])
  | .dsets => some (.dsets [])
  | .message => some (.msg [] {} [])
  | .tplHeader9 => some (.thdr9 0 0 0 0)
  | .pktHeader => some (.phdr {})
  | .message9 => some (.msg9 [] {} [])
  | .other _ => none

/-- integer types wrap around; `int` does not (see the header) -/
def wrap : Ty → Nat → Option Nat
  | .u8, n => some (n % 256)
  | .u16, n => some (n % 65536)
  | .u32, n => some (n % 4294967296)
  | .int, n => some n
  | _, _ => none

/-- `v.name` -/
def fieldOf (v : V) (name : String) : Option V :=
  match v with
  | .spec s =>
    if name = "ElementID" then some (.int s.id) else if name = "Length" then some (.int s.len)
    else if name = "EnterpriseNo" then some (.int s.ent) else none
  | .thdr tid cnt scnt =>
    if name = "TemplateID" then some (.int tid) else if name = "FieldCount" then some (.int cnt)
    else if name = "ScopeFieldCount" then some (.int scnt) else none
  | .tpl t =>
    if name = "TemplateID" then some (.int t.tid) else if name = "FieldCount" then some (.int t.cnt)
    else if name = "ScopeFieldCount" then some (.int t.scnt)
    else if name = "FieldSpecifiers" then some (.specs t.fields)
    else if name = "ScopeFieldSpecifiers" then some (.specs t.scope) else none
  | .shdr id len =>
    if name = "SetID" then some (.int id) else if name = "FlowSetID" then some (.int id)
    else if name = "Length" then some (.int len) else none
  | .thdr9 tid cnt olen oslen =>
    if name = "TemplateID" then some (.int tid) else if name = "FieldCount" then some (.int cnt)
    else if name = "OptionLen" then some (.int olen) else if name = "OptionScopeLen" then some (.int oslen) else none
  | .phdr h =>
    if name = "Version" then some (.int h.ver) else if name = "Count" then some (.int h.cnt)
    else if name = "SysUpTime" then some (.int h.up) else if name = "UNIXSecs" then some (.int h.secs)
    else if name = "SeqNum" then some (.int h.sq) else if name = "SrcID" then some (.int h.src) else none
  | .msg9 a h s =>
    if name = "AgentID" then some (.bytes a) else if name = "Header" then some (.phdr h)
    else if name = "DataSets" then some (.dsets s) else none
  | .mhdr h =>
    if name = "Version" then some (.int h.ver) else if name = "Length" then some (.int h.len)
    else if name = "ExportTime" then some (.int h.et) else if name = "SequenceNo" then some (.int h.sq)
    else if name = "DomainID" then some (.int h.dom) else none
  | .elem fid ty =>
    if name = "FieldID" then some (.int fid) else if name = "Type" then some (.int ty) else none
  | .msg a h s =>
    if name = "AgentID" then some (.bytes a) else if name = "Header" then some (.mhdr h)
    else if name = "DataSets" then some (.dsets s) else none
  | _ => none

/-- `v.name = x` -/
def setField (v : V) (name : String) (x : V) : Option V :=
  match v, x with
  | .spec s, .int n =>
    if name = "ElementID" then some (.spec { s with id := n }) else if name = "Length" then some (.spec { s with len := n })
    else if name = "EnterpriseNo" then some (.spec { s with ent := n }) else none
  | .thdr tid cnt scnt, .int n =>
    if name = "TemplateID" then some (.thdr n cnt scnt) else if name = "FieldCount" then some (.thdr tid n scnt)
    else if name = "ScopeFieldCount" then some (.thdr tid cnt n) else none
  | .tpl t, .int n =>
    if name = "TemplateID" then some (.tpl { t with tid := n }) else if name = "FieldCount" then some (.tpl { t with cnt := n })
    else if name = "ScopeFieldCount" then some (.tpl { t with scnt := n }) else none
  | .tpl t, .specs l =>
    if name = "FieldSpecifiers" then some (.tpl { t with fields := l })
    else if name = "ScopeFieldSpecifiers" then some (.tpl { t with scope := l }) else none
  | .shdr id len, .int n =>
    if name = "SetID" then some (.shdr n len) else if name = "FlowSetID" then some (.shdr n len)
    else if name = "Length" then some (.shdr id n) else none
  | .thdr9 tid cnt olen oslen, .int n =>
    if name = "TemplateID" then some (.thdr9 n cnt olen oslen) else if name = "FieldCount" then some (.thdr9 tid n olen oslen)
    else if name = "OptionLen" then some (.thdr9 tid cnt n oslen) else if name = "OptionScopeLen" then some (.thdr9 tid cnt olen n)
    else none
  | .phdr h, .int n =>
    if name = "Version" then some (.phdr { h with ver := n }) else if name = "Count" then some (.phdr { h with cnt := n })
    else if name = "SysUpTime" then some (.phdr { h with up := n }) else if name = "UNIXSecs" then some (.phdr { h with secs := n })
    else if name = "SeqNum" then some (.phdr { h with sq := n }) else if name = "SrcID" then some (.phdr { h with src := n }) else none
  | .msg9 _ h s, .bytes b => if name = "AgentID" then some (.msg9 b h s) else none
  | .msg9 a _ s, .phdr h => if name = "Header" then some (.msg9 a h s) else none
  | .msg9 a h _, .dsets s => if name = "DataSets" then some (.msg9 a h s) else none
  | .mhdr h, .int n =>
    if name = "Version" then some (.mhdr { h with ver := n }) else if name = "Length" then some (.mhdr { h with len := n })
    else if name = "ExportTime" then some (.mhdr { h with et := n }) else if name = "SequenceNo" then some (.mhdr { h with sq := n })
    else if name = "DomainID" then some (.mhdr { h with dom := n }) else none
  | .msg _ h s, .bytes b => if name = "AgentID" then some (.msg b h s) else none
  | .msg a _ s, .mhdr h => if name = "Header" then some (.msg a h s) else none
  | .msg a h _, .dsets s => if name = "DataSets" then some (.msg a h s) else none
  | _, _ => none

/-- read `v.f1.f2…` -/
def getPath (v : V) : List String → Option V
  | [] => some v
  | f :: fs => (fieldOf v f).bind fun sub => getPath sub fs

/-- `v.f1.f2… = x` -/
def setPath (v : V) (path : List String) (x : V) : Option V :=
  match path with
  | [] => some x
  | f :: fs => (fieldOf v f).bind fun sub => (setPath sub fs x).bind fun sub' => setField v f sub'

def readLHS (env : Env) : LHS → Option V
  | .blank => none
  | .slot i path => (env[i]?).bind fun v => getPath v path

def writeLHS (env : Env) (l : LHS) (x : V) : Option Env :=
  match l with
  | .blank => some env
  | .slot i path => (env[i]?).bind fun v => (setPath v path x).map fun v' => env.set i v'

def writeAll (env : Env) : List LHS → List V → Option Env
  | [], [] => some env
  | l :: ls, x :: xs => (writeLHS env l x).bind fun env' => writeAll env' ls xs
  | _, _ => none

/-- the error class a format string of the decoder stands for (an unknown text is no value) -/
def errClasses : List (String × Err) :=
  [("invalid ipfix version (%d)", .badVersion),
   ("failed to decodeSet / invalid setID", .invalidSet),
   ("failed to decodeData", .emptyRec),
   ("%s unknown ipfix template id# %d", .unknownTpl),
   ("IPFIX element key (%d) not exist (scope)", .unknownElem),
   ("IPFIX element key (%d) not exist", .unknownElem),
   ("%s zero-length data record (ipfix template id# %d)", .zeroRec),
   -- netflow/v9/decoder.go
   ("invalid netflow version (%d)", .badVersion),
   ("%s unknown netflow template id# %d", .unknownTpl),
   ("Netflow element key (%d) not exist (scope)", .unknownElem),
   ("Netflow element key (%d) not exist", .unknownElem),
   ("%s zero-length data record (netflow template id# %d)", .zeroRec)]

/-- package-level error values: `io.ErrUnexpectedEOF` is what `decodeSet` returns for a set length below 4 -/
def errConsts : List (String × Err) := [("io.ErrUnexpectedEOF", .badSetLen)]

/-- the reader's one error, `errReader` ("can not read the data") -/
def errReader : V := .err ⟨false, .short⟩

/-- `==` on the values the decoder compares -/
def veq : V → V → Option Bool
  | .int a, .int b => some (decide (a = b))
  | .bool a, .bool b => some (decide (a = b))
  | .nil, .nil => some true
  | .err _, .nil => some false
  | .nil, .err _ => some false
  | _, _ => none

/-- order comparisons with a negative operand (`x` negative, `y` not, or the other way round) -/
def cmpNeg (op : BinOp) (negLeft : Bool) : Option V :=
  match op with
  | .lt | .le => some (.bool negLeft)
  | .gt | .ge => some (.bool (!negLeft))
  | _ => none

def appendV : V → V → Option V
  | .specs l, .spec s => some (.specs (l ++ [s]))
  | .drec l, .dfield f => some (.drec (l ++ [f]))
  | .dsets l, .drec r => some (.dsets (l ++ [r]))
  | .errs l, .err e => some (.errs (l ++ [e]))
  | _, _ => none

def lenV : V → Option Nat
  | .specs l => some l.length
  | .drec l => some l.length
  | .dsets l => some l.length
  | .errs l => some l.length
  | .bytes l => some l.length
  | _ => none

def indexV : V → Nat → Option V
  | .specs l, i => (l[i]?).map .spec
  | .drec l, i => (l[i]?).map .dfield
  | .dsets l, i => (l[i]?).map .drec
  | .errs l, i => (l[i]?).map .err
  | _, _ => none

/-- `a - b` at an unsigned type `t`: wraps around -/
def subAt : Ty → Nat → Nat → Option Nat
  | .u8, a, b => some ((a + 256 - b % 256) % 256)
  | .u16, a, b => some ((a + 65536 - b % 65536) % 65536)
  | .u32, a, b => some ((a + 4294967296 - b % 4294967296) % 4294967296)
  | _, _, _ => none

/-- `a - b` at type `t`: the unsigned types wrap around, an `int` difference may be negative -/
def subV (t : Ty) (a b : Nat) : Option V :=
  match t with
  | .int => some (if b ≤ a then .int (a - b) else .neg (b - a))
  | t => (subAt t a b).map .int

def binInt (op : BinOp) (t : Ty) (a b : Nat) : Option V :=
  match op with
  | .add => (wrap t (a + b)).map .int
  | .sub => subV t a b
  | .band => some (.int (a &&& b))
  | .quo => if b = 0 then none else some (.int (a / b))
  | .lt => some (.bool (decide (a < b)))
  | .le => some (.bool (decide (a ≤ b)))
  | .gt => some (.bool (decide (a > b)))
  | .ge => some (.bool (decide (a ≥ b)))
  | _ => none

/-- expressions have no effect on the state -/
def eval (addr : Bytes) (st : St) (env : Env) : Expr → Option V
  | .lit n => some (.int n)
  | .nil => some .nil
  | .var i => match env[i]? with
    | some .unset => none
    | v => v
  | .field e name => (eval addr st env e).bind fun v => fieldOf v name
  | .index e i =>
    match eval addr st env e, eval addr st env i with
    | some v, some (.int n) => indexV v n
    | _, _ => none
  | .len e => (eval addr st env e).bind fun v => (lenV v).map .int
  | .conv t e =>
    match eval addr st env e with
    | some (.int n) => (wrap t n).map .int
    | some (.neg k) => if t = .int then some (.neg k) else none
    | _ => none
  | .not e =>
    match eval addr st env e with
    | some (.bool b) => some (.bool (!b))
    | _ => none
  | .bin op t a b =>
    match op with
    | .land =>
      match eval addr st env a with
      | some (.bool false) => some (.bool false)
      | some (.bool true) => match eval addr st env b with
        | some (.bool y) => some (.bool y)
        | _ => none
      | _ => none
    | .lor =>
      match eval addr st env a with
      | some (.bool true) => some (.bool true)
      | some (.bool false) => match eval addr st env b with
        | some (.bool y) => some (.bool y)
        | _ => none
      | _ => none
    | .eq =>
      match eval addr st env a, eval addr st env b with
      | some x, some y => (veq x y).map .bool
      | _, _ => none
    | .ne =>
      match eval addr st env a, eval addr st env b with
      | some x, some y => (veq x y).map fun r => .bool (!r)
      | _, _ => none
    | op =>
      match eval addr st env a, eval addr st env b with
      | some (.int x), some (.int y) => binInt op t x y
      | some (.neg _), some (.int _) => cmpNeg op true
      | some (.int _), some (.neg _) => cmpNeg op false
      | _, _ => none
  | .rdLen => some (.int st.r.rem.length)
  | .rdCount => some (.int st.r.cnt)
  | .raddr => some (.bytes addr)
  | .raddrString => some (.bytes addr)
  | .interpret b t =>
    match eval addr st env b, eval addr st env t with
    | some (.bytes bs), some (.int ty) => some (.any (interpret bs ty))
    | _, _ => none
  | .mkField id val ent =>
    match eval addr st env id, eval addr st env val, eval addr st env ent with
    | some (.int i), some (.any v), some (.int e) => some (.dfield ⟨i, e, v⟩)
    | _, _, _ => none
  | .mkField2 id val =>
    match eval addr st env id, eval addr st env val with
    | some (.int i), some (.any v) => some (.dfield ⟨i, 0, v⟩)
    | _, _ => none
  | .zero t => zero t
  | .append xs x =>
    match eval addr st env xs, eval addr st env x with
    | some l, some v => appendV l v
    | _, _ => none
  | .errorf nf fmt args =>
    match eval addr st env args with
    | some _ => (errClasses.lookup fmt).map fun c => .err ⟨nf, c⟩
    | none => none
  | .noArgs => some .nil
  | .arg e rest =>
    match eval addr st env e, eval addr st env rest with
    | some _, some _ => some .nil
    | _, _ => none
  | .errConst name => (errConsts.lookup name).map fun c => .err ⟨false, c⟩
  | .combine es =>
    match eval addr st env es with
    | some (.errs l) => some (.errs l)
    | _ => none
  | .unrecognised _ => none

def evalList (addr : Bytes) (st : St) (env : Env) : List Expr → Option (List V)
  | [] => some []
  | e :: es => match eval addr st env e, evalList addr st env es with
    | some v, some vs => some (v :: vs)
    | _, _ => none

/-! ## Statements -/

inductive Flow where
  | norm
  | brk
  | ret (vs : List V)
deriving DecidableEq, Repr

/-- outcome of a statement: how it ended, the decoder state, the locals -/
abbrev Res := Option (Flow × St × Env)

/-- meaning of a callable function: arguments (for a by-pointer argument the value it points to) ↦
state, final values of the by-pointer arguments in order, results -/
abbrev FnSem := List V → St → Option (St × List V × List V)

/-- the functions linked into a body, by name -/
abbrev Linkage := List (String × FnSem)

def rdResult (st : St) (p : Rd × ROut) : Option (St × List V × List V) :=
  match p.2 with
  | .num n => some ({ st with r := p.1 }, [], [.int n, .nil])
  | .bytes b => some ({ st with r := p.1 }, [], [.bytes b, .nil])
  | .fail => none

/-- the built-in callees. A failing reader call returns the zero value and `errReader`. -/
def builtin (c : Callee) (args : List V) (st : St) : Option (St × List V × List V) :=
  match c, args with
  | .rdU8, [] =>
    match st.r.step .u8 with
    | (_, .fail) => some (st, [], [.int 0, errReader])
    | p => rdResult st p
  | .rdU16, [] =>
    match st.r.step .u16 with
    | (_, .fail) => some (st, [], [.int 0, errReader])
    | p => rdResult st p
  | .rdU32, [] =>
    match st.r.step .u32 with
    | (_, .fail) => some (st, [], [.int 0, errReader])
    | p => rdResult st p
  | .rdPeekU16, [] =>
    match st.r.step .peekU16 with
    | (_, .fail) => some (st, [], [.int 0, errReader])
    | p => rdResult st p
  | .rdRead, [.int n] =>
    match st.r.step (.read (n : Int)) with
    | (_, .fail) => some (st, [], [.bytes [], errReader])
    | p => rdResult st p
  | .infoModel, [.int ent, .int id] =>
    match lookupElem ent id with
    | some (fid, ty) => some (st, [], [.elem fid ty, .bool true])
    | none => some (st, [], [.elem 0 0, .bool false])
  | .retrieve, [.int id, .bytes a] =>
    match st.cache.lookup a id with
    | some t => some (st, [], [.tpl t, .bool true])
    | none => some (st, [], [.tpl ⟨0, 0, 0, [], []⟩, .bool false])
  | .insert, [.int id, .bytes a, .tpl t] =>
    some ({ st with cache := st.cache.insert a id t }, [], [])
  | _, _ => none

/-- the current values of the arguments, and the places of the by-pointer ones -/
def evalArgs (addr : Bytes) (st : St) (env : Env) : List Arg → Option (List V × List LHS)
  | [] => some ([], [])
  | .val e :: as =>
    match eval addr st env e, evalArgs addr st env as with
    | some v, some (vs, ls) => some (v :: vs, ls)
    | _, _ => none
  | .ref l :: as =>
    match readLHS env l, evalArgs addr st env as with
    | some v, some (vs, ls) => some (v :: vs, l :: ls)
    | _, _ => none

/-- `for c { body ; post }` with at most `fuel` tests of the condition -/
def loopF (cond : St → Env → Option V) (body post : St → Env → Res) : Nat → St → Env → Res
  | 0, _, _ => none
  | fuel+1, st, env =>
    match cond st env with
    | some (.bool false) => some (.norm, st, env)
    | some (.bool true) =>
      match body st env with
      | some (.norm, st1, env1) =>
        (match post st1 env1 with
         | some (.norm, st2, env2) => loopF cond body post fuel st2 env2
         | _ => none)
      | some (.brk, st1, env1) => some (.norm, st1, env1)
      | some (.ret vs, st1, env1) => some (.ret vs, st1, env1)
      | none => none
    | _ => none

/-- `for _, x := range xs { body }` over the values of `xs` -/
def rangeF (x : Nat) (body : St → Env → Res) : List V → St → Env → Res
  | [], st, env => some (.norm, st, env)
  | v :: vs, st, env =>
    if x < env.length then
      match body st (env.set x v) with
      | some (.norm, st1, env1) => rangeF x body vs st1 env1
      | some (.brk, st1, env1) => some (.norm, st1, env1)
      | some (.ret rs, st1, env1) => some (.ret rs, st1, env1)
      | none => none
    else none

/-- the elements of a slice value, for `range` -/
def elemsV : V → Option (List V)
  | .specs l => some (l.map .spec)
  | .drec l => some (l.map .dfield)
  | .dsets l => some (l.map .drec)
  | .errs l => some (l.map .err)
  | _ => none

def exec (addr : Bytes) (link : Linkage) (fuel : Nat) : Stmt → St → Env → Res
  | .skip, st, env => some (.norm, st, env)
  | .seq a b, st, env =>
    match exec addr link fuel a st env with
    | some (.norm, st1, env1) => exec addr link fuel b st1 env1
    | r => r
  | .assign l e, st, env =>
    match eval addr st env e with
    | some v => (writeLHS env l v).map fun env' => (.norm, st, env')
    | none => none
  | .call rets c args, st, env =>
    match evalArgs addr st env args with
    | none => none
    | some (vs, refs) =>
      match (match c with
             | .fn name => (link.lookup name).bind fun f => f vs st
             | c => builtin c vs st) with
      | none => none
      | some (st1, outs, results) =>
        match writeAll env refs outs with
        | none => none
        | some env1 =>
          -- an expression statement drops the results
          if rets.isEmpty then some (.norm, st1, env1)
          else (writeAll env1 rets results).map fun env2 => (.norm, st1, env2)
  | .ite init c t e, st, env =>
    match exec addr link fuel init st env with
    | some (.norm, st1, env1) =>
      (match eval addr st1 env1 c with
       | some (.bool true) => exec addr link fuel t st1 env1
       | some (.bool false) => exec addr link fuel e st1 env1
       | _ => none)
    | r => r
  | .loop c body post, st, env =>
    loopF (fun st env => eval addr st env c) (exec addr link fuel body) (exec addr link fuel post) fuel st env
  | .range x xs body, st, env =>
    match (eval addr st env xs).bind elemsV with
    | some vs => rangeF x (exec addr link fuel body) vs st env
    | none => none
  | .brk, st, env => some (.brk, st, env)
  | .ret es, st, env => (evalList addr st env es).map fun vs => (.ret vs, st, env)
  | .switchNonfatal e a b, st, env =>
    match eval addr st env e with
    | some (.err g) => if g.nonfatal then exec addr link fuel a st env else exec addr link fuel b st env
    | some .nil => exec addr link fuel b st env
    | _ => none
  | .rpcRequest, st, env => some (.norm, st, env)
  | .unrecognised _, _, _ => none

/-- which parameters occupy a slot -/
def ParamKind.hasSlot : ParamKind → Bool
  | .ambient _ => false
  | _ => true

def ParamKind.isRef : ParamKind → Bool
  | .ref _ => true
  | _ => false

/-- slots of the by-pointer parameters, in order (slots are numbered over the parameters that have one) -/
def refSlots : List ParamKind → Nat → List Nat
  | [], _ => []
  | .ambient _ :: ps, i => refSlots ps i
  | .ref _ :: ps, i => i :: refSlots ps (i + 1)
  | .val _ :: ps, i => refSlots ps (i + 1)

def readSlots (env : Env) : List Nat → Option (List V)
  | [] => some []
  | i :: is => match env[i]?, readSlots env is with
    | some v, some vs => some (v :: vs)
    | _, _ => none

/-- run a function: the arguments fill the first slots, the other slots are unset until their declaration assigns
them; at the `return` the by-pointer parameters are handed back with the results -/
def Func.sem (f : Func) (addr : Bytes) (link : Linkage) (fuel : Nat) : FnSem := fun args st =>
  if args.length ≠ (f.params.filter ParamKind.hasSlot).length then none else
  match exec addr link fuel f.body st (args ++ List.replicate (f.nslots - args.length) .unset) with
  | some (.ret vs, st', env') =>
    if vs.length ≠ f.results.length then none else
    (readSlots env' (refSlots f.params 0)).map fun outs => (st', outs, vs)
  | _ => none

end Vflow.IpfixIR
