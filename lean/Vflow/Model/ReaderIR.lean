import Vflow.Model.Reader
/-!
# The statement-level IR of `reader/reader.go` and its Go semantics

`go/cmd/factgen/reader_ir.go` translates every method of `reader.Reader` into a `Method` value on every run
(`Vflow.Gen.ReaderIR`).  `run` below gives those values Go's meaning on the state `Rd`: a guard that returns the
zero value and `errReader`, a value expression over `r.data` (an index or slice bound that is out of range is
`none` — Go panics, or, for a slice bound within the capacity, hands out octets that are not the datagram's), and the
statements of `advance`.  `Props/C19` proves `run <generated method> = some (Rd.step <op>)` for every state and
argument: the model the C19 theorems speak about is what the current source says, and the source never reaches a
panic or spare capacity.
-/
namespace Vflow.ReaderIR

/-- a width: an integer literal or the method's `int` parameter -/
inductive Width where
  | k (n : Nat)
  | arg
deriving DecidableEq, Repr

/-- a value expression over `r.data` -/
inductive Val where
  /-- `r.data[0]` -/
  | index0
  /-- `binary.BigEndian.UintN(r.data)`, N = 8 * octets -/
  | be (octets : Nat)
  /-- `r.data[:w]` -/
  | pfx (w : Width)
deriving DecidableEq, Repr

/-- `if [n < 0 ||] len(r.data) < w { return <zero>, errReader }` -/
structure Guard where
  neg : Bool
  len : Width
deriving DecidableEq, Repr

/-- a statement of `advance(num)` -/
inductive AdvStmt where
  /-- `r.data = r.data[num:]` -/
  | reslice
  /-- `r.count += num` -/
  | countAdd
  | unrecognised (go : String)
deriving DecidableEq, Repr

inductive Body where
  /-- `guard; d := v; r.advance(w); return d, nil` -/
  | readLike (g : Guard) (v : Val) (adv : Width)
  /-- `guard; return v, nil` -/
  | peekLike (g : Guard) (v : Val)
  /-- `var b []byte; if b, err = r.Peek(k); err == nil { res = binary.BigEndian.UintN(b) }; return` -/
  | viaPeek (k : Nat) (octets : Nat)
  /-- `return len(r.data)` -/
  | lenOf
  /-- `return r.count` -/
  | countOf
  | unrecognised (go : String)
deriving DecidableEq, Repr

structure Method where
  /-- parameter types -/
  params : String
  /-- result types -/
  results : String
  body : Body
deriving DecidableEq, Repr

inductive NewIR where
  /-- `return &Reader{data: b}`: the count starts at its zero value -/
  | dataFromArgCountZero
  | unrecognised (go : String)
deriving DecidableEq, Repr

def Width.eval : Width → Int → Int
  | .k m, _ => m
  | .arg, n => n

def Guard.fails (g : Guard) (r : Rd) (n : Int) : Bool :=
  (g.neg && decide (n < 0)) || decide ((r.rem.length : Int) < g.len.eval n)

/-- `none`: the Go expression panics (index / slice bound out of range) or reaches beyond `len(r.data)` -/
def Val.eval (v : Val) (d : Bytes) (n : Int) : Option ROut :=
  match v with
  | .index0 => match d with
    | x :: _ => some (.num x.toNat)
    | [] => none
  | .be k => if d.length < k then none else some (.num (beN (d.take k)))
  | .pfx w =>
    let m := w.eval n
    if m < 0 ∨ (d.length : Int) < m then none else some (.bytes (d.take m.toNat))

def AdvStmt.run (s : AdvStmt) (r : Rd) (num : Int) : Option Rd :=
  match s with
  | .reslice => if num < 0 ∨ (r.rem.length : Int) < num then none else some ⟨r.rem.drop num.toNat, r.cnt⟩
  | .countAdd => some ⟨r.rem, (r.cnt + num).toNat⟩
  | .unrecognised _ => none

def runAdv (adv : List AdvStmt) (r : Rd) (num : Int) : Option Rd :=
  adv.foldl (fun acc s => acc.bind fun r => s.run r num) (some r)

/-- the bodies that do not call another method -/
def Body.runSimple (b : Body) (adv : List AdvStmt) (r : Rd) (n : Int) : Option (Rd × ROut) :=
  match b with
  | .readLike g v w =>
    if g.fails r n then some (r, .fail) else
      match v.eval r.rem n, runAdv adv r (w.eval n) with
      | some o, some r' => some (r', o)
      | _, _ => none
  | .peekLike g v =>
    if g.fails r n then some (r, .fail) else (v.eval r.rem n).map fun o => (r, o)
  | .lenOf => some (r, .num r.rem.length)
  | .countOf => some (r, .num r.cnt)
  | .viaPeek _ _ => none
  | .unrecognised _ => none

/-- every body; `peek` is the body of `Reader.Peek` -/
def Body.run (b : Body) (adv : List AdvStmt) (peek : Body) (r : Rd) (n : Int) : Option (Rd × ROut) :=
  match b with
  | .viaPeek k oct =>
    match peek.runSimple adv r k with
    | some (r', .bytes bs) => if bs.length < oct then none else some (r', .num (beN (bs.take oct)))
    | some (r', .fail) => some (r', .fail)
    | _ => none
  | b => b.runSimple adv r n

end Vflow.ReaderIR
