import Vflow.Model.Base
/-!
# The raw-socket producer loop (`producer/rawSocket.go`, `inputMsg`) against an outcome script

The Go loop, for every message taken from the channel:

```
for i := 0; ; i++ {
    _, err = fmt.Fprintf(rs.connection, "%s\n", msg)      -- after the F12 fix: the octets, then '\n'
    if err == nil { break }
    *ec++
    if strings.HasSuffix(err.Error(), "broken pipe") { redial; on success replace rs.connection }
    if i >= rs.config.MaxRetry { break }                  -- message given up
}
```

The network is an *outcome script*: the `j`-th write of the run has outcome `wo j`
(`ok` = write returned nil and the sink got the octets, `lost` = write returned nil but the octets
never reach the sink (TCP after a peer close, UDP to a closed port), `errPipe` = error ending in
"broken pipe", `errOther` = any other error); the `j`-th redial has outcome `dl j`.
How long a write takes is not part of an outcome: a write that blocks because the sink, still
connected, does not read for a while (event `z<k>` of the socket harness: a message larger than the
socket buffers and seconds of silence) and returns nil once the sink reads again is an `ok` write.
The loop sets no deadline, so on a connection that stays healthy a write cannot fail — a failed
write always belongs to a connection that is gone, and the part of a line it may have put on the wire
is gone with it (the retry of the whole message never lands behind a fragment of itself).
Core Lean only.
-/
namespace Vflow
namespace Producer

inductive WOut where | ok | lost | errPipe | errOther
deriving DecidableEq, Repr

inductive DOut where | ok | fail
deriving DecidableEq, Repr

/-- one chunk received by the sink: connection id, index of the handed-over message, octets -/
structure Chunk where
  conn : Nat
  idx : Nat
  data : Bytes
deriving DecidableEq, Repr

structure PS where
  conn : Nat := 0                 -- current connection id (bumped by every successful redial)
  wi : Nat := 0                   -- write attempts so far
  di : Nat := 0                   -- dial attempts so far
  ec : Nat := 0                   -- MQErrorCount
  delivered : List Chunk := []    -- what the sink has received, oldest first
deriving Repr

/-- what is put on the wire for one message: the octets, unmodified, then a newline -/
def frame (m : Bytes) : Bytes := m ++ [10]

/-- the retry loop for one message; `left` = retries still allowed after this attempt
    (`MaxRetry - i`), so at most `MaxRetry + 1` writes -/
def sendOne (wo : Nat → WOut) (dl : Nat → DOut) (idx : Nat) (m : Bytes) : Nat → PS → PS
  | left, s =>
    match wo s.wi with
    | .ok => { s with wi := s.wi + 1, delivered := s.delivered ++ [⟨s.conn, idx, frame m⟩] }
    | .lost => { s with wi := s.wi + 1 }
    | .errOther =>
      let s' := { s with wi := s.wi + 1, ec := s.ec + 1 }
      match left with
      | 0 => s'
      | l+1 => sendOne wo dl idx m l s'
    | .errPipe =>
      let s1 := { s with wi := s.wi + 1, ec := s.ec + 1, di := s.di + 1 }
      let s' := if dl s.di = .ok then { s1 with conn := s1.conn + 1 } else s1
      match left with
      | 0 => s'
      | l+1 => sendOne wo dl idx m l s'

/-- the channel loop: messages in hand-over order, `idx` = index of the next one -/
def sendAll (wo : Nat → WOut) (dl : Nat → DOut) (retryMax : Nat) : List Bytes → Nat → PS → PS
  | [], _, s => s
  | m :: ms, idx, s => sendAll wo dl retryMax ms (idx + 1) (sendOne wo dl idx m retryMax s)

/-- the whole run from a fresh connection -/
def run (wo : Nat → WOut) (dl : Nat → DOut) (retryMax : Nat) (ms : List Bytes) : PS :=
  sendAll wo dl retryMax ms 0 {}

/-- a finite script read as a total one: everything after its end succeeds -/
def scriptW (l : List WOut) (j : Nat) : WOut := l.getD j .ok
def scriptD (l : List DOut) (j : Nat) : DOut := l.getD j .ok

end Producer
end Vflow
