import Vflow.Model.Flow
import Vflow.Model.IpText
import Vflow.Model.JsonW
import Vflow.Gen.Layouts
import Vflow.Gen.JsonWrites
/-!
# Model of `ipfix/marshal.go` and `netflow/v9/marshal.go` (as they are after the F11 repair)

Decimal formatting (`strconv.FormatInt/FormatUint`), Go's JSON string escaping
(`encoding/json.appendString` with HTML escaping, as `json.Marshal(string)` does), `writeValue`,
and the data-set encoder.  Shortest float formatting (`strconv.FormatFloat(f,'E',-1,bits)`) is not
modelled: the text is an input (`ftext`), used as a JSON number when the bit pattern is finite and
quoted otherwise.
-/
namespace Vflow

/-! ## `encoding/json` string escaping -/

def isCont (b : UInt8) : Bool := 0x80 ≤ b && b ≤ 0xBF

/-- `utf8.DecodeRune` on the head of the list: the size of a valid encoding, 0 for `(RuneError, 1)` -/
def utf8Len : Bytes → Nat
  | [] => 0
  | b0 :: rest =>
    if b0 < 0x80 then 1
    else if 0xC2 ≤ b0 && b0 ≤ 0xDF then
      match rest with
      | b1 :: _ => if isCont b1 then 2 else 0
      | _ => 0
    else if 0xE0 ≤ b0 && b0 ≤ 0xEF then
      match rest with
      | b1 :: b2 :: _ =>
        let lo : UInt8 := if b0 == 0xE0 then 0xA0 else 0x80
        let hi : UInt8 := if b0 == 0xED then 0x9F else 0xBF
        if lo ≤ b1 && b1 ≤ hi && isCont b2 then 3 else 0
      | _ => 0
    else if 0xF0 ≤ b0 && b0 ≤ 0xF4 then
      match rest with
      | b1 :: b2 :: b3 :: _ =>
        let lo : UInt8 := if b0 == 0xF0 then 0x90 else 0x80
        let hi : UInt8 := if b0 == 0xF4 then 0x8F else 0xBF
        if lo ≤ b1 && b1 ≤ hi && isCont b2 && isCont b3 then 4 else 0
      | _ => 0
    else 0

/-- one ASCII octet: the `b < utf8.RuneSelf` branch of `appendString` with `escapeHTML = true` -/
def escAscii (b : UInt8) : Bytes :=
  if b == 34 || b == 92 then [92, b]
  else if b == 8 then [92, 98]
  else if b == 12 then [92, 102]
  else if b == 10 then [92, 110]
  else if b == 13 then [92, 114]
  else if b == 9 then [92, 116]
  else if b < 32 || b == 60 || b == 62 || b == 38 then
    [92, 117, 48, 48, hexLower (b.toNat / 16), hexLower (b.toNat % 16)]
  else [b]

/-- the body of `appendString`: fuel = number of octets left (each step consumes at least one) -/
def escBody : Nat → Bytes → Bytes
  | 0, _ => []
  | _, [] => []
  | f+1, b :: rest =>
    if b < 0x80 then escAscii b ++ escBody f rest
    else
      let n := utf8Len (b :: rest)
      if n = 0 then [92, 117, 102, 102, 102, 100] ++ escBody f rest            -- �
      else if n = 3 ∧ b = 0xE2 ∧ rest.take 2 = [0x80, 0xA8] then
        [92, 117, 50, 48, 50, 56] ++ escBody f (rest.drop 2)                    --  
      else if n = 3 ∧ b = 0xE2 ∧ rest.take 2 = [0x80, 0xA9] then
        [92, 117, 50, 48, 50, 57] ++ escBody f (rest.drop 2)                    --  
      else (b :: rest).take n ++ escBody f (rest.drop (n - 1))

/-- escaped body of `json.Marshal(string(s))` (without the surrounding quotes) -/
def escString (s : Bytes) : Bytes := escBody s.length s

/-! ## `writeValue` -/

/-- IEEE-754: exponent all ones = NaN or ±Inf (no JSON number form) -/
def f32Finite (bits : Nat) : Bool := (bits / 8388608) % 256 != 255
def f64Finite (bits : Nat) : Bool := (bits / 4503599627370496) % 2048 != 2047

def quoted (b : Bytes) : Bytes := 34 :: b ++ [34]

/-- the octets `writeValue` appends; `ftext` = `strconv.FormatFloat` text for float values -/
def writeValue (v : Val) (ftext : Bytes) : Bytes :=
  match v with
  | .bool b => if b then [116, 114, 117, 101] else [102, 97, 108, 115, 101]
  | .u8 n | .u16 n | .u32 n | .u64 n => natDigits n
  | .i8 n | .i16 n | .i32 n | .i64 n => intDigits n
  | .f32 bits => if f32Finite bits then ftext else quoted ftext
  | .f64 bits => if f64Finite bits then ftext else quoted ftext
  | .str s => quoted (escString s)
  | .ip b => quoted (ipBytes b)
  | .mac b => quoted (macBytes b)
  | .raw b => quoted (48 :: 120 :: hexBytes b)

/-- a decoded field with the float text supplied by the environment -/
structure JField where
  id : Nat
  ent : Nat
  val : Val
  ftext : Bytes := []

/-- `{"I":<id>,"V":<value>[,"E":<ent>]}` -/
def fieldJson (f : JField) : Bytes :=
  [123, 34, 73, 34, 58] ++ natDigits f.id ++ [44, 34, 86, 34, 58] ++ writeValue f.val f.ftext ++
    (if f.ent ≠ 0 then [44, 34, 69, 34, 58] ++ natDigits f.ent else []) ++ [125]

def joinComma : List Bytes → Bytes
  | [] => []
  | [x] => x
  | x :: xs => x ++ [44] ++ joinComma xs

def recordJson (r : List JField) : Bytes := [91] ++ joinComma (r.map fieldJson) ++ [93]

/-- `"DataSets":` -/
def dataSetsKey : Bytes := [34, 68, 97, 116, 97, 83, 101, 116, 115, 34, 58]

/-- `"DataSets":[[…],[…]]` -/
def dataSetsJson (recs : List (List JField)) : Bytes :=
  dataSetsKey ++ [91] ++ joinComma (recs.map recordJson) ++ [93]

/-- header / agent write programs (only `lit`, `num`, `agent` occur) -/
def runHdrWrites (agent : Bytes) (vals : List Nat) : List W → Bytes
  | [] => []
  | .lit b :: ws => b ++ runHdrWrites agent vals ws
  | .num i :: ws => natDigits (vals.getD i 0) ++ runHdrWrites agent vals ws
  | .agent :: ws => agent ++ runHdrWrites agent vals ws
  | _ :: ws => runHdrWrites agent vals ws

/-- `Message.JSONMarshal`, generic in the write programs -/
def marshalFlow (pa ph : List W) (agent : Bytes) (hdr : List Nat) (recs : List (List JField)) : Bytes :=
  [123] ++ runHdrWrites agent hdr pa ++ runHdrWrites agent hdr ph ++ dataSetsJson recs ++ [125]

def Ipfix.marshal (agent : Bytes) (hdr : List Nat) (recs : List (List JField)) : Bytes :=
  marshalFlow Gen.JsonWrites.ipfixAgent Gen.JsonWrites.ipfixHeader agent hdr recs

def V9.marshal (agent : Bytes) (hdr : List Nat) (recs : List (List JField)) : Bytes :=
  marshalFlow Gen.JsonWrites.v9Agent Gen.JsonWrites.v9Header agent hdr recs

end Vflow
