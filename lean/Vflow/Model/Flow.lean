import Vflow.Model.Reader
import Vflow.Model.Text
import Vflow.Gen.InfoModelTbl
/-!
# Shared pieces of the IPFIX / NetFlow v9 models

`ipfix/interpret.go` (`Interpret`, `minLen`), the information-model lookup (the *generated* table
`Vflow.Gen.InfoModelTbl.infoModelTbl`), templates, decoded fields, and the template cache of
`ipfix/memcache.go` / `netflow/v9/memcache.go` (since the K1 repair: 32 shard maps keyed by the
lower-case hex text of `addr ++ be16 id`; the shard is chosen by the 32-bit FNV-1 hash of the same
octets modulo 32; sequentially the 32 maps are one map keyed by (shard index, key text)).
-/
namespace Vflow

/-- error classes of the two template-based decoders (text is never compared) -/
inductive Err where
  | short        -- reader: "can not read the data"
  | badVersion
  | badSetLen    -- set length < 4: io.ErrUnexpectedEOF
  | invalidSet   -- IPFIX set id 0 (and 1) inside the record loop
  | emptyRec     -- IPFIX "failed to decodeData" (no field)
  | unknownTpl   -- non-fatal
  | unknownElem  -- non-fatal
  | zeroRec      -- non-fatal: a data record that consumed no octets (F2 repair)
  | fuel         -- the model ran out of fuel = the implementation would not terminate (sticky)
deriving Repr, DecidableEq

def Err.nonfatal : Err → Bool
  | .unknownTpl | .unknownElem | .zeroRec => true
  | _ => false

def Err.name : Err → String
  | .short => "short" | .badVersion => "badver" | .badSetLen => "badsetlen" | .invalidSet => "invalidset"
  | .emptyRec => "emptyrec" | .unknownTpl => "unknowntpl" | .unknownElem => "unknownelem"
  | .zeroRec => "zerorec" | .fuel => "fuel"

/-- TemplateFieldSpecifier -/
structure Spec where
  id : Nat
  len : Nat
  ent : Nat
deriving Repr, DecidableEq

/-- TemplateRecord (`cnt`/`scnt` are the header counts, kept because the cache file stores them) -/
structure Template where
  tid : Nat
  cnt : Nat := 0
  scnt : Nat := 0
  scope : List Spec
  fields : List Spec
deriving Repr, DecidableEq

/-! ## Information model and `Interpret` -/

/-- FieldType indices as in the Go iota block (checked against the generated table in Props.C20) -/
def tOctets : Nat := 13
def tString : Nat := 14

/-- enterprise elements the correspondence harness injects into `ipfix.InfoModel` for its runs
(as `LoadExtElements` would for an installed `ipfix.elements`), so that the enterprise path of the
decoder is exercised: (pen, id, FieldID, FieldType). The theorems never unfold `lookupElem`. -/
def extElems : List (Nat × Nat × Nat × Nat) :=
  [(9999, 1, 1, 3), (9999, 2, 2, 14), (9999, 3, 3, 20), (9999, 4, 4, 13),
   (9999, 5, 5, 11), (9999, 6, 6, 8), (9999, 7, 7, 12), (31337, 100, 100, 1),
   -- signed8 / signed16 / signed32 / float32: no IANA element of the built-in table has these types, so the
   -- decoders reach those arms of `Interpret` (and its sign extension of over-long fields, F24) only through these
   (9999, 8, 8, 5), (9999, 9, 9, 6), (9999, 10, 10, 7), (9999, 11, 11, 9),
   -- IANA-space (enterprise 0) elements that only an installed `ipfix.elements` defines: NetFlow v9 has no enterprise
   -- numbers, so this is the only way an extension reaches its decoder — it must see the loaded model, not a copy
   (0, 500, 500, 3), (0, 501, 501, 14), (0, 502, 502, 5)]

/-- the FieldType index a type name resolves to through the generated `FieldTypes` map; a missing
name gives 0 (`Unknown`), as the Go map lookup does on both load paths -/
def typeIndex (n : String) : Nat :=
  ((Gen.InfoModelTbl.fieldTypes.find? (·.1 = n)).map (·.2)).getD 0

/-- `InfoModel[ElementKey{ent,id}]` → (FieldID, FieldType) -/
def lookupElem (ent id : Nat) : Option (Nat × Nat) :=
  match Gen.InfoModelTbl.infoModelTbl.find? (fun e => e.1 = ent ∧ e.2.1 = id) with
  | some e => some (e.2.2.1, e.2.2.2)
  | none => (extElems.find? (fun e => e.1 = ent ∧ e.2.1 = id)).map fun e => (e.2.2.1, e.2.2.2)

/-- `FieldType.minLen` -/
def minLen (t : Nat) : Nat :=
  match t with
  | 11 => 1 | 1 => 1 | 5 => 1
  | 2 => 2 | 6 => 2
  | 3 => 4 | 7 => 4 | 9 => 4 | 15 => 4
  | 4 => 8 | 8 => 8 | 10 => 8 | 16 => 8 | 17 => 8 | 18 => 8
  | 12 => 6 | 19 => 4 | 20 => 16
  | _ => 0

/-- the Go dynamic value produced by `Interpret` (floats are kept as IEEE bit patterns) -/
inductive Val where
  | bool (b : Bool)
  | u8 (n : Nat) | u16 (n : Nat) | u32 (n : Nat) | u64 (n : Nat)
  | i8 (n : Int) | i16 (n : Int) | i32 (n : Int) | i64 (n : Int)
  | f32 (bits : Nat) | f64 (bits : Nat)
  | mac (b : Bytes) | str (b : Bytes) | ip (b : Bytes) | raw (b : Bytes)
deriving Repr, DecidableEq

/-- two's-complement reinterpretation (`int8(x)`, `int16(x)`, …) -/
def signed (n bound : Nat) : Int := if n ≥ bound / 2 then (n : Int) - bound else n

/-- the unsigned integer types `Uint8 … Uint64` (FieldType 1..4) / the signed ones `Int8 … Int64` (5..8):
the two `case` lists of the over-long branch of `Interpret` (tied to `Gen.InterpretTbl.interpretWide` in Props.C20) -/
def isUintT (t : Nat) : Bool := t == 1 || t == 2 || t == 3 || t == 4
def isIntT (t : Nat) : Bool := t == 5 || t == 6 || t == 7 || t == 8

/-- `wideUint` (F24 repair): more than 8 octets are returned as they are; otherwise
`for _, x := range b { v = v<<8 | uint64(x) }` — no overflow with at most 8 octets — is the big-endian value -/
def wideUint (b : Bytes) : Val :=
  if b.length > 8 then .raw b else .u64 (beN b)

/-- `wideInt` (F24 repair): `shift := uint(64 - 8*len(b)); int64(v<<shift) >> shift` transcribed: the left
shift wraps at 64 bits, `int64(·)` reinterprets, `>>` on a signed operand is the flooring division -/
def wideInt (b : Bytes) : Val :=
  if b.length > 8 then .raw b else
  .i64 (signed ((beN b * 2 ^ (64 - 8 * b.length)) % 18446744073709551616) 18446744073709551616
          / ((2 ^ (64 - 8 * b.length) : Nat) : Int))

/-- `Interpret(&b, t)`: a field shorter than the type's size is returned as it is; (since the F24 repair) an
integer field LONGER than the type's size is the value of all of its octets (`wideUint` / `wideInt`); a field of
the type's size — and, for the other types, a longer one — goes through the switch, whose conversions read the
first K octets (`(*b)[0]`, `binary.BigEndian.UintK`) -/
def interpret (b : Bytes) (t : Nat) : Val :=
  if b.length < minLen t then .raw b else
  if b.length > minLen t && isUintT t then wideUint b else
  if b.length > minLen t && isIntT t then wideInt b else
  match t with
  | 11 => .bool (b.headD 0 == 1)
  | 1 => .u8 (beN (b.take 1))
  | 2 => .u16 (beN (b.take 2))
  | 3 => .u32 (beN (b.take 4))
  | 4 => .u64 (beN (b.take 8))
  | 5 => .i8 (signed (beN (b.take 1)) 256)
  | 6 => .i16 (signed (beN (b.take 2)) 65536)
  | 7 => .i32 (signed (beN (b.take 4)) 4294967296)
  | 8 => .i64 (signed (beN (b.take 8)) 18446744073709551616)
  | 9 => .f32 (beN (b.take 4))
  | 10 => .f64 (beN (b.take 8))
  | 12 => .mac b
  | 14 => .str b
  | 19 => .ip b
  | 20 => .ip b
  | 15 => .u32 (beN (b.take 4))
  | 16 => .u64 (beN (b.take 8))
  | 17 => .u64 (beN (b.take 8))
  | 18 => .u64 (beN (b.take 8))
  | _ => .raw b

/-- result kind per FieldType, as text (tied to the generated `interpretKind` table in Props) -/
def Val.kind : Val → String
  | .bool _ => "bool" | .u8 _ => "u8" | .u16 _ => "u16" | .u32 _ => "u32" | .u64 _ => "u64"
  | .i8 _ => "i8" | .i16 _ => "i16" | .i32 _ => "i32" | .i64 _ => "i64"
  | .f32 _ => "f32" | .f64 _ => "f64" | .mac _ => "mac" | .str _ => "str" | .ip _ => "ip" | .raw _ => "raw"

/-- canonical text used by the line protocol -/
def Val.canon : Val → String
  | .bool b => "bool:" ++ (if b then "true" else "false")
  | .u8 n => "u8:" ++ toString n | .u16 n => "u16:" ++ toString n
  | .u32 n => "u32:" ++ toString n | .u64 n => "u64:" ++ toString n
  | .i8 n => "i8:" ++ toString n | .i16 n => "i16:" ++ toString n
  | .i32 n => "i32:" ++ toString n | .i64 n => "i64:" ++ toString n
  | .f32 n => "f32:" ++ toString n | .f64 n => "f64:" ++ toString n
  | .mac b => "mac:" ++ hex b | .str b => "str:" ++ hex b | .ip b => "ip:" ++ hex b | .raw b => "raw:" ++ hex b

/-- DecodedField -/
structure DField where
  id : Nat
  ent : Nat
  val : Val
deriving Repr, DecidableEq

abbrev Record := List DField

/-! ## Template cache -/

/-- 32-bit FNV-1 (`hash/fnv.New32`): multiply, then xor -/
def fnv1 (bs : Bytes) : Nat :=
  bs.foldl (fun h b => ((h * 16777619) % 4294967296) ^^^ b.toNat) 2166136261

/-- `getShard`: `key := append(addr, b...)` with `b` the big-endian template id -/
def keyOctets (addr : Bytes) (id : Nat) : Bytes := addr ++ encBE 2 id

/-- the key of the caches BEFORE the K1 repair (`Templates map[uint32]Data`): the hash of the key octets alone.
Kept as a named definition: `C04.hash_collision_counterexample` is a statement about it. -/
def oldCacheKey (addr : Bytes) (id : Nat) : Nat := fnv1 (keyOctets addr id)

/-- `getShard`: the shard index `uint(hSum32) % uint(shardNo)` -/
def shardOf (addr : Bytes) (id : Nat) : Nat := fnv1 (keyOctets addr id) % 32

/-- `getShard`: the map key `hex.EncodeToString(key)` — two lower-case hex digits per octet of the address,
then the four hex digits of the template id -/
def keyText (addr : Bytes) (id : Nat) : Bytes := hexBytes (keyOctets addr id)

/-- a key of the cache: (shard index, key text inside that shard's map). The two are kept apart because a cache
loaded from a file holds whatever key texts the file had, in whatever shard they stood -/
abbrev CKey := Nat × Bytes

/-- `getShard` -/
def cacheKey (addr : Bytes) (id : Nat) : CKey := (shardOf addr id, keyText addr id)

/-- the cache as one association list keyed by (shard, key text) (first match wins; insert replaces) -/
abbrev Cache := List (CKey × Template)

def Cache.lookup (c : Cache) (addr : Bytes) (id : Nat) : Option Template :=
  (c.find? (fun e => e.1 = cacheKey addr id)).map (·.2)

def Cache.insert (c : Cache) (addr : Bytes) (id : Nat) (t : Template) : Cache :=
  (cacheKey addr id, t) :: c.filter (fun e => e.1 ≠ cacheKey addr id)

/-- message / packet header fields as decoded (IPFIX: 5 fields, v9: 6 fields) -/
abbrev Hdr := List Nat

end Vflow
