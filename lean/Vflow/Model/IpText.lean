import Vflow.Model.Text
/-!
# Text forms of addresses: `net.IP.String`, `net.HardwareAddr.String`

Dotted quad for 4 octets and for IPv4-mapped 16-octet addresses, RFC 5952 text (longest run of
≥ 2 zero groups compressed, first one on a tie, lower-case hex without leading zeros) for other
16-octet addresses, `<nil>` for no octets and `?hex` for any other length — as Go's `net`/`netip` do.
-/
namespace Vflow

def ip4Bytes (b : Bytes) : Bytes := joinSep 46 (b.map fun x => natDigits x.toNat)

def octetAt (b : Bytes) (i : Nat) : Nat := (b.getD i 0).toNat

/-- the eight 16-bit groups of a 16-octet address -/
def groups (b : Bytes) : List Nat := (List.range 8).map fun i => octetAt b (2*i) * 256 + octetAt b (2*i+1)

/-- number of leading zero groups -/
def zeroRunLen : List Nat → Nat
  | 0 :: t => zeroRunLen t + 1
  | _ => 0

/-- `netip.Addr.string6`'s scan: the first longest run of at least two zero groups, as (start, length) -/
def bestZeroRun : List Nat → Nat → Nat × Nat → Nat × Nat
  | [], _, best => best
  | g :: t, i, best =>
    let l := zeroRunLen (g :: t)
    bestZeroRun t (i + 1) (if l ≥ 2 ∧ l > best.2 then (i, l) else best)

def ip6Bytes (b : Bytes) : Bytes :=
  let g := groups b
  let sl := bestZeroRun g 0 (0, 0)
  if sl.2 == 0 then joinSep 58 (g.map hexDigits) else
  joinSep 58 ((g.take sl.1).map hexDigits) ++ [58, 58] ++ joinSep 58 ((g.drop (sl.1 + sl.2)).map hexDigits)

/-- `IP.To4` on a 16-octet slice succeeds -/
def isV4Mapped (b : Bytes) : Bool :=
  b.length == 16 && (b.take 10).all (· == 0) && octetAt b 10 == 255 && octetAt b 11 == 255

/-- `net.IP.String` -/
def ipBytes (b : Bytes) : Bytes :=
  if b.length == 0 then [60, 110, 105, 108, 62] else            -- <nil>
  if b.length == 4 then ip4Bytes b else
  if b.length == 16 then (if isV4Mapped b then ip4Bytes (b.drop 12) else ip6Bytes b) else
  63 :: hexBytes b                                               -- ?hex

/-- `net.HardwareAddr.String`: two hex digits per octet, colon-separated -/
def macBytes (b : Bytes) : Bytes := joinSep 58 (b.map fun x => hexBytes [x])

end Vflow
