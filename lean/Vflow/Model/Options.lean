import Vflow.Model.Base
/-!
# Model of option loading (`vflow/options.go`: `NewOptions`, `flagSet`, `getEnv`, `loadCfg`, package `flag`)

The option table (`Row`s: Go field, kind, yaml tag, flag name, built-in default, how the flag's default
argument is written) and the order of the steps inside `flagSet` (`Stage`s) are *data*, regenerated from
the Go source by factgen (`Vflow.Gen.OptionsTbl`).  `run` interprets a stage list over the raw inputs of a
process: environment, the file system as seen by `ioutil.ReadFile`+`yaml.Unmarshal`, `os.Args`.
`loadCfg` locates the file by its own scan of `os.Args` (`findConfig`: the first word spelling the config
flag in one of the four ways package `flag` accepts, `cfgWord`; before the repair of F22 only the exact
word `-config`); package `flag` reads the command line word by word (`wordOf`, `parseArgs`) and stops at
the first word that is neither a flag nor the value of one; what it leaves (`flag.Args()`, `strayArgs`) is
refused by `flagSet` since the repair of F31 (`Stage.refuseStray`: `exit 2`).  What the command line *says*
is a definition of its own, not the parser's: `cliGiven` reads every `-key value` / `-key=value` / bare
boolean `-key` of the whole token list (nothing ends that scan), `cliSource` is the source it makes.
Core Lean only.

Not modelled (documented in DESIGN.md C17): the list-valued `sflow-type-filter`; fields without a yaml
tag as yaml keys (`vflowconfigpath`, `logger`) or as the environment variable `VFLOW_`; yaml scalars
other than canonical integers, `true`/`false` and strings (the file is given as typed values).
-/
namespace Vflow.Options
open Vflow

inductive Kind where
  | int | str | bool
  /-- a field type the table extractor does not handle (no theorem accepts it) -/
  | other (goType : String)
deriving DecidableEq, Repr

inductive Val where
  | int (n : Int) | str (s : String) | bool (b : Bool)
deriving DecidableEq, Repr

/-- how the default argument of `flag.XxxVar(&opts.F, name, <default>, usage)` is written -/
inductive FlagDefault where
  /-- `opts.F` itself: registering leaves the value loaded so far in place -/
  | current
  /-- the literal of `NewOptions`: registering resets the field to the built-in default -/
  | builtin
  /-- no flag for this field -/
  | noflag
  | unrecognised (goText : String)
deriving DecidableEq, Repr

/-- one setting: a field of `struct Options` -/
structure Row where
  field : String
  kind : Kind
  /-- yaml tag; "" = none -/
  yaml : String
  /-- name of the flag bound to `&opts.<field>`; "" = none -/
  flag : String
  dflt : Val
  fdef : FlagDefault
deriving DecidableEq, Repr

/-- the steps of `flagSet`, in source order -/
inductive Stage where
  /-- `flag.StringVar(&config, "config", …)` -/
  | registerConfig
  /-- `opts.getEnv()` -/
  | env
  /-- `opts.loadCfg()` -/
  | file
  /-- the block of `flag.XxxVar(&opts.F, …)` registrations -/
  | register
  /-- `flag.Parse()` -/
  | parse
  /-- `if flag.NArg() > 0 { fmt.Fprintf(os.Stderr, …); os.Exit(2) }` (F31): a command line with a positional
  argument — a word that is neither a flag nor the value of one — is refused -/
  | refuseStray
  | unrecognised (goText : String)
deriving DecidableEq, Repr

abbrev Settings := String → Val          -- by Go field name
abbrev Source := String → Option Val     -- what one source provides, by Go field name

/-- a source overwrites exactly the fields it provides -/
def apply (s : Settings) (src : Source) : Settings := fun f => (src f).getD (s f)

/-- the raw inputs of one process start -/
structure Inputs where
  /-- `os.Getenv` ("" when unset) -/
  env : String → String
  /-- `ioutil.ReadFile` + `yaml.Unmarshal`: for a path, the typed value of each yaml key, or `none` when unreadable -/
  readFile : String → Option (String → Option Val)
  /-- `os.Args[0]` -/
  arg0 : String
  /-- `os.Args[1:]` -/
  args : List String

inductive Outcome (α : Type) where
  | ok (a : α)
  /-- `os.Exit(code)`: `log.Fatal` in `getEnv` (1), package flag with `ExitOnError` (2; 0 for `-h`/`-help`) -/
  | exit (code : Nat)
  /-- runtime panic (`os.Args[i+1]` when `-config` / `--config` is the last word) -/
  | panic
deriving Repr

def Outcome.bind {α β : Type} (o : Outcome α) (f : α → Outcome β) : Outcome β :=
  match o with
  | .ok a => f a
  | .exit c => .exit c
  | .panic => .panic

instance : Monad Outcome where
  pure := .ok
  bind := Outcome.bind

/-! ## text → value (strconv) -/

def digitVal (c : Char) : Option Nat :=
  if '0' ≤ c ∧ c ≤ '9' then some (c.toNat - 48)
  else if 'a' ≤ c ∧ c ≤ 'f' then some (c.toNat - 87)
  else if 'A' ≤ c ∧ c ≤ 'F' then some (c.toNat - 55)
  else none

/-- digits in `base`, at least one -/
def natOfDigits (base : Nat) (cs : List Char) : Option Nat :=
  if cs.isEmpty then none else
  cs.foldl (fun acc c => match acc, digitVal c with
    | some a, some d => if d < base then some (a * base + d) else none
    | _, _ => none) (some 0)

def inInt64 (v : Int) : Bool := -9223372036854775808 ≤ v && v ≤ 9223372036854775807

def splitSign (cs : List Char) : Bool × List Char :=
  match cs with
  | '-' :: r => (true, r)
  | '+' :: r => (false, r)
  | _ => (false, cs)

def signed (neg : Bool) (n : Nat) : Option Int :=
  let v : Int := if neg then -(n : Int) else n
  if inInt64 v then some v else none

/-- `strconv.Atoi` (64-bit `int`): optional sign, decimal digits -/
def atoi (s : String) : Option Int :=
  let (neg, ds) := splitSign s.toList
  (natOfDigits 10 ds).bind (signed neg)

/-- `strconv.ParseInt(s, 0, 64)` as used by `flag.IntVar`: base prefixes `0x`, `0b`, `0o`, leading `0`
(digit-separating underscores are not modelled: they are rejected here, accepted by Go) -/
def parseInt0 (s : String) : Option Int :=
  let (neg, ds) := splitSign s.toList
  let r := match ds with
    | '0' :: 'x' :: r | '0' :: 'X' :: r => natOfDigits 16 r
    | '0' :: 'b' :: r | '0' :: 'B' :: r => natOfDigits 2 r
    | '0' :: 'o' :: r | '0' :: 'O' :: r => natOfDigits 8 r
    | '0' :: r => if r.isEmpty then some 0 else natOfDigits 8 r
    | _ => natOfDigits 10 ds
  r.bind (signed neg)

/-- `strconv.ParseBool` -/
def parseBool (s : String) : Option Bool :=
  if s = "1" ∨ s = "t" ∨ s = "T" ∨ s = "TRUE" ∨ s = "true" ∨ s = "True" then some true
  else if s = "0" ∨ s = "f" ∨ s = "F" ∨ s = "FALSE" ∨ s = "false" ∨ s = "False" then some false
  else none

/-! ## environment (`getEnv`) -/

def upperDash (c : Char) : Char := if c = '-' then '_' else c.toUpper

/-- `"VFLOW_" + strings.ReplaceAll(strings.ToUpper(tag), "-", "_")` -/
def envName (yaml : String) : String := "VFLOW_" ++ String.ofList (yaml.toList.map upperDash)

/-- what `getEnv` does for one field: `none` = leave it, `some none` = `log.Fatal`, `some (some v)` = set -/
def envRow (env : String → String) (r : Row) : Option (Option Val) :=
  if r.yaml = "" then none else
  let v := env (envName r.yaml)
  if v = "" then none else
  match r.kind with
  | .str => some (some (.str v))
  | .int => some ((atoi v).map .int)
  | .bool => some ((parseBool v).map .bool)
  | .other _ => none

def rowOf (tbl : List Row) (f : String) : Option Row := tbl.find? (fun r => r.field = f)

/-- the environment as a source (fields whose variable is set, non-empty and well-formed) -/
def envSource (tbl : List Row) (env : String → String) : Source :=
  fun f => ((rowOf tbl f).bind (envRow env)).bind id

/-- some variable holds text that is not a value of the field's kind: `log.Fatal` -/
def envFatal (tbl : List Row) (env : String → String) : Bool :=
  tbl.any (fun r => envRow env r == some none)

/-! ## configuration file (`loadCfg`) -/

/-- `strings.HasPrefix(s, p)` together with the rest `s[len(p):]`, on character lists -/
def dropPrefix? : List Char → List Char → Option (List Char)
  | [], cs => some cs
  | _ :: _, [] => none
  | p :: ps, c :: cs => if p = c then dropPrefix? ps cs else none

/-- the test `loadCfg` applies to one word of `os.Args`:
`arg == "-config" || arg == "--config"` (`some none`: the value is the next word),
`strings.HasPrefix(arg, "-config=") || strings.HasPrefix(arg, "--config=")` (`some (some v)`: the value is
`arg[strings.Index(arg, "=")+1:]`, what follows the prefix), anything else `none` -/
def cfgWord (s : String) : Option (Option String) :=
  let cs := s.toList
  if cs = "-config".toList ∨ cs = "--config".toList then some none
  else match dropPrefix? "-config=".toList cs with
    | some v => some (some (String.ofList v))
    | none =>
      match dropPrefix? "--config=".toList cs with
      | some v => some (some (String.ofList v))
      | none => none

/-- the scan of `os.Args` in `loadCfg`: the first word that spells the config flag decides
(`file = os.Args[i+1]` or the text after `=`, then `break`):
`none` = not given, `some none` = index out of range, `some (some p)` = the path -/
def findConfig : List String → Option (Option String)
  | [] => none
  | a :: rest =>
    match cfgWord a with
    | some (some v) => some (some v)
    | some none => some rest.head?
    | none => findConfig rest

def defaultCfg : String := "/etc/vflow/vflow.conf"

/-- yaml.v2 decoding a scalar into a field of the given kind (a mismatch is reported and the field is left alone) -/
def coerce : Kind → Val → Option Val
  | .int, .int n => some (.int n)
  | .bool, .bool b => some (.bool b)
  | .str, .str s => some (.str s)
  | .str, .int n => some (.str (toString n))
  | .str, .bool b => some (.str (if b then "true" else "false"))
  | _, _ => none

/-- a parsed yaml document as a source -/
def fileSource (tbl : List Row) (m : String → Option Val) : Source :=
  fun f => (rowOf tbl f).bind (fun r => if r.yaml = "" then none else (m r.yaml).bind (coerce r.kind))

/-- the file at a path as a source (unreadable: provides nothing) -/
def fileAt (tbl : List Row) (inp : Inputs) (p : String) : Source :=
  match inp.readFile p with
  | some m => fileSource tbl m
  | none => fun _ => none

/-- the file read by a `loadCfg` that scans `os.Args` with `find`, as a source
(`none`: the value is missing, `os.Args[i+1]` is out of range) -/
def cfgSourceWith (find : List String → Option (Option String)) (tbl : List Row) (inp : Inputs) : Option Source :=
  match find (inp.arg0 :: inp.args) with
  | some none => none
  | some (some p) => some (fileAt tbl inp p)
  | none => some (fileAt tbl inp defaultCfg)

/-- the file `loadCfg` reads, as a source (`none`: `-config` / `--config` is the last word of `os.Args`) -/
def cfgSource (tbl : List Row) (inp : Inputs) : Option Source := cfgSourceWith findConfig tbl inp

/-! ## command line (package `flag`) -/

/-- a registered flag: name, target field (`none`: the local `config` string), kind -/
structure FlagReg where
  name : String
  target : Option String
  kind : Kind
deriving DecidableEq, Repr

def regsOf (tbl : List Row) : List FlagReg :=
  (tbl.filter (fun r => r.flag ≠ "")).map (fun r => ⟨r.flag, some r.field, r.kind⟩)

def configReg : FlagReg := ⟨"config", none, .str⟩

def flagValue : Kind → String → Option Val
  | .int, s => (parseInt0 s).map .int
  | .bool, s => (parseBool s).map .bool
  | .str, s => some (.str s)
  | .other _, _ => none

/-- `name[=value]` after the dashes: cut at the first `=` -/
def splitEq : List Char → List Char × Option (List Char)
  | [] => ([], none)
  | c :: cs => if c = '=' then ([], some cs) else let r := splitEq cs; (c :: r.1, r.2)

/-- how package `flag` reads one word of the command line (`FlagSet.parseOne`) -/
inductive Word where
  /-- shorter than two characters or not starting with `-`: the first non-flag word ends parsing -/
  | nonflag
  /-- `--` ends the flags -/
  | terminator
  /-- `---x`, `-=x`, `--=x`: bad flag syntax -/
  | bad
  /-- `-name`, `--name` (`val = none`), `-name=val`, `--name=val` -/
  | flag (name : String) (val : Option String)
deriving DecidableEq, Repr

/-- the word after its one or two dashes: `name` or `name=value` (a further `-` or a leading `=` is bad syntax) -/
def wordOfBody (body : List Char) : Word :=
  match body with
  | '-' :: _ | '=' :: _ => .bad
  | _ => .flag (String.ofList (splitEq body).1) ((splitEq body).2.map String.ofList)

def wordOf (s : String) : Word :=
  match s.toList with
  | '-' :: c1 :: more =>
    -- one or two dashes
    if c1 = '-' then (if more.isEmpty then .terminator else wordOfBody more) else wordOfBody (c1 :: more)
  | _ => .nonflag

/-- `FlagSet.Parse` with `ExitOnError`: the assignments in order (target field, or `none` for the local
`config` string, and the value), or the exit code.  `fuel` bounds the number of tokens (each step consumes
at least one). -/
def parseArgs (regs : List FlagReg) : Nat → List String → Outcome (List (Option String × Val))
  | 0, _ => .ok []
  | fuel+1, args =>
    match args with
    | [] => .ok []
    | s :: rest =>
      match wordOf s with
      | .nonflag => .ok []                     -- first non-flag argument ends parsing
      | .terminator => .ok []                  -- "--" terminates the flags
      | .bad => .exit 2                        -- bad flag syntax
      | .flag name v? =>
        match regs.find? (fun r => r.name = name) with
        | none => if name = "help" ∨ name = "h" then .exit 0 else .exit 2
        | some reg =>
          let continueWith (val : Val) (rest' : List String) : Outcome (List (Option String × Val)) :=
            match parseArgs regs fuel rest' with
            | .ok l => .ok ((reg.target, val) :: l)
            | o => o
          match reg.kind, v? with
          | .bool, none => continueWith (.bool true) rest
          | k, some v =>
            match flagValue k v with
            | some val => continueWith val rest
            | none => .exit 2
          | k, none =>
            match rest with
            | [] => .exit 2                    -- flag needs an argument
            | v :: rest' =>
              match flagValue k v with
              | some val => continueWith val rest'
              | none => .exit 2

/-- `flag.Args()` after `FlagSet.Parse`: the words left when parsing stopped at the first non-flag word
(that word and everything behind it) or at `--` (everything behind it); nothing when the parse ended the
process or consumed every word.  Same recursion as `parseArgs`. -/
def strayArgs (regs : List FlagReg) : Nat → List String → List String
  | 0, _ => []
  | fuel+1, args =>
    match args with
    | [] => []
    | s :: rest =>
      match wordOf s with
      | .nonflag => s :: rest
      | .terminator => rest
      | .bad => []
      | .flag name v? =>
        match regs.find? (fun r => r.name = name) with
        | none => []
        | some reg =>
          match reg.kind, v? with
          | .bool, none => strayArgs regs fuel rest
          | _, some _ => strayArgs regs fuel rest
          | _, none =>
            match rest with
            | [] => []
            | _ :: rest' => strayArgs regs fuel rest'

/-- the last assignment to each field wins -/
def lastOf (l : List (Option String × Val)) : Source :=
  fun f => (l.reverse.find? (fun p => p.1 = some f)).map (·.2)

/-- the texts assigned to the local `config` string, in command-line order -/
def cfgAssigns (l : List (Option String × Val)) : List String :=
  l.filterMap (fun p => match p with
    | (none, .str v) => some v
    | _ => none)

/-! ## the interpreter -/

structure St where
  vals : Settings
  regs : List FlagReg

def defaults (tbl : List Row) : Settings :=
  fun f => match rowOf tbl f with | some r => r.dflt | none => .str ""

/-- what registering the flags does to the values: `flag.XxxVar(p, name, value, usage)` stores `value` in `*p` -/
def registerSource (tbl : List Row) (cur : Settings) : Source :=
  fun f => (rowOf tbl f).bind (fun r =>
    match r.fdef with
    | .current => some (cur f)
    | .builtin => some r.dflt
    | _ => none)

def step (tbl : List Row) (inp : Inputs) (st : St) : Stage → Outcome St
  | .registerConfig => .ok { st with regs := st.regs ++ [configReg] }
  | .env =>
    if envFatal tbl inp.env then .exit 1 else .ok { st with vals := apply st.vals (envSource tbl inp.env) }
  | .file =>
    match cfgSource tbl inp with
    | none => .panic
    | some src => .ok { st with vals := apply st.vals src }
  | .register =>
    .ok { vals := apply st.vals (registerSource tbl st.vals), regs := st.regs ++ regsOf tbl }
  | .parse =>
    match parseArgs st.regs (inp.args.length + 1) inp.args with
    | .ok l => .ok { st with vals := apply st.vals (lastOf l) }
    | .exit c => .exit c
    | .panic => .panic
  | .refuseStray =>
    if (strayArgs st.regs (inp.args.length + 1) inp.args).isEmpty then .ok st else .exit 2
  | .unrecognised _ => .panic

def runFrom (tbl : List Row) (inp : Inputs) (st : St) : List Stage → Outcome St
  | [] => .ok st
  | s :: rest => (step tbl inp st s).bind (fun st' => runFrom tbl inp st' rest)

/-- `NewOptions()` followed by the stages of `flagSet`: the effective settings -/
def run (tbl : List Row) (stages : List Stage) (inp : Inputs) : Outcome Settings :=
  (runFrom tbl inp ⟨defaults tbl, []⟩ stages).bind (fun st => .ok st.vals)

/-- the order `flagSet` must have -/
def canonicalStages : List Stage := [.registerConfig, .env, .file, .register, .parse, .refuseStray]

/-- `flagSet` before the repair of F31: nothing looked at what `flag.Parse()` left -/
def stagesBeforeF31 : List Stage := [.registerConfig, .env, .file, .register, .parse]

/-! ## specification -/

/-- the command line as a source, as package `flag` reads it: what `flag.Parse` assigns given all flags are
registered (it stops at the first positional word; `cliSource` below does not) -/
def flagSource (tbl : List Row) (args : List String) : Source :=
  match parseArgs (configReg :: regsOf tbl) (args.length + 1) args with
  | .ok l => lastOf l
  | _ => fun _ => none

/-! ### what the command line says (not the parser: F31)

docs/config.md writes the command line as `-key value`, for every key.  `cliGiven` reads the token list
that way from the first word to the last — a word that names no key says nothing and ends nothing:
* `-key=value` / `--key=value` gives `value`;
* `-key` / `--key` followed by a word that is not itself spelt like a flag gives that word (also for a
  boolean key: `-ipfix-enabled false` says `false`);
* a boolean `-key` followed by nothing or by a flag-like word gives `true`;
* a non-boolean `-key` takes the next word whatever it looks like (`-sflow-port -5`).
How ONE word spells a key (one or two dashes, the name up to the first `=`) is `wordOf`; which keys are
boolean comes from the option table. -/

/-- the `(key, text)` pairs the command line gives, in order -/
def cliGiven (isBool : String → Bool) : List String → List (String × String)
  | [] => []
  | [s] =>
    match wordOf s with
    | .flag k (some v) => [(k, v)]
    | .flag k none => if isBool k then [(k, "true")] else []
    | _ => []
  | s :: w :: rest =>
    match wordOf s with
    | .flag k (some v) => (k, v) :: cliGiven isBool (w :: rest)
    | .flag k none =>
      if isBool k && wordOf w != .nonflag then (k, "true") :: cliGiven isBool (w :: rest)
      else (k, w) :: cliGiven isBool rest
    | _ => cliGiven isBool (w :: rest)

/-- the flag registered under a name once `flagSet` has registered everything: the key table -/
def flagOf (tbl : List Row) (k : String) : Option FlagReg :=
  (configReg :: regsOf tbl).find? (fun r => r.name = k)

/-- the flag registered under the name is a boolean one -/
def boolIn (regs : List FlagReg) (k : String) : Bool :=
  match regs.find? (fun r => r.name = k) with
  | some reg => reg.kind == .bool
  | none => false

/-- the key is a boolean one -/
def boolKey (tbl : List Row) (k : String) : Bool := boolIn (configReg :: regsOf tbl) k

/-- the text the command line gives for a key: its last mention -/
def cliMentions (tbl : List Row) (args : List String) (k : String) : Option String :=
  ((cliGiven (boolKey tbl) args).reverse.find? (fun p => p.1 = k)).map (·.2)

/-- one mention as an assignment: the key's field (`none`: the local `config` string) and the text read as a
value of the key's kind; `none` when the key is unknown or the text is no such value -/
def assignOf (regs : List FlagReg) (p : String × String) : Option (Option String × Val) :=
  match regs.find? (fun r => r.name = p.1) with
  | some reg => (flagValue reg.kind p.2).map (fun val => (reg.target, val))
  | none => none

/-- the command line as a source, from what it says: every mention of a known key with a well-formed value,
the last one per field wins -/
def cliSource (tbl : List Row) (args : List String) : Source :=
  lastOf ((cliGiven (boolKey tbl) args).filterMap (assignOf (configReg :: regsOf tbl)))

/-- the documented rule: command line, else configuration file, else environment, else built-in default -/
def resolve (dflt : Settings) (env file flags : Source) (f : String) : Val :=
  match flags f with
  | some v => v
  | none => match file f with
    | some v => v
    | none => match env f with
      | some v => v
      | none => dflt f

end Vflow.Options
