/-!
# Model of the pid-file test a starting collector makes (`vFlowIsRunning`, `vFlowPIDWrite`, vflow/options.go)

`GetOptions` refuses to start ("the vFlow already is running!", exit status 1) when `vFlowIsRunning` says so, and
otherwise writes the process's own PID to the pid file (`vFlowPIDWrite`); nothing removes the file at exit.
`vFlowIsRunning` reads the file and runs `kill -0 <content>`.  The statements of the three functions are extracted by
factgen into `Vflow.Gen.PidFile`; `isRunning` interprets the statement list of `vFlowIsRunning` over an environment:
what the pid file holds, the starting process's own PID, and which PIDs name a live process in its PID namespace.
Inside a container (a PID namespace) the collector gets the same PID on every start, so the PID left in the file
by the previous run is the new process's own (F28): the own-PID test of the repaired code (`ownPidNotRunning`)
is what tells that apart from another instance.
-/
namespace Vflow.PidFile

/-- statements of `vFlowIsRunning`, `vFlowPIDWrite`, and the two statements of `GetOptions` that use them -/
inductive PStep where
  | readPidFile            -- `b, err := ioutil.ReadFile(opts.PIDFile)`
  | unreadableNotRunning   -- `if err != nil { return false }`
  | ownPidNotRunning       -- `if string(b) == strconv.Itoa(os.Getpid()) { return false }` (F28 repair)
  | probeKill0             -- `cmd := exec.Command("kill", "-0", string(b))`
  | runProbe               -- `_, err = cmd.Output()`
  | runningIffProbeOk      -- `return err == nil`
  | openTruncCreate        -- `f, err := os.OpenFile(opts.PIDFile, os.O_WRONLY|os.O_TRUNC|os.O_CREATE, 0666)`
  | openErrorLogReturn     -- `if err != nil { opts.Logger.Println(err); return }`
  | writeOwnPidDecimal     -- `_, err = fmt.Fprintf(f, "%d", os.Getpid())`
  | writeErrorLog          -- `if err != nil { opts.Logger.Println(err) }`
  | refuseIfRunning        -- `if ok := opts.vFlowIsRunning(); ok { opts.Logger.Fatal("the vFlow already is running!") }`
  | writePidFile           -- `opts.vFlowPIDWrite()`
  | unrecognised (go : String)
deriving Repr, DecidableEq

/-- what the pid file holds when the collector starts -/
inductive Content where
  | absent            -- no file, or unreadable
  | garbage           -- not the decimal text of a PID (`kill -0` fails on it)
  | pid (n : Nat)     -- the decimal text of PID `n`, as `vFlowPIDWrite` writes it (`"%d"`, no newline)
deriving Repr, DecidableEq

/-- the environment of one start -/
structure Env where
  file : Content
  own : Nat              -- `os.Getpid()` of the starting process
  alive : Nat → Bool     -- `kill -0 n` succeeds in the starting process's PID namespace

/-- the statements after the file has been read successfully -/
def afterRead : List PStep → Env → Content → Option Bool
  | .ownPidNotRunning :: rest, e, c =>
    if c = .pid e.own then some false else afterRead rest e c
  | [.probeKill0, .runProbe, .runningIffProbeOk], e, c =>
    match c with
    | .pid n => some (e.alive n)
    | _ => some false
  | _, _, _ => none

/-- `vFlowIsRunning` as its extracted statements say (`none`: a statement list the model does not understand) -/
def isRunning : List PStep → Env → Option Bool
  | .readPidFile :: .unreadableNotRunning :: rest, e =>
    match e.file with
    | .absent => some false
    | c => afterRead rest e c
  | _, _ => none

end Vflow.PidFile
